(* PurgeProofs.v — proofs about PurgeModel.v (C20). *)
Require Import SquidV.Bytes SquidV.PurgeModel.
Require Import SquidV.gen.PurgeMethods_gen SquidV.gen.PurgeUri_gen.
Local Open Scope N_scope.

(* ------------------------------------------------------------------ byte lists, keys *)
Lemma list_eqb_refl (a : bytes) : list_eqb a a = true.
Proof. induction a as [|x a IH]; cbn [list_eqb]; [reflexivity|]. now rewrite N.eqb_refl, IH. Qed.

Lemma list_eqb_eq (a b : bytes) : list_eqb a b = true <-> a = b.
Proof.
  revert b; induction a as [|x a IH]; intros [|y b]; cbn [list_eqb]; split; intros H; try reflexivity; try discriminate.
  - apply andb_true_iff in H as [Hx Hr]. apply N.eqb_eq in Hx. apply IH in Hr. now subst.
  - inversion H; subst. now rewrite N.eqb_refl, list_eqb_refl.
Qed.

Lemma list_eqb_sym (a b : bytes) : list_eqb a b = list_eqb b a.
Proof.
  revert b; induction a as [|x a IH]; intros [|y b]; cbn [list_eqb]; try reflexivity.
  now rewrite N.eqb_sym, IH.
Qed.

Lemma key_eqb_refl (k : key) : key_eqb k k = true.
Proof. unfold key_eqb. now rewrite N.eqb_refl, list_eqb_refl. Qed.

Lemma key_eqb_sym (a b : key) : key_eqb a b = key_eqb b a.
Proof. unfold key_eqb. now rewrite N.eqb_sym, list_eqb_sym. Qed.

Lemma key_eqb_eq (a b : key) : key_eqb a b = true <-> a = b.
Proof.
  destruct a as [i u], b as [j v]; unfold key_eqb; cbn [fst snd]. split; intros H.
  - apply andb_true_iff in H as [Hi Hu]. apply N.eqb_eq in Hi. apply list_eqb_eq in Hu. now subst.
  - inversion H; subst. now rewrite N.eqb_refl, list_eqb_refl.
Qed.

(* ------------------------------------------------------------------ the store *)
Lemma store_has_evict_same (k : key) (s : store) : store_has (evict_if_found k s) k = false.
Proof.
  unfold store_has, evict_if_found. induction s as [|e s IH]; cbn [filter existsb]; [reflexivity|].
  destruct (key_eqb e k) eqn:E; cbn [negb]; [exact IH|].
  cbn [existsb]. rewrite key_eqb_sym, E. exact IH.
Qed.

Lemma store_has_evict_mono (k k' : key) (s : store) :
  store_has s k = false -> store_has (evict_if_found k' s) k = false.
Proof.
  unfold store_has, evict_if_found. induction s as [|e s IH]; cbn [filter existsb]; [reflexivity|].
  intros H. apply orb_false_iff in H as [H1 H2].
  destruct (negb (key_eqb e k')); cbn [existsb]; [rewrite H1; cbn [orb]|]; now apply IH.
Qed.

Lemma store_has_evict_other (k k' : key) (s : store) :
  key_eqb k k' = false -> store_has (evict_if_found k' s) k = store_has s k.
Proof.
  intros Hne. unfold store_has, evict_if_found. induction s as [|e s IH]; cbn [filter existsb]; [reflexivity|].
  destruct (key_eqb e k') eqn:E; cbn [negb existsb]; [|now rewrite IH].
  apply key_eqb_eq in E; subst e. now rewrite Hne, IH.
Qed.

Lemma evict_all_mono (ks : list key) : forall s k, store_has s k = false -> store_has (evict_all ks s) k = false.
Proof.
  unfold evict_all. induction ks as [|k' ks IH]; intros s k H; cbn [fold_left]; [exact H|].
  apply IH. now apply store_has_evict_mono.
Qed.

Lemma evicted_not_in_store (ks : list key) : forall s k, In k ks -> store_has (evict_all ks s) k = false.
Proof.
  induction ks as [|k' ks IH]; intros s k Hin; [destruct Hin|].
  unfold evict_all; cbn [fold_left]. destruct Hin as [->|Hin].
  - apply (evict_all_mono ks). apply store_has_evict_same.
  - now apply IH.
Qed.

Lemma not_evicted_stays (ks : list key) : forall s k,
  (forall k', In k' ks -> key_eqb k k' = false) -> store_has (evict_all ks s) k = store_has s k.
Proof.
  induction ks as [|k' ks IH]; intros s k H; [reflexivity|].
  unfold evict_all; cbn [fold_left]. fold (evict_all ks (evict_if_found k' s)).
  rewrite IH by (intros k2 H2; apply H; now right).
  apply store_has_evict_other. apply H. now left.
Qed.

(* ------------------------------------------------------------------ method table *)
Lemma attrs_of_prop (P : attrs -> bool) (tbl : list (N * bytes * attrs)) :
  forallb (fun e => P (snd e)) tbl = true -> P (false, false, false) = true -> forall id, P (attrs_of tbl id) = true.
Proof.
  intros Ht Hd id. induction tbl as [|[[i img] a] r IH]; cbn [attrs_of]; [exact Hd|].
  cbn [forallb snd] in Ht. apply andb_true_iff in Ht as [Ha Hr].
  destruct (i =? id); [exact Ha| now apply IH].
Qed.

Lemma should_invalidate_purges (id : N) : should_invalidate id = true -> purges_others id = true.
Proof.
  unfold should_invalidate, purges_others.
  pose proof (attrs_of_prop (fun a => implb (fst (fst a)) (snd (fst a))) pg_methods) as H.
  specialize (H ltac:(vm_compute; reflexivity) ltac:(reflexivity) id). cbn beta in H.
  destruct (fst (fst (attrs_of pg_methods id))); cbn [implb] in H; [intros _; exact H| discriminate].
Qed.

Lemma named_methods_invalidate :
  should_invalidate pg_METHOD_POST = true /\ should_invalidate pg_METHOD_PUT = true /\
  should_invalidate pg_METHOD_DELETE = true /\ should_invalidate pg_METHOD_OTHER = true.
Proof. vm_compute. repeat split. Qed.

Lemma safe_methods_do_not_purge :
  purges_others pg_METHOD_GET = false /\ purges_others pg_METHOD_HEAD = false /\ purges_others pg_METHOD_CONNECT = false /\
  purges_others pg_METHOD_NONE = false.
Proof. vm_compute. repeat split. Qed.

Lemma cacheable_are_get_head : cacheable_ids pg_methods = [pg_METHOD_GET; pg_METHOD_HEAD].
Proof. vm_compute. reflexivity. Qed.

Lemma cacheable_ids_spec (tbl : list (N * bytes * attrs)) (m : N) :
  In m (cacheable_ids tbl) <-> exists img si po, In (m, img, (si, po, true)) tbl.
Proof.
  induction tbl as [|[[i img] [[si po] c]] r IH]; cbn [cacheable_ids].
  - split; [intros []| intros (? & ? & ? & [])].
  - destruct c; cbn [In]; rewrite IH; split.
    + intros [->|(img' & si' & po' & H)]; [exists img, si, po; now left| exists img', si', po'; now right].
    + intros (img' & si' & po' & [H|H]); [inversion H; now left| right; now exists img', si', po'].
    + intros (img' & si' & po' & H); exists img', si', po'; now right.
    + intros (img' & si' & po' & [H|H]); [inversion H| now exists img', si', po'].
Qed.

(* a method token that matches no table image (under caseCmp) is METHOD_OTHER, relaxed parser or not *)
Lemma method_search_other (relaxed : bool) (tbl : list (N * bytes * attrs)) (s : bytes) :
  forallb (fun e => negb (case_eqb (snd (fst e)) s)) tbl = true -> method_search relaxed tbl s = pg_METHOD_OTHER.
Proof.
  induction tbl as [|[[i img] a] r IH]; cbn [method_search forallb fst snd]; [reflexivity|].
  intros H. apply andb_true_iff in H as [H1 H2]. apply negb_true_iff in H1. rewrite H1.
  destruct (i =? pg_METHOD_NONE); now apply IH.
Qed.

Lemma unknown_method_is_other (relaxed : bool) (s : bytes) :
  s <> [] -> forallb (fun e => negb (case_eqb (snd (fst e)) s)) pg_methods = true ->
  method_of_image relaxed s = pg_METHOD_OTHER.
Proof.
  intros Hs H. unfold method_of_image. destruct s as [|c s]; [congruence|]. now apply method_search_other.
Qed.

(* ------------------------------------------------------------------ Uri caches *)
Definition uri_abs_text (u : uri) : bytes := u_front u ++ uri_encode pg_AbsPathChars (uri_path u).
Definition caches_ok (u : uri) : Prop :=
  (u_abspath_cache u = [] \/ u_abspath_cache u = uri_encode pg_AbsPathChars (uri_path u)) /\
  (u_abs_cache u = [] \/ u_abs_cache u = uri_abs_text u).

Lemma nonempty_false (l : bytes) : nonempty l = false -> l = [].
Proof. destruct l; [reflexivity| discriminate]. Qed.

Lemma uri_absolute_path_ok (u : uri) : caches_ok u ->
  fst (uri_absolute_path u) = uri_encode pg_AbsPathChars (uri_path u) /\ caches_ok (snd (uri_absolute_path u)) /\
  u_front (snd (uri_absolute_path u)) = u_front u /\ u_path (snd (uri_absolute_path u)) = u_path u /\
  u_httpx (snd (uri_absolute_path u)) = u_httpx u /\ u_urn (snd (uri_absolute_path u)) = u_urn u /\
  u_abs_cache (snd (uri_absolute_path u)) = u_abs_cache u.
Proof.
  intros [Hp Ha]. unfold uri_absolute_path. destruct (nonempty (u_abspath_cache u)) eqn:E; cbn [fst snd].
  - destruct Hp as [Hp|Hp]; [rewrite Hp in E; discriminate|]. repeat split; try assumption. now right.
  - repeat split; cbn; try reflexivity.
    + now right.
    + exact Ha.
Qed.

Lemma uri_absolute_ok (u : uri) : caches_ok u ->
  fst (uri_absolute u) = uri_abs_text u /\ caches_ok (snd (uri_absolute u)) /\
  u_front (snd (uri_absolute u)) = u_front u /\ u_path (snd (uri_absolute u)) = u_path u /\
  u_httpx (snd (uri_absolute u)) = u_httpx u /\ u_urn (snd (uri_absolute u)) = u_urn u /\
  (fst (uri_absolute u) <> [] -> u_abs_cache (snd (uri_absolute u)) = fst (uri_absolute u)).
Proof.
  intros Hok. pose proof Hok as [Hp Ha]. unfold uri_absolute. destruct (nonempty (u_abs_cache u)) eqn:E; cbn [fst snd].
  - destruct Ha as [Ha|Ha]; [rewrite Ha in E; discriminate|]. repeat split; try assumption; try reflexivity. now right.
  - destruct (uri_absolute_path_ok u Hok) as (H1 & H2 & H3 & H4 & H5 & H6 & H7).
    destruct (uri_absolute_path u) as [ap u1] eqn:Eap; cbn [fst snd] in *.
    repeat split; cbn; try assumption.
    + unfold uri_abs_text. now rewrite H3, H1.
    + destruct H2 as [H2 _]. unfold uri_path in *; cbn. unfold uri_path in H2. rewrite H4, H5 in *. exact H2.
    + right. unfold uri_abs_text, uri_path; cbn. rewrite H1, H3. unfold uri_path. now rewrite H4, H5.
Qed.

(* the text absolute() returns does not change when it is asked again (whatever the caches held) *)
Lemma uri_absolute_fst_idem (u : uri) : fst (uri_absolute (snd (uri_absolute u))) = fst (uri_absolute u).
Proof.
  destruct u as [fr hx urn p ca cp]. unfold uri_absolute; cbn [u_abs_cache].
  destruct (nonempty ca) eqn:Ea; cbn [fst snd u_abs_cache]; [now rewrite Ea|].
  unfold uri_absolute_path; cbn [u_abspath_cache u_front u_httpx u_urn u_path u_abs_cache].
  destruct (nonempty cp) eqn:Ep; cbn [fst snd u_front u_abs_cache u_abspath_cache u_httpx u_urn u_path].
  - destruct (nonempty (fr ++ cp)) eqn:Ev; cbn [fst snd]; [reflexivity|].
    cbn [u_abspath_cache]. rewrite Ep. reflexivity.
  - set (v := uri_encode pg_AbsPathChars (uri_path (mkUri fr hx urn p ca cp))).
    destruct (nonempty (fr ++ v)) eqn:Ev; cbn [fst snd]; [reflexivity|].
    cbn [u_abspath_cache]. destruct (nonempty v) eqn:Ev2; cbn [fst snd u_front]; [reflexivity|].
    unfold uri_path; cbn [u_path u_httpx]. reflexivity.
Qed.

Lemma eru_fst_idem (rq : request) :
  fst (effective_request_uri (snd (effective_request_uri rq))) = fst (effective_request_uri rq).
Proof.
  unfold effective_request_uri.
  destruct ((rq_method rq =? pg_METHOD_CONNECT) || rq_authority_form rq) eqn:E; cbn [fst snd]; [now rewrite E|].
  destruct (uri_absolute (rq_url rq)) as [a u'] eqn:Eu; cbn [fst snd rq_method rq_authority_form rq_url].
  rewrite E. pose proof (uri_absolute_fst_idem (rq_url rq)) as H. rewrite Eu in H; cbn [fst snd] in H.
  destruct (uri_absolute u') as [a2 u2]; cbn [fst snd] in *. exact H.
Qed.

Lemma eru_method (rq : request) : rq_method (snd (effective_request_uri rq)) = rq_method rq.
Proof.
  unfold effective_request_uri. destruct ((rq_method rq =? pg_METHOD_CONNECT) || rq_authority_form rq); [reflexivity|].
  now destruct (uri_absolute (rq_url rq)).
Qed.

(* ------------------------------------------------------------------ what is evicted *)
Lemma in_purge_by_url (m : N) (url : bytes) : In (m, url) (purge_entries_by_url url) <-> In m (cacheable_ids pg_methods).
Proof.
  unfold purge_entries_by_url. rewrite in_map_iff. split.
  - intros (x & Hx & Hin). inversion Hx; now subst.
  - intros H. now exists m.
Qed.

Definition request_uri (rq : request) : bytes := cstr (fst (effective_request_uri rq)).

Lemma maybe_purge_target (rq : request) (rp : reply) (m : N) :
  purges_others (rq_method rq) = true -> rp_status rp < STATUS_LIMIT -> In m (cacheable_ids pg_methods) ->
  In (m, request_uri rq) (maybe_purge_others rq rp).
Proof.
  intros Hp Hs Hm. unfold maybe_purge_others. rewrite Hp; cbn [negb].
  destruct (STATUS_LIMIT <=? rp_status rp) eqn:E; [apply N.leb_le in E; lia|].
  unfold request_uri. destruct (effective_request_uri rq) as [u0 rq1]; cbn [fst].
  apply in_or_app; left. now apply in_purge_by_url.
Qed.

Lemma target_evicted (rq : request) (rp : reply) (m : N) :
  purges_others (rq_method rq) = true -> rp_status rp < STATUS_LIMIT -> In m (cacheable_ids pg_methods) ->
  In (m, request_uri rq) (evicted_keys rq rp).
Proof.
  intros Hp Hs Hm. unfold evicted_keys. apply in_or_app; right.
  replace (request_uri rq) with (request_uri (snd (effective_request_uri rq))) by (unfold request_uri; now rewrite eru_fst_idem).
  apply maybe_purge_target; [now rewrite eru_method| exact Hs| exact Hm].
Qed.

Lemma other_method_target_evicted (rq : request) (rp : reply) (m : N) :
  rq_method rq = pg_METHOD_OTHER -> In m (cacheable_ids pg_methods) -> In (m, request_uri rq) (evicted_keys rq rp).
Proof.
  intros Ho Hm. unfold evicted_keys, process_miss_purge. rewrite Ho, N.eqb_refl.
  apply in_or_app; left. now apply in_purge_by_url.
Qed.

Lemma nothing_evicted_without_purging_method (rq : request) (rp : reply) :
  purges_others (rq_method rq) = false -> (rq_method rq =? pg_METHOD_OTHER) = false -> evicted_keys rq rp = [].
Proof.
  intros Hp Ho. unfold evicted_keys, process_miss_purge, maybe_purge_others. rewrite Ho, eru_method, Hp. reflexivity.
Qed.

Lemma nothing_evicted_on_error_reply (rq : request) (rp : reply) :
  STATUS_LIMIT <= rp_status rp -> (rq_method rq =? pg_METHOD_OTHER) = false -> evicted_keys rq rp = [].
Proof.
  intros Hs Ho. unfold evicted_keys, process_miss_purge, maybe_purge_others. rewrite Ho.
  destruct (negb (purges_others (rq_method (snd (effective_request_uri rq))))); [reflexivity|].
  apply N.leb_le in Hs. now rewrite Hs.
Qed.

(* the user-visible form: after the exchange no lookup finds the target's GET/HEAD entries, whatever the store held *)
Lemma target_not_served (rq : request) (rp : reply) (m : N) (s : store) :
  purges_others (rq_method rq) = true -> rp_status rp < STATUS_LIMIT -> In m (cacheable_ids pg_methods) ->
  store_has (evict_all (evicted_keys rq rp) s) (m, request_uri rq) = false.
Proof. intros Hp Hs Hm. apply evicted_not_in_store. now apply target_evicted. Qed.

Lemma target_not_served_for_invalidating (rq : request) (rp : reply) (s : store) :
  should_invalidate (rq_method rq) = true -> rp_status rp < 400 ->
  store_has (evict_all (evicted_keys rq rp) s) (pg_METHOD_GET, request_uri rq) = false /\
  store_has (evict_all (evicted_keys rq rp) s) (pg_METHOD_HEAD, request_uri rq) = false.
Proof.
  intros Hi Hs. apply should_invalidate_purges in Hi.
  split; apply target_not_served; try assumption; rewrite cacheable_are_get_head; cbn [In]; auto.
Qed.

(* ------------------------------------------------------------------ sameUrlHosts on well-formed URLs *)
Definition no_byte (c : N) (l : bytes) : bool := forallb (fun x => negb (x =? c)) l.
Definition SEP : bytes := [COLON; SLASH; SLASH].      (* "://" *)

Lemma from_colon_skip (s r : bytes) : no_byte COLON s = true -> from_colon (s ++ COLON :: r) = Some (COLON :: r).
Proof.
  induction s as [|c s IH]; cbn [app from_colon no_byte forallb]; intros H.
  - now rewrite N.eqb_refl.
  - apply andb_true_iff in H as [H1 H2]. apply negb_true_iff in H1. rewrite H1. now apply IH.
Qed.

Lemma host_walk_spec (a1 a2 p1 p2 : bytes) :
  no_byte SLASH a1 = true -> no_byte SLASH a2 = true ->
  host_walk (a1 ++ SLASH :: p1) (a2 ++ SLASH :: p2) = list_eqb a1 a2.
Proof.
  revert a2; induction a1 as [|x a1 IH]; intros a2 H1 H2; cbn [app host_walk].
  - rewrite N.eqb_refl. destruct a2 as [|y a2]; cbn [app hd0 list_eqb]; [now rewrite N.eqb_refl|].
    cbn [no_byte forallb] in H2. apply andb_true_iff in H2 as [Hy _]. apply negb_true_iff in Hy. exact Hy.
  - cbn [no_byte forallb] in H1. apply andb_true_iff in H1 as [Hx H1]. apply negb_true_iff in Hx. rewrite Hx.
    destruct a2 as [|y a2]; cbn [app list_eqb].
    + now rewrite Hx.
    + cbn [no_byte forallb] in H2. apply andb_true_iff in H2 as [_ H2].
      destruct (x =? y); cbn [andb]; [now apply IH| reflexivity].
Qed.

(* for scheme://authority/path URLs (no ':' in the schemes, no '/' in the authorities, first authority non-empty)
   sameUrlHosts is byte equality of the authorities: schemes and paths are not looked at *)
Lemma same_url_hosts_spec (s1 s2 a1 a2 p1 p2 : bytes) :
  no_byte COLON s1 = true -> no_byte COLON s2 = true -> no_byte SLASH a1 = true -> no_byte SLASH a2 = true -> a1 <> [] ->
  same_url_hosts (s1 ++ SEP ++ a1 ++ SLASH :: p1) (s2 ++ SEP ++ a2 ++ SLASH :: p2) = list_eqb a1 a2.
Proof.
  intros Hs1 Hs2 Ha1 Ha2 Hne. unfold same_url_hosts, SEP. cbn [app].
  rewrite (from_colon_skip s1 _ Hs1), (from_colon_skip s2 _ Hs2).
  cbn [skip_scheme_slashes]. rewrite !N.eqb_refl; cbn [andb].
  destruct a1 as [|x a1]; [congruence|].
  assert (Hx : (x =? SLASH) = false).
  { cbn [no_byte forallb] in Ha1. apply andb_true_iff in Ha1 as [Hx _]. now apply negb_true_iff in Hx. }
  assert (Hskip : skip_scheme_slashes ((x :: a1) ++ SLASH :: p1) (a2 ++ SLASH :: p2) = ((x :: a1) ++ SLASH :: p1, a2 ++ SLASH :: p2)).
  { cbn [app skip_scheme_slashes]. destruct (a2 ++ SLASH :: p2); [reflexivity|]. now rewrite Hx. }
  rewrite Hskip. cbn [app]. change (x :: a1 ++ SLASH :: p1) with ((x :: a1) ++ SLASH :: p1).
  now apply host_walk_spec.
Qed.

(* ------------------------------------------------------------------ urlIsRelative *)
(* bytes allowed in a scheme for the statements below: anything but ':' '/' '?' '#' *)
Definition scheme_byte (c : N) : bool := negb ((c =? COLON) || (c =? SLASH) || (c =? 63) || (c =? 35)).

Lemma first_segment_colon (s r : bytes) : forallb scheme_byte s = true -> first_segment_has_no_colon (s ++ COLON :: r) = false.
Proof.
  induction s as [|c s IH]; cbn [app first_segment_has_no_colon forallb]; intros H.
  - reflexivity.
  - apply andb_true_iff in H as [H1 H2]. unfold scheme_byte in H1. apply negb_true_iff in H1.
    apply orb_false_iff in H1 as [H1 H35]. apply orb_false_iff in H1 as [H1 H63]. apply orb_false_iff in H1 as [Hc Hsl].
    rewrite Hsl, H63, H35, Hc. cbn [orb]. now apply IH.
Qed.

Lemma absolute_url_not_relative (s r : bytes) : forallb scheme_byte s = true -> url_is_relative (s ++ COLON :: r) = false.
Proof.
  intros H. unfold url_is_relative. destruct s as [|c s]; cbn [app].
  - reflexivity.
  - pose proof H as H'. cbn [forallb] in H'. apply andb_true_iff in H' as [H1 _]. unfold scheme_byte in H1.
    apply negb_true_iff in H1. apply orb_false_iff in H1 as [H1 _]. apply orb_false_iff in H1 as [H1 _].
    apply orb_false_iff in H1 as [_ Hsl]. rewrite Hsl. exact (first_segment_colon (c :: s) r H).
Qed.

Lemma absolute_url_not_relative' (s r : bytes) : forallb scheme_byte s = true -> url_is_relative (s ++ SEP ++ r) = false.
Proof. intros H. exact (absolute_url_not_relative s (SLASH :: SLASH :: r) H). Qed.

Lemma scheme_byte_no_colon (s : bytes) : forallb scheme_byte s = true -> no_byte COLON s = true.
Proof.
  unfold no_byte. induction s as [|c s IH]; cbn [forallb]; [reflexivity|]. intros H.
  apply andb_true_iff in H as [H1 H2]. rewrite (IH H2), andb_true_r.
  unfold scheme_byte in H1. apply negb_true_iff in H1. apply orb_false_iff in H1 as [H1 _].
  apply orb_false_iff in H1 as [H1 _]. apply orb_false_iff in H1 as [Hc _]. now rewrite Hc.
Qed.

(* ------------------------------------------------------------------ C strings *)
Definition no_nul (l : bytes) : bool := no_byte 0 l.
Lemma cstr_id (l : bytes) : no_nul l = true -> cstr l = l.
Proof.
  unfold no_nul, no_byte. induction l as [|c l IH]; cbn [cstr forallb]; [reflexivity|]. intros H.
  apply andb_true_iff in H as [H1 H2]. apply negb_true_iff in H1. rewrite H1. now rewrite IH.
Qed.
Lemma no_byte_app (c : N) (a b : bytes) : no_byte c (a ++ b) = no_byte c a && no_byte c b.
Proof. unfold no_byte. apply forallb_app. Qed.

(* ------------------------------------------------------------------ headers *)
(* (a) an absolute URL in Location / Content-Location whose authority is byte-identical to the request URL's *)
Lemma header_absolute_same_authority (rq : request) (s1 s2 a p1 p2 : bytes) (m : N) :
  forallb scheme_byte s1 = true -> forallb scheme_byte s2 = true -> no_byte SLASH a = true -> a <> [] ->
  no_nul (s2 ++ SEP ++ a ++ SLASH :: p2) = true ->
  In m (cacheable_ids pg_methods) ->
  In (m, s2 ++ SEP ++ a ++ SLASH :: p2)
     (purge_entries_by_header rq (s1 ++ SEP ++ a ++ SLASH :: p1) (Some (s2 ++ SEP ++ a ++ SLASH :: p2))).
Proof.
  intros Hs1 Hs2 Ha Hne Hnul Hm. unfold purge_entries_by_header. rewrite (cstr_id _ Hnul).
  rewrite (absolute_url_not_relative' s2 _ Hs2).
  rewrite same_url_hosts_spec; try assumption; try now apply scheme_byte_no_colon.
  rewrite list_eqb_refl. cbn [negb]. now apply in_purge_by_url.
Qed.

(* (b) ... naming another authority: nothing is evicted on its account *)
Lemma header_absolute_other_authority (rq : request) (s1 s2 a1 a2 p1 p2 : bytes) :
  forallb scheme_byte s1 = true -> forallb scheme_byte s2 = true -> no_byte SLASH a1 = true -> no_byte SLASH a2 = true ->
  a1 <> [] -> a1 <> a2 -> no_nul (s2 ++ SEP ++ a2 ++ SLASH :: p2) = true ->
  purge_entries_by_header rq (s1 ++ SEP ++ a1 ++ SLASH :: p1) (Some (s2 ++ SEP ++ a2 ++ SLASH :: p2)) = [].
Proof.
  intros Hs1 Hs2 Ha1 Ha2 Hne Hdiff Hnul. unfold purge_entries_by_header. rewrite (cstr_id _ Hnul).
  rewrite (absolute_url_not_relative' s2 _ Hs2).
  rewrite same_url_hosts_spec; try assumption; try now apply scheme_byte_no_colon.
  destruct (list_eqb a1 a2) eqn:E; [apply list_eqb_eq in E; congruence| reflexivity].
Qed.

Lemma header_absent (rq : request) (reqUrl : bytes) : purge_entries_by_header rq reqUrl None = [].
Proof. reflexivity. Qed.

(* ------------------------------------------------------------------ state after effectiveRequestUri() *)
Lemma uri_absolute_idem (u : uri) : uri_absolute (snd (uri_absolute u)) = uri_absolute u.
Proof.
  destruct u as [fr hx urn p ca cp]. unfold uri_absolute; cbn [u_abs_cache].
  destruct (nonempty ca) eqn:Ea; cbn [fst snd u_abs_cache]; [now rewrite Ea|].
  unfold uri_absolute_path; cbn [u_abspath_cache u_front u_httpx u_urn u_path u_abs_cache].
  destruct (nonempty cp) eqn:Ep; cbn [fst snd u_front u_abs_cache u_abspath_cache u_httpx u_urn u_path].
  - destruct (nonempty (fr ++ cp)) eqn:Ev; cbn [fst snd]; [reflexivity|].
    cbn [u_abspath_cache]. rewrite Ep. cbn [fst snd u_front u_httpx u_urn u_path u_abspath_cache].
    apply nonempty_false in Ev. now rewrite Ev.
  - set (v := uri_encode pg_AbsPathChars (uri_path (mkUri fr hx urn p ca cp))).
    destruct (nonempty (fr ++ v)) eqn:Ev; cbn [fst snd]; [reflexivity|].
    cbn [u_abspath_cache]. apply nonempty_false in Ev.
    destruct (nonempty v) eqn:Ev2; cbn [fst snd u_front u_httpx u_urn u_path u_abspath_cache].
    + now rewrite Ev.
    + assert (Hv : uri_encode pg_AbsPathChars (if negb (nonempty p) && hx then pg_SlashPath else p) = v) by reflexivity.
      unfold uri_path; cbn [u_path u_httpx]. rewrite Hv.
      apply nonempty_false in Ev2. rewrite Ev2 in *. now rewrite Ev.
Qed.

Lemma eru_idem (rq : request) : effective_request_uri (snd (effective_request_uri rq)) = effective_request_uri rq.
Proof.
  unfold effective_request_uri.
  destruct ((rq_method rq =? pg_METHOD_CONNECT) || rq_authority_form rq) eqn:E; cbn [fst snd]; [now rewrite E|].
  destruct (uri_absolute (rq_url rq)) as [a u'] eqn:Eu; cbn [fst snd rq_method rq_authority_form rq_url rq_authority_port].
  rewrite E. pose proof (uri_absolute_idem (rq_url rq)) as H. rewrite Eu in H; cbn [fst snd] in H. now rewrite H.
Qed.

Lemma evicted_by_location (rq : request) (rp : reply) (k : key) :
  purges_others (rq_method rq) = true -> rp_status rp < STATUS_LIMIT ->
  In k (purge_entries_by_header (snd (effective_request_uri rq)) (request_uri rq) (rp_location rp)) ->
  In k (evicted_keys rq rp).
Proof.
  intros Hp Hs Hin. unfold evicted_keys. apply in_or_app; right. unfold maybe_purge_others.
  rewrite eru_method, Hp; cbn [negb]. destruct (STATUS_LIMIT <=? rp_status rp) eqn:E; [apply N.leb_le in E; lia|].
  rewrite eru_idem. unfold request_uri in Hin. destruct (effective_request_uri rq) as [u0 rq1]; cbn [fst snd] in *.
  apply in_or_app; right. apply in_or_app; now left.
Qed.

Lemma evicted_by_content_location (rq : request) (rp : reply) (k : key) :
  purges_others (rq_method rq) = true -> rp_status rp < STATUS_LIMIT ->
  In k (purge_entries_by_header (snd (effective_request_uri rq)) (request_uri rq) (rp_content_location rp)) ->
  In k (evicted_keys rq rp).
Proof.
  intros Hp Hs Hin. unfold evicted_keys. apply in_or_app; right. unfold maybe_purge_others.
  rewrite eru_method, Hp; cbn [negb]. destruct (STATUS_LIMIT <=? rp_status rp) eqn:E; [apply N.leb_le in E; lia|].
  rewrite eru_idem. unfold request_uri in Hin. destruct (effective_request_uri rq) as [u0 rq1]; cbn [fst snd] in *.
  apply in_or_app; right. apply in_or_app; now right.
Qed.

(* ------------------------------------------------------------------ Encode *)
Lemma uri_encode_id (ignore : cset) (l : bytes) : forallb ignore l = true -> uri_encode ignore l = l.
Proof.
  induction l as [|c l IH]; cbn [uri_encode forallb]; [reflexivity|]. intros H.
  apply andb_true_iff in H as [H1 H2]. now rewrite H1, IH.
Qed.

Lemma tbl_get_beyond {A} (d : A) (t : list A) : forall c, lenN t <= c -> tbl_get d t c = d.
Proof.
  induction t as [|x t IH]; intros c H; cbn [tbl_get]; [reflexivity|].
  cbn [lenN] in H. destruct (c =? 0) eqn:E; [apply N.eqb_eq in E; lia|]. apply IH. lia.
Qed.

Lemma encoded_no_nul (c : N) : no_nul (tbl_get [] pg_encoded_tbl c) = true.
Proof.
  destruct (N.ltb_spec c 256) as [Hc|Hc].
  - revert c Hc. apply forallb_bytes. vm_compute. reflexivity.
  - rewrite tbl_get_beyond; [reflexivity|]. replace (lenN pg_encoded_tbl) with 256 by (vm_compute; reflexivity). exact Hc.
Qed.

Lemma uri_encode_no_nul (l : bytes) : no_nul (uri_encode pg_AbsPathChars l) = true.
Proof.
  induction l as [|c l IH]; cbn [uri_encode]; [reflexivity|].
  destruct (pg_AbsPathChars c) eqn:E.
  - unfold no_nul, no_byte in *. cbn [forallb]. rewrite IH, andb_true_r.
    destruct (c =? 0) eqn:E0; [|reflexivity]. apply N.eqb_eq in E0; subst c. vm_compute in E. discriminate.
  - unfold no_nul in *. rewrite no_byte_app. fold (no_nul (tbl_get [] pg_encoded_tbl c)). now rewrite encoded_no_nul, IH.
Qed.

Lemma uri_encode_head_slash (l : bytes) : hd0 l = SLASH -> exists p, uri_encode pg_AbsPathChars l = SLASH :: p.
Proof.
  destruct l as [|c l]; cbn [hd0]; [discriminate|]. intros ->. cbn [uri_encode].
  replace (pg_AbsPathChars SLASH) with true by (vm_compute; reflexivity). now eexists.
Qed.

(* ------------------------------------------------------------------ well-formed forward-proxy requests *)
Record wf_request (rq : request) (s a : bytes) : Prop := {
  wf_noform : rq_authority_form rq = false;
  wf_nourn : u_urn (rq_url rq) = false;
  wf_front : u_front (rq_url rq) = s ++ SEP ++ a;            (* absolute() starts scheme "://" authority *)
  wf_scheme : forallb scheme_byte s = true;
  wf_auth : no_byte SLASH a = true;
  wf_auth_ne : a <> [];
  wf_nul : no_nul (s ++ SEP ++ a) = true;
  wf_path : hd0 (uri_path (rq_url rq)) = SLASH;              (* path() starts with "/" *)
  wf_caches : caches_ok (rq_url rq)
}.

Lemma purging_method_not_connect (m : N) : purges_others m = true -> (m =? pg_METHOD_CONNECT) = false.
Proof.
  intros H. destruct (m =? pg_METHOD_CONNECT) eqn:E; [|reflexivity]. apply N.eqb_eq in E; subst m.
  destruct safe_methods_do_not_purge as (_ & _ & Hc & _). congruence.
Qed.

Lemma wf_effective_uri (rq : request) (s a : bytes) :
  wf_request rq s a -> (rq_method rq =? pg_METHOD_CONNECT) = false ->
  exists p, fst (effective_request_uri rq) = s ++ SEP ++ a ++ SLASH :: p /\
            request_uri rq = s ++ SEP ++ a ++ SLASH :: p /\
            uri_encode pg_AbsPathChars (uri_path (rq_url rq)) = SLASH :: p /\
            u_abs_cache (rq_url (snd (effective_request_uri rq))) = s ++ SEP ++ a ++ SLASH :: p /\
            u_urn (rq_url (snd (effective_request_uri rq))) = false /\
            u_front (rq_url (snd (effective_request_uri rq))) = s ++ SEP ++ a.
Proof.
  intros W Hm. destruct (uri_encode_head_slash _ (wf_path _ _ _ W)) as [p Hp]. exists p.
  destruct (uri_absolute_ok (rq_url rq) (wf_caches _ _ _ W)) as (H1 & H2 & H3 & H4 & H5 & H6 & H7).
  assert (Htext : fst (effective_request_uri rq) = s ++ SEP ++ a ++ SLASH :: p).
  { unfold effective_request_uri. rewrite Hm, (wf_noform _ _ _ W). cbn [orb].
    destruct (uri_absolute (rq_url rq)) as [t u'] eqn:Eu; cbn [fst snd] in *.
    rewrite H1. unfold uri_abs_text. rewrite Hp, (wf_front _ _ _ W). now rewrite <- !app_assoc. }
  assert (Hnul : no_nul (s ++ SEP ++ a ++ SLASH :: p) = true).
  { replace (s ++ SEP ++ a ++ SLASH :: p) with ((s ++ SEP ++ a) ++ SLASH :: p) by now rewrite <- !app_assoc.
    unfold no_nul. rewrite no_byte_app. fold (no_nul (s ++ SEP ++ a)). rewrite (wf_nul _ _ _ W). cbn [andb].
    rewrite <- Hp. apply uri_encode_no_nul. }
  repeat split; try assumption.
  - unfold request_uri. rewrite Htext. now apply cstr_id.
  - unfold effective_request_uri in *. rewrite Hm, (wf_noform _ _ _ W) in *. cbn [orb] in *.
    destruct (uri_absolute (rq_url rq)) as [t u'] eqn:Eu; cbn [fst snd rq_url] in *.
    rewrite H7; [exact Htext|]. rewrite Htext. destruct s; discriminate.
  - unfold effective_request_uri. rewrite Hm, (wf_noform _ _ _ W). cbn [orb].
    destruct (uri_absolute (rq_url rq)) as [t u'] eqn:Eu; cbn [fst snd rq_url] in *. rewrite H6. exact (wf_nourn _ _ _ W).
  - unfold effective_request_uri. rewrite Hm, (wf_noform _ _ _ W). cbn [orb].
    destruct (uri_absolute (rq_url rq)) as [t u'] eqn:Eu; cbn [fst snd rq_url] in *. rewrite H3. exact (wf_front _ _ _ W).
Qed.

(* ------------------------------------------------------------------ decomposition of everything evicted *)
Lemma purge_by_url_snd (url : bytes) (k : key) : In k (purge_entries_by_url url) -> snd k = url.
Proof. unfold purge_entries_by_url. rewrite in_map_iff. intros (m & <- & _). reflexivity. Qed.

Lemma evicted_keys_cases (rq : request) (rp : reply) (k : key) :
  In k (evicted_keys rq rp) ->
  snd k = request_uri rq \/
  In k (purge_entries_by_header (snd (effective_request_uri rq)) (request_uri rq) (rp_location rp)) \/
  In k (purge_entries_by_header (snd (effective_request_uri rq)) (request_uri rq) (rp_content_location rp)).
Proof.
  unfold evicted_keys. intros H. apply in_app_or in H as [H|H].
  - left. unfold process_miss_purge in H. destruct (rq_method rq =? pg_METHOD_OTHER); [|destruct H].
    now apply purge_by_url_snd in H.
  - unfold maybe_purge_others in H. destruct (negb (purges_others (rq_method (snd (effective_request_uri rq))))); [destruct H|].
    destruct (STATUS_LIMIT <=? rp_status rp); [destruct H|].
    rewrite eru_idem in H. unfold request_uri. destruct (effective_request_uri rq) as [u0 rq1]; cbn [fst snd] in *.
    apply in_app_or in H as [H|H]; [left; now apply purge_by_url_snd in H|].
    apply in_app_or in H as [H|H]; [right; now left| right; now right].
Qed.

(* ------------------------------------------------------------------ (a) absolute URL, same authority *)
Lemma location_same_authority_evicted (rq : request) (rp : reply) (s a s2 p2 : bytes) (m : N) :
  wf_request rq s a -> purges_others (rq_method rq) = true -> rp_status rp < STATUS_LIMIT ->
  forallb scheme_byte s2 = true -> no_nul (s2 ++ SEP ++ a ++ SLASH :: p2) = true ->
  rp_location rp = Some (s2 ++ SEP ++ a ++ SLASH :: p2) \/ rp_content_location rp = Some (s2 ++ SEP ++ a ++ SLASH :: p2) ->
  In m (cacheable_ids pg_methods) ->
  In (m, s2 ++ SEP ++ a ++ SLASH :: p2) (evicted_keys rq rp).
Proof.
  intros W Hp Hs Hs2 Hnul Hhdr Hm.
  destruct (wf_effective_uri rq s a W (purging_method_not_connect _ Hp)) as (p & _ & Hreq & _).
  destruct Hhdr as [Hl|Hl]; [apply evicted_by_location| apply evicted_by_content_location]; try assumption;
    rewrite Hl, Hreq; apply header_absolute_same_authority; try assumption;
    try exact (wf_scheme _ _ _ W); try exact (wf_auth _ _ _ W); exact (wf_auth_ne _ _ _ W).
Qed.

(* ------------------------------------------------------------------ (b) absolute-path reference *)
Lemma header_absolute_path (rq : request) (reqUrl p : bytes) (m : N) :
  (rq_method rq =? pg_METHOD_CONNECT) = false -> u_urn (rq_url rq) = false -> no_nul (SLASH :: p) = true ->
  In m (cacheable_ids pg_methods) ->
  In (m, u_front (rq_url rq) ++ uri_encode pg_AbsPathChars (SLASH :: p)) (purge_entries_by_header rq reqUrl (Some (SLASH :: p))).
Proof.
  intros Hm Hu Hnul Hin. unfold purge_entries_by_header. rewrite (cstr_id _ Hnul).
  cbn [url_is_relative hd0]. rewrite N.eqb_refl, Hm, Hu.
  unfold uri_set_path, uri_absolute, uri_absolute_path, uri_path; cbn.
  now apply in_purge_by_url.
Qed.

Lemma location_absolute_path_evicted (rq : request) (rp : reply) (s a p : bytes) (m : N) :
  wf_request rq s a -> purges_others (rq_method rq) = true -> rp_status rp < STATUS_LIMIT ->
  no_nul (SLASH :: p) = true ->
  rp_location rp = Some (SLASH :: p) \/ rp_content_location rp = Some (SLASH :: p) ->
  In m (cacheable_ids pg_methods) ->
  In (m, s ++ SEP ++ a ++ uri_encode pg_AbsPathChars (SLASH :: p)) (evicted_keys rq rp).
Proof.
  intros W Hp Hs Hnul Hhdr Hm.
  pose proof (purging_method_not_connect _ Hp) as Hnc.
  destruct (wf_effective_uri rq s a W Hnc) as (p0 & _ & _ & _ & _ & Hurn & Hfront).
  replace (s ++ SEP ++ a ++ uri_encode pg_AbsPathChars (SLASH :: p))
    with (u_front (rq_url (snd (effective_request_uri rq))) ++ uri_encode pg_AbsPathChars (SLASH :: p))
    by (rewrite Hfront; now rewrite <- !app_assoc).
  destruct Hhdr as [Hl|Hl]; [apply evicted_by_location| apply evicted_by_content_location]; try assumption;
    rewrite Hl; apply header_absolute_path; try assumption; now rewrite eru_method.
Qed.

(* ------------------------------------------------------------------ RFC 3986 5.2.3 merge, as addRelativePath computes it *)
Lemma upto_last_slash_spec (d seg : bytes) : no_byte SLASH seg = true -> upto_last_slash (d ++ SLASH :: seg) = Some (d ++ [SLASH]).
Proof.
  intros Hseg. assert (Hn : upto_last_slash seg = None).
  { induction seg as [|c seg IH]; cbn [upto_last_slash]; [reflexivity|].
    cbn [no_byte forallb] in Hseg. apply andb_true_iff in Hseg as [H1 H2]. apply negb_true_iff in H1.
    unfold no_byte in IH. now rewrite (IH H2), H1. }
  induction d as [|c d IH]; cbn [app upto_last_slash].
  - now rewrite Hn, N.eqb_refl.
  - now rewrite IH.
Qed.

Lemma add_relative_path_merges (u : uri) (d seg rel : bytes) :
  u_urn u = false -> u_path u = d ++ SLASH :: seg -> no_byte SLASH seg = true ->
  u_path (uri_add_relative_path rel u) = d ++ SLASH :: rel.
Proof.
  intros Hu Hp Hseg. unfold uri_add_relative_path. rewrite Hu, Hp, (upto_last_slash_spec d seg Hseg). cbn [u_path].
  now rewrite <- app_assoc.
Qed.

Lemma add_relative_path_clears_caches (u : uri) (rel : bytes) :
  u_urn u = false ->
  u_abs_cache (uri_add_relative_path rel u) = [] /\ u_abspath_cache (uri_add_relative_path rel u) = [].
Proof. intros Hu. unfold uri_add_relative_path. rewrite Hu. split; reflexivity. Qed.

(* ------------------------------------------------------------------ (c) relative-path reference *)
Lemma nonempty_dir_app (d h : bytes) : nonempty ((d ++ [SLASH]) ++ h) = true.
Proof. destruct d; reflexivity. Qed.

Lemma header_relative_path (rq : request) (reqUrl d seg h : bytes) (m : N) :
  (rq_method rq =? pg_METHOD_CONNECT) = false -> u_urn (rq_url rq) = false -> no_nul h = true ->
  url_is_relative h = true -> (hd0 h =? SLASH) = false ->
  u_path (rq_url rq) = d ++ SLASH :: seg -> no_byte SLASH seg = true ->
  In m (cacheable_ids pg_methods) ->
  In (m, u_front (rq_url rq) ++ uri_encode pg_AbsPathChars (d ++ SLASH :: h)) (purge_entries_by_header rq reqUrl (Some h)).
Proof.
  intros Hm Hu Hnul Hrel Hsl Hp Hseg Hin. unfold purge_entries_by_header. rewrite (cstr_id _ Hnul), Hrel, Hm, Hu, Hsl.
  unfold uri_add_relative_path. rewrite Hu, Hp, (upto_last_slash_spec d seg Hseg).
  unfold uri_absolute, uri_absolute_path, uri_path; cbn [u_abs_cache u_abspath_cache nonempty u_path u_httpx u_front fst snd].
  rewrite nonempty_dir_app. cbn [negb andb fst snd u_front].
  replace ((d ++ [SLASH]) ++ h) with (d ++ SLASH :: h) by (now rewrite <- app_assoc).
  now apply in_purge_by_url.
Qed.

Lemma eru_path (rq : request) : u_path (rq_url (snd (effective_request_uri rq))) = u_path (rq_url rq).
Proof.
  unfold effective_request_uri. destruct ((rq_method rq =? pg_METHOD_CONNECT) || rq_authority_form rq); [reflexivity|].
  destruct (rq_url rq) as [fr hx urn p ca cp]. unfold uri_absolute, uri_absolute_path; cbn [u_abs_cache u_abspath_cache].
  destruct (nonempty ca); [reflexivity|]. destruct (nonempty cp); reflexivity.
Qed.

Lemma location_relative_path_evicted (rq : request) (rp : reply) (s a d seg h : bytes) (m : N) :
  wf_request rq s a -> purges_others (rq_method rq) = true -> rp_status rp < STATUS_LIMIT ->
  no_nul h = true -> url_is_relative h = true -> (hd0 h =? SLASH) = false ->
  u_path (rq_url rq) = d ++ SLASH :: seg -> no_byte SLASH seg = true ->
  rp_location rp = Some h \/ rp_content_location rp = Some h ->
  In m (cacheable_ids pg_methods) ->
  In (m, s ++ SEP ++ a ++ uri_encode pg_AbsPathChars (d ++ SLASH :: h)) (evicted_keys rq rp).
Proof.
  intros W Hp Hs Hnul Hrel Hsl Hpath Hseg Hhdr Hm.
  pose proof (purging_method_not_connect _ Hp) as Hnc.
  destruct (wf_effective_uri rq s a W Hnc) as (p0 & _ & _ & _ & _ & Hurn & Hfront).
  replace (s ++ SEP ++ a ++ uri_encode pg_AbsPathChars (d ++ SLASH :: h))
    with (u_front (rq_url (snd (effective_request_uri rq))) ++ uri_encode pg_AbsPathChars (d ++ SLASH :: h))
    by (rewrite Hfront; now rewrite <- !app_assoc).
  destruct Hhdr as [Hl|Hl]; [apply evicted_by_location| apply evicted_by_content_location]; try assumption;
    rewrite Hl; apply (header_relative_path _ _ d seg); try assumption;
    try (now rewrite eru_method); now rewrite eru_path.
Qed.

(* ------------------------------------------------------------------ (d) other authorities are left alone *)
Lemma other_authority_untouched (rq : request) (rp : reply) (s a s2 a2 p2 t : bytes) (m : N) (st : store) :
  wf_request rq s a -> purges_others (rq_method rq) = true ->
  forallb scheme_byte s2 = true -> no_byte SLASH a2 = true -> a <> a2 -> no_nul (s2 ++ SEP ++ a2 ++ SLASH :: p2) = true ->
  (forall h, rp_location rp = Some h \/ rp_content_location rp = Some h -> h = s2 ++ SEP ++ a2 ++ SLASH :: p2) ->
  t <> request_uri rq ->
  store_has (evict_all (evicted_keys rq rp) st) (m, t) = store_has st (m, t).
Proof.
  intros W Hp Hs2 Ha2 Hdiff Hnul Hh Hne. apply not_evicted_stays. intros k' Hk'.
  pose proof (purging_method_not_connect _ Hp) as Hnc.
  destruct (wf_effective_uri rq s a W Hnc) as (p0 & _ & Hreq & _).
  assert (Hnone : forall h, rp_location rp = Some h \/ rp_content_location rp = Some h ->
            purge_entries_by_header (snd (effective_request_uri rq)) (request_uri rq) (Some h) = []).
  { intros h Hhh. rewrite (Hh h Hhh), Hreq. apply header_absolute_other_authority; try assumption.
    - exact (wf_scheme _ _ _ W). - exact (wf_auth _ _ _ W). - exact (wf_auth_ne _ _ _ W). }
  assert (Hs : snd k' = request_uri rq).
  { apply evicted_keys_cases in Hk' as [Hk|[Hk|Hk]]; [exact Hk| |].
    - destruct (rp_location rp) as [h|] eqn:El; [|destruct Hk]. rewrite (Hnone h (or_introl eq_refl)) in Hk. destruct Hk.
    - destruct (rp_content_location rp) as [h|] eqn:El; [|destruct Hk]. rewrite (Hnone h (or_intror eq_refl)) in Hk. destruct Hk. }
  destruct (key_eqb (m, t) k') eqn:E; [|reflexivity]. apply key_eqb_eq in E. subst k'. cbn [snd] in Hs. congruence.
Qed.

(* ------------------------------------------------------------------ requests built by the correspondence glue are well-formed *)
Lemma request_of_wf (relaxed : bool) (meth s a path : bytes) :
  forallb scheme_byte s = true -> no_byte SLASH a = true -> a <> [] -> no_nul (s ++ SEP ++ a) = true -> hd0 path = SLASH ->
  wf_request (request_of relaxed meth s a path) s a.
Proof.
  intros Hs Ha Hne Hnul Hp. destruct path as [|c path]; [discriminate|].
  constructor; cbn; try assumption; try reflexivity.
  split; now left.
Qed.

(* ------------------------------------------------------------------ SPEC: RFC 3986 section 5.2 reference resolution
   (written independently of the model; URLs without query component) *)
Definition lower (c : N) : N := if (65 <=? c) && (c <=? 90) then c + 32 else c.

Fixpoint split_on (c : N) (l : bytes) : list bytes :=
  match l with
  | [] => [[]]
  | x :: r => if x =? c then [] :: split_on c r
              else match split_on c r with seg :: segs => (x :: seg) :: segs | [] => [[x]] end
  end.
Definition is_dot (s : bytes) : bool := list_eqb s [46].
Definition is_dotdot (s : bytes) : bool := list_eqb s [46; 46].
(* 5.2.4 remove_dot_segments on the segments of an absolute path; `out` is the output stack, last segment first *)
Fixpoint rds (segs : list bytes) (out : list bytes) : list bytes :=
  match segs with
  | [] => rev out
  | s :: r =>
      match r with
      | [] => if is_dot s then rev ([] :: out) else if is_dotdot s then rev ([] :: tl out) else rev (s :: out)
      | _ => if is_dot s then rds r out else if is_dotdot s then rds r (tl out) else rds r (s :: out)
      end
  end.
Definition join_path (segs : list bytes) : bytes := flat_map (fun s => SLASH :: s) segs.
Definition remove_dot_segments (p : bytes) : bytes :=
  match split_on SLASH p with _ :: segs => join_path (rds segs []) | [] => p end.

Definition strip_fragment (l : bytes) : bytes := fst (span (fun c => negb (c =? 35)) l).
Fixpoint scheme_split (l acc : bytes) : option (bytes * bytes) :=
  match l with
  | [] => None
  | c :: r => if c =? COLON then Some (rev acc, r)
              else if (c =? SLASH) || (c =? 63) || (c =? 35) then None else scheme_split r (c :: acc)
  end.
Definition split_authority (l : bytes) : bytes * bytes :=
  let '(a, p) := span (fun c => negb (c =? SLASH)) l in (a, match p with [] => [SLASH] | _ => p end).
(* 5.2.3 merge: the base path up to and including its last "/" *)
Definition dir_of (p : bytes) : bytes := rev (snd (span (fun c => negb (c =? SLASH)) (rev p))).
Definition merge_paths (bp r : bytes) : bytes := match dir_of bp with [] => SLASH :: r | d => d ++ r end.

(* target (scheme, authority, path) of reference `ref` against the base scheme://authority path; scheme and host in
   lower case (6.2.2.1), dot segments removed (6.2.2.3), fragment dropped *)
(* "//" rest *)
Definition starts2 (r : bytes) : option bytes :=
  match r with
  | c1 :: c2 :: r2 => if (c1 =? SLASH) && (c2 =? SLASH) then Some r2 else None
  | _ => None
  end.
Definition rfc_resolve (bs ba bp ref : bytes) : option (bytes * bytes * bytes) :=
  let r := strip_fragment ref in
  match scheme_split r [] with
  | Some (sc, rest) =>                                   (* a URI with a scheme: never merged with the base *)
      match sc, starts2 rest with
      | _ :: _, Some r2 => let '(a, p) := split_authority r2 in Some (map lower sc, map lower a, remove_dot_segments p)
      | _, _ => None
      end
  | None =>
      match starts2 r with
      | Some r2 => let '(a, p) := split_authority r2 in Some (bs, map lower a, remove_dot_segments p)   (* network-path *)
      | None =>
          match r with
          | [] => Some (bs, ba, bp)                                                (* same document *)
          | c :: _ => if c =? SLASH then Some (bs, ba, remove_dot_segments r)      (* absolute-path *)
                      else Some (bs, ba, remove_dot_segments (merge_paths bp r))   (* relative-path *)
          end
      end
  end.

(* `ref`, found in a response to a request for bs://ba bp, names the same-authority URL t *)
Definition names_same_authority (bs ba bp ref t : bytes) : Prop :=
  exists tp, rfc_resolve bs ba bp ref = Some (bs, ba, tp) /\ t = bs ++ SEP ++ ba ++ tp.

(* the second sentence of the property at full strength *)
Definition named_url_always_evicted : Prop :=
  forall rq rp s a ref t m,
    wf_request rq s a -> purges_others (rq_method rq) = true -> rp_status rp < 400 ->
    rp_location rp = Some ref \/ rp_content_location rp = Some ref ->
    names_same_authority s a (uri_path (rq_url rq)) ref t -> In m (cacheable_ids pg_methods) ->
    In (m, t) (evicted_keys rq rp).

(* witnesses: POST http://h:8/d/u answered 200 with Location: <ref>, while http://h:8/d/v is cached *)
Definition B (l : bytes) : bytes := l.
Definition w_http : bytes := B [104;116;116;112].
Definition w_auth : bytes := B [104;58;56].                                      (* h:8 *)
Definition w_u : bytes := B [47;100;47;117].                                    (* /d/u *)
Definition w_target : bytes := w_http ++ SEP ++ w_auth ++ B [47;100;47;118].   (* http://h:8/d/v *)
Definition w_rq : request := request_of true (B [80;79;83;84]) w_http w_auth w_u.
Definition w_rp (ref : bytes) : reply := mkRep 200 (Some ref) None.
Definition stays_cached (ref : bytes) : Prop :=
  names_same_authority w_http w_auth w_u ref w_target /\
  store_has (evict_all (evicted_keys w_rq (w_rp ref)) [(pg_METHOD_GET, w_target)]) (pg_METHOD_GET, w_target) = true.

Lemma w_rq_wf : wf_request w_rq w_http w_auth.
Proof. apply request_of_wf; try reflexivity. discriminate. Qed.
Lemma w_rq_purges : purges_others (rq_method w_rq) = true.
Proof. vm_compute. reflexivity. Qed.

Ltac witness := split; [eexists; split; vm_compute; reflexivity | vm_compute; reflexivity].

Lemma dot_segments_stay :
  stays_cached (B [47;100;47;46;47;118]) /\ stays_cached (B [47;100;47;120;47;46;46;47;118]) /\  (* /d/./v  /d/x/../v *)
  stays_cached (B [46;47;118]) /\ stays_cached (B [46;46;47;100;47;118]).                        (* ./v  ../d/v *)
Proof. repeat split; try (eexists; split; vm_compute; reflexivity); vm_compute; reflexivity. Qed.
Lemma network_path_reference_stays : stays_cached (B [47;47;104;58;56;47;100;47;118]).          (* //h:8/d/v *)
Proof. witness. Qed.
Lemma letter_case_stays :
  stays_cached (B [72;84;84;80;58;47;47;104;58;56;47;100;47;118]) /\                             (* HTTP://h:8/d/v *)
  stays_cached (B [104;116;116;112;58;47;47;72;58;56;47;100;47;118]).                            (* http://H:8/d/v *)
Proof. repeat split; try (eexists; split; vm_compute; reflexivity); vm_compute; reflexivity. Qed.
Lemma fragment_stays :
  stays_cached (B [104;116;116;112;58;47;47;104;58;56;47;100;47;118;35;102]) /\                  (* http://h:8/d/v#f *)
  stays_cached (B [47;100;47;118;35;102]).                                                       (* /d/v#f *)
Proof. repeat split; try (eexists; split; vm_compute; reflexivity); vm_compute; reflexivity. Qed.

Lemma named_url_always_evicted_is_false : ~ named_url_always_evicted.
Proof.
  intros H. destruct dot_segments_stay as [[Hn Hs] _].        (* Location: /d/./v *)
  specialize (H w_rq (w_rp (B [47;100;47;46;47;118])) w_http w_auth (B [47;100;47;46;47;118]) w_target pg_METHOD_GET w_rq_wf w_rq_purges
                ltac:(vm_compute; reflexivity) (or_introl eq_refl) Hn ltac:(vm_compute; auto)).
  pose proof (evicted_not_in_store _ [(pg_METHOD_GET, w_target)] _ H) as Hc. rewrite Hs in Hc. discriminate.
Qed.

(* sanity of the spec on plain references: they resolve to the URL one expects *)
Lemma spec_examples :
  names_same_authority w_http w_auth w_u (B [47;100;47;118]) w_target /\                                     (* /d/v *)
  names_same_authority w_http w_auth w_u (B [104;116;116;112;58;47;47;104;58;56;47;100;47;118]) w_target /\  (* http://h:8/d/v *)
  names_same_authority w_http w_auth w_u [] (w_http ++ SEP ++ w_auth ++ w_u) /\
  rfc_resolve w_http w_auth w_u (B [104;116;116;112;58;47;47;111;58;56;47;100;47;118])                       (* http://o:8/d/v *)
    = Some (w_http, B [111;58;56], B [47;100;47;118]).
Proof. repeat split; try (eexists; split; vm_compute; reflexivity); vm_compute; reflexivity. Qed.

(* the plain forms ARE evicted in the witness setting (so the witnesses above isolate the five defects) *)
Lemma plain_forms_evicted :
  store_has (evict_all (evicted_keys w_rq (w_rp (B [47;100;47;118]))) [(pg_METHOD_GET, w_target)]) (pg_METHOD_GET, w_target) = false /\
  store_has (evict_all (evicted_keys w_rq (w_rp (B [104;116;116;112;58;47;47;104;58;56;47;100;47;118]))) [(pg_METHOD_GET, w_target)])
            (pg_METHOD_GET, w_target) = false /\
  store_has (evict_all (evicted_keys w_rq (w_rp (B [118]))) [(pg_METHOD_GET, w_target)]) (pg_METHOD_GET, w_target) = false.   (* Location: v *)
Proof. repeat split; vm_compute; reflexivity. Qed.

(* ------------------------------------------------------------------ the spec agrees with the code on references in
   normal form (nothing for remove_dot_segments / fragment stripping / case folding to do) *)
Lemma pathchars_no_nul (l : bytes) : forallb pg_AbsPathChars l = true -> no_nul l = true.
Proof.
  unfold no_nul, no_byte. induction l as [|c l IH]; cbn [forallb]; [reflexivity|]. intros H.
  apply andb_true_iff in H as [H1 H2]. rewrite (IH H2), andb_true_r.
  destruct (c =? 0) eqn:E0; [|reflexivity]. apply N.eqb_eq in E0; subst c. vm_compute in H1. discriminate.
Qed.

Lemma absolute_path_reference_in_normal_form (rq : request) (rp : reply) (s a p : bytes) (m : N) :
  wf_request rq s a -> purges_others (rq_method rq) = true -> rp_status rp < 400 ->
  (hd0 p =? SLASH) = false -> strip_fragment (SLASH :: p) = SLASH :: p -> remove_dot_segments (SLASH :: p) = SLASH :: p ->
  forallb pg_AbsPathChars (SLASH :: p) = true ->
  rp_location rp = Some (SLASH :: p) \/ rp_content_location rp = Some (SLASH :: p) ->
  In m (cacheable_ids pg_methods) ->
  names_same_authority s a (uri_path (rq_url rq)) (SLASH :: p) (s ++ SEP ++ a ++ SLASH :: p) /\
  In (m, s ++ SEP ++ a ++ SLASH :: p) (evicted_keys rq rp).
Proof.
  intros W Hp Hs Hp2 Hfrag Hdots Hchars Hhdr Hm. split.
  - exists (SLASH :: p). split; [|reflexivity]. unfold rfc_resolve. rewrite Hfrag.
    cbn [scheme_split]. replace (SLASH =? COLON) with false by reflexivity. rewrite N.eqb_refl. cbn [orb].
    assert (H2 : starts2 (SLASH :: p) = None).
    { destruct p as [|c p']; cbn [starts2]; [reflexivity|]. cbn [hd0] in Hp2. now rewrite Hp2, andb_false_r. }
    rewrite H2, Hdots. reflexivity.
  - rewrite <- (uri_encode_id pg_AbsPathChars (SLASH :: p) Hchars).
    apply location_absolute_path_evicted; try assumption. now apply pathchars_no_nul.
Qed.

Lemma scheme_split_app (s r : bytes) : forall acc, forallb scheme_byte s = true -> scheme_split (s ++ COLON :: r) acc = Some (rev acc ++ s, r).
Proof.
  induction s as [|c s IH]; intros acc H; cbn [app scheme_split].
  - now rewrite N.eqb_refl, app_nil_r.
  - cbn [forallb] in H. apply andb_true_iff in H as [H1 H2]. unfold scheme_byte in H1. apply negb_true_iff in H1.
    apply orb_false_iff in H1 as [H1 H35]. apply orb_false_iff in H1 as [H1 H63]. apply orb_false_iff in H1 as [Hc Hsl].
    rewrite Hc, Hsl, H63, H35. cbn [orb]. rewrite (IH (c :: acc) H2). cbn [rev]. now rewrite <- app_assoc.
Qed.

Lemma span_until_slash (a p : bytes) : no_byte SLASH a = true ->
  span (fun c => negb (c =? SLASH)) (a ++ SLASH :: p) = (a, SLASH :: p).
Proof.
  induction a as [|c a IH]; cbn [app span no_byte forallb]; intros H.
  - now rewrite N.eqb_refl.
  - apply andb_true_iff in H as [H1 H2]. rewrite H1. unfold no_byte in IH. now rewrite (IH H2).
Qed.

Lemma absolute_url_in_normal_form (rq : request) (rp : reply) (s a p2 : bytes) (m : N) :
  wf_request rq s a -> purges_others (rq_method rq) = true -> rp_status rp < 400 ->
  s <> [] -> map lower s = s -> map lower a = a ->
  strip_fragment (s ++ SEP ++ a ++ SLASH :: p2) = s ++ SEP ++ a ++ SLASH :: p2 ->
  remove_dot_segments (SLASH :: p2) = SLASH :: p2 -> no_nul (s ++ SEP ++ a ++ SLASH :: p2) = true ->
  rp_location rp = Some (s ++ SEP ++ a ++ SLASH :: p2) \/ rp_content_location rp = Some (s ++ SEP ++ a ++ SLASH :: p2) ->
  In m (cacheable_ids pg_methods) ->
  names_same_authority s a (uri_path (rq_url rq)) (s ++ SEP ++ a ++ SLASH :: p2) (s ++ SEP ++ a ++ SLASH :: p2) /\
  In (m, s ++ SEP ++ a ++ SLASH :: p2) (evicted_keys rq rp).
Proof.
  intros W Hp Hs Hne Hls Hla Hfrag Hdots Hnul Hhdr Hm. split.
  - exists (SLASH :: p2). split; [|reflexivity]. unfold rfc_resolve. rewrite Hfrag.
    change (s ++ SEP ++ a ++ SLASH :: p2) with (s ++ COLON :: (SLASH :: SLASH :: a ++ SLASH :: p2)).
    rewrite (scheme_split_app s _ [] (wf_scheme _ _ _ W)). cbn [rev app].
    destruct s as [|c s']; [congruence|]. cbn [starts2]. rewrite N.eqb_refl. cbn [andb].
    unfold split_authority. rewrite (span_until_slash a p2 (wf_auth _ _ _ W)). now rewrite Hls, Hla, Hdots.
  - apply (location_same_authority_evicted rq rp s a s p2 m); try assumption. exact (wf_scheme _ _ _ W).
Qed.

Lemma no_byte_rev (c : N) (l : bytes) : no_byte c (rev l) = no_byte c l.
Proof.
  induction l as [|x l IH]; [reflexivity|]. cbn [rev]. rewrite no_byte_app, IH. unfold no_byte; cbn [forallb].
  now rewrite andb_true_r, andb_comm.
Qed.

Lemma dir_of_spec (d seg : bytes) : no_byte SLASH seg = true -> dir_of (d ++ SLASH :: seg) = d ++ [SLASH].
Proof.
  intros Hseg. unfold dir_of. rewrite rev_app_distr. cbn [rev]. rewrite <- app_assoc. cbn [app].
  rewrite span_until_slash by (now rewrite no_byte_rev). cbn [snd rev]. now rewrite rev_involutive.
Qed.

Lemma relative_ref_has_no_scheme (h : bytes) : forall acc, first_segment_has_no_colon h = true -> scheme_split h acc = None.
Proof.
  induction h as [|c h IH]; intros acc H; cbn [scheme_split first_segment_has_no_colon] in *; [reflexivity|].
  destruct ((c =? SLASH) || (c =? 63) || (c =? 35)) eqn:E.
  - destruct (c =? COLON) eqn:Ec; [|reflexivity].
    apply N.eqb_eq in Ec; subst c. vm_compute in E. discriminate.
  - destruct (c =? COLON); [discriminate| now apply IH].
Qed.

(* a relative-path reference (RFC 3986 5.2.3 merge) in normal form names exactly the URL evicted *)
Lemma relative_path_reference_in_normal_form (rq : request) (rp : reply) (s a d seg h : bytes) (m : N) :
  wf_request rq s a -> purges_others (rq_method rq) = true -> rp_status rp < 400 ->
  u_path (rq_url rq) = d ++ SLASH :: seg -> no_byte SLASH seg = true ->
  h <> [] -> (hd0 h =? SLASH) = false -> url_is_relative h = true ->
  strip_fragment h = h -> remove_dot_segments (d ++ SLASH :: h) = d ++ SLASH :: h ->
  forallb pg_AbsPathChars (d ++ SLASH :: h) = true ->
  rp_location rp = Some h \/ rp_content_location rp = Some h ->
  In m (cacheable_ids pg_methods) ->
  names_same_authority s a (uri_path (rq_url rq)) h (s ++ SEP ++ a ++ d ++ SLASH :: h) /\
  In (m, s ++ SEP ++ a ++ d ++ SLASH :: h) (evicted_keys rq rp).
Proof.
  intros W Hp Hs Hpath Hseg Hne Hsl Hrel Hfrag Hdots Hchars Hhdr Hm.
  assert (Hnulh : no_nul h = true).
  { apply pathchars_no_nul in Hchars. unfold no_nul in *. rewrite no_byte_app in Hchars.
    apply andb_true_iff in Hchars as [_ H2]. unfold no_byte in *. cbn [forallb] in H2. now apply andb_true_iff in H2 as [_ H2]. }
  split.
  - exists (d ++ SLASH :: h). split; [|reflexivity]. unfold rfc_resolve. rewrite Hfrag.
    destruct h as [|x h']; [congruence|]. cbn [hd0] in Hsl.
    assert (Hfs : first_segment_has_no_colon (x :: h') = true).
    { unfold url_is_relative in Hrel. now rewrite Hsl in Hrel. }
    rewrite (relative_ref_has_no_scheme _ [] Hfs).
    assert (H2 : starts2 (x :: h') = None).
    { destruct h' as [|y h'']; cbn [starts2]; [reflexivity|]. now rewrite Hsl. }
    rewrite H2, Hsl. unfold merge_paths, uri_path. rewrite Hpath.
    replace (nonempty (d ++ SLASH :: seg)) with true by (destruct d; reflexivity). cbn [negb andb].
    rewrite (dir_of_spec d seg Hseg).
    destruct (d ++ [SLASH]) eqn:Ed; [destruct d; discriminate|]. rewrite <- Ed.
    replace ((d ++ [SLASH]) ++ x :: h') with (d ++ SLASH :: x :: h') by (now rewrite <- app_assoc).
    now rewrite Hdots.
  - rewrite <- (uri_encode_id pg_AbsPathChars (d ++ SLASH :: h) Hchars).
    apply (location_relative_path_evicted rq rp s a d seg); assumption.
Qed.

Lemma normal_form_examples :
  strip_fragment (B [47;100;47;118]) = B [47;100;47;118] /\ remove_dot_segments (B [47;100;47;118]) = B [47;100;47;118] /\
  forallb pg_AbsPathChars (B [47;100;47;118]) = true /\ map lower w_http = w_http /\ map lower w_auth = w_auth /\
  u_path (rq_url w_rq) = B [47;100] ++ SLASH :: B [117] /\ url_is_relative (B [118]) = true /\ strip_fragment (B [118]) = B [118].
Proof. repeat split; vm_compute; reflexivity. Qed.

Lemma method_token_examples :
  method_of_image true [80;79;83;84] = pg_METHOD_POST /\ method_of_image true [112;117;116] = pg_METHOD_PUT /\
  method_of_image false [112;117;116] = pg_METHOD_OTHER /\ method_of_image true [80;65;84;67;72] = pg_METHOD_OTHER /\
  purges_others (method_of_image true [79;80;84;73;79;78;83]) = false.
Proof. vm_compute. repeat split. Qed.

(* the set absolutePath() leaves verbatim is PathChars plus the query delimiter '?' (path_ holds path and query) *)
Lemma abs_path_chars_spec (c : N) : c < 256 -> pg_AbsPathChars c = pg_PathChars c || (c =? 63).
Proof.
  intros Hc.
  assert (H : forall c, c < 256 -> (fun c => Bool.eqb (pg_AbsPathChars c) (pg_PathChars c || (c =? 63))) c = true)
    by (apply forallb_bytes; vm_compute; reflexivity).
  specialize (H c Hc). cbn beta in H. now apply Bool.eqb_prop in H.
Qed.
