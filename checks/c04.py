"""C04: hop-by-hop and proxy credential headers are not relayed (end to end through the real squid)."""
import concurrent.futures, json, random
from vlib import std, lab, common

PID = "C04"
META = {
    "text": "Theorems (Properties_C04.v, closed under the global context): Squid's Connection-list reader (strListGetItem loop with quoting, delimiter skipping and trimming) reads every token list as comma-split / OWS-trimmed / empty-elements-ignored, membership is the case-insensitive element match (induction over the text, all lengths); for ALL header blocks the response filter relays no field that is hop-by-hop in the registered-header table (regenerated from the code each run), is Proxy-Authenticate, is named by the joined Connection value, or bears a standard hop-by-hop name in any letter case; for ALL header blocks and configurations the request filter never copies Connection/TE/Keep-Alive/Proxy-Authenticate/Trailer/Transfer-Encoding/Upgrade/Proxy-Connection and copies Proxy-Authorization only to a non-origin peer with login=PASS*. The Connection-named-request-field statement is proved for the default branch (_partial) and REFUTED at full strength (witness Connection: Authorization) — known finding C04-conn-named-registered. On the revalidation path (HttpHeader::update as repaired by /repo 5d5369d, model shared with C14) the stored Connection entries survive an origin 304 and, for ALL stored and 304 header sets, no stored field they nominate and nothing hop-by-hop of the 304 is relayed (former finding C04-reval-stored-hop-fields, now a theorem and a regression scenario). Tie: header table regenerated; extracted model diffed against the real squid binary (built from the working tree) between a scripted origin and client on generated header sets.",
    "note": "partial: the theorems are about the transcribed filter functions (HopModel.v); that the event-driven proxy applies exactly these filters on every path rests on the end-to-end correspondence (forward-proxy GET/OPTIONS misses). Trusted: Coq kernel, extraction, gen/gen_hdrtable.cc, vlib/lab.py stubs.",
    "technique": "Coq proof (induction on list text; case analysis on the header-id switch with ids normalised against the regenerated table; vm_compute table sweeps) + end-to-end differential correspondence of the extracted model against the running squid + independent oracle",
}

EXT = ["X-Foo", "X-Bar", "Xyz", "X-Long-Extension-Name", "Foo", "X-A"]
REQ_STD = {"Keep-Alive": "timeout=5, max=10", "TE": "trailers", "Trailer": "X-T", "Upgrade": "verif/1.0",
           "Proxy-Connection": "keep-alive", "Proxy-Authorization": "Basic dXNlcjpwdw==", "Proxy-Authenticate": "Basic realm=\"q\""}
REQ_E2E = {"Accept": "text/x-verif", "Cookie": "k=v1", "Accept-Language": "tlh", "User-Agent": "verif/1"}
REQ_SPECIAL = {"Authorization": "Basic YTpi", "If-None-Match": "\"abc\"", "If-Modified-Since": "Tue, 15 Sep 2026 10:00:00 GMT",
               "Front-End-Https": "On"}
RESP_STD = {"Keep-Alive": "timeout=5, max=10", "Trailer": "X-T", "Upgrade": "verif/1.0", "Proxy-Connection": "keep-alive",
            "Proxy-Authenticate": "Basic realm=\"q\"", "TE": "trailers", "Proxy-Authorization": "Basic dXNlcjpwdw=="}
RESP_E2E = {"ETag": "\"e1\"", "Content-Type": "text/x-verif", "X-Powered-By": "verif", "Set-Cookie": "s=1", "Warning": "199 v \"w\""}
SEPS = [",", ", ", " ,", ",,", ", ,", "\t,", " , "]


def randcase(rng, s):
    k = rng.random()
    if k < 0.4: return s
    if k < 0.6: return s.lower()
    if k < 0.8: return s.upper()
    return "".join(c.upper() if rng.random() < 0.5 else c.lower() for c in s)


def gen_one(rng, direction, k):
    std_pool = REQ_STD if direction == "req" else RESP_STD
    e2e_pool = REQ_E2E if direction == "req" else RESP_E2E
    hs = []
    for nm in rng.sample(EXT, rng.randrange(0, 5)):
        hs.append([randcase(rng, nm), "v%d-%d" % (k, len(hs))])
        if rng.random() < 0.15:
            hs.append([randcase(rng, nm), "w%d-%d" % (k, len(hs))])
    for nm in rng.sample(sorted(std_pool), rng.randrange(0, 4)):
        hs.append([randcase(rng, nm), std_pool[nm]])
    for nm in rng.sample(sorted(e2e_pool), rng.randrange(0, 3)):
        hs.append([randcase(rng, nm), e2e_pool[nm]])
    special = False
    if direction == "req" and rng.random() < 0.25:
        nm = rng.choice(sorted(REQ_SPECIAL))
        hs.append([randcase(rng, nm), REQ_SPECIAL[nm]])
        special = True
    names = [h[0] for h in hs]
    nconn = rng.choice([0, 1, 1, 1, 2, 2, 3])
    for _ in range(nconn):
        cand = [n for n in names if n.lower() not in REQ_SPECIAL_L or rng.random() < 0.5]
        listed = [randcase(rng, n) for n in rng.sample(cand, min(len(cand), rng.randrange(0, 4)))] if cand else []
        if rng.random() < 0.4:
            listed.append(rng.choice(["close", "keep-alive", "Keep-Alive", "X-Not-Present", "TE"]))
        listed.append("x-u%d-%d" % (k, len(hs)))   # makes this Connection value distinguishable from Squid's own
        rng.shuffle(listed)
        val = ""
        if rng.random() < 0.2: val += rng.choice([",", " ,", ", "])
        for i, n in enumerate(listed):
            val += n
            if i + 1 < len(listed): val += rng.choice(SEPS)
        if rng.random() < 0.2: val += rng.choice([",", " ,", ", ,"])
        val = val.strip(" \t")
        hs.insert(rng.randrange(0, len(hs) + 1), [randcase(rng, "Connection"), val])
    rng.shuffle(hs)
    return {"dir": direction, "method": rng.choice(["GET", "GET", "GET", "OPTIONS"]) if direction == "req" else "GET",
            "headers": hs}


REQ_SPECIAL_L = set(n.lower() for n in REQ_SPECIAL)


def gen_reval(rng, k):
    """a cacheable 200 (`headers`) later revalidated by an origin 304 carrying `fresh` fields"""
    base = gen_one(rng, "resp", k)
    # (Set-Cookie is deliberately removed from hits by buildReplyHeader; it is not a hop-by-hop matter)
    old = [h for h in base["headers"] if h[0].lower() not in ("etag", "set-cookie")]
    old += [["ETag", "\"r%d\"" % k], ["Cache-Control", "max-age=1000"]]
    f = gen_one(rng, "resp", k + 100000)
    fresh = [h for h in f["headers"] if h[0].lower() not in ("etag", "set-cookie", "content-type")]
    # some 304 fields replace stored ones of the same name
    for n, v in old:
        if n.lower() not in ("connection", "etag", "cache-control") and rng.random() < 0.3:
            fresh.append([randcase(rng, n), "n" + v])
    oldpairs = set((n.lower(), v) for n, v in old)
    for h in fresh:                            # keep (name, value) pairs of the two messages distinguishable
        if (h[0].lower(), h[1]) in oldpairs and h[0].lower() != "connection":
            h[1] = "n" + h[1]
    fresh.append(["X-Rev", "rev%d" % k])      # guarantees that the stored header is really updated
    rng.shuffle(fresh)
    return {"dir": "reval", "method": "GET", "headers": old, "fresh": fresh}


def gen_scenarios(rng, n):
    out = []
    for k in range(n):
        out.append(gen_reval(rng, k) if k % 4 == 3 else gen_one(rng, "req" if k % 2 == 0 else "resp", k))
    return out


def hexs(s):
    b = s.encode("latin1")
    return b.hex() if b else "-"


def to_case(s):
    hs = " ".join("%s:%s" % (hexs(n), hexs(v)) for n, v in s["headers"])
    if s["dir"] == "resp":
        return "hop.resp " + hs
    if s["dir"] == "reval":
        return "hop.reval " + hs + " / " + " ".join("%s:%s" % (hexs(n), hexs(v)) for n, v in s["fresh"])
    return "hop.req %d %s" % (1 if s["method"] in ("OPTIONS", "TRACE") else 0, hs)


_state = {}


def _one(args):
    sq, org, s, rid = args
    hs = s["headers"]
    if s["dir"] == "req":
        url = org.url({"body": "ok"}, rid)
        r, raw = lab.get(sq.port, url, headers=[(n, v) for n, v in hs], method=s["method"])
        arr = org.arrivals(rid)
        if not arr:
            return "noarrival %s" % (r.status if r else "none")
        got = [(n.lower(), v) for n, v in arr[0]["headers"]]
    elif s["dir"] == "reval":
        url = org.url({"body": "ok", "headers": hs, "nth": {"2": {"status": 304, "headers": s["fresh"]}}}, rid)
        r, raw = lab.get(sq.port, url)
        if r is None or r.status != 200:
            return "noreply %s" % (r.status if r else "none")
        r, raw = lab.get(sq.port, url, headers=[("Cache-Control", "max-age=0")])
        if r is None or r.status != 200 or len(org.arrivals(rid)) != 2:
            return "noreval %s arrivals=%d" % (r.status if r else "none", len(org.arrivals(rid)))
        got = [(n.lower(), v) for n, v in r.headers]
        hs = hs + s["fresh"]
    else:
        url = org.url({"body": "ok", "headers": hs}, rid)
        r, raw = lab.get(sq.port, url)
        if r is None or r.status != 200:
            return "noreply %s" % (r.status if r else "none")
        got = [(n.lower(), v) for n, v in r.headers]
    kept = []
    pool = list(got)
    for i, (n, v) in enumerate(hs):
        key = (n.lower(), v.strip())
        if key in pool:
            pool.remove(key)
            kept.append(i)
    return "kept " + (",".join(map(str, kept)) if kept else "-")


def run_impl(L, scenarios):
    out = []
    for i in range(0, len(scenarios), 600):
        out += _run_batch(L, scenarios[i:i + 600])
    return out


def _run_batch(L, scenarios):
    # A fresh squid every 1200 scenarios and a memory cache that cannot fill up within that many: the
    # revalidation direction needs the first response to be cached, and a non-shared memory cache that is full
    # does not keep new entries until its next maintenance pass (seen in the thorough tier after ~2300 scenarios
    # with cache_mem 8 MB: `noreval 304 arrivals=2`, a false alarm of this check, not a C04 violation).
    if "sq" in _state and _state["sq"].alive() and _state.get("since", 0) >= 1200:
        _state["sq"].stop()
    if "sq" not in _state or not _state["sq"].alive():
        if "org" not in _state:
            _state["org"] = L.origin()
            _state["n"] = 0
        _state["sq"] = L.squid(cache_mem="256 MB")
        _state["since"] = 0
    sq, org = _state["sq"], _state["org"]
    jobs = []
    for s in scenarios:
        _state["n"] += 1
        _state["since"] += 1
        jobs.append((sq, org, s, "c%d" % _state["n"]))
    with concurrent.futures.ThreadPoolExecutor(max_workers=8) as ex:
        return list(ex.map(_one, jobs))


STD_NAMES = {"connection", "keep-alive", "te", "trailer", "upgrade", "proxy-connection", "proxy-authenticate"}


def oracle(s, obs):
    """The property on what squid did: no relayed field may be a standard hop-by-hop field, Proxy-Authorization
    (to an origin), Transfer-Encoding, or named (case-insensitively; comma list, OWS, empty elements) by any
    received Connection field."""
    if not obs.startswith("kept"):
        return ("oracle:no-transaction", "the transaction did not complete: " + obs)
    kept = [] if obs == "kept -" else [int(x) for x in obs.split()[1].split(",")]
    hs = s["headers"] + s.get("fresh", [])
    def names_of(fields):
        out = set()
        for n, v in fields:
            if n.lower() == "connection":
                for el in v.split(","):
                    el = el.strip(" \t").lower()
                    if el:
                        out.add(el)
        return out
    # a Connection field nominates fields of ITS OWN message: on the revalidation path the stored 200 and the
    # 304 are two received messages
    nold = len(s["headers"])
    named_old = names_of(s["headers"])
    named_new = names_of(s.get("fresh", []))
    for i in kept:
        n = hs[i][0].lower()
        if n in STD_NAMES:
            return ("oracle:std-hop-forwarded:" + n, "standard hop-by-hop field %s was relayed (%s direction)" % (hs[i][0], s["dir"]))
        if n == "proxy-authorization" and s["dir"] == "req":
            return ("oracle:proxy-authorization-to-origin", "the client's Proxy-Authorization reached the origin")
        if n == "transfer-encoding":
            return ("oracle:transfer-encoding-copied", "a received Transfer-Encoding field was copied")
        if s["dir"] == "reval":
            if i < nold and n in named_old:
                return ("oracle:reval-stored-conn-named-relayed",
                        "field %s of the stored response was named by that response's Connection header but is relayed "
                        "after the revalidation" % hs[i][0])
            if i >= nold and n in named_new:
                return ("oracle:reval-304-conn-named-relayed",
                        "field %s of the 304 is named by the 304's Connection header but was merged and relayed" % hs[i][0])
        elif n in named_old:
            return ("oracle:conn-named-forwarded:" + n,
                    "field %s is named by a received Connection header but was relayed (%s direction)" % (hs[i][0], s["dir"]))
    return None


def run(res, tier):
    res.rule = ("random request / origin-response header sets: 0-4 extension fields (random letter case, duplicates), 0-3 standard "
                "hop-by-hop fields, 0-2 end-to-end fields, sometimes a field with its own forwarding rule (Authorization, "
                "If-None-Match, If-Modified-Since, Front-End-Https), and 0-3 Connection fields naming random subsets in random "
                "case with OWS, empty list elements, leading/trailing commas; sent through the real squid (forward proxy, "
                "miss); non-trivial = at least one Connection field naming at least one present field, or a standard hop-by-hop field present")
    std.run_lab(res, PID, tier, area="hop", gens=["hdrtable"], gen_scenarios=gen_scenarios, run_impl=run_impl,
                to_case=to_case, oracle=oracle, corr_name="HopModel (req_kept/resp_kept) vs the running squid",
                n_quick=240, n_thorough=6000, seed_salt=4,
                kind_fn=lambda s, o: s["dir"] + ":" + o.split()[0],
                nontrivial_fn=lambda s, o: any(n.lower() in STD_NAMES for n, _ in s["headers"]))
    _state.clear()
