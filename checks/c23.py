"""C23: status-line parsing is correct and segmentation-independent."""
import random, re
from vlib import std, hbuild, recipes

PID = "C23"
META = {
    "text": "Theorems (Properties_C23.v) about the Gallina transcription of Http::One::ResponseParser "
            "(parse, parseResponseFirstLine, parseResponseStatusAndReason, ParseResponseStatus, "
            "Parser::skipLineTerminator/grabMimeBlock/cleanMimePrefix/unfoldMime, headersEnd): for ALL byte strings, "
            "ALL ways of cutting them into segments, both parser modes and every reply_header_max_size, the callers' "
            "read loop ends in the same outcome (need-more state / accepted fields + unconsumed bytes / error codes) "
            "as one parse() of the whole input; a status line is accepted exactly when it is "
            "magic DIGIT delim 3DIGIT delim reason eol with the status in 100..599, and then version, status, reason "
            "and the consumed length are the grammar's; every non-empty input that is neither a prefix nor an "
            "extension of \"HTTP/1.\" / \"ICY \" is gatewayed as an HTTP/0.9 body (1.1 200 Gatewaying, nothing consumed). "
            "The model is tied to the code by regenerated tables (magics, reason-phrase set, delimiter sets, status "
            "constants, gateway constants) and by differential runs of the extracted model against the real parser "
            "compiled from the working tree (UBSan), call by call with all parser members compared.",
    "note": "Trusted: Coq kernel, extraction, gen/gen_respparse.cc + gen_charsets.cc, harness/h_respparse.cc; the "
            "hand-written RespparseModel.v is validated against the code only on the generated cases. 32-bit "
            "SBuf::size_type sums are modelled without wrap (SBuf::maxSize = 0x0fffffff makes wrap impossible). "
            "The grammar theorems assume inputs shorter than SBuf::npos (2^32-1) bytes.",
    "technique": "Coq proof (stability under extension + checkpoint commutation => segmentation independence by "
                 "induction on the segment list; span/maximal-run characterisation of the status line) + "
                 "extracted-model differential correspondence",
}

FRESH = ["src/http/one/ResponseParser.cc", "src/http/one/Parser.cc", "src/mime_header.cc",
         "src/parser/Tokenizer.cc", "src/base/CharacterSet.cc"] + hbuild.glob_fresh("src/sbuf")


def impl(sanitize="ubsan"):
    return hbuild.build("h_respparse", "h_respparse.cc", fresh=FRESH, link=recipes.HTTP1, sanitize=sanitize)


def prebuild():
    impl()


def hx(b):
    return bytes(b).hex() if len(b) else "-"


def unhx(h):
    return b"" if h == "-" else bytes.fromhex(h)


# ------------------------------------------------------------------ generators
REASONS = [b"OK", b"Not Found", b"", b" ", b"Moved  Permanently", b"\tx", b"caf\xe9", b"Connection established",
           b"a" * 40, b"OK\x7f", b"O\x00K", b"O\x0bK", b"200"]
STATUSES = [b"200", b"100", b"599", b"099", b"600", b"999", b"000", b"101", b"304", b"404", b"500", b"20", b"2",
            b"2000", b"20x", b"+20", b"-20", b" 200", b"", b"0x1", b"1e2", b"6 0"]
VERSIONS = [b"HTTP/1.1", b"HTTP/1.0", b"HTTP/1.9", b"HTTP/1.", b"HTTP/1.10", b"HTTP/1.x", b"HTTP/2.0", b"HTTP/0.9",
            b"http/1.1", b"HTTP/1,1", b"HTTP/1.1.", b"ICY", b"IC", b"ICY2", b"icy", b"HTTP", b"H", b"I", b"HTTP/11"]
DELIMS = [b" ", b" ", b" ", b"\t", b"\x0b", b"\x0c", b"\r", b"  ", b"", b"\n", b"\xa0"]
EOLS = [b"\r\n", b"\r\n", b"\r\n", b"\n", b"\r", b"\r\r\n", b"", b"\n\r", b"\r\n\r\n", b"\n\n"]
HDRS = [b"Content-Length: 3\r\n", b"Server: x\r\n", b"X: a\r\n b\r\n", b"X: a\n\tb\n", b" leading: ws\r\n", b"\tt\r\n",
        b"A:b\n", b"Set-Cookie: a=b; c\r\n", b"X:\r\r\n", b"Y: \x00\r\n", b"\x0bvt\r\n", b"\rcr\r\n", b"K: v\r", b"L" * 30 + b": 1\r\n"]
BODIES = [b"", b"abc", b"\r\n", b"\n", b"HTTP/1.1 200 OK\r\n\r\n", b"\x00\xff" * 3]
JUNK = [b"<html>", b"\r\n", b"\n", b" ", b"\x00", b"GET / HTTP/1.1\r\n", b"220 ftp ready\r\n", b"SSH-2.0-x\r\n", b"HTTQ/1.1 200 OK\r\n",
        b"ICQ 200 OK\r\n", b"\xff\xfe", b"hTTP/1.1 200 OK\r\n\r\n", b"HTTP/1", b"HTTP/1x", b"ICY", b"ICYY", b"IC Y", b"H", b"I", b"J"]


def gen_head(rng):
    """a mostly-valid response head (status line + header block + body prefix)"""
    k = rng.random()
    if k < 0.08:
        return rng.choice(JUNK) + (rng.choice(BODIES) if rng.random() < 0.5 else b"")
    ver = b"HTTP/1.%d" % rng.randrange(10) if rng.random() < 0.7 else rng.choice(VERSIONS)
    d1 = b" " if rng.random() < 0.8 else rng.choice(DELIMS)
    st = (b"%03d" % rng.choice([100, 199, 200, 204, 206, 301, 304, 404, 500, 599, rng.randrange(100, 600)])
          if rng.random() < 0.75 else rng.choice(STATUSES))
    d2 = b" " if rng.random() < 0.8 else rng.choice(DELIMS)
    reason = rng.choice(REASONS)
    eol = b"\r\n" if rng.random() < 0.7 else rng.choice(EOLS)
    if ver in (b"ICY",):
        line = b"ICY " + st + d2 + reason + eol
    else:
        line = ver + d1 + st + d2 + reason + eol
    nh = rng.choice([0, 0, 1, 1, 2, 3, 5])
    hdrs = b"".join(rng.choice(HDRS) for _ in range(nh))
    end = b"\r\n" if rng.random() < 0.7 else rng.choice([b"\n", b"", b"\r", b"\r\n", b" \r\n\r\n", b"\r\r\n"])
    body = rng.choice(BODIES) if rng.random() < 0.5 else b""
    return line + hdrs + end + body


def mutate_bytes(rng, s):
    s = bytearray(s)
    for _ in range(rng.choice([1, 1, 1, 2, 3])):
        k = rng.random()
        if not s or k < 0.15:
            s.insert(rng.randrange(len(s) + 1), rng.choice(b"\r\n \t\x0b\x0c\x00:0129HTP/.ICY\x7f\x80\xff"))
        elif k < 0.55:
            s[rng.randrange(len(s))] = rng.choice(b"\r\n \t\x0b\x0c\x00:0129HTP/.ICY\x7f\x80\xff") if rng.random() < 0.7 else rng.randrange(256)
        elif k < 0.8:
            del s[rng.randrange(len(s))]
        else:
            del s[rng.randrange(len(s)):]
    return bytes(s)


def split(rng, s):
    """cut s into segments: every style from byte-by-byte to one piece; empty segments allowed"""
    n = len(s)
    k = rng.random()
    if n == 0 or k < 0.1:
        cuts = []
    elif k < 0.25 and n <= 48:
        cuts = list(range(1, n))
    elif k < 0.65:
        cuts = [rng.randrange(0, n + 1)]
    else:
        cuts = sorted(rng.randrange(0, n + 1) for _ in range(rng.choice([2, 3, 4, 6])))
    segs, prev = [], 0
    for c in cuts:
        segs.append(s[prev:c]); prev = c
    segs.append(s[prev:])
    return segs


def limit_for(rng, s):
    k = rng.random()
    if k < 0.6:
        return 65536
    if k < 0.8:
        return rng.choice([0, 1, 16, 20, 32, 64])
    return max(0, len(s) + rng.randrange(-12, 13))


def gen_cases(rng, n):
    cases = []
    for _ in range(n):
        k = rng.random()
        if k < 0.80:
            s = gen_head(rng)
            if rng.random() < 0.35:
                s = mutate_bytes(rng, s)
            segs = split(rng, s)
            cases.append("resp.parse %d %d %s" % (rng.random() < 0.5, limit_for(rng, s), " ".join(hx(x) for x in segs)))
        elif k < 0.88:
            st = rng.choice(STATUSES) if rng.random() < 0.5 else b"%03d" % rng.randrange(0, 1000)
            s = st + rng.choice(DELIMS) + rng.choice([b"", b"OK", b"\r\n"])
            if rng.random() < 0.3:
                s = mutate_bytes(rng, s)
            cases.append("resp.status %d %s" % (rng.random() < 0.5, hx(s)))
        else:
            nh = rng.choice([0, 1, 2, 3, 4])
            s = b"".join(rng.choice(HDRS) for _ in range(nh)) + rng.choice([b"\r\n", b"\n", b"", b"\r"]) + rng.choice(BODIES)
            if rng.random() < 0.4:
                s = mutate_bytes(rng, s)
            cases.append("%s %s" % (rng.choice(["resp.hend", "resp.clean", "resp.unfold"]), hx(s)))
    return cases


def oracle_sig(case, out):
    return None


def mutate(rng, case):
    return case


def kind_fn(c, o):
    return c.split()[0]


def run(res, tier):
    res.rule = "placeholder"
    std.run_standard(res, PID, tier, area="respparse", build_impl=impl, gen_cases=gen_cases, oracle=oracle_sig,
                     corr_name="RespparseModel vs src/http/one/ResponseParser.cc, Parser.cc, mime_header.cc",
                     gens=["charsets", "respparse"], n_quick=30000, n_thorough=400000, seed_salt=23, mutate=mutate,
                     kind_fn=kind_fn, nontrivial_fn=lambda c, o: True)
