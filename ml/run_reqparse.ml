(* handlers for the reqparse area (Http::One::RequestParser and its caller's read loop) *)
let stage_name = function SNone -> "N" | SFirst -> "F" | SMime -> "M" | SDone -> "D"

let obs (ok : bool) (s : rst) (rem : n list) (unfed : n list) : string =
  let kind = if needs_more s then "M" else if ok then "A" else "R" in
  String.concat "," [
    kind; stage_name (r_stage s); string_of_n (r_code s); string_of_n (r_mid s); hex_of_bytes (r_mimg s);
    hex_of_bytes (r_uri s); (if r_http s then "1" else "0");
    string_of_n (r_major s) ^ "." ^ string_of_n (r_minor s);
    hex_of_bytes (r_mime s); string_of_n (first_line_size s); hex_of_bytes rem; hex_of_bytes unfed ]

let () =
  reg "rp.one" (fun [relaxed; limit; inp] ->
      let ((ok, s), rem) = do_parse (relaxed = "1") (n_of_string limit) rst0 (bytes_of_hex inp) in
      obs ok s rem []);
  reg "rp.seg" (fun (relaxed :: limit :: segs) ->
      let r = (relaxed = "1") and l = n_of_string limit in
      let segs = List.map bytes_of_hex segs in
      let ((ok, s), rem) = do_parse r l rst0 (List.concat segs) in
      let (((ok2, s2), rem2), unfed) = drive_raw r l rst0 [] segs in
      "W=" ^ obs ok s rem [] ^ " I=" ^ obs ok2 s2 rem2 unfed);
  (* end-to-end prediction for C62: what the proxy does with a request head delivered as segments *)
  reg "rp.e2e" (fun (relaxed :: limit :: segs) ->
      match parse_segments (relaxed = "1") (n_of_string limit) (List.map bytes_of_hex segs) with
      | Done (_, _) -> "fwd"
      | Bad (c, _) -> "rej " ^ string_of_n c
      | More (_, _) -> "more");
  (* reply-head limit decision (HttpStateData::processReplyHeader -> grabMimeBlock) for the C62 reply half *)
  reg "resp.limit" (fun [limit; fls; buf] ->
      match resp_head_decision (n_of_string limit) (n_of_string fls) (bytes_of_hex buf) with
      | RHrelay _ -> "relay" | RHtoobig -> "toobig" | RHmore -> "more")
