(* SmpProofs.v — proofs for SmpModel.v (C18, C19). *)
Require Import SquidV.Bytes SquidV.RwlockModel SquidV.SmpModel.
Require Import ZifyBool ZifyN ZifyNat Lia.
Local Open Scope N_scope.

Lemma lock_unlock_shared : forall l l', lockShared l = (l', true) -> unlockShared l' = l.
Proof.
  intros [r w a] l' H. unfold lockShared in H. cbn [wr ap rd] in H.
  destruct (negb w || a); inversion H; subst. unfold unlockShared; cbn [rd wr ap].
  f_equal. lia.
Qed.

(* ================= population of processes on one anchor ================= *)
Fixpoint cnt (f : hold -> bool) (hs : list hold) : N :=
  match hs with [] => 0 | h :: r => (if f h then 1 else 0) + cnt f r end.
Definition isR h := match h with HRead => true | _ => false end.
Definition isW h := match h with HWrite | HAppend => true | _ => false end.
Definition isA h := match h with HAppend => true | _ => false end.

Lemma cnt_hset : forall f hs p h, p < lenN hs ->
  cnt f (hset hs p h) + (if f (hget hs p) then 1 else 0) = cnt f hs + (if f h then 1 else 0).
Proof.
  unfold hset, hget. intros f hs; induction hs as [|y r IH]; intros p h Hp; cbn [lenN] in Hp; [lia|].
  cbn [updN nthN]. destruct (p =? 0) eqn:E.
  - cbn [cnt]. lia.
  - cbn [cnt]. specialize (IH (N.pred p) h). assert (N.pred p < lenN r) by lia. specialize (IH H). lia.
Qed.

Lemma hget_hset_same : forall hs p h, p < lenN hs -> hget (hset hs p h) p = h.
Proof.
  unfold hset, hget. induction hs as [|y r IH]; intros p h Hp; cbn [lenN] in Hp; [lia|].
  cbn [updN]. destruct (p =? 0) eqn:E; cbn [nthN]; rewrite E; [reflexivity|]. apply IH. lia.
Qed.
Lemma hget_hset_other : forall hs p q h, p <> q -> hget (hset hs p h) q = hget hs q.
Proof.
  unfold hset, hget. induction hs as [|y r IH]; intros p q h Hpq; [reflexivity|].
  cbn [updN]. destruct (p =? 0) eqn:E; cbn [nthN]; destruct (q =? 0) eqn:F; try reflexivity; try lia.
  apply IH. lia.
Qed.
Lemma lenN_hset : forall hs p h, lenN (hset hs p h) = lenN hs.
Proof.
  unfold hset. induction hs as [|y r IH]; intros p h; [reflexivity|].
  cbn [updN]. destruct (p =? 0); cbn [lenN]; [reflexivity| now rewrite IH].
Qed.
Lemma cnt_pos_exists : forall f hs, 0 < cnt f hs -> exists p, f (hget hs p) = true.
Proof.
  induction hs as [|y r IH]; cbn [cnt]; intros H; [lia|].
  destruct (f y) eqn:E.
  - exists 0. unfold hget. cbn. exact E.
  - destruct IH as [p Hp]; [lia|]. exists (p + 1). unfold hget in *. cbn [nthN].
    replace (p + 1 =? 0) with false by lia. replace (N.pred (p + 1)) with p by lia. exact Hp.
Qed.
Lemma cnt_pos_of_holder : forall f hs k, f HNone = false -> f (hget hs k) = true -> 0 < cnt f hs.
Proof.
  intros f hs; induction hs as [|z r IH]; intros k Hn Hk.
  - unfold hget in Hk; cbn in Hk; congruence.
  - cbn [cnt]. unfold hget in Hk; cbn [nthN] in Hk. destruct (k =? 0).
    + rewrite Hk; lia.
    + specialize (IH (N.pred k) Hn Hk). lia.
Qed.

Lemma cnt_two : forall f hs p q, f HNone = false -> p <> q ->
  f (hget hs p) = true -> f (hget hs q) = true -> 2 <= cnt f hs.
Proof.
  intros f hs; induction hs as [|y r IH]; intros p q Hn Hpq Hp Hq.
  - unfold hget in Hp. cbn in Hp. congruence.
  - cbn [cnt]. unfold hget in Hp, Hq. cbn [nthN] in Hp, Hq.
    destruct (p =? 0) eqn:Ep; destruct (q =? 0) eqn:Eq; try lia.
    + rewrite Hp. pose proof (cnt_pos_of_holder f r (N.pred q) Hn Hq). lia.
    + rewrite Hq. pose proof (cnt_pos_of_holder f r (N.pred p) Hn Hp). lia.
    + assert (N.pred p <> N.pred q) by lia.
      pose proof (IH (N.pred p) (N.pred q) Hn H Hp Hq). lia.
Qed.

Record pinv (s : pop) : Prop := mkPinv {
  i_rd : rd (lk (pe s)) = cnt isR (ph s);
  i_wr : (if wr (lk (pe s)) then 1 else 0) = cnt isW (ph s);
  i_ap : (if ap (lk (pe s)) then 1 else 0) = cnt isA (ph s);
  i_apw : ap (lk (pe s)) = true -> wr (lk (pe s)) = true;
  i_excl : wr (lk (pe s)) = true -> ap (lk (pe s)) = false -> rd (lk (pe s)) = 0;
  i_used : wr (lk (pe s)) = true -> used (pe s) = true;
  i_ver : forall p, isW (hget (ph s) p) = true -> ever (pe s) = p
}.

Lemma cnt_repeat_none : forall f n, f HNone = false -> cnt f (repeat HNone n) = 0.
Proof. intros f n H; induction n; cbn [repeat cnt]; [reflexivity| rewrite H, IHn; reflexivity]. Qed.

Lemma hget_repeat : forall n p, hget (repeat HNone n) p = HNone.
Proof.
  unfold hget. induction n; intros p; cbn [repeat nthN]; [reflexivity|].
  destruct (p =? 0); [reflexivity| apply IHn].
Qed.

Lemma pinv_init : forall n, pinv (pinit n).
Proof.
  intros n. unfold pinit. constructor; cbn [pe ph lk e_empty l_idle rd wr ap used ever];
    try rewrite cnt_repeat_none by reflexivity; try reflexivity; try discriminate.
  intros p H. rewrite hget_repeat in H. discriminate.
Qed.
