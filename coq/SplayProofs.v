(* SplayProofs.v — theorems about the model of include/splay.h (SplayModel.v),
   for an arbitrary value type and an arbitrary comparator.

   1. [splay_go]: the same loop without accumulators; [splay_loop_go] shows the
      accumulator version (the one transcribed from the code) computes it.
   2. [splay_spec]: splay() keeps the in-order sequence, leaves in
      splayLastResult the comparison with the new root, and stops at a
      boundary: if the root compares "less" its in-order predecessor compares
      "greater", and symmetrically.
   3. With a comparator whose sign is monotone (non-increasing) along the
      in-order sequence: find succeeds iff a stored element compares equal;
      insert puts the value between the "greater" and the "less" elements;
      remove deletes exactly the element that compares equal. *)
Require Import SquidV.Bytes SquidV.SplayModel.
Local Open Scope Z_scope.

Section SplayProofs.
Context {V : Type}.
Variable cmp : V -> Z.

(* ---------- the loop in direct style ---------- *)
Fixpoint splay_go (t : tree V) : option (tree V * V * tree V * Z) :=
  match t with
  | Leaf => None
  | Node l x r =>
      let s := cmp x in
      if s <? 0 then
        match l with
        | Leaf => Some (Leaf, x, r, s)
        | Node ll y lr =>
            let s2 := cmp y in
            if s2 <? 0 then
              match ll with
              | Leaf => Some (Leaf, y, Node lr x r, s2)
              | Node _ _ _ =>
                  match splay_go ll with
                  | Some (a, z, b, s') => Some (a, z, Node b y (Node lr x r), s')
                  | None => None
                  end
              end
            else
              match splay_go l with
              | Some (a, z, b, s') => Some (a, z, Node b x r, s')
              | None => None
              end
        end
      else if s >? 0 then
        match r with
        | Leaf => Some (l, x, Leaf, s)
        | Node rl y rr =>
            let s2 := cmp y in
            if s2 >? 0 then
              match rr with
              | Leaf => Some (Node l x rl, y, Leaf, s2)
              | Node _ _ _ =>
                  match splay_go rr with
                  | Some (a, z, b, s') => Some (Node (Node l x rl) y a, z, b, s')
                  | None => None
                  end
              end
            else
              match splay_go r with
              | Some (a, z, b, s') => Some (Node l x a, z, b, s')
              | None => None
              end
        end
      else Some (l, x, r, s)
  end.

Lemma buildL_snoc (L : @lctx V) l x t : buildL (L ++ [(l, x)]) t = buildL L (Node l x t).
Proof. induction L as [|[l0 x0] L IH]; cbn [buildL app]; [reflexivity| now rewrite IH]. Qed.

Lemma buildR_snoc (R : @rctx V) x r t : buildR (R ++ [(x, r)]) t = buildR R (Node t x r).
Proof. induction R as [|[x0 r0] R IH]; cbn [buildR app]; [reflexivity| now rewrite IH]. Qed.

Definition first_neg (l : list V) : Prop := match l with [] => True | y :: _ => cmp y < 0 end.
Definition last_pos (l : list V) : Prop := match rev l with [] => True | y :: _ => cmp y > 0 end.

Lemma last_pos_snoc l y : cmp y > 0 -> last_pos (l ++ [y]).
Proof. intros H. unfold last_pos. rewrite rev_app_distr. exact H. Qed.

Lemma last_pos_app_r a x b : last_pos (x :: b) -> last_pos (a ++ x :: b).
Proof.
  unfold last_pos. rewrite rev_app_distr. cbn [rev].
  destruct (rev b ++ [x]) as [|y q] eqn:E; [destruct (rev b); discriminate|].
  cbn [app]. auto.
Qed.

Lemma last_pos_cons x b : b <> [] -> last_pos b -> last_pos (x :: b).
Proof.
  intros Hb. unfold last_pos. cbn [rev].
  destruct (rev b) as [|y q] eqn:E.
  - apply (f_equal (@rev V)) in E. rewrite rev_involutive in E. cbn in E. congruence.
  - cbn [app]. auto.
Qed.

Lemma inorder_nil (t : tree V) : inorder t = [] -> t = Leaf.
Proof. destruct t as [|l x r]; [reflexivity|]. cbn [inorder]. intros H. destruct (inorder l); discriminate. Qed.

Lemma inorder_length (t : tree V) : length (inorder t) = tree_size t.
Proof.
  induction t as [|l IHl x r IHr]; cbn [inorder tree_size length]; [reflexivity|].
  rewrite app_length. cbn [length]. lia.
Qed.

(* the result of one splay: (left tree a, new root z, right tree b, splayLastResult s) *)
Definition go_ok (t a : tree V) (z : V) (b : tree V) (s : Z) : Prop :=
  inorder t = inorder a ++ z :: inorder b /\
  s = cmp z /\
  (s < 0 -> last_pos (inorder a)) /\
  (s > 0 -> first_neg (inorder b)).

Lemma splay_go_spec_n (n : nat) : forall t, (tree_size t <= n)%nat -> t <> Leaf ->
  exists a z b s, splay_go t = Some (a, z, b, s) /\ go_ok t a z b s.
Proof.
  induction n as [|n IH]; intros t Hn Ht.
  - destruct t; [congruence| cbn [tree_size] in Hn; lia].
  - destruct t as [|l x r]; [congruence|]. clear Ht. cbn [tree_size] in Hn.
    cbn [splay_go].
    destruct (cmp x <? 0) eqn:E1.
    + apply Z.ltb_lt in E1.
      destruct l as [|ll y lr].
      * exists Leaf, x, r, (cmp x). split; [reflexivity|]. unfold go_ok. cbn [inorder app].
        repeat split; try lia; try (intros _; exact I).
      * cbn [tree_size] in Hn.
        destruct (cmp y <? 0) eqn:E2.
        -- apply Z.ltb_lt in E2.
           destruct ll as [|l3 w r3].
           ++ exists Leaf, y, (Node lr x r), (cmp y). split; [reflexivity|]. unfold go_ok. cbn [inorder app].
              repeat (rewrite <- app_assoc; cbn [app]).
              repeat split; try lia; try (intros _; exact I).
           ++ destruct (IH (Node l3 w r3)) as (a & z & b & s & G & Hi & Hs & Hl & Hf);
                [cbn [tree_size] in *; lia| discriminate|].
              rewrite G. exists a, z, (Node b y (Node lr x r)), s. split; [reflexivity|].
              unfold go_ok. cbn [inorder] in *. rewrite Hi.
              repeat split; try assumption.
              ** repeat (rewrite <- app_assoc; cbn [app]). reflexivity.
              ** intros Hp. destruct (inorder b) as [|b0 bs] eqn:Eb; cbn [app]; [cbn; lia|].
                 specialize (Hf Hp). exact Hf.
        -- apply Z.ltb_ge in E2.
           destruct (IH (Node ll y lr)) as (a & z & b & s & G & Hi & Hs & Hl & Hf);
             [cbn [tree_size] in *; lia| discriminate|].
           rewrite G. exists a, z, (Node b x r), s. split; [reflexivity|].
           unfold go_ok. cbn [inorder] in *. rewrite Hi.
           repeat split; try assumption.
           ** repeat (rewrite <- app_assoc; cbn [app]). reflexivity.
           ** intros Hp. destruct (inorder b) as [|b0 bs] eqn:Eb; cbn [app]; [cbn; lia|].
              specialize (Hf Hp). exact Hf.
    + apply Z.ltb_ge in E1.
      destruct (cmp x >? 0) eqn:E3.
      * apply Z.gtb_lt in E3.
        destruct r as [|rl y rr].
        -- exists l, x, Leaf, (cmp x). split; [reflexivity|]. unfold go_ok. cbn [inorder].
           repeat split; try lia; try (intros _; exact I).
        -- cbn [tree_size] in Hn.
           destruct (cmp y >? 0) eqn:E4.
           ++ apply Z.gtb_lt in E4.
              destruct rr as [|l3 w r3].
              ** exists (Node l x rl), y, Leaf, (cmp y). split; [reflexivity|]. unfold go_ok. cbn [inorder].
                 repeat (rewrite <- app_assoc; cbn [app]).
                 repeat split; try lia; try (intros _; exact I).
              ** destruct (IH (Node l3 w r3)) as (a & z & b & s & G & Hi & Hs & Hl & Hf);
                   [cbn [tree_size] in *; lia| discriminate|].
                 rewrite G. exists (Node (Node l x rl) y a), z, b, s. split; [reflexivity|].
                 unfold go_ok. cbn [inorder] in *. rewrite Hi.
                 repeat split; try assumption.
                 --- repeat (rewrite <- app_assoc; cbn [app]). reflexivity.
                 --- intros Hp. specialize (Hl Hp).
                     destruct (inorder a) as [|a0 as_] eqn:Ea.
                     +++ apply last_pos_snoc. lia.
                     +++ apply last_pos_app_r. apply last_pos_cons; [discriminate| exact Hl].
           ++ assert (E4' : cmp y <= 0) by (destruct (Z.gtb_spec (cmp y) 0); [discriminate| lia]).
              destruct (IH (Node rl y rr)) as (a & z & b & s & G & Hi & Hs & Hl & Hf);
                [cbn [tree_size] in *; lia| discriminate|].
              rewrite G. exists (Node l x a), z, b, s. split; [reflexivity|].
              unfold go_ok. cbn [inorder] in *. rewrite Hi.
              repeat split; try assumption.
              ** repeat (rewrite <- app_assoc; cbn [app]). reflexivity.
              ** intros Hp. specialize (Hl Hp).
                 destruct (inorder a) as [|a0 as_] eqn:Ea.
                 --- apply last_pos_snoc. lia.
                 --- apply last_pos_app_r. apply last_pos_cons; [discriminate| exact Hl].
      * assert (E0 : cmp x = 0) by (destruct (Z.gtb_spec (cmp x) 0); [discriminate| lia]).
        exists l, x, r, (cmp x). split; [reflexivity|]. unfold go_ok.
        repeat split; lia.
Qed.

Lemma splay_go_spec t : t <> Leaf ->
  exists a z b s, splay_go t = Some (a, z, b, s) /\ go_ok t a z b s.
Proof. apply (splay_go_spec_n (tree_size t)). lia. Qed.

(* the accumulator loop (the code) computes the direct-style function *)
Lemma splay_loop_go_n (n : nat) : forall t, (tree_size t <= n)%nat -> forall L R a z b s,
  splay_go t = Some (a, z, b, s) ->
  splay_loop cmp t L R = (Node (buildL L a) z (buildR R b), s).
Proof.
  induction n as [|n IH]; intros t Hn L R a z b s G.
  - destruct t; [discriminate| cbn [tree_size] in Hn; lia].
  - destruct t as [|l x r]; [discriminate|]. cbn [tree_size] in Hn.
    cbn [splay_go] in G. cbn [splay_loop].
    destruct (cmp x <? 0) eqn:E1.
    + destruct l as [|ll y lr].
      * inversion G; subst. reflexivity.
      * cbn [tree_size] in Hn.
        destruct (cmp y <? 0) eqn:E2.
        -- destruct ll as [|l3 w r3].
           ++ inversion G; subst. reflexivity.
           ++ destruct (splay_go (Node l3 w r3)) as [[[[a' z'] b'] s']|] eqn:G'; [|discriminate].
              inversion G; subst.
              rewrite (IH (Node l3 w r3) ltac:(cbn [tree_size] in *; lia) L (R ++ [(y, Node lr x r)]) _ _ _ _ G').
              rewrite buildR_snoc. reflexivity.
        -- destruct (splay_go (Node ll y lr)) as [[[[a' z'] b'] s']|] eqn:G'; [|discriminate].
           inversion G; subst.
           rewrite (IH (Node ll y lr) ltac:(cbn [tree_size] in *; lia) L (R ++ [(x, r)]) _ _ _ _ G').
           rewrite buildR_snoc. reflexivity.
    + destruct (cmp x >? 0) eqn:E3.
      * destruct r as [|rl y rr].
        -- inversion G; subst. reflexivity.
        -- cbn [tree_size] in Hn.
           destruct (cmp y >? 0) eqn:E4.
           ++ destruct rr as [|l3 w r3].
              ** inversion G; subst. reflexivity.
              ** destruct (splay_go (Node l3 w r3)) as [[[[a' z'] b'] s']|] eqn:G'; [|discriminate].
                 inversion G; subst.
                 rewrite (IH (Node l3 w r3) ltac:(cbn [tree_size] in *; lia) (L ++ [(Node l x rl, y)]) R _ _ _ _ G').
                 rewrite buildL_snoc. reflexivity.
           ++ destruct (splay_go (Node rl y rr)) as [[[[a' z'] b'] s']|] eqn:G'; [|discriminate].
              inversion G; subst.
              rewrite (IH (Node rl y rr) ltac:(cbn [tree_size] in *; lia) (L ++ [(l, x)]) R _ _ _ _ G').
              rewrite buildL_snoc. reflexivity.
      * inversion G; subst. reflexivity.
Qed.

(* ---------- splay(): what every caller may rely on ---------- *)
Theorem splay_spec t : t <> Leaf ->
  exists a z b, splay cmp t = (Node a z b, cmp z) /\
    inorder t = inorder a ++ z :: inorder b /\
    (cmp z < 0 -> last_pos (inorder a)) /\
    (cmp z > 0 -> first_neg (inorder b)).
Proof.
  intros Ht. destruct (splay_go_spec t Ht) as (a & z & b & s & G & Hi & Hs & Hl & Hf).
  exists a, z, b. unfold splay.
  rewrite (splay_loop_go_n (tree_size t) t (le_n _) [] [] a z b s G). cbn [buildL buildR].
  subst s. repeat split; assumption.
Qed.

Corollary splay_inorder t : t <> Leaf -> inorder (fst (splay cmp t)) = inorder t.
Proof.
  intros Ht. destruct (splay_spec t Ht) as (a & z & b & E & Hi & _). rewrite E. cbn [fst inorder]. now rewrite Hi.
Qed.

(* ---------- comparators with monotone sign ---------- *)
(* the sign of cmp never increases along the list: "greater" elements first,
   then "equal" ones, then "less" ones *)
Fixpoint mono (l : list V) : Prop :=
  match l with
  | [] => True
  | x :: r => Forall (fun y => Z.sgn (cmp y) <= Z.sgn (cmp x)) r /\ mono r
  end.

Lemma mono_app a b :
  mono (a ++ b) <-> mono a /\ mono b /\ (forall x y, In x a -> In y b -> Z.sgn (cmp y) <= Z.sgn (cmp x)).
Proof.
  induction a as [|x a IH]; cbn [app mono].
  - split; [intros H; repeat split; [exact H| intros x y []] | intros (_ & H & _); exact H].
  - rewrite IH. rewrite Forall_app. split.
    + intros ((Fa & Fb) & Ma & Mb & Hc). repeat split; try assumption.
      intros x0 y [<-|Hx] Hy; [rewrite Forall_forall in Fb; apply Fb, Hy| apply Hc; assumption].
    + intros ((Fa & Ma) & Mb & Hc). repeat split; try assumption.
      * rewrite Forall_forall. intros y Hy. apply Hc; [left; reflexivity| exact Hy].
      * intros x0 y Hx Hy. apply Hc; [right; exact Hx| exact Hy].
Qed.

Lemma mono_after x a b : mono (a ++ x :: b) -> forall y, In y b -> Z.sgn (cmp y) <= Z.sgn (cmp x).
Proof.
  rewrite mono_app. intros (_ & Mb & _) y Hy. cbn [mono] in Mb. destruct Mb as [F _].
  rewrite Forall_forall in F. apply F, Hy.
Qed.

Lemma mono_before x a b : mono (a ++ x :: b) -> forall y, In y a -> Z.sgn (cmp x) <= Z.sgn (cmp y).
Proof. rewrite mono_app. intros (_ & _ & Hc) y Hy. apply Hc; [exact Hy| left; reflexivity]. Qed.

Lemma last_pos_all a : mono a -> last_pos a -> Forall (fun y => cmp y > 0) a.
Proof.
  intros M Hl. unfold last_pos in Hl.
  destruct (rev a) as [|y q] eqn:E.
  - apply (f_equal (@rev V)) in E. rewrite rev_involutive in E. cbn in E. subst. constructor.
  - apply (f_equal (@rev V)) in E. rewrite rev_involutive in E. cbn [rev] in E. subst a.
    rewrite Forall_forall. intros w Hw. apply in_app_or in Hw. destruct Hw as [Hw|[<-|[]]]; [|exact Hl].
    pose proof (mono_before y (rev q) [] M w Hw) as H. lia.
Qed.

Lemma first_neg_all b : mono b -> first_neg b -> Forall (fun y => cmp y < 0) b.
Proof.
  intros M Hf. destruct b as [|y b]; [constructor|]. cbn in Hf.
  constructor; [exact Hf|]. destruct M as [F _]. rewrite Forall_forall in *. intros w Hw.
  specialize (F w Hw). lia.
Qed.

(* under a monotone comparator the new root splits the sequence by sign *)
Theorem splay_split t : t <> Leaf -> mono (inorder t) ->
  exists a z b, splay cmp t = (Node a z b, cmp z) /\
    inorder t = inorder a ++ z :: inorder b /\
    (cmp z < 0 -> Forall (fun y => cmp y > 0) (inorder a) /\ Forall (fun y => cmp y < 0) (inorder b)) /\
    (cmp z > 0 -> Forall (fun y => cmp y > 0) (inorder a) /\ Forall (fun y => cmp y < 0) (inorder b)).
Proof.
  intros Ht M. destruct (splay_spec t Ht) as (a & z & b & E & Hi & Hl & Hf).
  exists a, z, b. split; [exact E|]. split; [exact Hi|].
  rewrite Hi in M. pose proof M as M0. rewrite mono_app in M. destruct M as (Ma & Mzb & _).
  split; intros Hz.
  - split; [apply last_pos_all; [exact Ma| apply Hl, Hz]|].
    rewrite Forall_forall. intros y Hy. pose proof (mono_after z _ _ M0 y Hy). lia.
  - split; [|apply first_neg_all; [apply Mzb| apply Hf, Hz]].
    rewrite Forall_forall. intros y Hy. pose proof (mono_before z _ _ M0 y Hy). lia.
Qed.

(* ---------- find ---------- *)
Theorem sp_find_inorder h : inorder (fst (sp_find cmp h)) = inorder h.
Proof.
  destruct h as [|l x r]; [reflexivity|]. unfold sp_find.
  pose proof (splay_inorder (Node l x r) ltac:(discriminate)) as H.
  destruct (splay cmp (Node l x r)) as [h' s]. exact H.
Qed.

Theorem sp_find_some h x : snd (sp_find cmp h) = Some x -> cmp x = 0 /\ In x (inorder h).
Proof.
  destruct h as [|l y r]; [discriminate|]. unfold sp_find.
  destruct (splay_spec (Node l y r) ltac:(discriminate)) as (a & z & b & E & Hi & _).
  rewrite E. cbn [snd root_value].
  destruct (cmp z =? 0) eqn:Ez; [|discriminate]. intros H; inversion H; subst x.
  split; [apply Z.eqb_eq, Ez|]. rewrite Hi. apply in_or_app. right. left. reflexivity.
Qed.

(* the point of the monotonicity condition *)
Theorem sp_find_none h : mono (inorder h) -> snd (sp_find cmp h) = None ->
  forall x, In x (inorder h) -> cmp x <> 0.
Proof.
  destruct h as [|l y r]; [intros _ _ x []|]. intros M. unfold sp_find.
  destruct (splay_split (Node l y r) ltac:(discriminate) M) as (a & z & b & E & Hi & Hn & Hp).
  rewrite E. cbn [snd root_value].
  destruct (cmp z =? 0) eqn:Ez; [discriminate|]. apply Z.eqb_neq in Ez. intros _ x Hx.
  rewrite Hi in Hx.
  assert (Hc : cmp z < 0 \/ cmp z > 0) by lia.
  assert (Hab : Forall (fun y => cmp y > 0) (inorder a) /\ Forall (fun y => cmp y < 0) (inorder b))
    by (destruct Hc; auto).
  destruct Hab as [Fa Fb]. rewrite Forall_forall in Fa, Fb.
  apply in_app_or in Hx. destruct Hx as [Hx|[<-|Hx]]; [specialize (Fa x Hx); lia| exact Ez| specialize (Fb x Hx); lia].
Qed.

Corollary sp_find_iff h : mono (inorder h) ->
  (exists x, snd (sp_find cmp h) = Some x) <-> (exists x, In x (inorder h) /\ cmp x = 0).
Proof.
  intros M. split.
  - intros [x Hx]. exists x. destruct (sp_find_some h x Hx). auto.
  - intros [x [Hx Hz]]. destruct (snd (sp_find cmp h)) as [y|] eqn:E; [exists y; reflexivity|].
    exfalso. exact (sp_find_none h M E x Hx Hz).
Qed.

(* ---------- insert ---------- *)
Theorem sp_insert_found v h h' old : sp_insert cmp v h = (h', Some old) ->
  inorder h' = inorder h /\ cmp old = 0 /\ In old (inorder h).
Proof.
  unfold sp_insert. pose proof (sp_find_inorder h) as Hi. pose proof (sp_find_some h) as Hs.
  destruct (sp_find cmp h) as [h1 [o|]]; cbn [fst snd] in *; intros H; inversion H; subst.
  split; [exact Hi| apply Hs; reflexivity].
Qed.

Theorem sp_insert_new v h h' : mono (inorder h) -> sp_insert cmp v h = (h', None) ->
  exists A B, inorder h = A ++ B /\ inorder h' = A ++ v :: B /\
    Forall (fun y => cmp y > 0) A /\ Forall (fun y => cmp y < 0) B.
Proof.
  intros M. unfold sp_insert. pose proof (sp_find_inorder h) as Hi. pose proof (sp_find_none h M) as Hn.
  destruct (sp_find cmp h) as [h1 [o|]]; cbn [fst snd] in *; intros H; inversion H; subst; clear H.
  specialize (Hn eq_refl).
  destruct h1 as [|l1 x1 r1].
  - exists [], []. rewrite <- Hi. cbn. repeat split; constructor.
  - unfold node_insert. rewrite <- Hi in M, Hn |- *.
    destruct (splay_split (Node l1 x1 r1) ltac:(discriminate) M) as (a & z & b & E & Hi2 & Hneg & Hpos).
    rewrite E.
    assert (Hz : cmp z <> 0) by (apply Hn; rewrite Hi2; apply in_or_app; right; left; reflexivity).
    destruct (cmp z <? 0) eqn:E1.
    + apply Z.ltb_lt in E1. destruct (Hneg E1) as [Fa Fb].
      exists (inorder a), (z :: inorder b). rewrite Hi2. cbn [inorder app].
      repeat split; try assumption. constructor; assumption.
    + apply Z.ltb_ge in E1.
      assert (E2 : cmp z > 0) by lia.
      destruct (cmp z >? 0) eqn:E3; [|destruct (Z.gtb_spec (cmp z) 0); [discriminate| lia]].
      destruct (Hpos E2) as [Fa Fb].
      exists (inorder a ++ [z]), (inorder b). rewrite Hi2. cbn [inorder app].
      repeat (rewrite <- app_assoc; cbn [app]).
      repeat split; try assumption. apply Forall_app. split; [assumption| repeat constructor; assumption].
Qed.

(* ---------- remove ---------- *)
Lemma split_unique (P : V -> Prop) l1 y l2 A x B :
  l1 ++ y :: l2 = A ++ x :: B -> P y -> Forall (fun w => ~ P w) A -> Forall (fun w => ~ P w) B ->
  l1 = A /\ y = x /\ l2 = B.
Proof.
  revert A. induction l1 as [|w l1 IH]; intros A E Py FA FB.
  - destruct A as [|a A]; cbn [app] in E.
    + inversion E; auto.
    + inversion E; subst. inversion FA; subst. contradiction.
  - destruct A as [|a A]; cbn [app] in E.
    + inversion E; subst. rewrite Forall_forall in FB. exfalso. apply (FB y); [|exact Py].
      apply in_or_app. right. left. reflexivity.
    + inversion E; subst. inversion FA; subst.
      destruct (IH A H1 Py H3 FB) as (-> & -> & ->). auto.
Qed.

Lemma mono_all_pos A : Forall (fun y => cmp y > 0) A -> mono A.
Proof.
  induction A as [|a A IH]; intros F; cbn [mono]; [exact I|]. inversion F as [|? ? Ha FA]; subst.
  split; [|apply IH, FA]. rewrite Forall_forall in *. intros y Hy. specialize (FA y Hy). lia.
Qed.

Lemma mono_all_neg B : Forall (fun y => cmp y < 0) B -> mono B.
Proof.
  induction B as [|b B IH]; intros F; cbn [mono]; [exact I|]. inversion F as [|? ? Hb FB]; subst.
  split; [|apply IH, FB]. rewrite Forall_forall in *. intros y Hy. specialize (FB y Hy). lia.
Qed.

Theorem sp_remove_spec h A x B : inorder h = A ++ x :: B -> cmp x = 0 ->
  Forall (fun y => cmp y > 0) A -> Forall (fun y => cmp y < 0) B ->
  exists h', sp_remove cmp h = (h', true) /\ inorder h' = A ++ B.
Proof.
  intros Hi Hx FA FB.
  assert (M : mono (inorder h)).
  { rewrite Hi. apply mono_app. split; [apply mono_all_pos, FA|]. split.
    - cbn [mono]. split; [|apply mono_all_neg, FB].
      rewrite Forall_forall in *. intros y Hy. specialize (FB y Hy). lia.
    - intros a y Ha [<-|Hy]; rewrite Forall_forall in *; [specialize (FA a Ha); lia|].
      specialize (FA a Ha). specialize (FB y Hy). lia. }
  assert (FA' : Forall (fun w => ~ cmp w = 0) A) by (rewrite Forall_forall in *; intros w Hw; specialize (FA w Hw); lia).
  assert (FB' : Forall (fun w => ~ cmp w = 0) B) by (rewrite Forall_forall in *; intros w Hw; specialize (FB w Hw); lia).
  unfold sp_remove.
  pose proof (sp_find_inorder h) as Hfi. pose proof (sp_find_none h M) as Hfn.
  destruct (sp_find cmp h) as [h1 [o|]] eqn:Ef; cbn [fst snd] in *.
  2:{ exfalso. apply (Hfn eq_refl x); [rewrite Hi; apply in_or_app; right; left; reflexivity| exact Hx]. }
  clear Hfn.
  assert (Hh1 : h1 <> Leaf).
  { intros ->. cbn in Hfi. rewrite Hi in Hfi. destruct A; discriminate. }
  unfold node_remove.
  destruct (splay_spec h1 Hh1) as (a & z & b & E & Hi2 & _ & _).
  rewrite E.
  (* the root after the second splay compares equal as well: it is x *)
  assert (M1 : mono (inorder h1)) by (rewrite Hfi; exact M).
  assert (Hz : cmp z = 0).
  { destruct (splay_split h1 Hh1 M1) as (a' & z' & b' & E' & Hi' & Hn' & Hp').
    rewrite E in E'. inversion E'; subst a' z' b'.
    destruct (Z.lt_trichotomy (cmp z) 0) as [Hc|[Hc|Hc]]; [|exact Hc|].
    - destruct (Hn' Hc) as [Fa Fb]. exfalso.
      assert (Hin : In x (inorder a ++ z :: inorder b)) by (rewrite <- Hi2, Hfi, Hi; apply in_or_app; right; left; reflexivity).
      rewrite Forall_forall in Fa, Fb.
      apply in_app_or in Hin. destruct Hin as [Hin|[<-|Hin]]; [specialize (Fa x Hin)| |specialize (Fb x Hin)]; lia.
    - assert (Hc' : cmp z > 0) by lia. destruct (Hp' Hc') as [Fa Fb]. exfalso.
      assert (Hin : In x (inorder a ++ z :: inorder b)) by (rewrite <- Hi2, Hfi, Hi; apply in_or_app; right; left; reflexivity).
      rewrite Forall_forall in Fa, Fb.
      apply in_app_or in Hin. destruct Hin as [Hin|[<-|Hin]]; [specialize (Fa x Hin)| |specialize (Fb x Hin)]; lia. }
  rewrite Hz. cbn [Z.eqb].
  assert (Hsplit : inorder a = A /\ z = x /\ inorder b = B).
  { apply (split_unique (fun w => cmp w = 0)); [rewrite <- Hi2, Hfi, Hi; reflexivity| exact Hz| exact FA'| exact FB']. }
  destruct Hsplit as (Ha & -> & Hb).
  destruct a as [|al ax ar].
  - exists b. split; [reflexivity|]. cbn in Ha. subst A. cbn [app]. exact Hb.
  - destruct (splay_spec (Node al ax ar) ltac:(discriminate)) as (nl & nx & nr & E2 & Hi3 & _ & Hf3).
    rewrite E2. cbn [fst].
    assert (Hnx : cmp nx > 0).
    { rewrite Forall_forall in FA. apply FA. rewrite <- Ha, Hi3. apply in_or_app. right. left. reflexivity. }
    assert (Hnr : nr = Leaf).
    { apply inorder_nil. specialize (Hf3 Hnx). destruct (inorder nr) as [|w q] eqn:Enr; [reflexivity|].
      cbn in Hf3. rewrite Forall_forall in FA.
      assert (Hw : cmp w > 0) by (apply FA; rewrite <- Ha, Hi3; apply in_or_app; right; right; left; reflexivity).
      lia. }
    subst nr. exists (Node nl nx b). split; [reflexivity|].
    rewrite <- Ha, Hi3, <- Hb. cbn [inorder]. rewrite <- app_assoc. reflexivity.
Qed.

End SplayProofs.
