"""C40: FTP address replies and listings are parsed safely and strictly."""
import random, re, socket
from vlib import std, hbuild

PID = "C40"
META = {
    "text": "Theorems (Properties_C40.v, 11, closed under the global context) about executable models of Ftp::ParseIpPort, "
            "Ftp::ParseProtoIpPort, Ftp::UnescapeDoubleQuoted (src/ftp/Parsing.cc, after the repairs in /repo) and "
            "ftpListParseParts (src/clients/FtpGateway.cc). Addresses, at full strength, for ALL strings: an accepted "
            "PORT/PASV string (with or without forceIp) has six converted numbers whose WRITTEN values (mathematical value "
            "of the digits, any length) are octets, port p1*256+p2 in 1..65535 (>= 1024 with ftp_sanitycheck), address "
            "exactly h1.h2.h3.h4 and not 0.0.0.0 (or the forced one); any written number outside 0..255, including "
            "numbers beyond the long range that %ld clamps, makes the parser refuse; an accepted EPRT string has a "
            "written protocol number 1 or 2 matching the address family, a non-wildcard address that is the lookup of "
            "exactly the delimited text, and a port whose mathematical value is in 1..65535 (>= 1024 with "
            "ftp_sanitycheck). Listing: for ALL lines and flags the checked-index model never reaches OOB: every tokens[] "
            "store is below the declared capacity (64-token guard), every tokens[i] read is below n_tokens, every pointer "
            "formed from token offsets stays within the line including its terminator, every write into tbuf is an "
            "snprintf bounded by its size; tokens are exactly the blank-free runs at their recorded offsets; a Unix-format "
            "name (and link) is the tail of the line. The model is tied to the code by differential runs against the real "
            "functions compiled from the working tree under ASan+UBSan (FtpGateway.cc and ftp/Parsing.cc are #included "
            "whole into the harness unit and linked with the in-tree squid objects), with exactly-sized heap copies of "
            "every input.",
    "note": "partial: (1) the numeric-host lookup getaddrinfo(AI_NUMERICHOST) behind Ip::Address::operator=(const char*) is "
            "external (a Section variable in the proofs; in the correspondence run its answers are supplied by Python's "
            "own getaddrinfo for every text the parser can hand to it); for the dotted quad ParseIpPort renders itself "
            "from four checked octets the lookup is modelled directly (that address). (2) sscanf %ld (stores strtol's "
            "clamped long), strtol, atoi, strtoll, snprintf, strtok, strcasecmp, POSIX regexec on the four fixed patterns "
            "and ctime(0) are modelled from their specification / glibc behaviour and validated by correspondence only. "
            "(3) src/servers/FtpServer.cc is tied at source level only: gen/gen_ftpsrv.py re-reads "
            "handlePortRequest/handleEprtRequest on every run and C40_server_handlers_guarded fails if they stop rejecting "
            "empty parameters, stop using a fresh Ip::Address, or stop returning on a parser refusal (the handlers need a "
            "live client connection and are not driven). (4) Ip::Address arguments are default-constructed as in "
            "FtpServer.cc; a failed lookup leaves a caller's old address in place (not modelled). (5) The EPSV reply "
            "scanner in src/clients/FtpClient.cc (sscanf %hu, outside this property's anchors) is not modelled; by reading "
            "it still truncates (|||65616|) to port 80. (6) ParseProtoIpPort compares the last delimiter with a literal "
            "'|' (modelled as is). The three former findings (numbers reduced modulo 2^32, unchecked host numbers with "
            "forceIp, protocol number reduced modulo 2^32) are repaired in /repo and are regression cases in "
            "corpus/C40/regress.txt. Trusted: Coq kernel, extraction, gen/gen_ftp.cc, gen/gen_ftpsrv.py, harness/h_ftp.cc.",
    "technique": "Coq proof (induction over the scanners with offset invariants, checked-access monad with distinct OOB "
                 "outcome, lia over clamping arithmetic) + extracted-model differential correspondence under ASan + "
                 "independent Python oracle",
}

# the in-tree squid objects (everything the squid binary links except main.o and the dlopen module loader);
# FtpGateway.cc and ftp/Parsing.cc themselves are compiled from the working tree inside the harness unit
SQUID_OBJS = (
    "AclRegs.o AuthReg.o dns_internal.o htcp.o ipc.o snmp_core.o snmp_agent.o unlinkd.o AccessLogEntry.o AsyncEngine.o "
    "BodyPipe.o CacheDigest.o CachePeer.o CachePeers.o CollapsedForwarding.o CommandLine.o ConfigOption.o ConfigParser.o "
    "CpuAffinity.o CpuAffinityMap.o CpuAffinitySet.o Downloader.o ETag.o EventLoop.o ExternalACLEntry.o FadingCounter.o "
    "FwdState.o HappyConnOpener.o HeaderMangling.o HttpBody.o HttpControlMsg.o HttpHdrCc.o HttpHdrContRange.o HttpHdrRange.o "
    "HttpHdrSc.o HttpHdrScTarget.o HttpHeader.o HttpHeaderTools.o HttpReply.o HttpRequest.o HttpUpgradeProtocolAccess.o "
    "Instance.o LogTags.o MasterXaction.o MemBuf.o MemObject.o MemStore.o Notes.o Parsing.o PeerPoolMgr.o Pipeline.o "
    "RemovalPolicy.o RequestFlags.o ResolvedPeers.o SBufStatsAction.o SquidMath.o StatCounters.o StatHist.o StoreFileSystem.o "
    "StoreIOState.o StoreStats.o StoreSwapLogData.o StrList.o String.o Transients.o XactionInitiator.o cache_cf.o "
    "cache_manager.o carp.o cbdata.o clientStream.o client_db.o client_side.o client_side_reply.o client_side_request.o "
    "dlink.o errorpage.o event.o external_acl.o fatal.o fd.o fde.o filemap.o fqdncache.o fs_io.o helper.o http.o icp_v2.o "
    "icp_v3.o int.o internal.o ipcache.o mem_node.o mime.o mime_header.o multicast.o neighbors.o pconn.o peer_digest.o "
    "peer_proxy_negotiate_auth.o peer_select.o peer_sourcehash.o peer_userhash.o redirect.o refresh.o stat.o stmem.o store.o "
    "store_client.o store_digest.o store_io.o store_key_md5.o store_log.o store_rebuild.o store_swapin.o store_swapout.o "
    "tools.o tunnel.o urn.o wccp.o wccp2.o wordlist.o globals.o hier_code.o icp_opcode.o lookup_t.o repl_modules.o "
    "swap_log_op.o auth/libacls.la acl/libacls.la acl/libstate.la auth/libauth.la acl/libapi.la clients/libclients.la "
    "servers/libservers.la ftp/libftp.la helper/libhelper.la http/libhttp.la dns/libdns.la base/libbase.la libsquid.la "
    "fs/libfs.la DiskIO/libdiskio.la comm/libcomm.la ip/libip.la anyp/libanyp.la security/libsecurity.la error/liberror.la "
    "ipc/libipc.la mgr/libmgr.la proxyp/libproxyp.la parser/libparser.la eui/libeui.la icmp/libicmp.la log/liblog.la "
    "format/libformat.la sbuf/libsbuf.la debug/libdebug.la repl/liblru.a adaptation/libadaptation.la html/libhtml.la "
    "snmp/libsnmp.la ../lib/snmplib/libsnmplib.la mem/libmem.la store/libstore.la time/libtime.la "
    "../lib/libmisccontainers.la ../lib/libmiscencoding.la ../lib/libmiscutil.la ../compat/libcompatsquid.la").split()


def impl(sanitize="asan"):
    # the anchored sources src/clients/FtpGateway.cc and src/ftp/Parsing.cc are #included into the harness unit, which
    # is recompiled from /repo's working tree whenever its preprocessed text changes (src/ftp/Parsing.cc cannot be
    # listed as `fresh`: hbuild would then drop squid's own src/Parsing.o, same base name, from the link)
    return hbuild.build("h_ftp", "h_ftp.cc", fresh=[], link=SQUID_OBJS, sanitize=sanitize,
                        syslibs=hbuild.SYSLIBS + ["-lsystemd"])


def prebuild():
    impl()


# ---------------------------------------------------------------------------------------------
def hx(b):
    return bytes(b).hex() if len(b) else "-"


def unhx(h):
    return b"" if h == "-" else bytes.fromhex(h)


def cstr(b):
    return bytes(b).split(b"\0")[0]


_IPCACHE = {}


def numeric_host(text):
    """Reference for the external numeric-host lookup: the 16 bytes Ip::Address holds after `addr = text`
    (IPv4 as ::ffff:a.b.c.d), or None when getaddrinfo(AI_NUMERICHOST) refuses the text."""
    text = bytes(text)
    if text in _IPCACHE:
        return _IPCACHE[text]
    r = None
    if text and len(text) < 256 and b"\0" not in text:
        try:
            ai = socket.getaddrinfo(text, None, 0, 0, 0, socket.AI_NUMERICHOST)
            fam, sa = ai[0][0], ai[0][4]
            if fam == socket.AF_INET:
                r = b"\0" * 10 + b"\xff\xff" + socket.inet_pton(socket.AF_INET, sa[0])
            elif fam == socket.AF_INET6:
                r = socket.inet_pton(socket.AF_INET6, sa[0].split("%")[0])
        except (OSError, UnicodeError, ValueError):
            r = None
    _IPCACHE[text] = r
    return r


def table_for(texts):
    ent = []
    seen = set()
    for t in texts:
        t = bytes(t)
        if t in seen or not t:
            continue
        seen.add(t)
        a = numeric_host(t)
        if a is not None:
            ent.append("%s:%s" % (t.hex(), a.hex()))
    return ",".join(ent) if ent else "-"


def mk_port(sanity, buf):
    return "port %d %s" % (sanity, hx(buf))


def mk_portf(sanity, force, buf):
    return "portf %d %s %s %s" % (sanity, hx(force), hx(buf), table_for([cstr(force)]))


def mk_eprt(sanity, buf):
    b0 = cstr(buf)
    segs = b0[1:].split(b0[:1]) if b0 else []
    return "eprt %d %s %s" % (sanity, hx(buf), table_for(s for s in segs if len(s) < 100))


def mk_list(nlst, skipws, buf):
    return "list %d %d %s" % (nlst, skipws, hx(buf))


# ------------------------------------------------------------------ generators: addresses
WS = [b"", b"", b"", b" ", b"  ", b"\t", b"\n", b"\x0b", b"\r \x0c"]
HUGE = [2 ** 31 - 1, 2 ** 31, 2 ** 32 - 1, 2 ** 32, 2 ** 63 - 1, 2 ** 63, 2 ** 64, 10 ** 30]


def dec(rng, v, plain=False):
    """a decimal rendering of v as %d / strtol read it"""
    s = str(abs(v)).encode()
    if not plain:
        if rng.random() < 0.08:
            s = b"0" * rng.randrange(1, 4) + s
        if v >= 0 and rng.random() < 0.06:
            s = b"+" + s
        if rng.random() < 0.10:
            s = rng.choice(WS) + s
    if v < 0:
        s = b"-" + s
    return s


def rand_octet_like(rng):
    k = rng.random()
    if k < 0.62:
        return rng.choice([0, 1, 2, 3, 4, 10, 127, 128, 192, 254, 255, rng.randrange(256), rng.randrange(256)])
    if k < 0.72:
        return rng.choice([256, 257, 300, 1000, 65535, 65536, -1, -2, -255, -256])
    if k < 0.86:   # congruent to an octet modulo 2^32 / 2^64 (wraps into range if truncated)
        return rng.choice([2 ** 32, 2 ** 33, 2 ** 64, -2 ** 32, 2 ** 32 * rng.randrange(1, 1000)]) + rng.randrange(256)
    return rng.choice(HUGE + [-h for h in HUGE]) + rng.choice([0, 0, 1, -1])


def gen_port(rng):
    sanity = rng.random() < 0.5
    k = rng.random()
    if k < 0.55:
        comps = [rng.choice([1, 10, 127, 192, 255, rng.randrange(256)]) for _ in range(4)]
        if rng.random() < 0.05:
            comps = [0, 0, 0, 0]
        pp = rng.choice([(0, 0), (0, 1), (3, 255), (4, 0), (255, 255), (0, 21), (rng.randrange(256), rng.randrange(256)),
                         (rng.randrange(4, 256), rng.randrange(256))])
        comps += list(pp)
        for _ in range(rng.choice([0, 0, 0, 1, 1, 2])):
            comps[rng.randrange(6)] = rand_octet_like(rng)
    else:
        comps = [rand_octet_like(rng) for _ in range(6)]
    parts = [dec(rng, v) for v in comps]
    seps = [b","] * 5
    if rng.random() < 0.08:
        seps[rng.randrange(5)] = rng.choice([b" ,", b";", b".", b"", b",,", b", "])
    n = 6
    if rng.random() < 0.06:
        n = rng.choice([0, 1, 3, 5])
    buf = b""
    for i in range(n):
        buf += parts[i] + (seps[i] if i < 5 and i < n - 1 else b"")
    if rng.random() < 0.15:
        buf += rng.choice([b")", b").", b",7", b" x", b"\r\n", b"9", b"\0,1"])
    if rng.random() < 0.03:
        buf = bytes(rng.randrange(256) for _ in range(rng.randrange(0, 12)))
    if rng.random() < 0.25:
        force = rng.choice([b"10.1.2.3", b"192.0.2.7", b"2001:db8::1", b"::1", b"127.0.0.1", b"fe80::1"])
        return mk_portf(sanity, force, buf)
    return mk_port(sanity, buf)


IPS4 = [b"1.2.3.4", b"10.0.0.1", b"127.0.0.1", b"192.0.2.55", b"255.255.255.255", b"0.0.0.1", b"1.0.0.0"]
IPS6 = [b"::1", b"2001:db8::1", b"fe80::1", b"2001:db8:0:0:0:0:2:1", b"ff02::2", b"1:2:3:4:5:6:7:8", b"64:ff9b::1.2.3.4"]
IPODD = [b"0.0.0.0", b"::", b"::ffff:1.2.3.4", b"::ffff:0.0.0.0", b"1.2.3", b"1.2", b"16909060", b"0x7f.1", b"010.1.1.1",
         b"256.1.1.1", b"1.2.3.4.5", b"1.2.3.-4", b"1.2.3.4 ", b" 1.2.3.4", b"localhost", b"example.com", b"", b"fe80::1%lo",
         b"fe80::1%1", b":::1", b"1::2::3", b"12345::1", b"::1.2.3.256", b"1.2.3.4x", b"[::1]", b"0", b"00.00.00.01",
         b"1." * 36 + b"1", b"0" * 74, b"0" * 75, b"0" * 70 + b"1.1.1.1", b"::" + b"0" * 0 + b"1" * 4, b"0:" * 7 + b"0" * 59 + b"1"]
PROTOS = [b"1", b"2", b"1", b"2", b"1", b"2", b"3", b"0", b"-1", b"+1", b" 2", b"01", b"002", b"", b"1x", b"x",
          b"4294967297", b"4294967298", b"18446744073709551617", b"-4294967295", b"9223372036854775807", b"12"]
PORTS = [1, 21, 80, 1023, 1024, 1025, 8080, 65535, 65536, 65616, 0, -1, -80, 2 ** 16 + 1024, 2 ** 32 + 80, 2 ** 32 + 8080,
         2 ** 63, 2 ** 64 + 2000, 10 ** 25]


def gen_eprt(rng):
    sanity = rng.random() < 0.5
    d = rng.choice([b"|"] * 12 + [b"!", b",", b"x", b"1", b" ", b"-", b"\xff", b":", b"."])
    k = rng.random()
    if k < 0.6:
        proto, ip = rng.choice([(b"1", rng.choice(IPS4)), (b"2", rng.choice(IPS6))])
    elif k < 0.72:
        proto, ip = rng.choice([(b"2", rng.choice(IPS4)), (b"1", rng.choice(IPS6)), (b"1", rng.choice(IPODD)),
                                (b"2", rng.choice(IPODD))])
    else:
        proto = rng.choice(PROTOS)
        ip = rng.choice(IPS4 + IPS6 + IPODD)
        if proto in (b"4294967297",) and rng.random() < 0.7:
            ip = rng.choice(IPS4)
        if proto in (b"4294967298",) and rng.random() < 0.7:
            ip = rng.choice(IPS6)
    pv = rng.choice(PORTS + [rng.randrange(1, 65536)] * 10 + [rng.randrange(1024, 65536)] * 14)
    port = dec(rng, pv)
    if rng.random() < 0.04:
        port = rng.choice([b"", b"x", b"80x", b"8 0", b"0x50", b"+", b"-"])
    last = d if rng.random() < 0.9 else rng.choice([b"|", b"", b"x"])
    buf = d + proto + d + ip + d + port + last
    if rng.random() < 0.1:
        buf += rng.choice([b"\r\n", b"x", b"|", b" "])
    r = rng.random()
    if r < 0.08 and len(buf) > 0:      # byte-level mutation
        b = bytearray(buf)
        for _ in range(rng.choice([1, 1, 2])):
            op = rng.randrange(3)
            i = rng.randrange(len(b))
            if op == 0:
                b[i] = rng.choice([rng.randrange(256), ord("|"), ord("0"), ord("9"), 0x20])
            elif op == 1 and len(b) > 1:
                del b[i]
            else:
                b.insert(i, rng.choice([ord("|"), ord("1"), ord(" "), rng.randrange(1, 256)]))
        buf = bytes(b)
    elif r < 0.10:
        buf = rng.choice([b"", b"|", b"||", b"|||", b"||||", b"|1|", b"|1||80|", b"|||80|", b"\0|1|1.2.3.4|80|"])
    return mk_eprt(sanity, buf)


def gen_unq(rng):
    alpha = [b'"', b'"', b'""', b"a", b"/", b"dir", b" ", b"\\", b"\xe9", b"x y", b"\r\n"]
    k = rng.random()
    if k < 0.6:
        inner = b"".join(rng.choice(alpha[2:]) for _ in range(rng.randrange(0, 8)))
        buf = b'"' + inner + b'"' + rng.choice([b"", b" is current directory.", b'"', b' "x"', b"\r\n"])
    elif k < 0.85:
        buf = b"".join(rng.choice(alpha) for _ in range(rng.randrange(0, 10)))
    else:
        buf = bytes(rng.randrange(256) for _ in range(rng.randrange(0, 16)))
    return "unq %s" % hx(buf)


# ------------------------------------------------------------------ generators: listings
MONTHS = [b"Jan", b"Feb", b"Mar", b"Apr", b"May", b"Jun", b"Jul", b"Aug", b"Sep", b"Oct", b"Nov", b"Dec"]
NAMES = [b"README", b"pub", b"file name with spaces", b" leading", b"a -> b", b"bin -> usr/bin", b"x", b"..", b".",
         b"r\xe9sum\xe9.txt", b"Jan 01 2000 tricky", b"name\ttab", b"trailing ", b"a  b", b"->", b" -> ", b"l -> ", b""]
PERMS = [b"-rw-r--r--", b"drwxr-xr-x", b"lrwxrwxrwx", b"l", b"d", b"-", b"crw-------", b"\xff", b"+rw"]


def sp(rng, allow_more=True):
    return rng.choice([b" ", b" ", b" ", b" ", b"  ", b"   ", b"\t", b" \t "]) if allow_more else b" "


def digits(rng, n):
    return bytes(rng.choice(b"0123456789") for _ in range(n))


def unix_line(rng):
    mon = rng.choice(MONTHS)
    if rng.random() < 0.15:
        mon = rng.choice([mon.upper(), mon.lower(), mon[:2], mon + b"e", b"jAN"])
    day = rng.choice([b"1", b"01", b"9", b"29", b"31", b"123", b"", digits(rng, rng.choice([1, 2, 3, 60, 130]))])
    if day == b"":
        day = b"7"
    yr = rng.choice([b"2000", b"1999", b"03:26", b"3:26", b"12:00", b"20000", b"200000", b"99", b"1", b":",
                     digits(rng, rng.choice([4, 4, 5, 6, 125, 140]))])
    size = rng.choice([b"531", b"0", b"7", b"4096", b"9223372036854775807", b"9223372036854775808",
                       b"99999999999999999999999", digits(rng, rng.randrange(1, 12))])
    k = rng.random()
    if k < 0.5:      # type A: "MMM DD  YYYY" / "MMM DD hh:mm" with %2s %5s padding
        date = mon + b" " + day.rjust(2) + b" " + yr.rjust(5)
    elif k < 0.75:   # type B
        date = mon + b" " + day.rjust(2) + b" " + yr.ljust(5)
        if rng.random() < 0.5:
            date = date.rstrip(b" ")
    else:            # arbitrary spacing: mostly rejected
        date = mon + sp(rng) + day + sp(rng) + yr
    front_n = rng.choice([3, 3, 3, 3, 2, 1, 0, 4, 5, 8])
    front = [rng.choice(PERMS)] + [rng.choice([b"1", b"root", b"other", b"staff", b"100", b"ftp"]) for _ in range(front_n)]
    if rng.random() < 0.1:   # a decoy month earlier in the line
        front.insert(rng.randrange(len(front) + 1), rng.choice(MONTHS))
    line = b""
    for f in front:
        line += f + sp(rng)
    line += size + sp(rng) + date
    line += rng.choice([b" ", b" ", b" ", b"  ", b"", b"\t", b"   "]) + rng.choice(NAMES)
    if rng.random() < 0.1:
        line = rng.choice([b" ", b"\t", b"\r"]) + line
    return line


def dos_line(rng):
    date = rng.choice([b"04-05-70", b"12-31-2099", b"1-2-3", b"04-05", b"04-05-70-1", b"04/05/70", b"-1-2", digits(rng, 70) + b"-1-2"])
    tm = rng.choice([b"09:33PM", b"9:3am", b"12:00aM", b"09:33", b"09:33PMX", b"0933PM", b"09:33XM", b":33PM",
                     digits(rng, 70) + b":1PM"])
    third = rng.choice([b"<DIR>", b"<dir>", b"<Dir>", b"1234", b"0", b"-5", b"+7", b"99999999999999999999", b"abc", b"\x0b12", b"<DIR"])
    rest = rng.choice([[b"foo"], [b"foo", b"bar"], [], [b"Program", b"Files"], [b"x" * 200]])
    toks = [date, tm, third] + rest
    return b"".join(t + sp(rng) for t in toks).rstrip(b" ") if rng.random() < 0.8 else b" ".join(toks)


def eplf_line(rng):
    facts = []
    for _ in range(rng.choice([0, 1, 2, 3, 4, 5, 8])):
        facts.append(rng.choice([b"r", b"/", b"s" + digits(rng, rng.choice([1, 3, 10, 11, 25])), b"s-12", b"s 7", b"s", b"sx",
                                 b"m824255902", b"m", b"m x", b"m-", b"m+5", b"m 0x", b"m0", b"i8388621.29609", b"up644", b"",
                                 b"\tname", b"\t", b"\ttcpdump", b"\ta b", b"x\ty", b"\xff"]))
    if rng.random() < 0.7:
        facts.append(b"\t" + rng.choice(NAMES))
    line = b"+" + b",".join(facts)
    if rng.random() < 0.1:
        line += b","
    return line


def mutate_bytes(rng, line):
    b = bytearray(line)
    for _ in range(rng.choice([1, 1, 2, 3])):
        op = rng.randrange(4)
        if not b:
            b.append(rng.randrange(1, 256))
            continue
        i = rng.randrange(len(b))
        if op == 0:
            b[i] = rng.choice([0x20, 0x09, 0x0d, 0x0a, ord(","), ord("+"), ord("0"), ord(":"), ord("-"), rng.randrange(1, 256)])
        elif op == 1:
            del b[i]
        elif op == 2:
            b.insert(i, rng.choice([0x20, 0x20, 0x09, ord("1"), ord(","), rng.randrange(1, 256)]))
        else:
            j = rng.randrange(len(b))
            b[i], b[j] = b[j], b[i]
    return bytes(b)


def gen_list(rng):
    k = rng.random()
    if k < 0.45:
        line = unix_line(rng)
    elif k < 0.60:
        line = dos_line(rng)
    elif k < 0.75:
        line = eplf_line(rng)
    elif k < 0.85:   # many tokens: around and beyond the 64-token limit, with a date near the end
        n = rng.choice([58, 59, 60, 61, 62, 63, 64, 65, 66, 70, 100, 300])
        toks = [rng.choice([b"a", b"1", b"Jan", b"x", b"12:00"]) for _ in range(n)]
        pos = rng.choice([n - 4, n - 5, 56, 58, 59, 60, 61, 62])
        if 1 <= pos <= n - 3:
            toks[pos - 1:pos + 3] = [b"42", b"Jan", b" 1", b" 2000"]
        line = b" ".join(toks) + b" tail name"
    elif k < 0.93:
        line = bytes(rng.choice(b" \t\r\nJan0123456789:-+,<dir>APMl\xff\x01") for _ in range(rng.choice([0, 1, 2, 5, 20, 60, 200, 1100])))
    else:
        line = rng.choice([b"", b" ", b"+", b"+,", b"+\t", b"total 12", b"l", b"\0abc", b"Jan  1  2000", b"1 2 3 Jan 1 2000",
                           b"a b 1 Jan 1 2000", b"a b 1 Jan 1 2000 ", b"l b 1 Jan  1  2000 x -> ", b"l b 1 Jan  1  2000  -> y"])
    if rng.random() < 0.2:
        line = mutate_bytes(rng, line)
    nlst = rng.random() < 0.04
    skipws = rng.random() < 0.4
    return mk_list(nlst, skipws, line)


def gen_cases(rng, n):
    cases = []
    for _ in range(n):
        k = rng.random()
        if k < 0.30:
            cases.append(gen_port(rng))
        elif k < 0.58:
            cases.append(gen_eprt(rng))
        elif k < 0.63:
            cases.append(gen_unq(rng))
        else:
            cases.append(gen_list(rng))
    return cases


# ------------------------------------------------------------------ oracle
NUM = rb"[ \t\n\r\x0b\x0c]*([+-]?[0-9]+)"
INT_MIN, INT_MAX = -2 ** 31, 2 ** 31 - 1


def oracle(case, out):
    """The property itself, evaluated on the implementation's answer with an independent Python reading of the
    input. Returns None or (signature, description)."""
    a = case.split()
    op = a[0]
    if out.startswith(("CRASH", "EXC", "ERR")) or "BAD-" in out or out == "OOB":
        return ("oracle:%s-memory-or-crash" % op, "implementation crashed / reported a memory error / threw: " + out[:300])
    try:
        if op in ("port", "portf"):
            if not out.startswith("ok "):
                return None
            sanity = a[1] == "1"
            forced = op == "portf"
            buf = cstr(unhx(a[3] if forced else a[2]))
            _, addr, port = out.split()
            addr = bytes.fromhex(addr); port = int(port)
            vals = []
            rest = buf
            for i in range(6):
                m = re.match(NUM, rest)
                if not m:
                    return ("oracle:port-accepted-malformed", "accepted although component %d is not a decimal number" % (i + 1))
                vals.append(int(m.group(1)))
                rest = rest[m.end():]
                if i < 5:
                    if rest[:1] != b",":
                        return ("oracle:port-accepted-malformed", "accepted although component %d is not followed by ','" % (i + 1))
                    rest = rest[1:]
            bad = [v for v in (vals[4:] if forced else vals) if not 0 <= v <= 255]
            if bad:
                if all((not 0 <= v <= 255) and (v < INT_MIN or v > INT_MAX) for v in bad):
                    return ("oracle:port-component-wraps", "accepted with component(s) %s outside 0..255 (beyond the int range: reduced modulo 2^32)" % bad)
                return ("oracle:port-component-out-of-range", "accepted with component(s) %s outside 0..255" % bad)
            p = vals[4] * 256 + vals[5]
            if not 1 <= p <= 65535 or p != port:
                return ("oracle:port-port-out-of-range", "accepted with port %d (string says %d)" % (port, p))
            if sanity and p < 1024:
                return ("oracle:port-sanity", "ftp_sanitycheck on but port %d accepted" % p)
            if forced:
                want = numeric_host(cstr(unhx(a[2])))
                if addr != want:
                    return ("oracle:port-address-mismatch", "forced address not used")
                if any(not 0 <= v <= 255 for v in vals[:4]):
                    return ("oracle:pasv-forced-host-unchecked", "accepted although host numbers %s are not octets (forceIp set: they are never examined)" % vals[:4])
            else:
                if addr != b"\0" * 10 + b"\xff\xff" + bytes(vals[:4]):
                    return ("oracle:port-address-mismatch", "address %s is not %s" % (addr.hex(), vals[:4]))
                if vals[:4] == [0, 0, 0, 0]:
                    return ("oracle:port-any-address", "0.0.0.0 accepted")
            return None
        if op == "eprt":
            if not out.startswith("ok "):
                return None
            sanity = a[1] == "1"
            buf = cstr(unhx(a[2]))
            _, addr, port = out.split()
            addr = bytes.fromhex(addr); port = int(port)
            d = buf[:1]
            m = re.match(NUM, buf[1:])
            if not m or buf[1 + m.end():2 + m.end()] != d:
                return ("oracle:eprt-accepted-malformed", "accepted although <d><net-prt><d> is not there")
            proto = int(m.group(1))
            rest = buf[2 + m.end():]
            j = rest.find(d)
            if j < 0:
                return ("oracle:eprt-accepted-malformed", "accepted although the address is not delimited")
            ip = rest[:j]
            m2 = re.match(NUM, rest[j + 1:])
            if not m2:
                return ("oracle:eprt-accepted-malformed", "accepted although the port is not a decimal number")
            p = int(m2.group(1))
            if proto not in (1, 2):
                if proto < INT_MIN or proto > INT_MAX:
                    return ("oracle:eprt-protocol-wraps", "accepted with net-prt %d (beyond the int range: reduced modulo 2^32)" % proto)
                return ("oracle:eprt-protocol-out-of-range", "accepted with net-prt %d" % proto)
            if not 1 <= p <= 65535 or p != port:
                return ("oracle:eprt-port-out-of-range", "accepted with port %d although the string says %d" % (port, p))
            if sanity and p < 1024:
                return ("oracle:eprt-sanity", "ftp_sanitycheck on but port %d accepted" % p)
            want = numeric_host(ip)
            if want is None or want != addr:
                return ("oracle:eprt-address-mismatch", "address %s does not come from the numeric text %r" % (addr.hex(), ip))
            is_v4 = addr[:12] == b"\0" * 10 + b"\xff\xff"
            if addr == b"\0" * 16 or addr == b"\0" * 10 + b"\xff\xff" + b"\0" * 4:
                return ("oracle:eprt-any-address", "wildcard address accepted")
            if (proto == 2) == is_v4:
                return ("oracle:eprt-family-mismatch", "net-prt %d with address %s" % (proto, addr.hex()))
            return None
        if op == "list":
            if out == "null":
                return None
            w = out.split()
            if w[0] != "parts" or len(w) != 6:
                return ("oracle:list-output", "unreadable result")
            line = cstr(unhx(a[3]))
            date = None if w[3] == "~" else unhx(w[3])
            name = unhx(w[4])
            link = None if w[5] == "~" else unhx(w[5])
            if date is not None and len(date) > 127:
                return ("oracle:list-date-overflow", "date of %d bytes cannot come out of tbuf[128]" % len(date))
            if name not in line or (link is not None and link not in line):
                return ("oracle:list-name-not-from-line", "name/link is not a piece of the line")
            return None
        if op == "unq":
            return None
    except Exception as ex:
        return ("oracle:unparsable", "unparsable implementation output %r (%s)" % (out[:100], ex))
    return None


def mutate(rng, case):
    """a neighbouring case: one byte-level edit of the input string (tables are recomputed)"""
    a = case.split()
    op = a[0]
    if op == "port":
        return mk_port(int(a[1]), mutate_bytes(rng, unhx(a[2])))
    if op == "portf":
        return mk_portf(int(a[1]), unhx(a[2]), mutate_bytes(rng, unhx(a[3])))
    if op == "eprt":
        return mk_eprt(rng.randrange(2), mutate_bytes(rng, unhx(a[2])))
    if op == "list":
        return mk_list(int(a[1]), rng.randrange(2), mutate_bytes(rng, unhx(a[3])))
    if op == "unq":
        return "unq %s" % hx(mutate_bytes(rng, unhx(a[1])))
    return case


def kind(c, o):
    w = o.split()
    return c.split()[0] + ":" + (w[0] if w and w[0] in ("ok", "fail", "null", "parts", "precondition") else "val")


def run(res, tier):
    res.rule = ("PORT/PASV strings: six components from {octets, 0/255/256 boundaries, negatives, values congruent to octets "
                "modulo 2^32/2^64, INT/LONG edges, 10^30} with signs, blanks, leading zeros, wrong separators, missing parts, "
                "trailing text, with and without forceIp, ftp_sanitycheck on/off; EPRT strings: delimiter x net-prt x address "
                "text (valid v4/v6, mapped, wildcard, short/hex/octal forms, names, over-long) x port (1, 1023/1024, 65535/6, "
                "65616, negatives, 2^32+k, 2^63, 10^25) x last delimiter, plus byte mutations; listing lines: Unix (type A/B "
                "dates, decoy months, 130-digit fields, >64 tokens), DOS, EPLF, NLST, random and mutated bytes, both "
                "skip_whitespace settings; quoted paths. A case is non-trivial when the implementation produced an address, "
                "a parts record or a non-empty path")
    std.run_standard(res, PID, tier, area="ftp", build_impl=impl, gen_cases=gen_cases, oracle=oracle,
                     corr_name="FtpModel vs src/ftp/Parsing.cc, src/clients/FtpGateway.cc (ftpListParseParts)",
                     gens=["ftp", "ftpsrv"], n_quick=32000, n_thorough=500000, seed_salt=40, mutate=mutate,
                     kind_fn=kind,
                     nontrivial_fn=lambda c, o: o.startswith(("ok", "parts")) or (c.startswith("unq") and o != "-"))
