(* Properties_C20.v — C20: successful unsafe requests invalidate cached responses. Statements only. *)
Require Import SquidV.Bytes SquidV.PurgeModel SquidV.PurgeProofs.
Require Import SquidV.gen.PurgeMethods_gen SquidV.gen.PurgeUri_gen.
Local Open Scope N_scope.

Theorem C20_key_equality_reflexive : forall a, list_eqb a a = true.
Proof. exact list_eqb_refl. Qed.
Print Assumptions C20_key_equality_reflexive.
