(* handlers for the smuggling area (C03).
   smug.run <relaxed 0|1> <stream hex>  ->  the observation line predicted for the connection:
     items " ; R" codes " ; C" closed
   item = F|P <method hex> <path hex> cl=<hex values joined by +, or -> te=<chunked|-> <body hex>
   (the path is the request-target without scheme://authority) *)
let rec drop_n k l = if k = 0 then l else match l with [] -> [] | _ :: r -> drop_n (k - 1) r
let path_of (uri : n list) : n list =
  let a = Array.of_list (List.map int_of_n uri) in
  let n = Array.length a in
  let rec find_css i = if i + 2 >= n then -1 else if a.(i) = 58 && a.(i+1) = 47 && a.(i+2) = 47 then i else find_css (i + 1) in
  let i = find_css 0 in
  if i < 0 then uri else begin
    let rec find_slash j = if j >= n then n else if a.(j) = 47 then j else find_slash (j + 1) in
    let j = find_slash (i + 3) in
    (* uri_whitespace strip (squid.conf default): white space inside the target is removed before the URL is used;
       URL handling itself is outside the model *)
    List.filter (fun c -> let v = int_of_n c in not (v = 32 || v = 9 || v = 11 || v = 12 || v = 13)) (drop_n j uri)
  end
let item tag (f : fwd) =
  let cl = if f.fw_cl = [] then "-" else String.concat "+" (List.map hex_of_bytes f.fw_cl) in
  Printf.sprintf "%s %s %s cl=%s te=%s %s" tag (hex_of_bytes f.fw_method) (hex_of_bytes (path_of f.fw_uri)) cl
    (if f.fw_te then "chunked" else "-") (hex_of_bytes f.fw_body)
let render (evs : event list) : string =
  let items = ref [] and codes = ref [] and closed = ref "0" and extra = ref "" in
  List.iter (fun e -> match e with
    | EForward (_, f) -> items := item "F" f :: !items; codes := "200" :: !codes
    | EPartial (_, f) -> items := item "P" f :: !items
    | EReject (_, c) -> codes := string_of_n c :: !codes; closed := "1"
    | EReset _ -> closed := "1"
    | EClose -> closed := "1"
    | EOther _ -> extra := " ; X unmodelled"
    | EFuel -> extra := " ; X fuel") evs;
  let j l = if l = [] then "-" else String.concat " | " (List.rev l) in
  Printf.sprintf "%s ; R %s ; C %s%s" (j !items)
    (if !codes = [] then "-" else String.concat " " (List.rev !codes)) !closed !extra

let () =
  reg "smug.run" (fun [rel; s] -> render (run_stream (sm_default_cfg (rel = "1")) (bytes_of_hex s)))
