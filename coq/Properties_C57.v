(* Properties_C57.v — C57: rock rebuild indexes only intact entries from any disk image.
   Statements only; proofs live in RockrebuildProofs.v. *)
Require Import SquidV.Bytes SquidV.RockrebuildModel SquidV.RockrebuildProofs.
Require Import SquidV.gen.RockRebuild_gen.
Local Open Scope Z_scope.

(* --- the rebuild of every image ends (the fuel of the three link-following loops is always enough) --- *)
Theorem C57_rebuild_terminates : forall slotSize doublecheck img,
  rebuild slotSize doublecheck img <> NoFuel.
Proof. exact rebuild_terminates. Qed.
Print Assumptions C57_rebuild_terminates.
