(* Properties_C44.v — C44: access lists decide by first match, even when checks go asynchronous.
   Statements only; proofs live in AcltreeProofs.v.

   run_check m t bans tbl runs the modelled ACLChecklist (AcltreeModel.v) on the Acl::Tree t with the
   banned actions bans and the leaf scripts tbl: nonBlockingCheck followed by as many
   resumeNonBlockingCheck calls as there are pending lookups (m = MNonBlocking), fastCheck() (MFast) or
   fastCheck(list) (MFastList). It returns None only when the suspend/resume loop runs out of fuel; the
   final state has err = true when a C++ assertion would have failed. decide is the recursive first-match
   evaluation over the values of the leaves. Hypotheses: tree_ok (all rules have actions or none),
   wf_node (a NotNode has its operand), explicit_actions (configured actions are not "implicit") hold for
   every tree the configuration code can build; shared_leaves_sync: a leaf ACL object that is used at several
   places of the tree is synchronous (leaves that may start lookups occur once; NoDup leaf ids suffices). *)
Require Import SquidV.Bytes SquidV.AcltreeModel SquidV.AcltreeProofs.
Local Open Scope N_scope.

(* The non-blocking check terminates without tripping an assertion and calls back with the first-match
   decision, for every tree, every banned-action list and every leaf script: any number of real
   asynchronous lookups per leaf (suspend / resume through the breadcrumb path), lookups that do not
   really go asynchronous, retrying leaves and the async-loop allowance are all covered by leaf_value. *)
Theorem C44_nonblocking_first_match : forall t bans tbl,
  tree_ok t = true -> forallb wf_node (rules t) = true -> explicit_actions t = true ->
  shared_leaves_sync t tbl ->
  exists c a, run_check MNonBlocking t bans tbl = Some c /\ err c = false /\ cbk c = Some a /\
    result a = decide MNonBlocking (fun i => leaf_value true (lookup_script tbl i)) t bans.
Proof. exact nonblocking_first_match. Qed.

(* fastCheck() and fastCheck(list): same decision, a leaf that would need a lookup counts as a mismatch *)
Theorem C44_fast_first_match : forall m t bans tbl,
  m <> MNonBlocking ->
  tree_ok t = true -> forallb wf_node (rules t) = true -> explicit_actions t = true ->
  shared_leaves_sync t tbl ->
  exists c, run_check m t bans tbl = Some c /\ err c = false /\
    result (ans c) = decide m (fun i => leaf_value false (lookup_script tbl i)) t bans.
Proof. exact fast_first_match. Qed.

(* When every lookup really goes asynchronous, however many lookups each leaf needs, the decision is the
   first-match evaluation over the plain truth values of the leaves. *)
Theorem C44_async_lookups_invisible : forall t bans tbl,
  tree_ok t = true -> forallb wf_node (rules t) = true -> explicit_actions t = true ->
  shared_leaves_sync t tbl ->
  (forall i, In i (tree_leaf_ids t) -> forallb is_real (attempts (lookup_script tbl i)) = true) ->
  exists c a, run_check MNonBlocking t bans tbl = Some c /\ err c = false /\ cbk c = Some a /\
    result a = decide MNonBlocking (fun i => truth (lookup_script tbl i)) t bans.
Proof. exact nonblocking_async_invisible. Qed.

(* Two schedules that differ only in which leaves go asynchronous, and how often, give the same decision. *)
Theorem C44_schedule_independent : forall t bans tbl tbl',
  tree_ok t = true -> forallb wf_node (rules t) = true -> explicit_actions t = true ->
  shared_leaves_sync t tbl -> shared_leaves_sync t tbl' ->
  (forall i, In i (tree_leaf_ids t) ->
     truth (lookup_script tbl i) = truth (lookup_script tbl' i) /\
     forallb is_real (attempts (lookup_script tbl i)) = true /\
     forallb is_real (attempts (lookup_script tbl' i)) = true) ->
  exists c a c' a', run_check MNonBlocking t bans tbl = Some c /\ cbk c = Some a /\
    run_check MNonBlocking t bans tbl' = Some c' /\ cbk c' = Some a' /\ result a = result a'.
Proof. exact schedule_independent. Qed.

(* With synchronous leaves the fast checks evaluate the plain truth values. *)
Theorem C44_fast_sync_truth : forall m t bans tbl,
  m <> MNonBlocking ->
  tree_ok t = true -> forallb wf_node (rules t) = true -> explicit_actions t = true ->
  shared_leaves_sync t tbl ->
  (forall i, In i (tree_leaf_ids t) -> attempts (lookup_script tbl i) = []) ->
  exists c, run_check m t bans tbl = Some c /\ err c = false /\
    result (ans c) = decide m (fun i => truth (lookup_script tbl i)) t bans.
Proof. exact fast_sync_truth. Qed.

(* What decide means: the action of the least rule that is not banned and whose expression holds; if there
   is none, the reverse of the last action (DUNNO when that is neither allow nor deny or there are no
   actions), or DENIED for fastCheck(list). *)
Theorem C44_decide_is_first_match : forall m v t bans,
  match first_from v (rule_banned t bans) 0 (rules t) with
  | Some q =>
      (exists x, nthN q (rules t) = Some x /\ rule_banned t bans q = false /\ eval v x = true) /\
      (forall p y, p < q -> nthN p (rules t) = Some y -> rule_banned t bans p = true \/ eval v y = false) /\
      decide m v t bans = match actions t with
                          | [] => (Allowed, 0, false)
                          | _ => (acode (nth_action t q), akind (nth_action t q), false)
                          end
  | None =>
      (forall p y, nthN p (rules t) = Some y -> rule_banned t bans p = true \/ eval v y = false) /\
      decide m v t bans = match m with
                          | MFastList => (Denied, 0, false)
                          | _ => (opposite (acode (last (actions t) (action Dunno 0))), 0, true)
                          end
  end.
Proof. exact decide_is_first_match. Qed.

(* An empty access list: neither allow nor deny. *)
Theorem C44_empty_list_is_dunno : forall i bans tbl,
  exists c a, run_check MNonBlocking (mkTree i [] []) bans tbl = Some c /\ err c = false /\ cbk c = Some a /\
    result a = (Dunno, 0, true).
Proof. exact empty_list_is_dunno. Qed.

(* hypotheses that are easy to check *)
Theorem C44_distinct_leaves_suffice : forall t tbl, NoDup (tree_leaf_ids t) -> shared_leaves_sync t tbl.
Proof. exact NoDup_shared_leaves_sync. Qed.

Theorem C44_shared_leaves_checkable : forall t tbl, shared_leaves_sync_b t tbl = true -> shared_leaves_sync t tbl.
Proof. exact shared_leaves_check. Qed.

(* ---------- non-vacuity: concrete instances ---------- *)
(* http_access allow A !B C ; http_access deny any-of(C, D): A needs two lookups, B one, D one that does not
   really go async; the synchronous C is shared by both rules *)
Definition ex_tree : tree :=
  mkTree 1 [Inner 2 KAnd [Leaf 10; Inner 3 KNot [Leaf 11]; Leaf 12]; Inner 4 KAnd [Inner 5 KAnyOf [Leaf 12; Leaf 13]]]
         [action Allowed 0; action Denied 0].
Definition ex_tbl : list (N * lscript) :=
  [(10, mkScript true false [Real; Real]); (11, mkScript true false [Real]);
   (12, mkScript false false []); (13, mkScript true false [Fake])].

Example C44_example_hypotheses :
  tree_ok ex_tree = true /\ forallb wf_node (rules ex_tree) = true /\ explicit_actions ex_tree = true /\
  shared_leaves_sync ex_tree ex_tbl.
Proof.
  repeat split; try reflexivity. apply shared_leaves_check. vm_compute. reflexivity.
Qed.

Example C44_example_run :
  option_map (fun c => (err c, option_map result (cbk c), susp c, starts c)) (run_check MNonBlocking ex_tree [] ex_tbl)
  = Some (false, Some (Allowed, 0, true), 3, 4).
Proof. vm_compute. reflexivity. Qed.

Example C44_example_decide :
  decide MNonBlocking (fun i => leaf_value true (lookup_script ex_tbl i)) ex_tree [] = (Allowed, 0, true).
Proof. vm_compute. reflexivity. Qed.

Example C44_example_fast :
  option_map (fun c => (err c, result (ans c))) (run_check MFast ex_tree [] ex_tbl) = Some (false, (Allowed, 0, true))
  /\ decide MFast (fun i => leaf_value false (lookup_script ex_tbl i)) ex_tree [] = (Allowed, 0, true).
Proof. split; vm_compute; reflexivity. Qed.

Print Assumptions C44_nonblocking_first_match.
Print Assumptions C44_fast_first_match.
Print Assumptions C44_async_lookups_invisible.
Print Assumptions C44_schedule_independent.
Print Assumptions C44_fast_sync_truth.
Print Assumptions C44_decide_is_first_match.
Print Assumptions C44_empty_list_is_dunno.
Print Assumptions C44_distinct_leaves_suffice.
Print Assumptions C44_shared_leaves_checkable.
