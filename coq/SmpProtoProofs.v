(* SmpProtoProofs.v — proofs about the collapsing protocol step function of SmpModel.v (C18). *)
Require Import SquidV.Bytes SquidV.RwlockModel SquidV.SmpModel SquidV.SmpProofs.
Require Import ZifyBool ZifyN ZifyNat Lia.
Local Open Scope N_scope.

Ltac brk :=
  repeat match goal with
  | |- context [match ?x with _ => _ end] =>
      lazymatch x with
      | context [match _ with _ => _ end] => fail
      | _ => destruct x eqn:?
      end
  end.

Lemma nf_setX : forall g x, nf (setX g x) = nf g. Proof. reflexivity. Qed.
Lemma nf_setM : forall g x, nf (setM g x) = nf g. Proof. reflexivity. Qed.
Lemma nf_setE : forall g i s, nf (setE g i s) = nf g. Proof. reflexivity. Qed.
Lemma nf_setC : forall g i s, nf (setC g i s) = nf g. Proof. reflexivity. Qed.
Lemma nf_addE : forall g s, nf (fst (addE g s)) = nf g. Proof. reflexivity. Qed.

Lemma nf_disconnect : forall g s, nf (disconnect g s) = nf g.
Proof. intros. unfold disconnect. brk; reflexivity. Qed.
Lemma nf_evict : forall g s, nf (evict g s) = nf g.
Proof. intros. unfold evict. brk; reflexivity. Qed.
Lemma nf_make_private : forall c g i s b, nf (make_private c g i s b) = nf g.
Proof. intros. unfold make_private. brk; cbn [nf setE]; try apply nf_evict; reflexivity. Qed.
Lemma nf_copy_from_M : forall g s, nf (fst (fst (copy_from_M g s))) = nf g.
Proof. intros. unfold copy_from_M. brk; reflexivity. Qed.
Lemma nf_anchor : forall g s, nf (fst (fst (anchorToCache g s))) = nf g.
Proof.
  intros. unfold anchorToCache. destruct (s_m s); try reflexivity;
  destruct (openForReading (M g)) as [m' ok]; destruct ok; try (brk; reflexivity);
  match goal with |- context [copy_from_M ?a ?b] => pose proof (nf_copy_from_M a b) as H; destruct (copy_from_M a b) as [[g2 s2] sy] end;
  cbn [fst] in H; destruct sy; cbn [fst]; exact H.
Qed.

Lemma nf_find : forall c g w, nf (fst (find c g w)) = nf g.
Proof.
  intros. unfold find, addE.
  destruct (smp c && markedForDeletion (X g)); [reflexivity|].
  destruct (find_pub (es g) w 0); [reflexivity|].
  destruct (negb (smp c)); [reflexivity|].
  destruct (openForReading (X g)) as [x' okx]. destruct okx.
  - match goal with |- context [anchorToCache ?a ?b] => pose proof (nf_anchor a b) as H; destruct (anchorToCache a b) as [[g2 s2] a2] end.
    cbn [fst] in H. destruct a2 as [[]|]; brk; cbn [fst nf]; try rewrite nf_disconnect; exact H.
  - destruct (openForReading (M g)) as [m' okm]. destruct okm; [|reflexivity].
    match goal with |- context [copy_from_M ?a ?b] => pose proof (nf_copy_from_M a b) as H; destruct (copy_from_M a b) as [[g2 s2] sy] end.
    cbn [fst] in H. destruct sy.
    + destruct (openOrCreateForReading (X g2)) as [x2 ok2]. destruct ok2; cbn [fst nf setX]; try rewrite nf_disconnect; exact H.
    + cbn [fst setM nf]. exact H.
Qed.

Lemma nf_do_find : forall c g ci w b, nf (do_find c g ci w b) = nf g.
Proof.
  intros. unfold do_find. destruct (nthN ci (cs g)); [|reflexivity]. destruct (c_st c0); try reflexivity.
  pose proof (nf_find c g w) as H. destruct (find c g w) as [g1 r]. cbn [fst] in H.
  destruct r; brk; cbn [setC nf]; exact H.
Qed.

Lemma nf_mem_write : forall c g i s k t, nf (fst (mem_write c g i s k t)) = nf g.
Proof. intros. unfold mem_write. brk; reflexivity. Qed.
Lemma nf_checkpoint : forall g s, nf (fst (writing_checkpoint g s)) = nf g.
Proof. intros. unfold writing_checkpoint. brk; reflexivity. Qed.

Lemma nf_do_data : forall c g v n, nf (do_data c g v n) = nf g.
Proof.
  intros. unfold do_data. destruct (find_src (es g) v 0); [|reflexivity]. destruct (nthN n0 (es g)); [|reflexivity].
  match goal with |- context [if ?b then _ else _] => destruct b end; [reflexivity|].
  match goal with |- context [mem_write ?a ?b ?c ?d ?e ?f] => pose proof (nf_mem_write a b c d e f) as H; destruct (mem_write a b c d e f) end.
  exact H.
Qed.

Ltac use_eqs :=
  repeat match goal with
  | H : mem_write ?a ?b ?c ?d ?e ?f = (_, _) |- _ =>
      let N := fresh "N" in pose proof (nf_mem_write a b c d e f) as N; rewrite H in N; cbn [fst] in N; clear H
  | H : writing_checkpoint ?a ?b = (_, _) |- _ =>
      let N := fresh "N" in pose proof (nf_checkpoint a b) as N; rewrite H in N; cbn [fst] in N; clear H
  | H : copy_from_M ?a ?b = (_, _, _) |- _ =>
      let N := fresh "N" in pose proof (nf_copy_from_M a b) as N; rewrite H in N; cbn [fst] in N; clear H
  | H : anchorToCache ?a ?b = (_, _, _) |- _ =>
      let N := fresh "N" in pose proof (nf_anchor a b) as N; rewrite H in N; cbn [fst] in N; clear H
  end;
  cbn [nf setE setM setX setC] in *; rewrite ?nf_make_private, ?nf_evict, ?nf_disconnect in *; try congruence; try reflexivity.

Lemma nf_do_hdr : forall c g v n, nf (do_hdr c g v n) = nf g.
Proof. intros. unfold do_hdr. brk; use_eqs. Qed.
Lemma nf_do_end : forall c g v b, nf (do_end c g v b) = nf g.
Proof. intros. unfold do_end. brk; use_eqs. Qed.
Lemma nf_do_purge : forall c g w, nf (do_purge c g w) = nf g.
Proof. intros. unfold do_purge. brk; use_eqs. Qed.
Lemma nf_do_fin : forall g ci, nf (do_fin g ci) = nf g.
Proof. intros. unfold do_fin. brk; use_eqs. Qed.
Lemma nf_sync_entry : forall c g i s, nf (sync_entry c g i s) = nf g.
Proof. intros. unfold sync_entry. brk; use_eqs. Qed.
Lemma nf_sync_all : forall c l g w i, nf (sync_all c g w l i) = nf g.
Proof.
  induction l as [|x r IH]; intros g w i; cbn [sync_all]; [reflexivity|].
  rewrite IH. brk; try reflexivity. apply nf_sync_entry.
Qed.
Lemma nf_settle : forall g, nf (settle g) = nf g. Proof. reflexivity. Qed.
Lemma nf_gc : forall c l g i, nf (gc c g l i) = nf g.
Proof.
  induction l as [|x r IH]; intros g i; cbn [gc]; [reflexivity|].
  rewrite IH. brk; try reflexivity; cbn [nf setE]; rewrite ?nf_disconnect, ?nf_evict; reflexivity.
Qed.

Definition starts_fetch (g : gst) (e : ev) : bool :=
  match e with
  | EStart ci => match nthN ci (cs g) with Some cl => match c_st cl with CMiss => true | _ => false end | None => false end
  | _ => false
  end.

Lemma nf_do_start : forall c g ci, nf (do_start c g ci) = nf g + (if starts_fetch g (EStart ci) then 1 else 0).
Proof.
  intros. unfold do_start, starts_fetch. destruct (nthN ci (cs g)) as [cl|]; [|lia].
  destruct (c_st cl); try lia. unfold addE. brk; cbn [nf]; lia.
Qed.

Theorem nf_step : forall c g e, nf (step c g e) = nf g + (if starts_fetch g e then 1 else 0).
Proof.
  intros. unfold step. rewrite nf_gc, nf_settle.
  destruct e; cbn [starts_fetch]; rewrite ?nf_do_find, ?nf_do_hdr, ?nf_do_data, ?nf_do_end, ?nf_sync_all, ?nf_do_fin, ?nf_do_purge; try lia.
  apply nf_do_start.
Qed.

(* counting over a whole run *)
Fixpoint fetches_started (c : cfg) (g : gst) (l : list ev) : N :=
  match l with
  | [] => 0
  | e :: r => (if starts_fetch g e then 1 else 0) + fetches_started c (step c g e) r
  end.
Theorem nf_run : forall c l g, nf (run c g l) = nf g + fetches_started c g l.
Proof.
  induction l as [|e r IH]; intros g; cbn [run fetches_started]; [lia|]. rewrite IH, nf_step. lia.
Qed.

(* ================= bounded exhaustive bursts ================= *)
(* all lists over {1,2,3} of length <= n *)
Fixpoint wlists (n : nat) : list (list N) :=
  match n with
  | O => [[]]
  | S k => [] :: flat_map (fun l => [1 :: l; 2 :: l; 3 :: l]) (wlists k)
  end.

Definition cfg_of (smpb known : bool) (k : cls) (total : N) : cfg :=
  mkCfg smpb 98304 (fun _ => mkPar k known total).

Definition all_full1 (c : cfg) (g : gst) (n : nat) : bool :=
  forallb (fun cl => match outcome_of c cl with OFull 1 => true | _ => false end) (firstn n (cs g)).
Definition none_full1 (c : cfg) (g : gst) : bool :=
  forallb (fun cl => match outcome_of c cl with OFull 1 => false | OPending | ONone => false | _ => true end) (cs g).

(* complete cacheable fetch: one origin request while it is in progress and in total; every client of the burst gets
   the complete first response *)
Definition check_complete (smpb known : bool) (lw : N) (A B : list N) : bool :=
  let c := cfg_of smpb known Pos 40000 in
  let '(g, n1) := run_scen c (mkScen 3 lw A B [1; 3] 9000 None) in
  (n1 =? 1) && (nf g =? 1) && all_full1 c g (1 + length A + length B + 2).
(* cut fetch: nobody is shown the first response as complete, everybody gets something definite *)
Definition check_cut (smpb known : bool) (lw : N) (A B : list N) : bool :=
  let c := cfg_of smpb known Pos 40000 in
  let '(g, n1) := run_scen c (mkScen 3 lw A B [] 9000 (Some 20000)) in
  (n1 =? 1) && none_full1 c g.

Definition sweep (f : bool -> bool -> N -> list N -> list N -> bool) : bool :=
  forallb (fun known => forallb (fun lw => forallb (fun A => forallb (fun B =>
     f true known lw A B) (wlists 2)) (wlists 3)) [1; 2; 3]) [true; false].

Lemma sweep_complete : sweep check_complete = true.
Proof. vm_compute. reflexivity. Qed.
Lemma sweep_cut : sweep check_cut = true.
Proof. vm_compute. reflexivity. Qed.

Lemma wlists_complete : forall n l, (length l <= n)%nat -> Forall (fun w => w = 1 \/ w = 2 \/ w = 3) l -> In l (wlists n).
Proof.
  induction n as [|k IH]; intros l Hl Hf.
  - destruct l; [left; reflexivity| cbn in Hl; lia].
  - destruct l as [|w r]; [left; reflexivity|]. right. cbn [length] in Hl.
    inversion Hf as [|? ? Hw Hr]; subst. apply in_flat_map. exists r. split; [apply IH; [lia|exact Hr]|].
    cbn [In]. destruct Hw as [->|[->| ->]]; auto.
Qed.

Lemma sweep_lift : forall f, sweep f = true -> forall known lw A B,
  (lw = 1 \/ lw = 2 \/ lw = 3) ->
  (length A <= 3)%nat -> Forall (fun w => w = 1 \/ w = 2 \/ w = 3) A ->
  (length B <= 2)%nat -> Forall (fun w => w = 1 \/ w = 2 \/ w = 3) B ->
  f true known lw A B = true.
Proof.
  intros f H known lw A B Hlw HA FA HB FB. unfold sweep in H.
  rewrite forallb_forall in H. specialize (H known ltac:(destruct known; cbn; auto)).
  rewrite forallb_forall in H. specialize (H lw ltac:(cbn; destruct Hlw as [->|[->| ->]]; auto)).
  rewrite forallb_forall in H. specialize (H A (wlists_complete 3 A HA FA)).
  rewrite forallb_forall in H. exact (H B (wlists_complete 2 B HB FB)).
Qed.

Theorem burst_complete_one_fetch : forall known lw A B,
  (lw = 1 \/ lw = 2 \/ lw = 3) ->
  (length A <= 3)%nat -> Forall (fun w => w = 1 \/ w = 2 \/ w = 3) A ->
  (length B <= 2)%nat -> Forall (fun w => w = 1 \/ w = 2 \/ w = 3) B ->
  check_complete true known lw A B = true.
Proof. exact (sweep_lift check_complete sweep_complete). Qed.

Theorem burst_cut_never_complete : forall known lw A B,
  (lw = 1 \/ lw = 2 \/ lw = 3) ->
  (length A <= 3)%nat -> Forall (fun w => w = 1 \/ w = 2 \/ w = 3) A ->
  (length B <= 2)%nat -> Forall (fun w => w = 1 \/ w = 2 \/ w = 3) B ->
  check_cut true known lw A B = true.
Proof. exact (sweep_lift check_cut sweep_cut). Qed.

(* two requests that both look up before either registers: both fetch (outside the property's premise) *)
Definition race_cfg : cfg := cfg_of true true Pos 1000.
Lemma simultaneous_misses : 
  nf (run race_cfg (add_clients g0 2) [EFind 0 1; EFind 1 2; EStart 0; EStart 1]) = 2 /\
  nf (run race_cfg (add_clients g0 2) [EFind 0 1; EStart 0; EFind 1 2; EStart 1]) = 1.
Proof. vm_compute. split; reflexivity. Qed.

Lemma nf_step_find : forall c g ci w, nf (step c g (EFind ci w)) = nf g.
Proof. intros. rewrite nf_step. cbn [starts_fetch]. apply N.add_0_r. Qed.
