(* handlers for the rangereply area (C15).
   rr.run <range hex|~> <obj hex> <ctype hex|~> <key hex> <hit 0|1> <limit> <if-range hex|~> <etag hex|~> <k0> <chunks csv|->
     -> "<status> cl=<n> cr=<hex|-> ct=<hex|-> body=<hex>"   the reply reply_run predicts
   rr.unit <range hex> <clen> <limit>
     -> what h_rangereply.cc prints for HttpHdrRange (lowestOffset, offsetLimitExceeded, canonize, isComplex, Content-Range texts) *)
let opt_hex s = if s = "~" then None else Some (bytes_of_hex s)
let hex_opt = function None -> "~" | Some b -> hex_of_bytes b
let ns_of_csv s = if s = "-" then [] else List.map n_of_string (String.split_on_char ',' s)

let () =
  reg "rr.run" (fun [rg; obj; ct; key; hit; limit; ifr; etag; k0; chunks] ->
      let i = { i_range = opt_hex rg; i_obj = bytes_of_hex obj; i_ctype = opt_hex ct; i_key = bytes_of_hex key;
                i_hit = (hit = "1"); i_limit = z_of_string limit; i_if_range = opt_hex ifr; i_etag = opt_hex etag;
                i_k0 = n_of_string k0; i_chunks = ns_of_csv chunks } in
      let o = reply_run i in
      let body = match o.o_body with
        | RDone (b, false) -> hex_of_bytes b
        | RDone (_, true) -> "ASSERT"
        | REof _ -> "EOF"
        | ROutOfChunks -> "OUTOFCHUNKS" in
      Printf.sprintf "%s cl=%s cr=%s ct=%s body=%s" (string_of_z o.o_status) (string_of_z o.o_content_length)
        (match o.o_content_range with None -> "-" | Some b -> hex_of_bytes b)
        (match o.o_content_type with None -> "-" | Some b -> hex_of_bytes b) body);
  reg "rr.unit" (fun [rg; clen; limit] ->
      let clen = z_of_string clen and limit = z_of_string limit in
      match range_run (bytes_of_hex rg) clen with
      | (_, true) -> "UB"
      | (None, false) -> "none"
      | (Some (raw, (ret, cs)), false) ->
        Printf.sprintf "low=%s first=%s lim=%s | canon=%s n=%d complex=%s first=%s lim=%s cr=%s"
          (string_of_z (lowest_offset Z0 raw)) (string_of_z (first_offset raw)) (b2s (offset_limit_exceeded raw limit))
          (b2s ret) (List.length cs) (b2s (is_complex cs)) (string_of_z (first_offset cs)) (b2s (offset_limit_exceeded cs limit))
          (String.concat "," (List.map (fun c -> hex_of_bytes (cont_range_value c clen)) cs)))
