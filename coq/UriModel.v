(* UriModel.v — executable model of src/anyp/Uri.cc (AnyP::Uri::parse, parseHost, parsePort,
   parseUrn, host(), path(), authority(), absolute(), absolutePath()), src/anyp/UriScheme.cc
   (FindProtocolType, defaultPort, image) as they exist in /repo, quirks included.

   Tables regenerated from the code on every run:
     Uri_gen.v      xisspace / xisdigit / xtolower / SBuf::toLower per byte, w_space, the two
                    valid_hostname_chars arrays, PathChars(), UserInfoChars(), the scheme table
                    (lower-case name, ProtocolType id, defaultPort()), MAX_URL, SQUIDHOSTNAMELEN,
                    method ids, Asterisk(), SlashPath()
     ByteMaps_gen.v image of every byte under Encode as applied by absolutePath() / absolute()
     CharSets_gen.v CharacterSet::ALPHA, DIGIT, HEXDIG, TCHAR
   Hand-written as expressions over those sets (function-static in the code, not dumpable):
     schemeChars, nidChars, alphanum, IPv6chars.

   Not modelled (the harness never sets them): append_domain, uri_whitespace=encode.

   External behaviour entering as an oracle: Ip::Address::fromHost / isAnyAddr / toHostStr,
   the parameter `ipq` below (Section variable in UriProofs.v, with its assumed contract).  The
   correspondence harness supplies the real function's answers for every string the model asks about. *)
Require Import SquidV.Bytes SquidV.TokModel SquidV.QuoteModel.
Require Import SquidV.gen.CharSets_gen SquidV.gen.ByteMaps_gen SquidV.gen.Uri_gen.
Local Open Scope N_scope.

(* ---------- configuration, results ---------- *)
Inductive wsmode := WsStrip | WsAllow | WsChop | WsDeny.      (* Config.uri_whitespace *)
Record cfg := { c_check : bool;                              (* Config.onoff.check_hostnames *)
                c_underscore : bool;                         (* Config.onoff.allow_underscore *)
                c_ws : wsmode }.

Record scheme := { s_id : N; s_img : bytes }.                (* UriScheme: theScheme_, image_ *)
Record uri := { u_scheme : scheme; u_login : bytes; u_host : bytes; u_num : bool;
                u_port : option N; u_path : bytes }.        (* path_ itself, not the path() accessor *)

(* what Ip::Address says about a C string:
   IpNo       fromHost() returned false
   IpAny c    fromHost() true, isAnyAddr() true,  toHostStr() = c
   IpAddr c   fromHost() true, isAnyAddr() false, toHostStr() = c *)
Inductive ipres := IpNo | IpAny (c : bytes) | IpAddr (c : bytes).

(* ---------- small string helpers ---------- *)
Definition xtolower (c : N) : N := tbl_get c uri_xtolower_tbl c.
Definition sbuf_tolower (c : N) : N := tbl_get c uri_sbuf_tolower_tbl c.
Definition xisspace : cset := uri_xisspace.
Definition xisdigit : cset := uri_xisdigit.
Definition w_space : cset := uri_w_space.

(* strrchr-style split: text before / after the LAST occurrence of ch *)
Fixpoint split_last (ch : N) (l : bytes) : option (bytes * bytes) :=
  match l with
  | [] => None
  | x :: r =>
      match split_last ch r with
      | Some (a, b) => Some (x :: a, b)
      | None => if x =? ch then Some ([], r) else None
      end
  end.
(* strchr-style split: text before / after the FIRST occurrence of ch *)
Fixpoint split_first (ch : N) (l : bytes) : option (bytes * bytes) :=
  match l with
  | [] => None
  | x :: r => if x =? ch then Some ([], r)
              else match split_first ch r with Some (a, b) => Some (x :: a, b) | None => None end
  end.

(* while ((l = strlen(h)) > 0 && h[--l] == '.') h[l] = '\0'; *)
Fixpoint strip_td (l : bytes) : bytes :=
  match l with
  | [] => []
  | c :: r => match strip_td r with
              | [] => if c =? 46 then [] else [c]
              | r' => c :: r'
              end
  end.
(* strstr(h, "..") *)
Fixpoint has_dotdot (l : bytes) : bool :=
  match l with
  | [] => false
  | c :: r => match r with
              | d :: _ => ((c =? 46) && (d =? 46)) || has_dotdot r
              | [] => false
              end
  end.
Definition starts_ch (ch : N) (l : bytes) : bool := match l with c :: _ => c =? ch | [] => false end.
Definition starts_dot (l : bytes) : bool := starts_ch 46 l.
Definition is_nil (l : bytes) : bool := match l with [] => true | _ => false end.

Definition colon : N := 58.
Definition slash : N := 47.

(* ---------- UriScheme ---------- *)
Fixpoint find_scheme (tbl : list (bytes * (N * option N))) (img : bytes) : option (bytes * (N * option N)) :=
  match tbl with
  | [] => None
  | (name, v) :: r => if list_eqb name img then Some (name, v) else find_scheme r img
  end.
(* FindProtocolType(str) followed by the UriScheme constructor used in uriParseScheme *)
Definition scheme_of (str : bytes) : scheme :=
  match find_scheme uri_schemes (map sbuf_tolower str) with
  | Some (name, (id, _)) => {| s_id := id; s_img := name |}
  | None => {| s_id := uri_PROTO_UNKNOWN; s_img := str |}
  end.
(* UriScheme::defaultPort(): a switch on theScheme_ *)
Fixpoint default_of_id (tbl : list (bytes * (N * option N))) (id : N) : option N :=
  match tbl with
  | [] => None
  | (_, (i, p)) :: r => if i =? id then p else default_of_id r id
  end.
Definition default_port (s : scheme) : option N := default_of_id uri_schemes (s_id s).
Definition scheme_none : scheme := {| s_id := uri_PROTO_NONE; s_img := [] |}.
Definition scheme_http : scheme :=
  match find_scheme uri_schemes [104;116;116;112] with
  | Some (name, (id, _)) => {| s_id := id; s_img := name |}
  | None => scheme_none
  end.

Definition schemeChars : cset := fun c => cs_ALPHA c || cs_DIGIT c || (c =? 43) || (c =? 46) || (c =? 45).
Definition nidChars : cset := fun c => cs_ALPHA c || cs_DIGIT c || (c =? 45).
Definition alphanum : cset := fun c => cs_ALPHA c || cs_DIGIT c.
Definition IPv6chars : cset := fun c => cs_HEXDIG c || (c =? 58) || (c =? 46).

(* uriParseScheme(tok): Some (scheme, rest) or None (throws) *)
Definition parse_scheme (raw : bytes) : option (scheme * bytes) :=
  match tok_prefix schemeChars 16 raw with
  | None => None
  | Some (str, r1) =>
      match tok_skipChar colon r1 with
      | (false, _) => None
      | (true, r2) =>
          match str with
          | c0 :: _ => if cs_ALPHA c0 then Some (scheme_of str, r2) else None
          | [] => None
          end
      end
  end.

(* ---------- Uri::host(src) ---------- *)
Definition set_host (ipq : bytes -> ipres) (h : bytes) : bytes * bool :=
  match ipq h with
  | IpAddr c => (c, true)
  | _ => (takeN (uri_SQUIDHOSTNAMELEN - 1) h, false)          (* xstrncpy(host_, src, sizeof(host_)) *)
  end.

(* ---------- the part of parse() after the CONNECT / non-CONNECT split ---------- *)
Definition hostchars (c : cfg) : cset := if c_underscore c then uri_hostchars_u else uri_hostchars.

Definition ws_path (c : cfg) (p : bytes) : option bytes :=
  if existsb w_space p then                                   (* stringHasWhitespace(urlpath) *)
    match c_ws c with
    | WsDeny => None
    | WsAllow => Some p
    | WsChop => Some (fst (span (fun x => negb (w_space x)) p))        (* strcspn(urlpath, w_space) *)
    | WsStrip => Some (filter (fun x => negb (xisspace x)) p)
    end
  else Some p.

(* the xtolower loop over foundHost, then the whitespace policy applied to the host *)
Definition lower_host (c : cfg) (host : bytes) : bytes :=
  let h1 := map xtolower host in
  if existsb w_space h1
  then match c_ws c with WsStrip => filter (fun x => negb (xisspace x)) h1 | _ => h1 end
  else h1.

Definition finish (c : cfg) (ipq : bytes -> ipres) (sch : scheme) (login host : bytes) (port : N)
           (urlpath : bytes) : option uri :=
  let h2 := lower_host c host in
  if c_check c && negb (forallb (hostchars c) h2) then None else
  let h3 := strip_td h2 in
  (* if (!*foundHost || strlen(foundHost) >= SQUIDHOSTNAMELEN) return false;   (1eaabce) *)
  if is_nil h3 || (uri_SQUIDHOSTNAMELEN <=? lenN h3) then None else
  if has_dotdot h3 || starts_dot h3 then None else
  if (port <? 1) || (65535 <? port) then None else
  match ws_path c urlpath with
  | None => None
  | Some p =>
      let '(h, num) := set_host ipq h3 in
      Some {| u_scheme := sch; u_login := login; u_host := h; u_num := num; u_port := Some port; u_path := p |}
  end.

(* ---------- CONNECT: parseHost / parsePort ---------- *)
Definition parse_host_connect (ipq : bytes -> ipres) (raw : bytes) : option (bytes * bytes) :=
  match tok_skipChar 91 raw with
  | (true, r1) =>
      match tok_prefix IPv6chars npos r1 with
      | None => None
      | Some (ipv6ish, r2) =>
          match tok_skipChar 93 r2 with
          | (false, _) => None
          | (true, r3) =>
              if negb (existsb (N.eqb colon) ipv6ish) then None
              else match ipq ipv6ish with IpNo => None | _ => Some (ipv6ish, r3) end
          end
      end
  | (false, _) => tok_prefix cs_TCHAR npos raw
  end.

Definition parse_port_connect (buf : bytes) : option (N * bytes) :=
  match tok_skipChar 48 buf with
  | (true, _) => None                                         (* zero or zero-prefixed port *)
  | (false, _) =>
      match tok_int64 10 false npos buf with
      | None => None
      | Some (v, k) =>
          if (v <=? 0)%Z then None                            (* Assure(rawPort > 0) *)
          else if (65535 <? v)%Z then None
          else Some (Z.to_N v, dropN k buf)
      end
  end.

(* ---------- urn: ---------- *)
Definition last_of (l : bytes) : option N := match rev l with c :: _ => Some c | [] => None end.
Definition parse_urn (ipq : bytes -> ipres) (sch : scheme) (r : bytes) : option uri :=
  match tok_prefix nidChars 32 r with
  | None => None
  | Some (nid, r1) =>
      match tok_skipChar colon r1 with
      | (false, _) => None
      | (true, r2) =>
          if lenN nid <? 2 then None else
          match nid, last_of nid with
          | c0 :: _, Some cl =>
              if alphanum c0 && alphanum cl then
                let '(h, num) := set_host ipq nid in
                Some {| u_scheme := {| s_id := uri_PROTO_URN; s_img := s_img sch |};
                        u_login := []; u_host := h; u_num := num; u_port := None; u_path := r2 |}
              else None
          | _, _ => None
          end
      end
  end.

(* ---------- the legacy authority / path split ---------- *)
Definition host_delim (c : N) : bool := (c =? 47) || (c =? 63) || (c =? 35) || xisspace c.
Definition is_crlf (c : N) : bool := (c =? 13) || (c =? 10).

(* the digit loop of the repaired non-CONNECT port parser *)
Fixpoint port_digits (l : bytes) (acc : N) : option N :=
  match l with
  | [] => Some acc
  | c :: r => if negb (xisdigit c) || (65535 <? acc) then None
              else port_digits r (acc * 10 + (c - 48))
  end.

(* host text and optional port text, from foundHost after the login has been removed *)
Definition split_host_port (fh : bytes) : bytes * option bytes :=
  if starts_ch 91 fh then                                     (* '[' : strip IPA brackets *)
    let '(inner, after) := span (fun c => negb (c =? 93)) (tl fh) in
    (inner, match after with
            | [] => None
            | _ :: _ => match split_first colon after with Some (_, p) => Some p | None => None end
            end)
  else
    match split_last colon fh with
    | Some (a, b) => if existsb (N.eqb colon) a then (fh, None)   (* strrchr != strchr: unbracketed IPv6 *)
                     else (a, Some b)
    | None => (fh, None)
    end.

(* everything after the login has been cut off foundHost *)
Definition after_login (c : cfg) (ipq : bytes -> ipres) (sch : scheme) (login fh1 urlpath : bytes) : option uri :=
  let '(h, ptxt) := split_host_port fh1 in
  (* Bug 3183 check: made after the bracket strip, before the port is cut off *)
  if (if starts_ch 91 fh1 then is_nil h else is_nil fh1) then None else
  match (match ptxt with
         | Some p => port_digits p 0
         | None => Some (match default_port sch with Some d => d | None => 0 end)
         end) with
  | None => None
  | Some port => finish c ipq sch login h port urlpath
  end.

(* urlpath: an implied "/" unless the text after the authority starts with one; up to CR / LF *)
Definition urlpath_of (src : bytes) : bytes :=
  (if starts_ch slash src then [] else [slash]) ++ fst (span (fun c => negb (is_crlf c)) src).

Definition parse_url (c : cfg) (ipq : bytes -> ipres) (sch : scheme) (rest : bytes) : option uri :=
  match tok_skip [slash; slash] rest with
  | (false, _) => None
  | (true, B) =>
      let url := cstr B in                                    (* B.c_str() *)
      let '(fh0, src) := span (fun c => negb (host_delim c)) url in
      match split_last 64 fh0 with
      | Some (a, b) => after_login c ipq sch (unesc_list a) b (urlpath_of src)   (* rfc1738_unescape(login) *)
      | None => after_login c ipq sch [] fh0 (urlpath_of src)
      end
  end.

(* ---------- AnyP::Uri::parse ---------- *)
Definition is_connect (m : N) : bool := m =? uri_METHOD_CONNECT.
Definition is_star_method (m : N) : bool := (m =? uri_METHOD_OPTIONS) || (m =? uri_METHOD_TRACE).

Definition parse (c : cfg) (ipq : bytes -> ipres) (m : N) (raw : bytes) : option uri :=
  if uri_MAX_URL - 1 <? lenN raw then None
  else if is_star_method m && list_eqb raw uri_asterisk then
    Some {| u_scheme := scheme_http; u_login := []; u_host := []; u_num := false;
            u_port := default_port scheme_http; u_path := uri_asterisk |}
  else if is_connect m then
    match parse_host_connect ipq raw with
    | None => None
    | Some (rawHost, r1) =>
        match tok_skipChar colon r1 with
        | (false, _) => None
        | (true, r2) =>
            match parse_port_connect r2 with
            | None => None
            | Some (port, r3) =>
                match r3 with
                | _ :: _ => None
                | [] => finish c ipq scheme_none [] rawHost port []
                end
            end
        end
    end
  else
    match parse_scheme raw with
    | None => None
    | Some (sch, rest) =>
        if s_id sch =? uri_PROTO_NONE then None
        else if s_id sch =? uri_PROTO_URN then parse_urn ipq sch rest
        else parse_url c ipq sch rest
    end.

(* ---------- canonical forms ---------- *)
(* "%hu" of a KnownPort *)
Fixpoint dec_fuel (fuel : nat) (n : N) (acc : bytes) : bytes :=
  match fuel with
  | O => acc
  | S f => let acc' := (48 + n mod 10) :: acc in
           if n / 10 =? 0 then acc' else dec_fuel f (n / 10) acc'
  end.
Definition dec16 (n : N) : bytes := dec_fuel 5 (n mod 65536) [].

Definition opt_n_eqb (a b : option N) : bool :=
  match a, b with Some x, Some y => x =? y | None, None => true | _, _ => false end.

Definition authority (u : uri) (requirePort : bool) : bytes :=
  match u_port u with
  | Some p => if requirePort || negb (opt_n_eqb (u_port u) (default_port (u_scheme u)))
              then u_host u ++ colon :: dec16 p else u_host u
  | None => u_host u
  end.

(* Uri::path(): the "/" default for http and https *)
Definition path_acc (u : uri) : bytes :=
  match u_path u with
  | [] => if (s_id (u_scheme u) =? uri_PROTO_HTTP) || (s_id (u_scheme u) =? uri_PROTO_HTTPS)
          then uri_slash_path else []
  | p => p
  end.
(* Encode(path(), PathChars() + '?'): the per-byte images bm_uri_path are regenerated from
   absolutePath() itself, so they follow the set the code uses now (3db1355 keeps '?') *)
Definition absolute_path (u : uri) : bytes := uri_encode_path (path_acc u).

Definition absolute (u : uri) : bytes :=
  let id := s_id (u_scheme u) in
  s_img (u_scheme u) ++ colon ::
  (if negb (id =? uri_PROTO_URN) then
     [slash; slash] ++
     (if ((id =? uri_PROTO_FTP) || (id =? uri_PROTO_UNKNOWN)) && negb (is_nil (u_login u))
      then uri_encode_userinfo (u_login u) ++ [64] else [])
     ++ authority u false
   else u_host u ++ [colon])
  ++ absolute_path u.

(* what the property calls Squid's canonical form: absolute(), or host:port for CONNECT targets *)
Definition canonical (m : N) (u : uri) : bytes :=
  if is_connect m then authority u true else absolute u.

(* parse, canonicalise, parse again — the correspondence entry *)
Definition roundtrip (c : cfg) (ipq : bytes -> ipres) (m : N) (raw : bytes)
  : option (uri * bytes * option uri) :=
  match parse c ipq m raw with
  | None => None
  | Some u => let cn := canonical m u in Some (u, cn, parse c ipq m cn)
  end.
