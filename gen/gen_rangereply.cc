// Table generator (C15): the constants the 206 packer model depends on, as the code defines them now:
// the registered names of Content-Type / Content-Range / Content-Length, the visible application name the
// multipart boundary starts with (APP_FULLNAME, used when httpd_suppress_version_string is off -- the lab default),
// and the client-side store read size (HTTP_REQBUF_SZ).
#include "squid.h"
#include "http/forward.h"
#include "http/RegisteredHeaders.h"
#include <iostream>
#include <cstring>

static void bytesOf(const char *name, const char *s) {
    std::cout << "Definition " << name << " : bytes := [";
    for (size_t i = 0; i < strlen(s); ++i)
        std::cout << (i ? ";" : "") << static_cast<int>(static_cast<unsigned char>(s[i]));
    std::cout << "].\n";
}

int main() {
    std::cout << "@@FILE Rangereply_gen.v\n";
    std::cout << "(* generated from /repo by gen/gen_rangereply.cc -- do not edit *)\n"
              "Require Import SquidV.Bytes.\nLocal Open Scope N_scope.\n";
    bytesOf("rr_name_content_type", Http::HeaderLookupTable.lookup(Http::HdrType::CONTENT_TYPE).name);
    bytesOf("rr_name_content_range", Http::HeaderLookupTable.lookup(Http::HdrType::CONTENT_RANGE).name);
    bytesOf("rr_name_content_length", Http::HeaderLookupTable.lookup(Http::HdrType::CONTENT_LENGTH).name);
    bytesOf("rr_app_fullname", APP_FULLNAME);
    std::cout << "Definition rr_reqbuf_sz : N := " << HTTP_REQBUF_SZ << ".\n";
    return 0;
}
