// Table generator 1: character sets as the code defines them *now*.
// Prints Coq source; sections are introduced by "@@FILE <name>".
#include "squid.h"
#include <sstream>
#include <iostream>
#include <vector>
#include <map>
#include <memory>
#include "base/CharacterSet.h"
#define private public
#define protected public
#include "http/one/Parser.h"
#include "http/one/RequestParser.h"
#include "SquidConfig.h"
#undef private
#undef protected
#include <iostream>

static void dump(const char *name, const CharacterSet &s) {
    std::cout << "Definition " << name << "_tbl : list bool := [";
    for (int c = 0; c < 256; ++c)
        std::cout << (c ? ";" : "") << (s[static_cast<unsigned char>(c)] ? "true" : "false");
    std::cout << "].\nDefinition " << name << " : cset := mem_tbl " << name << "_tbl.\n";
}

int main() {
    std::cout << "@@FILE CharSets_gen.v\n";
    std::cout << "(* generated from /repo by gen/gen_charsets.cc -- do not edit *)\n"
              "Require Import SquidV.Bytes.\n";
#define D(x) dump("cs_" #x, CharacterSet::x)
    D(ALPHA); D(BIT); D(CR); D(CTL); D(DIGIT); D(DQUOTE); D(HEXDIG); D(HTAB); D(LF); D(SP); D(VCHAR);
    D(WSP); D(CTEXT); D(TCHAR); D(SPECIAL); D(QDTEXT); D(OBSTEXT); D(ETAGC); D(TOKEN68C);
    dump("cs_RFC3986_UNRESERVED", CharacterSet::RFC3986_UNRESERVED());
    Config.onoff.relaxed_header_parser = 0;
    dump("cs_strict_Whitespace", Http1::Parser::WhitespaceCharacters());
    dump("cs_strict_Delimiter", Http1::Parser::DelimiterCharacters());
    dump("cs_strict_RequestTarget", Http1::RequestParser::RequestTargetCharacters());
    Config.onoff.relaxed_header_parser = 1;
    dump("cs_relaxed_Whitespace", Http1::Parser::WhitespaceCharacters());
    dump("cs_relaxed_Delimiter", Http1::Parser::DelimiterCharacters());
    dump("cs_relaxed_RequestTarget", Http1::RequestParser::RequestTargetCharacters());
    return 0;
}
