(* Properties_C25.v — C25: header blocks are parsed into exactly their fields.
   Statements only; proofs live in HdrparseProofs.v. *)
Require Import SquidV.Bytes SquidV.ClenModel SquidV.HdrparseModel SquidV.HdrparseProofs.
Local Open Scope N_scope.

Theorem C25_rejects_nul : forall relaxed req proh block,
  In 0 block -> h_parse relaxed req proh block = None.
Proof. exact rejects_nul. Qed.
Print Assumptions C25_rejects_nul.
