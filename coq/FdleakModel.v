(* FdleakModel.v — C08: descriptor accounting and the descriptor-ownership protocol.

   Layer A  src/fd.cc        fd_open / fd_close / fdUpdateBiggest on (flags.open, Number_FD, Biggest_FD),
                             asserts = None.
   Layer B  src/comm.cc      _comm_close (closing() test, isOpen test, timeout removal, close handlers scheduled in
                             list order, comm_close_complete scheduled last), comm_close_complete (fd_close + close(2)).
   Layer C  src/pconn.cc     IdleConnList as the list theList_[size_-1] .. theList_[0] (newest first): push, the
                             right-to-left scans of findUseable / findIndexOf + removeAt, findAndClose;
                             PconnPool::push (fdUsageHigh refusal), PconnPool::pop (keepOpen or close), theCount.
   Layer D  protocol         who owns a descriptor and what an owner does on each event: ConnStateData (client
                             connection: close handler connStateClosed, request/idle/lifetime timeout -> close),
                             HttpStateData (server connection: close handler httpStateConnClosed, closeServer =
                             remove handler + close, httpTimeout, COMPLETE_PERSISTENT_MSG -> pool), the idle pool
                             (no close handler; read event and timeout -> findAndClose).
   Executable definitions only. Descriptors are small nat indices (< maxfd), counters are Z (C int). *)
Require Import SquidV.Bytes.
From Coq Require Import Arith.

Definition upd {A : Type} (m : nat -> A) (k : nat) (v : A) : nat -> A :=
  fun x => if Nat.eqb x k then v else m x.

(* ------------------------------------------------------------------ Layer A: src/fd.cc *)
Record fds := mkFds {
  fopen : nat -> bool;   (* fd_table[fd].flags.open *)
  fnum : Z;              (* Number_FD *)
  fbig : Z               (* Biggest_FD *)
}.

(* while (Biggest_FD >= 0 && !fd_table[Biggest_FD].flags.open) --Biggest_FD;   started at Biggest_FD = n-1 *)
Fixpoint lower (o : nat -> bool) (n : nat) : Z :=
  match n with
  | O => (-1)%Z
  | S m => if o m then Z.of_nat m else lower o m
  end.

(* fdUpdateBiggest(fd, opening); maxfd = Squid_MaxFD; None = an assert fails *)
Definition fd_update_biggest (maxfd : nat) (o : nat -> bool) (big : Z) (fd : nat) (opening : bool) : option Z :=
  if (Z.of_nat fd <? big)%Z then Some big
  else if negb (fd <? maxfd) then None                              (* assert(fd < Squid_MaxFD) *)
  else if (big <? Z.of_nat fd)%Z then
         (if opening then Some (Z.of_nat fd) else None)             (* assert(opening) *)
  else if opening then None                                         (* assert(!opening) *)
  else Some (lower o (Z.to_nat (big + 1))).

Definition fd_close (maxfd : nat) (d : fds) (fd : nat) : option fds :=
  if negb (fopen d fd) then None                                    (* assert(F->flags.open) *)
  else
    let o' := upd (fopen d) fd false in                             (* F->flags.open = false, then fdUpdateBiggest(fd, 0) *)
    match fd_update_biggest maxfd o' (fbig d) fd false with
    | None => None
    | Some b => Some (mkFds o' (fnum d - 1) b)                      (* --Number_FD *)
    end.

Definition fd_open (maxfd : nat) (d : fds) (fd : nat) : option fds :=
  match (if fopen d fd then fd_close maxfd d fd else Some d) with   (* "WARNING: Closing open FD": fd_close(fd) first *)
  | None => None
  | Some d1 =>
    let o' := upd (fopen d1) fd true in                             (* F->flags.open = true, then fdUpdateBiggest(fd, 1) *)
    match fd_update_biggest maxfd o' (fbig d1) fd true with
    | None => None
    | Some b => Some (mkFds o' (fnum d1 + 1) b)                     (* ++Number_FD *)
    end
  end.

Inductive fdop := FOpen (fd : nat) | FClose (fd : nat).

Fixpoint run_fdops (maxfd : nat) (d : fds) (ops : list fdop) : option fds :=
  match ops with
  | [] => Some d
  | FOpen fd :: r => match fd_open maxfd d fd with Some d' => run_fdops maxfd d' r | None => None end
  | FClose fd :: r => match fd_close maxfd d fd with Some d' => run_fdops maxfd d' r | None => None end
  end.

Definition fds_empty : fds := mkFds (fun _ => false) 0%Z (-1)%Z.

Definition count_open (maxfd : nat) (o : nat -> bool) : nat := length (filter o (seq 0 maxfd)).

(* ------------------------------------------------------------------ Layers B-D *)
Inductive owner :=
| ONone                (* entry not in use *)
| OInfra               (* listening socket, logs, DNS sockets: open for the whole run *)
| OCli (c : nat)       (* ConnStateData of client connection c *)
| OSrv (c : nat)       (* FwdState/HttpStateData serving the current transaction of client connection c *)
| OIdle.               (* the idle persistent-connection pool *)

Definition owner_eqb (a b : owner) : bool :=
  match a, b with
  | ONone, ONone => true
  | OInfra, OInfra => true
  | OIdle, OIdle => true
  | OCli x, OCli y => Nat.eqb x y
  | OSrv x, OSrv y => Nat.eqb x y
  | _, _ => false
  end.

Inductive call :=
| CHandler (o : owner)     (* a close handler of owner o (connStateClosed / httpStateConnClosed) *)
| CComplete (fd : nat).    (* comm_close_complete(fd) *)

Record st := mkSt {
  tbl : fds;                   (* src/fd.cc state *)
  kern : nat -> bool;          (* descriptors open in the kernel (what /proc/<pid>/fd lists) *)
  closing : nat -> bool;       (* fde::flags.close_request *)
  own : nat -> owner;
  hs : nat -> list owner;      (* fde::closeHandler list, head = most recently added *)
  tmo : nat -> bool;           (* fde::timeoutHandler != nullptr *)
  q : list call;               (* AsyncCallQueue, head fires first *)
  pool : list nat;             (* IdleConnList, newest first *)
  pcount : Z                   (* PconnPool::theCount *)
}.

Inductive ev :=
| EAccept (c : nat)                    (* accept(2) + fd_open + ConnStateData::start: close handler, timeout *)
| EConnect (c : nat)                   (* a new server connection for c's transaction + HttpStateData: close handler, timeout *)
| EPop (c : nat) (keep : bool)         (* PconnPool::pop(dest, domain, keepOpen) *)
| ESrvDone (c : nat) (persistent : bool)   (* processReplyBody: COMPLETE_PERSISTENT_MSG / COMPLETE_NONPERSISTENT_MSG *)
| ESrvFail (c : nat)                   (* EOF, read/write error, truncated reply, abortAll: closeServer + mustStop *)
| ECliDone (c : nat) (keep : bool)     (* response written: keep-alive (wait for the next request) or close *)
| ECliEOF (c : nat)                    (* client FIN/RST seen, stopSending/stopReceiving: clientConnection->close() *)
| ETimeout (fd : nat)                  (* checkTimeouts fires the timeout handler of fd *)
| EIdleRead (fd : nat)                 (* IdleConnList::Read: data or EOF on an idle connection *)
| EClose (fd : nat)                    (* comm_close(fd) by another party (FwdState, shutdown of a transaction...) *)
| ERun (abortSrv : bool).              (* the AsyncCallQueue fires its first call *)

Section Protocol.
Variable maxfd : nat.        (* Squid_MaxFD *)
Variable ninfra : nat.       (* descriptors 0..ninfra-1 are open for the whole run *)
Variable reserved : Z.       (* RESERVED_FD *)

Definition set_hs (s : st) (v : nat -> list owner) : st :=
  mkSt (tbl s) (kern s) (closing s) (own s) v (tmo s) (q s) (pool s) (pcount s).

Definition active (s : st) (f : nat) : bool := fopen (tbl s) f && negb (closing s f).

Definition find_own (s : st) (o : owner) : option nat :=
  find (fun f => active s f && owner_eqb (own s f) o) (seq 0 maxfd).

(* the kernel hands out the lowest unused descriptor number *)
Definition alloc (s : st) : option nat := find (fun f => negb (kern s f)) (seq 0 maxfd).

(* _comm_close(fd) *)
Definition comm_close (s : st) (f : nat) : st :=
  if closing s f then s                                  (* if (F->closing()) return; *)
  else if negb (fopen (tbl s) f) then s                  (* if (!isOpen(fd)) { "BUG #3556"; return; } *)
  else mkSt (tbl s) (kern s)
            (upd (closing s) f true)                     (* F->flags.close_request = true *)
            (own s)
            (upd (hs s) f [])                            (* commCallCloseHandlers empties the list ... *)
            (upd (tmo s) f false)                        (* commUnsetFdTimeout(fd) *)
            (q s ++ map CHandler (hs s f) ++ [CComplete f])   (* ... scheduling each in list order, then comm_close_complete *)
            (pool s) (pcount s).

(* comm_close_complete(fd): fd_close(fd); close(fd) *)
Definition close_complete (s : st) (f : nat) : option st :=
  match fd_close maxfd (tbl s) f with
  | None => None
  | Some d => Some (mkSt d (upd (kern s) f false) (upd (closing s) f false) (upd (own s) f ONone)
                         (upd (hs s) f []) (upd (tmo s) f false) (q s) (pool s) (pcount s))
  end.

(* socket()/accept() returned f; comm_init_opened -> fd_open; the owner job registers its close handler and a timeout *)
Definition open_new (s : st) (f : nat) (o : owner) : option st :=
  match fd_open maxfd (tbl s) f with
  | None => None
  | Some d => Some (mkSt d (upd (kern s) f true) (upd (closing s) f false) (upd (own s) f o)
                         (upd (hs s) f [o]) (upd (tmo s) f true) (q s) (pool s) (pcount s))
  end.

(* HttpStateData::closeServer: fwd->unregister; comm_remove_close_handler; serverConnection->close() *)
Definition close_server (s : st) (f : nat) : st := comm_close (set_hs s (upd (hs s) f [])) f.

(* fdUsageHigh() *)
Definition fd_usage_high (num : Z) : bool :=
  let nrfree := (Z.of_nat maxfd - num)%Z in
  ((nrfree <? 2 * reserved) || (nrfree <? num / 4))%Z.

(* COMPLETE_PERSISTENT_MSG: commUnsetConnTimeout, comm_remove_close_handler, fwd->unregister, PconnPool::push
   (which closes the connection instead when fdUsageHigh()), IdleConnList::push (read + timeout armed) *)
Definition pool_push (s : st) (f : nat) : st :=
  if fd_usage_high (fnum (tbl s)) then
    comm_close (mkSt (tbl s) (kern s) (closing s) (own s) (upd (hs s) f []) (upd (tmo s) f false) (q s) (pool s) (pcount s)) f
  else
    mkSt (tbl s) (kern s) (closing s) (upd (own s) f OIdle) (upd (hs s) f []) (upd (tmo s) f true) (q s)
         (f :: pool s) (pcount s + 1).

(* findIndexOf scans from the newest entry; removeAt drops that one entry *)
Fixpoint remove_first (f : nat) (l : list nat) : list nat :=
  match l with
  | [] => []
  | x :: r => if Nat.eqb x f then r else x :: remove_first f r
  end.

(* IdleConnList::findAndClose: clearHandlers, removeAt, conn->close() *)
Definition find_and_close (s : st) (f : nat) : st :=
  if existsb (Nat.eqb f) (pool s) then
    comm_close (mkSt (tbl s) (kern s) (closing s) (own s) (hs s) (upd (tmo s) f false) (q s)
                     (remove_first f (pool s)) (pcount s - 1)) f
  else s.

Definition is_job (o : owner) : bool := match o with OCli _ | OSrv _ => true | _ => false end.

(* one event; None = an assertion of src/fd.cc failed *)
Definition step (s : st) (e : ev) : option st :=
  match e with
  | EAccept c =>
      match find_own s (OCli c) with
      | Some _ => Some s
      | None => match alloc s with None => Some s | Some f => open_new s f (OCli c) end
      end
  | EConnect c =>
      match find_own s (OSrv c) with
      | Some _ => Some s
      | None => match alloc s with None => Some s | Some f => open_new s f (OSrv c) end
      end
  | EPop c keep =>
      match pool s with
      | [] => Some s                                       (* no idle connection for this key *)
      | f :: rest =>                                       (* findUseable: the newest available entry; clearHandlers; removeAt *)
          let s1 := mkSt (tbl s) (kern s) (closing s) (own s) (hs s) (upd (tmo s) f false) (q s) rest (pcount s - 1) in
          if keep then
            match find_own s (OSrv c) with
            | Some _ => Some s
            | None => Some (mkSt (tbl s1) (kern s1) (closing s1) (upd (own s1) f (OSrv c)) (upd (hs s1) f [OSrv c])
                                 (upd (tmo s1) f true) (q s1) (pool s1) (pcount s1))
            end
          else Some (comm_close s1 f)                      (* not retriable: popped->close() *)
      end
  | ESrvDone c persistent =>
      match find_own s (OSrv c) with
      | None => Some s
      | Some f => Some (if persistent then pool_push s f else close_server s f)
      end
  | ESrvFail c =>
      match find_own s (OSrv c) with
      | None => Some s
      | Some f => Some (close_server s f)
      end
  | ECliDone c keep =>
      match find_own s (OCli c) with
      | None => Some s
      | Some f => Some (if keep then s else comm_close s f)
      end
  | ECliEOF c =>
      match find_own s (OCli c) with
      | None => Some s
      | Some f => Some (comm_close s f)
      end
  | ETimeout f =>
      if active s f && tmo s f then
        match own s f with
        | OCli _ => Some (comm_close s f)                  (* ConnStateData::requestTimeout: io.conn->close() *)
        | OSrv _ => Some (close_server s f)                (* HttpStateData::httpTimeout: closeServer(); mustStop *)
        | OIdle => Some (find_and_close s f)               (* IdleConnList::Timeout *)
        | _ => Some s
        end
      else Some s
  | EIdleRead f =>
      if active s f then
        match own s f with
        | OIdle => Some (find_and_close s f)
        | _ => Some s
        end
      else Some s
  | EClose f =>
      if active s f && is_job (own s f) then Some (comm_close s f) else Some s
  | ERun abortSrv =>
      match q s with
      | [] => Some s
      | CHandler (OCli c) :: r =>
          (* connStateClosed: the ConnStateData job ends; its transaction's server side is aborted (abortSrv) or
             left to finish alone (quick_abort / other clients of the entry) *)
          let s1 := mkSt (tbl s) (kern s) (closing s) (own s) (hs s) (tmo s) r (pool s) (pcount s) in
          if abortSrv then
            match find_own s1 (OSrv c) with
            | Some f => Some (close_server s1 f)
            | None => Some s1
            end
          else Some s1
      | CHandler _ :: r =>                                 (* httpStateConnClosed: mustStop; nothing else to release *)
          Some (mkSt (tbl s) (kern s) (closing s) (own s) (hs s) (tmo s) r (pool s) (pcount s))
      | CComplete f :: r =>
          close_complete (mkSt (tbl s) (kern s) (closing s) (own s) (hs s) (tmo s) r (pool s) (pcount s)) f
      end
  end.

Fixpoint run (s : st) (evs : list ev) : option st :=
  match evs with
  | [] => Some s
  | e :: r => match step s e with Some s' => run s' r | None => None end
  end.

Definition init : st :=
  mkSt (mkFds (fun f => f <? ninfra) (Z.of_nat ninfra) (Z.of_nat ninfra - 1))
       (fun f => f <? ninfra) (fun _ => false)
       (fun f => if f <? ninfra then OInfra else ONone) (fun _ => []) (fun _ => false) [] [] 0%Z.

(* "traffic stops and timeouts expire": every armed timeout fires, then the call queue runs dry *)
Fixpoint drain (fuel : nat) (s : st) : option st :=
  match fuel with
  | O => Some s
  | S k => match q s with
           | [] => Some s
           | _ => match step s (ERun true) with Some s' => drain k s' | None => None end
           end
  end.

Definition fire_timeouts (s : st) : option st := run s (map ETimeout (seq 0 maxfd)).

Definition settle (s : st) : option st :=
  match fire_timeouts s with
  | None => None
  | Some s1 => drain (length (q s1)) s1
  end.

(* ---------------------------------------------------------------- history driver (used by the runner) *)
Inductive macro :=
| MEv (e : ev)
| MStart (c : nat) (retriable : bool)   (* FwdState: pop an idle connection (closing it when the request is not
                                           retriable) or open a new one *)
| MIdleEOF                              (* the origin closes the newest idle connection *)
| MDrain.

Definition run_macro (s : st) (m : macro) : option st :=
  match m with
  | MEv e => step s e
  | MStart c retriable =>
      match pool s with
      | [] => step s (EConnect c)
      | _ => if retriable then step s (EPop c true)
             else match step s (EPop c false) with
                  | Some s1 => step s1 (EConnect c)
                  | None => None
                  end
      end
  | MIdleEOF => match pool s with [] => Some s | f :: _ => step s (EIdleRead f) end
  | MDrain => drain (length (q s) + maxfd) s
  end.

Fixpoint run_macros (s : st) (ms : list macro) : option st :=
  match ms with
  | [] => Some s
  | m :: r => match run_macro s m with Some s' => run_macros s' r | None => None end
  end.

Inductive ckind := CkOk | CkOkHold | CkOk2 | CkAbortReq | CkStallReq | CkAbortResp | CkHalf | CkStallResp.
Inductive skind := SkPersist | SkClose | SkCloseAfter | SkFail | SkStall.

Definition server_part (c : nat) (sk : skind) (retriable : bool) : list macro :=
  MStart c retriable ::
  match sk with
  | SkPersist => [MEv (ESrvDone c true)]
  | SkClose => [MEv (ESrvDone c false)]
  | SkCloseAfter => [MEv (ESrvDone c true); MIdleEOF]
  | SkFail => if retriable then [MEv (ESrvFail c); MStart c true; MEv (ESrvFail c)] else [MEv (ESrvFail c)]
  | SkStall => []
  end.

(* the abstract events of one transaction of the lab (client connection id c) *)
Definition tx_macros (c : nat) (ck : ckind) (sk : skind) (retriable reach : bool) : list macro :=
  MEv (EAccept c) ::
  (if reach then
     server_part c sk retriable ++
     match ck with
     | CkOk => [MEv (ECliDone c true); MEv (ECliEOF c)]
     | CkOkHold => [MEv (ECliDone c true)]
     | CkOk2 => MEv (ECliDone c true) :: server_part c sk retriable ++ [MEv (ECliDone c true); MEv (ECliEOF c)]
     | CkAbortResp => [MEv (ECliEOF c)]
     | CkHalf => [MEv (ECliEOF c)]
     | CkStallResp => []
     | CkAbortReq => [MEv (ECliEOF c)]
     | CkStallReq => []
     end
   else
     match ck with
     | CkStallReq => []
     | _ => [MEv (ECliEOF c)]
     end).

(* round-robin interleaving of event lists (fuel = total length) *)
Fixpoint rr (fuel : nat) (ls : list (list macro)) : list macro :=
  match fuel with
  | O => []
  | S k =>
      let heads := flat_map (fun l => match l with [] => [] | x :: _ => [x] end) ls in
      let tails := flat_map (fun l => match l with [] => [] | _ :: r => [r] end) ls in
      match heads with
      | [] => []
      | _ => heads ++ rr k tails
      end
  end.

(* sequential history: after each transaction the queue is drained and the pool size recorded *)
Fixpoint run_seq (s : st) (txs : list (list macro)) : option (st * list nat) :=
  match txs with
  | [] => Some (s, [])
  | t :: r =>
      match run_macros s (t ++ [MDrain]) with
      | None => None
      | Some s1 =>
          match run_seq s1 r with
          | None => None
          | Some (s2, l) => Some (s2, length (pool s1) :: l)
          end
      end
  end.

(* what the lab observes at quiescence, relative to the state before traffic *)
Record qobs := mkQobs {
  qo_leak : Z;        (* Number_FD now - Number_FD before *)
  qo_kleak : Z;       (* kernel descriptors now - before *)
  qo_acct : bool;     (* Number_FD = open flags = kernel descriptors *)
  qo_idle : nat;      (* idle connections left in the pool *)
  qo_queue : nat
}.

Definition observe (s0 s : st) : qobs :=
  mkQobs (fnum (tbl s) - fnum (tbl s0))
         (Z.of_nat (count_open maxfd (kern s)) - Z.of_nat (count_open maxfd (kern s0)))
         ((fnum (tbl s) =? Z.of_nat (count_open maxfd (fopen (tbl s))))%Z &&
          Nat.eqb (count_open maxfd (kern s)) (count_open maxfd (fopen (tbl s))))
         (length (pool s)) (length (q s)).

(* a whole history of the lab: the transactions (sequentially, or all interleaved round-robin), then quiescence *)
Definition hist_result (seqmode : bool) (txs : list (list macro)) : option (qobs * list nat) :=
  if seqmode then
    match run_seq init txs with
    | None => None
    | Some (s1, idle) =>
        match settle s1 with
        | None => None
        | Some s2 => Some (observe init s2, idle)
        end
    end
  else
    match run_macros init (rr (length (concat txs)) txs) with
    | None => None
    | Some s1 =>
        match settle s1 with
        | None => None
        | Some s2 => Some (observe init s2, [])
        end
    end.

End Protocol.
