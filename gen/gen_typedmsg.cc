// Table generator for C58: the layout constants of Ipc::TypedMsgHdr's data buffer.
#include "squid.h"
#define private public
#include "ipc/TypedMsgHdr.h"
#undef private
#include <iostream>
#include <limits>
#include <cstring>

int main() {
    std::cout << "@@FILE Typedmsg_gen.v\n";
    std::cout << "(* generated from /repo by gen/gen_typedmsg.cc -- do not edit *)\n"
              "Require Import SquidV.Bytes.\n";
    std::cout << "Definition tm_max_size : N := " << static_cast<unsigned long>(Ipc::TypedMsgHdr::maxSize) << "%N.\n";
    std::cout << "Definition tm_raw_size : N := " << sizeof(Ipc::TypedMsgHdr::DataBuffer::raw) << "%N.\n";
    std::cout << "Definition tm_int_size : N := " << sizeof(int) << "%N.\n";
    std::cout << "Definition tm_int_max : Z := " << std::numeric_limits<int>::max() << "%Z.\n";
    std::cout << "Definition tm_int_min : Z := (" << std::numeric_limits<int>::min() << ")%Z.\n";
    std::cout << "Definition tm_size_t_max : N := " << std::numeric_limits<size_t>::max() << "%N.\n";
    std::cout << "Definition tm_offset_max : N := " << std::numeric_limits<unsigned int>::max() << "%N.\n";
    const int one = 1; unsigned char b[sizeof(int)]; memcpy(b, &one, sizeof(int));
    std::cout << "Definition tm_little_endian : bool := " << (b[0] == 1 ? "true" : "false") << ".\n";
    return 0;
}
