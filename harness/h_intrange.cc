// Harness (C43): the real ACLIntRange (src/acl/IntRange.cc) fed through the real ConfigParser
// (ConfigParser::SetCfgLine + strtokFile) and xatos (src/Parsing.cc), all from /repo's working tree.
// stdin : intrange <tok,tok,...|-> <int,int,...|->      tokens in hex (no white space / NUL inside)
// stdout: destruct                                       parse() called self_destruct(): configuration rejected
//         ok <n> s:e ... | <bits>                        stored half-open ranges in list order, match(i) per query
#include "squid.h"
#include "hcommon.h"
#include "ConfigParser.h"
#include "cache_cf.h"
#define private public
#include "acl/IntRange.h"
#undef private

#include <cstring>
#include <cstdlib>

// cache_cf.cc is not linked: the configuration globals it owns, and a self_destruct() that reports the
// rejection to the driver instead of terminating the process (the real one ends in fatalf()).
const char *cfg_directive = nullptr;
const char *cfg_filename = "harness";
int config_lineno = 1;
char config_input_line[BUFSIZ] = {};
struct Destruct {};
void self_destruct(void) { throw Destruct(); }

static std::vector<std::string> splitc(const std::string &s) {
    std::vector<std::string> v;
    if (s == "-") return v;
    size_t i = 0;
    while (true) {
        size_t j = s.find(',', i);
        v.push_back(s.substr(i, j == std::string::npos ? std::string::npos : j - i));
        if (j == std::string::npos) break;
        i = j + 1;
    }
    return v;
}

int main() {
    std::string line;
    while (std::getline(std::cin, line)) {
        auto a = splitws(line);
        if (a.empty()) { std::cout << "\n"; continue; }
        std::ostringstream o;
        try {
            if (a[0] == "intrange" && a.size() == 3) {
                std::string cfg;
                bool bad = false;
                for (const auto &h : splitc(a[1])) {
                    const std::string t = unhex(h);
                    if (t.empty() || t.find_first_of(std::string(" \t\r\n\0#\"'", 9)) != std::string::npos) bad = true;
                    if (!cfg.empty()) cfg += " ";
                    cfg += t;
                }
                if (bad) { o << "ERR token-not-representable"; }
                else {
                    std::vector<char> buf(cfg.begin(), cfg.end());
                    buf.push_back('\0');
                    ConfigParser::SetCfgLine(buf.data());
                    ACLIntRange acl;
                    bool rejected = false;
                    try { acl.parse(); } catch (const Destruct &) { rejected = true; }
                    ConfigParser::SetCfgLine(nullptr);
                    if (rejected) o << "destruct";
                    else {
                        o << "ok " << acl.ranges.size();
                        for (const auto &r : acl.ranges) o << " " << r.start << ":" << r.end;
                        o << " | ";
                        auto qs = splitc(a[2]);
                        if (qs.empty()) o << "-";
                        for (const auto &q : qs) o << (acl.match(static_cast<int>(std::strtol(q.c_str(), nullptr, 10))) ? 1 : 0);
                    }
                }
            } else
                o << "ERR unknown-entry " << a[0];
        } catch (const std::exception &e) { o.str(""); o << "EXC " << e.what(); }
        catch (...) { o.str(""); o << "EXC unknown"; }
        std::cout << o.str() << "\n" << std::flush;
    }
    return 0;
}
