"""C52: overflow-safe arithmetic helpers (src/SquidMath.h) are exact."""
import random
from vlib import std, hbuild

PID = "C52"
META = {
    "text": "Theorems (Properties_C52.v, closed under the global context) state for ALL of the ten standard integer types "
            "(signed/unsigned char, short, int, long, long long) in every combination and ALL in-range values: Less(a,b) is "
            "the mathematical a<b; IncreaseSum/NaturalSum (any number of arguments) return exactly the mathematical sum when "
            "every argument is non-negative and the sum fits the result type and nothing otherwise; SetToNaturalSumOrMax "
            "stores/returns that sum or the type's maximum; NaturalCast is lossless or throws; no signed overflow (UB) is "
            "evaluated on the way. The model's C++ integer semantics (widths, limits, integral promotion, usual arithmetic "
            "conversions, std::common_type, AllUnsigned dispatch) is proved equal to tables regenerated from the compiler "
            "and src/SquidMath.h on every run. The model is tied to the code by differential runs of the extracted model "
            "against the real templates instantiated for all 100 type pairs / 1000 (S,A,B) / 10000 (S,A,B,C) combinations "
            "(UBSan).",
    "note": "Trusted: Coq kernel, extraction, gen/gen_inttypes.cc, harness/h_math*.cc; the hand-written MathModel.v is "
            "validated against the code on the generated cases only. Types outside the ten standard integer types (bool, "
            "char, wchar_t, char16_t/32_t, __int128) are not modelled. Conversion of an out-of-range value to a signed "
            "type is modelled as modulo 2^n (g++ behaviour, C++20 rule); the theorems show it never happens.",
    "technique": "Coq proof (finite sweeps over the 10x10 type table by vm_compute lifted to generic range lemmas; lia; "
                 "induction on the argument list) + generated compiler/type tables + extracted-model differential correspondence",
}

FRESH = ["src/SquidMath.cc"]   # SquidMath.h is a header: every harness unit includes it from the working tree
LINK = ["../compat/libcompatsquid.la"]
PARTS = ["h_math_set2.cc"] + ["h_math_s%d.cc" % k for k in range(10)]

# name -> (bits, signed); order = numbering used by the harness, the generator and MathModel.all_ity
TYPES = [("sc", 8, True), ("uc", 8, False), ("ss", 16, True), ("us", 16, False), ("si", 32, True),
         ("ui", 32, False), ("sl", 64, True), ("ul", 64, False), ("sll", 64, True), ("ull", 64, False)]
NAMES = [t[0] for t in TYPES]
INFO = {n: (b, s) for n, b, s in TYPES}
SMALL = ["sc", "uc"]


def tmin(t):
    b, s = INFO[t]
    return -(1 << (b - 1)) if s else 0


def tmax(t):
    b, s = INFO[t]
    return (1 << (b - 1)) - 1 if s else (1 << b) - 1


def impl(sanitize="ubsan"):
    return hbuild.build("h_math", "h_math.cc", fresh=FRESH, link=LINK, sanitize=sanitize,
                        extra_srcs=PARTS, syslibs=["-lm"])


def prebuild():
    impl()


# ---------------------------------------------------------------- generators
EDGES = sorted(set(e + d for p in (7, 8, 15, 16, 31, 32, 63, 64) for e in ((1 << p), -(1 << p)) for d in (-2, -1, 0, 1, 2))
               | set(range(-3, 4)))


def rand_type(rng):
    return rng.choice(NAMES)


def clamp(t, v):
    return min(max(v, tmin(t)), tmax(t))


def rand_val(rng, t, nonneg=0.0):
    """boundary-dense value of type t"""
    lo, hi = tmin(t), tmax(t)
    k = rng.random()
    if k < 0.45:
        cands = [e for e in EDGES if lo <= e <= hi]
        v = rng.choice(cands)
    elif k < 0.6:
        v = rng.choice([lo, lo + 1, hi - 1, hi, 0, 1, hi // 2, hi // 2 + 1])
    elif k < 0.8:
        v = rng.randint(lo, hi)
    else:
        v = clamp(t, rng.randint(-300, 300))
    if v < 0 and rng.random() < nonneg:
        v = clamp(t, -v - 1)
    return v


def near(rng, t, target):
    """a value of type t close to target (clamped into range)"""
    return clamp(t, target + rng.choice([-2, -1, -1, 0, 0, 0, 1, 1, 2, rng.randint(-40, 40)]))


def sum_args(rng, S, types):
    """argument values for a sum into S: mostly non-negative, total aimed at max(S) +- a little"""
    k = rng.random()
    if k < 0.2:
        return [rand_val(rng, t) for t in types]
    vals = []
    remaining = tmax(S)
    for i, t in enumerate(types):
        if i == len(types) - 1:
            v = near(rng, t, remaining)
        else:
            v = rand_val(rng, t, nonneg=0.95)
            if v > remaining and rng.random() < 0.8:
                v = clamp(t, rng.randint(0, max(remaining, 0)))
        if v < 0 and rng.random() < 0.85:
            v = clamp(t, -v - 1)
        vals.append(v)
        remaining -= max(v, 0)
    if rng.random() < 0.3:
        rng.shuffle(vals)
        vals = [clamp(t, v) for t, v in zip(types, vals)]
    return vals


def one_case(rng):
    op = rng.choice(["less", "less", "less", "inc", "sum1", "sum2", "sum2", "sum2", "sum3", "sum3", "sum3",
                     "setmax1", "setmax2", "setmax2", "cast"])
    if op == "less":
        A, B = rand_type(rng), rand_type(rng)
        a = rand_val(rng, A)
        b = near(rng, B, a) if rng.random() < 0.5 else rand_val(rng, B)
        return "less %s %s %d %d" % (A, B, a, b)
    if op == "inc":
        S, T = rand_type(rng), rand_type(rng)
        s = rand_val(rng, S, nonneg=0.8)
        t = near(rng, T, tmax(S) - s) if rng.random() < 0.7 else rand_val(rng, T)
        return "inc %s %s %d %d" % (S, T, s, t)
    if op == "cast":
        R, S = rand_type(rng), rand_type(rng)
        s = near(rng, S, rng.choice([tmax(R), tmax(R), 0, tmin(R)])) if rng.random() < 0.7 else rand_val(rng, S)
        return "cast %s %s %d" % (R, S, s)
    n = int(op[-1])
    S = rand_type(rng)
    types = [rand_type(rng) for _ in range(n)]
    vals = sum_args(rng, S, types)
    if op.startswith("setmax"):
        init = rand_val(rng, S)
        return "%s %s %s %d %s" % (op, S, " ".join(types), init, " ".join(map(str, vals)))
    return "%s %s %s %s" % (op, S, " ".join(types), " ".join(map(str, vals)))


def grid_cases(rng, budget):
    """exhaustive value grids over the 8-bit types: whole 256x256 grids of (op, types) combinations
    in random order until the budget is used (thorough: all of them)"""
    combos = [("less", (A, B)) for A in SMALL for B in SMALL] + \
             [("sum2", (S, A, B)) for S in SMALL for A in SMALL for B in SMALL] + \
             [("inc", (S, T)) for S in SMALL for T in SMALL]
    rng.shuffle(combos)
    out = []
    for op, ts in combos:
        ta, tb = ts[-2], ts[-1]
        rows = list(range(tmin(ta), tmax(ta) + 1))
        start = rng.randrange(len(rows))
        rows = rows[start:] + rows[:start]
        for a in rows:
            if len(out) >= budget:
                return out
            for b in range(tmin(tb), tmax(tb) + 1):
                out.append("%s %s %d %d" % (op, " ".join(ts), a, b))
    return out


def gen_cases(rng, n):
    grid = grid_cases(rng, n // 3 if n < 1000000 else 2 * n // 3)
    return [one_case(rng) for _ in range(n - len(grid))] + grid


# ---------------------------------------------------------------- oracle
NT = {"less": (2, 2), "inc": (2, 2), "sum1": (2, 1), "sum2": (3, 2), "sum3": (4, 3),
      "setmax1": (2, 2), "setmax2": (3, 3), "cast": (2, 1)}


def parse(case):
    a = case.split()
    op = a[0]
    nt, nv = NT[op]
    if len(a) != 1 + nt + nv:
        raise ValueError("malformed case")
    types = a[1:1 + nt]
    vals = [int(x) for x in a[1 + nt:]]
    return op, types, vals


def well_formed(op, types, vals):
    """every value lies in the range of the type it is passed as"""
    if op in ("less", "inc"):
        tv = list(zip(types, vals))
    elif op == "cast":
        tv = [(types[1], vals[0])]
    elif op.startswith("setmax"):
        tv = [(types[0], vals[0])] + list(zip(types[1:], vals[1:]))
    else:
        tv = list(zip(types[1:], vals))
    return all(t in INFO and tmin(t) <= v <= tmax(t) for t, v in tv) and all(t in INFO for t in types)


def exact_sum(S, xs):
    """the property: the mathematical sum if every argument is non-negative and the sum fits S, else nothing"""
    if all(x >= 0 for x in xs) and sum(xs) <= tmax(S):
        return sum(xs)
    return None


def oracle(case, out):
    """The property itself, stated with Python's unbounded integers, evaluated on the
    implementation's answer. Returns None when satisfied, else a description."""
    try:
        op, types, vals = parse(case)
    except Exception:
        return None  # not one of our cases
    if not well_formed(op, types, vals):
        return None
    if out.startswith(("CRASH", "ERR")) or (out.startswith("EXC") and out != "EXC bad_optional_access"):
        return "implementation crashed / hit undefined behaviour / threw: " + out[:200]
    if op == "less":
        exp = "1" if vals[0] < vals[1] else "0"
    elif op == "inc":
        r = exact_sum(types[0], vals)
        exp = "none" if r is None else "some %d" % r
    elif op.startswith("sum"):
        r = exact_sum(types[0], vals)
        exp = "none" if r is None else "some %d" % r
    elif op.startswith("setmax"):
        r = exact_sum(types[0], vals[1:])
        r = tmax(types[0]) if r is None else r
        exp = "%d %d" % (r, r)
    elif op == "cast":
        s = vals[0]
        exp = str(s) if 0 <= s <= tmax(types[0]) else "EXC bad_optional_access"
    else:
        return None
    return None if out == exp else "expected `%s` (wide-integer reference)" % exp


def oracle_sig(case, out):
    why = oracle(case, out)
    return ("oracle:" + case.split()[0], why) if why else None


def mutate(rng, case):
    """a neighbouring case: nudge one value (staying in its type's range) or change one type"""
    try:
        op, types, vals = parse(case)
    except Exception:
        return case
    nt = len(types)
    if op in ("less", "inc"):
        vt = list(types)
    elif op == "cast":
        vt = [types[1]]
    elif op.startswith("setmax"):
        vt = list(types)
    else:
        vt = list(types[1:])
    if rng.random() < 0.25:
        i = rng.randrange(nt)
        types[i] = rand_type(rng)
        return one_case(rng) if not well_formed(op, types, vals) else "%s %s %s" % (op, " ".join(types), " ".join(map(str, vals)))
    i = rng.randrange(len(vals))
    vals[i] = clamp(vt[i], vals[i] + rng.choice([-2, -1, 1, 2, rng.randint(-300, 300)]))
    return "%s %s %s" % (op, " ".join(types), " ".join(map(str, vals)))


def kind(case, out):
    op = case.split()[0]
    w = out.split()
    if not w:
        return op + ":empty"
    if w[0] in ("some", "none", "EXC", "CRASH", "ERR"):
        return op + ":" + w[0]
    if op == "less":
        return op + ":" + w[0]
    if op.startswith("setmax"):
        try:
            return op + (":max" if int(w[0]) == tmax(case.split()[1]) else ":sum")
        except Exception:
            return op + ":?"
    return op + ":val"


def nontrivial(case, out):
    """non-trivial = the answer depends on magnitudes, not merely on a negative argument being present"""
    try:
        op, types, vals = parse(case)
    except Exception:
        return False
    if op == "less":
        return True
    if op.startswith("setmax"):
        vals = vals[1:]
    return all(v >= 0 for v in vals)


def run(res, tier):
    res.rule = ("operations less/inc/sum1/sum2/sum3/setmax1/setmax2/cast over uniformly random combinations of the 10 "
                "standard integer types; values boundary-dense (every 2^k and -2^k for k in 7,8,15,16,31,32,63,64 +-2, "
                "type min/max +-1, small, uniform) with sums aimed at max(S)-2..max(S)+2; plus exhaustive 256x256 value "
                "grids over the 8-bit type combinations for less/inc/sum2 (one third of the budget in quick, all 16 "
                "grids in thorough); a case is non-trivial when no argument is negative (the answer depends on the sum)")
    std.run_standard(res, PID, tier, area="math", build_impl=impl, gen_cases=gen_cases, oracle=oracle_sig,
                     corr_name="MathModel vs src/SquidMath.h templates (all type combinations)",
                     gens=["inttypes"], n_quick=150000, n_thorough=1650000, seed_salt=52, mutate=mutate,
                     kind_fn=kind, nontrivial_fn=nontrivial)
