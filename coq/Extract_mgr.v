(* Extract_mgr.v — extraction of the cache-manager access model (ExtrOcamlBasic only). *)
Require Import ExtrOcamlBasic.
Require Import SquidV.Bytes SquidV.MgrModel.
Extraction "m_mgr.ml" handle effective_uri acl_manager mgr_regex_match decode_or_dupe supplied_password parse_url
  query_parse_top rfc1738_unescape.
