(* Properties_C41.v — C41: domain-name ACLs match exactly the configured domain sets.
   Statements only; proofs live in SplayProofs.v (shared splay-tree library) and AcldomProofs.v. *)
Require Import SquidV.Bytes SquidV.SplayModel SquidV.SplayProofs SquidV.AcldomModel SquidV.AcldomProofs.
Require Import SquidV.gen.AclDom_gen.
Local Open Scope Z_scope.

(* ===== include/splay.h, for every value type and every comparator ===== *)

(* splay() keeps the in-order sequence *)
Theorem C41_splay_preserves_inorder : forall (V : Type) (cmp : V -> Z) (t : tree V),
  t <> Leaf -> inorder (fst (splay cmp t)) = inorder t.
Proof. exact @splay_inorder. Qed.

(* ... leaves compare(query, new root) in splayLastResult and stops at a boundary: a root that
   compares "less" has an in-order predecessor that compares "greater", and symmetrically *)
Theorem C41_splay_root_and_boundary : forall (V : Type) (cmp : V -> Z) (t : tree V), t <> Leaf ->
  exists a z b, splay cmp t = (Node a z b, cmp z) /\
    inorder t = inorder a ++ z :: inorder b /\
    (cmp z < 0 -> last_pos cmp (inorder a)) /\
    (cmp z > 0 -> first_neg cmp (inorder b)).
Proof. exact @splay_spec. Qed.

(* find() never changes the stored sequence *)
Theorem C41_find_preserves_inorder : forall (V : Type) (cmp : V -> Z) (h : tree V),
  inorder (fst (sp_find cmp h)) = inorder h.
Proof. exact @sp_find_inorder. Qed.

(* find() succeeds iff some stored element compares equal, provided the sign of
   compare(query, .) never increases along the in-order sequence *)
Theorem C41_find_iff_equal_element : forall (V : Type) (cmp : V -> Z) (h : tree V),
  mono cmp (inorder h) ->
  ((exists x, snd (sp_find cmp h) = Some x) <-> (exists x, In x (inorder h) /\ cmp x = 0)).
Proof. exact @sp_find_iff. Qed.

(* what find() returns compares equal and is stored (no condition on the comparator) *)
Theorem C41_find_returns_equal_element : forall (V : Type) (cmp : V -> Z) (h : tree V) (x : V),
  snd (sp_find cmp h) = Some x -> cmp x = 0 /\ In x (inorder h).
Proof. exact @sp_find_some. Qed.

(* insert(): a stored element that compares equal is returned and nothing changes ... *)
Theorem C41_insert_duplicate_unchanged : forall (V : Type) (cmp : V -> Z) (v : V) (h h' : tree V) (old : V),
  sp_insert cmp v h = (h', Some old) ->
  inorder h' = inorder h /\ cmp old = 0 /\ In old (inorder h).
Proof. exact @sp_insert_found. Qed.

(* ... otherwise the value goes exactly between the "greater" and the "less" elements *)
Theorem C41_insert_new_in_order : forall (V : Type) (cmp : V -> Z) (v : V) (h h' : tree V),
  mono cmp (inorder h) -> sp_insert cmp v h = (h', None) ->
  exists A B, inorder h = A ++ B /\ inorder h' = A ++ v :: B /\
    Forall (fun y => cmp y > 0) A /\ Forall (fun y => cmp y < 0) B.
Proof. exact @sp_insert_new. Qed.

(* remove() deletes exactly the element that compares equal (and loses nothing else) *)
Theorem C41_remove_deletes_equal_element : forall (V : Type) (cmp : V -> Z) (h : tree V) (A : list V) (x : V) (B : list V),
  inorder h = A ++ x :: B -> cmp x = 0 ->
  Forall (fun y => cmp y > 0) A -> Forall (fun y => cmp y < 0) B ->
  exists h', sp_remove cmp h = (h', true) /\ inorder h' = A ++ B.
Proof. exact @sp_remove_spec. Qed.

(* ===== matchDomainName and the insertion rules ===== *)

(* the regenerated xtolower table is idempotent and maps exactly '.' to '.' *)
Theorem C41_xtolower_table : forall c : N,
  lower (lower c) = lower c /\ (lower c = dot <-> c = dot).
Proof. exact lower_facts. Qed.

(* one value, ANY non-empty value: the comparison used by match() is 0 exactly for the names the
   value stands for ('.x' = x and every name ending in '.x'; otherwise the name itself; ignoring case) *)
Theorem C41_single_value_semantics : forall host v : bytes, v <> [] ->
  (matchDomainName host v = 0 <-> dom_match v host).
Proof. exact mdn_zero_iff. Qed.

(* matchDomainName(h, d) is the position of h (read from its end, '.' smallest, case folded)
   relative to the interval [lo d, hi d) that d denotes in the lexicographic order *)
Theorem C41_matchDomainName_is_interval_position : forall h d : bytes, d <> [] -> strip_dots h <> [] ->
  sign_is (vpos (rk (strip_dots h)) d) (matchDomainName h d).
Proof. exact mdn_pos. Qed.

(* leading dots of the looked-up name are ignored *)
Theorem C41_host_leading_dot_ignored : forall host d : bytes,
  matchDomainName (dot :: host) d = matchDomainName host d.
Proof. exact mdn_leading_dot. Qed.

(* Compare(a, b) orders disjoint intervals and answers 0 only for overlapping ones *)
Theorem C41_compare_orders_disjoint_sets : forall a b : bytes, wf a -> wf b ->
  (dcompare a b < 0 <-> before a b) /\ (dcompare a b > 0 <-> before b a) /\
  (dcompare a b = 0 -> inI (lo b) a \/ inI (lo a) b).
Proof. exact dcompare_sign. Qed.

(* both comparators have monotone sign along a sequence sorted by "entirely before" *)
Theorem C41_compare_sign_monotone : forall (a : bytes) (l : list bytes),
  wf a -> Forall wf l -> sd l -> mono (dcompare a) l.
Proof. exact mono_dcompare. Qed.

Theorem C41_lookup_sign_monotone : forall (host : bytes) (l : list bytes),
  Forall wf l -> sd l -> mono (host_cmp host) l.
Proof. exact mono_host. Qed.

(* IsSubset(a, b) is right about overlapping sets, and one of the two directions always holds,
   so MakeCombinedValue() is never reached *)
Theorem C41_issubset_sound : forall a b : bytes, wf a -> wf b -> (inI (lo b) a \/ inI (lo a) b) ->
  is_subset a b = true -> forall q, inI q a -> inI q b.
Proof. exact subset_sound. Qed.

Theorem C41_issubset_total : forall a b : bytes, is_subset a b = false -> is_subset b a = true.
Proof. exact subset_total. Qed.

(* Merge(): terminates normally, keeps the stored sets sorted and pairwise disjoint, and the union
   of the stored sets grows by exactly the new value's set *)
Theorem C41_merge_keeps_disjoint_same_union : forall (fuel : nat) (t : tree bytes) (n : Z) (v : bytes),
  inv t -> wf v -> (tree_size t < fuel)%nat ->
  exists t' n', merge fuel t n v = MOk t' n' /\ inv t' /\
    (forall q, covered q (inorder t') <-> covered q (inorder t) \/ inI q v).
Proof. exact merge_spec. Qed.

(* ===== the property ===== *)

(* For every list of well-formed values (a non-empty name not starting with '.', optionally
   preceded by one '.'), in any order, with duplicates and overlaps: parse() ends normally and
   match(host) is true exactly when some value matches the host.
   _partial: values with two or more leading dots are excluded (the statement is false for them,
   see the two _refuted theorems) and so is the value "." (true on every case explored by the
   correspondence run, not proved). *)
Theorem C41_acl_match_iff_wellformed_partial : forall toks : list bytes, Forall wf toks ->
  exists t n, acl_parse toks = MOk t n /\
    forall host, snd (acl_match t host) = true <-> exists v, In v toks /\ dom_match v host.
Proof. exact acl_correct. Qed.

(* the same for every later lookup: lookups re-shape the tree but never change an answer *)
Theorem C41_acl_match_sequence_wellformed_partial : forall toks : list bytes, Forall wf toks ->
  forall (hosts : list bytes) (t : tree bytes), acl_holds toks t ->
  Forall2 (fun host b => b = true <-> exists v, In v toks /\ dom_match v host)
          hosts (snd (acl_match_seq t hosts)).
Proof. exact acl_match_seq_correct. Qed.

Theorem C41_acl_parse_establishes_invariant : forall toks : list bytes, Forall wf toks ->
  exists t n, acl_parse toks = MOk t n /\ acl_holds toks t.
Proof. exact acl_parse_ok. Qed.

(* The statement for arbitrary non-empty values is false: with the values "..a" and "a" (in this
   order) the name "a" is not matched although the value "a" matches it ... *)
Theorem C41_acl_match_iff_any_values_refuted :
  exists toks host t n,
    Forall (fun v => v <> []) toks /\
    acl_parse toks = MOk t n /\
    (exists v, In v toks /\ dom_match v host) /\
    snd (acl_match t host) = false.
Proof. exact acl_any_values_refuted. Qed.

(* ... and with "..a" followed by ".a" Merge() destroys a value that is still stored *)
Theorem C41_parse_frees_stored_value_refuted : acl_parse [s_dda; s_da] = MDangling.
Proof. exact acl_parse_dangling_refuted. Qed.

(* non-vacuity: concrete instances of the hypotheses *)
Example C41_wf_example : Forall wf [s_da; s_a; [120; 46; 97]%N; [65; 46; 98]%N].
Proof. repeat constructor; cbn; discriminate. Qed.
Example C41_inv_example : inv (Node (Node Leaf s_a Leaf) [120; 46; 97]%N Leaf).
Proof.
  split; [repeat constructor; cbn; discriminate|].
  cbn [inorder app sd]. repeat split; repeat constructor. unfold before, lle. vm_compute. discriminate.
Qed.
Example C41_mono_example : mono (fun b : Z => 3 - b) [1; 3; 5].
Proof. cbn [mono]. repeat split; repeat (constructor; [vm_compute; discriminate|]); constructor. Qed.
Example C41_parse_example :
  acl_parse [s_da; [120; 46; 97]%N; [66; 46; 99]%N] =
  MOk (Node (Node Leaf s_da Leaf) [98; 46; 99]%N Leaf) 2.
Proof. vm_compute. reflexivity. Qed.
Example C41_dom_match_example : dom_match s_da [88; 46; 65]%N /\ ~ dom_match s_a [120; 46; 97]%N.
Proof.
  split.
  - unfold dom_match. cbn. split; [discriminate|]. right. exists [120%N]. reflexivity.
  - unfold dom_match. cbn. intros [_ H]. discriminate.
Qed.

Print Assumptions C41_splay_preserves_inorder.
Print Assumptions C41_splay_root_and_boundary.
Print Assumptions C41_find_preserves_inorder.
Print Assumptions C41_find_iff_equal_element.
Print Assumptions C41_find_returns_equal_element.
Print Assumptions C41_insert_duplicate_unchanged.
Print Assumptions C41_insert_new_in_order.
Print Assumptions C41_remove_deletes_equal_element.
Print Assumptions C41_xtolower_table.
Print Assumptions C41_single_value_semantics.
Print Assumptions C41_matchDomainName_is_interval_position.
Print Assumptions C41_host_leading_dot_ignored.
Print Assumptions C41_compare_orders_disjoint_sets.
Print Assumptions C41_compare_sign_monotone.
Print Assumptions C41_lookup_sign_monotone.
Print Assumptions C41_issubset_sound.
Print Assumptions C41_issubset_total.
Print Assumptions C41_merge_keeps_disjoint_same_union.
Print Assumptions C41_acl_match_iff_wellformed_partial.
Print Assumptions C41_acl_match_sequence_wellformed_partial.
Print Assumptions C41_acl_parse_establishes_invariant.
Print Assumptions C41_acl_match_iff_any_values_refuted.
Print Assumptions C41_parse_frees_stored_value_refuted.
