(* RwlockProofs.v — proofs about RwlockModel.v (C54).

   Method: every program counter carries nine 0/1 weights; the invariant says
   that each atomic field equals the sum of one weight over all processes, that
   at most one process is "first writer", and a Dekker-style clause relating the
   exclusive-committed writer to the processes counted in readLevel. One step of
   one process changes the sums by (weight after - weight before), so
   preservation is linear arithmetic per program counter. *)
Require Import SquidV.Bytes SquidV.RwlockModel.
Require Import ZifyBool ZifyN ZifyNat.
Local Open Scope Z_scope.

Definition b2z (b : bool) : Z := if b then 1 else 0.

(* ---------- weights ---------- *)
Record W := mkW {
  rl : Z;   (* has incremented readLevel and not yet decremented it *)
  rd : Z;   (* has incremented readers and not yet decremented it *)
  wl : Z;   (* has incremented writeLevel and not yet decremented it *)
  fw : Z;   (* its writeLevel++ returned 0 ("first writer") and it has not yet decremented *)
  wr : Z;   (* has stored writing = true and not yet writing = false *)
  ap : Z;   (* has stored appending = true and not yet appending = false *)
  up : Z;   (* has set `updating` (test_and_set returned false) and not yet cleared it *)
  xc : Z;   (* committed to exclusivity: saw readLevel == 0, not appending, still claims exclusive access *)
  rc : Z    (* counted in readLevel and NOT in the undecided/failing part of lockShared (LS2, LS3, LS5) *)
}.

Definition wmode (m : mode) : W :=
  match m with           (* rl rd wl fw wr ap up xc rc *)
  | MIdle    => mkW 0 0 0 0 0 0 0 0 0
  | MShared  => mkW 1 1 0 0 0 0 0 0 1
  | MHeaders => mkW 1 1 0 0 0 0 1 0 1
  | MExcl    => mkW 0 0 1 1 1 0 0 1 0
  | MAppend  => mkW 0 0 1 1 1 1 0 0 0
  | MBusy    => mkW 0 0 1 1 1 0 0 0 0
  end.

Definition us_wl (k : usk) : Z := match k with UsSxWin | UsSxLose => 1 | _ => 0 end.
Definition us_fw (k : usk) : Z := match k with UsSxWin => 1 | _ => 0 end.
Definition ux_r (k : uxk) : Z := match k with UxSw => 1 | UxPlain => 0 end.

Definition wt (p : pc) : W :=
  match p with                 (* rl rd wl fw wr ap up xc rc *)
  | Ready m | Done m => wmode m
  | Crashed     => mkW 0 0 0 0 0 0 0 0 0
  | LS1 _       => mkW 0 0 0 0 0 0 0 0 0
  | LS2 _       => mkW 1 0 0 0 0 0 0 0 0
  | LS3 _       => mkW 1 0 0 0 0 0 0 0 0
  | LS4 _       => mkW 1 0 0 0 0 0 0 0 1
  | LS5 _       => mkW 1 0 0 0 0 0 0 0 0
  | LH1         => mkW 1 1 0 0 0 0 0 0 1
  | US1 k       => mkW 1 1 (us_wl k) (us_fw k) 0 0 0 0 1
  | US2 k       => mkW 1 1 (us_wl k) (us_fw k) 0 0 0 0 1
  | US3 k       => mkW 1 0 (us_wl k) (us_fw k) 0 0 0 0 1
  | LX1         => mkW 0 0 0 0 0 0 0 0 0
  | LX2         => mkW 0 0 1 0 0 0 0 0 0
  | FX1 _       => mkW 0 0 1 1 0 0 0 0 0
  | FX2 _       => mkW 0 0 1 1 0 0 0 0 0
  | FX3 _       => mkW 0 0 1 1 0 0 0 0 0
  | FX4 _       => mkW 0 0 1 1 0 0 0 1 0
  | FX5 _       => mkW 0 0 1 1 0 0 0 0 0
  | UX1 k a     => mkW (ux_r k) (ux_r k) 1 1 1 (b2z a) 0 0 (ux_r k)
  | UX2 k a     => mkW (ux_r k) (ux_r k) 1 1 1 (b2z a) 0 0 (ux_r k)
  | UX3 k       => mkW (ux_r k) (ux_r k) 1 1 1 0 0 0 (ux_r k)
  | UX4 k       => mkW (ux_r k) (ux_r k) 1 1 0 0 0 0 (ux_r k)
  | UH1         => mkW 1 1 0 0 0 0 1 0 1
  | UH2         => mkW 1 1 0 0 0 0 1 0 1
  | SW1 a       => mkW 0 0 1 1 1 (b2z a) 0 0 0
  | SW2 a       => mkW 0 0 1 1 1 (b2z a) 0 0 0
  | SW3 a       => mkW 1 0 1 1 1 (b2z a) 0 0 1
  | SX1         => mkW 1 1 0 0 0 0 0 0 1
  | SX2         => mkW 1 1 0 0 0 0 0 0 1
  | SX3         => mkW 0 0 1 0 0 0 0 0 0
  | SA1         => mkW 0 0 1 1 1 0 0 0 0
  | SA2         => mkW 0 0 1 1 1 0 0 0 0
  | SP1         => mkW 0 0 1 1 1 1 0 0 0
  | SP2         => mkW 0 0 1 1 1 1 0 0 0
  | SP3         => mkW 0 0 1 1 1 1 0 0 0
  | SP4         => mkW 0 0 1 1 1 0 0 0 0
  end.

Definition cr (p : pc) : Z := match p with Crashed => 1 | _ => 0 end.

Definition sumf (f : pc -> Z) (l : list thread) : Z :=
  fold_right (fun th a => f (fst th) + a) 0 l.

Definition Srl := sumf (fun p => rl (wt p)).
Definition Srd := sumf (fun p => rd (wt p)).
Definition Swl := sumf (fun p => wl (wt p)).
Definition Sfw := sumf (fun p => fw (wt p)).
Definition Swr := sumf (fun p => wr (wt p)).
Definition Sap := sumf (fun p => ap (wt p)).
Definition Sup := sumf (fun p => up (wt p)).
Definition Sxc := sumf (fun p => xc (wt p)).
Definition Src := sumf (fun p => rc (wt p)).
Definition Scr := sumf cr.

(* ---------- the inductive invariant ---------- *)
Record Inv (st : state) : Prop := mkInv {
  inv_rl : readLevel (sh st) = Srl (ths st);            (* "number of users reading (or trying to)" *)
  inv_wl : writeLevel (sh st) = Swl (ths st);           (* "number of users writing (or trying to write)" *)
  inv_rd : readers (sh st) = Srd (ths st);              (* "number of reading users" *)
  inv_wr : b2z (writing (sh st)) = Swr (ths st);        (* "there is a writing user (there can be at most 1)" *)
  inv_ap : b2z (appending (sh st)) = Sap (ths st);      (* "the writer has promised to only append" *)
  inv_up : b2z (updating (sh st)) = Sup (ths st);       (* "a reader is updating metadata/headers" *)
  inv_fw : Sfw (ths st) <= 1;                           (* at most one first writer *)
  inv_dk : Sxc (ths st) = 0 \/ Src (ths st) = 0;        (* exclusive-committed writer => nobody decided to read *)
  inv_cr : Scr (ths st) = 0                             (* no assertion has failed *)
}.

(* ---------- list plumbing ---------- *)
Lemma sumf_app : forall f l1 l2, sumf f (l1 ++ l2) = sumf f l1 + sumf f l2.
Proof. induction l1 as [|a l1 IH]; intros; simpl; [lia | rewrite IH; lia]. Qed.

Lemma sumf_cons : forall f p scr l, sumf f ((p, scr) :: l) = f p + sumf f l.
Proof. reflexivity. Qed.

Lemma nthN_split : forall (A : Type) (l : list A) (n : N) (x : A),
  nthN n l = Some x ->
  exists l1 l2, l = l1 ++ x :: l2 /\ (forall y, updN n y l = l1 ++ y :: l2) /\ lenN l1 = n.
Proof.
  induction l as [|a l IH]; intros n x H; simpl in H; [discriminate|].
  destruct (N.eqb_spec n 0%N) as [E|E].
  - inversion H; subst. exists [], l. repeat split; auto.
  - destruct (IH _ _ H) as (l1 & l2 & E1 & E2 & E3).
    exists (a :: l1), l2. repeat split.
    + simpl. rewrite E1. reflexivity.
    + intro y. simpl. destruct (N.eqb_spec n 0%N); [contradiction|]. rewrite E2. reflexivity.
    + simpl. rewrite E3. lia.
Qed.

Lemma nthN_app_mid : forall (A : Type) (l1 l2 : list A) (x : A), nthN (lenN l1) (l1 ++ x :: l2) = Some x.
Proof.
  induction l1 as [|a l1 IH]; intros; simpl; [reflexivity|].
  destruct (N.eqb_spec (N.succ (lenN l1)) 0%N); [lia|]. rewrite N.pred_succ. apply IH.
Qed.

(* ---------- pointwise facts about the weights, lifted to sums ---------- *)
Ltac pc_cases p :=
  destruct p;
  repeat match goal with
         | m : mode |- _ => destruct m
         | k : lsk |- _ => destruct k
         | k : usk |- _ => destruct k
         | k : fxk |- _ => destruct k
         | k : uxk |- _ => destruct k
         | a : bool |- _ => destruct a
         end.

Lemma rest_facts : forall l,
  0 <= Srl l /\ 0 <= Srd l /\ 0 <= Swl l /\ 0 <= Sfw l /\ 0 <= Swr l /\ 0 <= Sap l /\ 0 <= Sup l /\
  0 <= Sxc l /\ 0 <= Src l /\ 0 <= Scr l /\
  Sxc l + Sap l <= Sfw l /\ Sfw l <= Swl l /\ Swr l <= Sfw l /\ Src l <= Srl l /\ Srd l <= Srl l /\ Sup l <= Srd l.
Proof.
  unfold Srl, Srd, Swl, Sfw, Swr, Sap, Sup, Sxc, Src, Scr.
  induction l as [|[p scr] l IH]; [simpl; lia|].
  rewrite !sumf_cons.
  pc_cases p; cbn [wt wmode rl rd wl fw wr ap up xc rc cr us_wl us_fw ux_r b2z]; lia.
Qed.

Lemma fetch_legal : forall m scr o r,
  fetch m scr = Some (o, r) -> legal m o = true /\ (length r < length scr)%nat.
Proof.
  induction scr as [|a scr IH]; simpl; intros o r H; [discriminate|].
  destruct (legal m a) eqn:E.
  - inversion H; subst. split; [assumption | lia].
  - destruct (IH _ _ H). split; [assumption | lia].
Qed.

Lemma b2z_range : forall b, 0 <= b2z b <= 1.
Proof. destruct b; simpl; lia. Qed.

(* ---------- one step of one process preserves the invariant ---------- *)
Ltac unfold_sums :=
  unfold Srl, Srd, Swl, Sfw, Swr, Sap, Sup, Sxc, Src, Scr in *.

Ltac split_ifs E :=
  repeat match type of E with
         | context [if ?c then _ else _] => destruct c eqn:?
         end.

Ltac finish_step E :=
  inversion E; subst; clear E;
  constructor;
  cbn [sh ths readers writing appending updating readLevel writeLevel
       set_readers set_writing set_appending set_updating set_readLevel set_writeLevel];
  unfold_sums; rewrite ?sumf_app, ?sumf_cons;
  cbn [wt wmode rl rd wl fw wr ap up xc rc cr us_wl us_fw ux_r b2z fst entry is_append] in *;
  lia.

Lemma pstep_inv : forall s l1 l2 p scr s' p' scr' evs,
  Inv (mkState s (l1 ++ (p, scr) :: l2)) ->
  pstep s p scr = (s', p', scr', evs) ->
  Inv (mkState s' (l1 ++ (p', scr') :: l2)).
Proof.
  intros s l1 l2 p scr s' p' scr' evs [H1 H2 H3 H4 H5 H6 H7 H8 H9] E.
  cbn [sh ths] in *.
  pose proof (rest_facts l1) as F1. pose proof (rest_facts l2) as F2.
  unfold_sums. rewrite !sumf_app, !sumf_cons in *.
  destruct s as [R Wr Ap Up RL WL].
  cbn [readers writing appending updating readLevel writeLevel] in *.
  pose proof (b2z_range Wr) as BW. pose proof (b2z_range Ap) as BA. pose proof (b2z_range Up) as BU.
  destruct p as [m|m| |k|k|k|k|k| |k|k|k| | |k|k|k|k|k|k a|k a|k|k| | |a|a|a| | | | | | | | | ].
  1: { (* Ready *)
    cbn [pstep] in E. destruct (fetch m scr) as [[o r]|] eqn:F.
    + apply fetch_legal in F. destruct F as [F _].
      destruct m, o; try discriminate F; finish_step E.
    + finish_step E. }
  1: { (* Done *) finish_step E. }
  1: { (* Crashed *) finish_step E. }
  all: try destruct k; try destruct a;
    cbn [pstep set_readers set_writing set_appending set_updating set_readLevel set_writeLevel
         readers writing appending updating readLevel writeLevel ls_op fx_op] in E;
    cbn [wt wmode rl rd wl fw wr ap up xc rc cr us_wl us_fw ux_r b2z fst] in *;
    split_ifs E; try finish_step E.
Qed.

(* ---------- lifting to steps, schedules, round-robin completion ---------- *)
Lemma step_inv : forall st t st' evs b, Inv st -> step st t = (st', evs, b) -> Inv st'.
Proof.
  intros [s l] t st' evs b HI E. unfold step in E. cbn [sh ths] in E.
  destruct (nthN t l) as [[p scr]|] eqn:N; [|inversion E; subst; assumption].
  destruct (terminal p); [inversion E; subst; assumption|].
  destruct (pstep s p scr) as [[[s1 p1] scr1] evs1] eqn:P.
  inversion E; subst; clear E.
  destruct (nthN_split _ _ _ _ N) as (l1 & l2 & E1 & E2 & _).
  rewrite E2. subst l. eapply pstep_inv; eassumption.
Qed.

Lemma exec_inv : forall sched st st' evs n, Inv st -> exec st sched = (st', evs, n) -> Inv st'.
Proof.
  induction sched as [|t r IH]; intros st st' evs n HI E; simpl in E.
  - inversion E; subst; assumption.
  - destruct (step st t) as [[st1 e1] b] eqn:S1.
    destruct (exec st1 r) as [[st2 e2] n2] eqn:S2.
    inversion E; subst; clear E.
    eapply IH; [|eassumption]. eapply step_inv; eassumption.
Qed.

Lemma sumf_zero_idle : forall f scripts,
  f (Ready MIdle) = 0 -> sumf f (map (fun scr : list op => (Ready MIdle, scr)) scripts) = 0.
Proof. intros f scripts H. induction scripts as [|a l IH]; simpl; [reflexivity|]. rewrite H, IH. reflexivity. Qed.

Lemma init_inv : forall scripts, Inv (init scripts).
Proof.
  intro scripts. unfold init. constructor; cbn [sh ths idle_shared readers writing appending updating readLevel writeLevel];
    unfold_sums; rewrite ?sumf_zero_idle; try reflexivity; try lia.
Qed.

Lemma run_rr_inv : forall fuel st st' evs n, Inv st -> run_rr fuel st = Some (st', evs, n) -> Inv st'.
Proof.
  induction fuel as [|f IH]; intros st st' evs n HI E; simpl in E.
  - destruct (all_terminal st); [inversion E; subst; assumption | discriminate].
  - destruct (all_terminal st); [inversion E; subst; assumption|].
    destruct (exec st (tids st)) as [[st1 e1] n1] eqn:X.
    destruct (run_rr f st1) as [[[st2 e2] n2]|] eqn:R; [|discriminate].
    inversion E; subst; clear E.
    eapply IH; [|eassumption]. eapply exec_inv; eassumption.
Qed.

(* every state reachable from the initial one by any schedule *)
Definition reach (scripts : list (list op)) (sched : list N) : state := fst (fst (exec (init scripts) sched)).

Theorem reach_inv : forall scripts sched, Inv (reach scripts sched).
Proof.
  intros. unfold reach. destruct (exec (init scripts) sched) as [[st e] n] eqn:E. simpl.
  eapply exec_inv; [apply init_inv | eassumption].
Qed.

Theorem run_case_inv : forall scripts sched st evs n, run_case scripts sched = Some (st, evs, n) -> Inv st.
Proof.
  intros scripts sched st evs n E. unfold run_case in E.
  destruct (exec (init scripts) sched) as [[st1 e1] n1] eqn:X.
  destruct (run_rr (S (work st1)) st1) as [[[st2 e2] n2]|] eqn:R; [|discriminate].
  inversion E; subst; clear E.
  eapply run_rr_inv; [|eassumption]. eapply exec_inv; [apply init_inv | eassumption].
Qed.

(* ---------- two different members of a list both count in a sum of non-negative weights ---------- *)
Lemma sumf_nonneg : forall f l, (forall p, 0 <= f p) -> 0 <= sumf f l.
Proof. intros f l H. induction l as [|[p s] l IH]; simpl; [lia|]. specialize (H p). lia. Qed.

Lemma sumf_member : forall f l i p s, (forall q, 0 <= f q) -> nthN i l = Some (p, s) -> f p <= sumf f l.
Proof.
  intros f l i p s H N. destruct (nthN_split _ _ _ _ N) as (l1 & l2 & E & _ & _). subst l.
  rewrite sumf_app, sumf_cons. pose proof (sumf_nonneg f l1 H). pose proof (sumf_nonneg f l2 H). lia.
Qed.

Lemma sumf_two_members : forall f l i j p s q r,
  (forall x, 0 <= f x) -> i <> j -> nthN i l = Some (p, s) -> nthN j l = Some (q, r) -> f p + f q <= sumf f l.
Proof.
  intros f l. induction l as [|[a sa] l IH]; intros i j p s q r H D Ni Nj; simpl in Ni, Nj; [discriminate|].
  rewrite sumf_cons.
  destruct (N.eqb_spec i 0%N) as [Ei|Ei]; destruct (N.eqb_spec j 0%N) as [Ej|Ej].
  - subst. contradiction.
  - inversion Ni; subst. pose proof (sumf_member f l _ _ _ H Nj). lia.
  - inversion Nj; subst. pose proof (sumf_member f l _ _ _ H Ni). lia.
  - assert (N.pred i <> N.pred j) by lia.
    pose proof (IH _ _ _ _ _ _ H H0 Ni Nj). specialize (H a). lia.
Qed.

Lemma wt_nonneg : forall p,
  0 <= rl (wt p) /\ 0 <= rd (wt p) /\ 0 <= wl (wt p) /\ 0 <= fw (wt p) /\ 0 <= wr (wt p) /\
  0 <= ap (wt p) /\ 0 <= up (wt p) /\ 0 <= xc (wt p) /\ 0 <= rc (wt p) /\ 0 <= cr p.
Proof. intro p. pc_cases p; cbn; lia. Qed.

(* ---------- consequences ---------- *)
Section Consequences.
  Variable st : state.
  Hypothesis HI : Inv st.

  (* what the weights of a holder say *)
  Lemma holder_weights : forall p m, holds p = Some m -> wt p = wmode m.
  Proof. intros p m H. destruct p; simpl in H; try discriminate; inversion H; subst; reflexivity. Qed.

  Theorem holders_compatible : forall i j pi si pj sj a b,
    i <> j -> nthN i (ths st) = Some (pi, si) -> nthN j (ths st) = Some (pj, sj) ->
    holds pi = Some a -> holds pj = Some b -> compat a b = true.
  Proof.
    intros i j pi si pj sj a b D Ni Nj Ha Hb.
    destruct HI as [_ _ _ _ _ H6 H7 H8 _].
    pose proof (b2z_range (updating (sh st))) as BU.
    assert (Tfw := sumf_two_members (fun p => fw (wt p)) _ _ _ _ _ _ _ (fun x => proj1 (proj2 (proj2 (proj2 (wt_nonneg x))))) D Ni Nj).
    assert (Tup := sumf_two_members (fun p => up (wt p)) _ _ _ _ _ _ _ (fun x => proj1 (proj2 (proj2 (proj2 (proj2 (proj2 (proj2 (wt_nonneg x)))))))) D Ni Nj).
    assert (Txi := sumf_member (fun p => xc (wt p)) _ _ _ _ (fun x => proj1 (proj2 (proj2 (proj2 (proj2 (proj2 (proj2 (proj2 (wt_nonneg x))))))))) Ni).
    assert (Txj := sumf_member (fun p => xc (wt p)) _ _ _ _ (fun x => proj1 (proj2 (proj2 (proj2 (proj2 (proj2 (proj2 (proj2 (wt_nonneg x))))))))) Nj).
    assert (Tri := sumf_member (fun p => rc (wt p)) _ _ _ _ (fun x => proj1 (proj2 (proj2 (proj2 (proj2 (proj2 (proj2 (proj2 (proj2 (wt_nonneg x)))))))))) Ni).
    assert (Trj := sumf_member (fun p => rc (wt p)) _ _ _ _ (fun x => proj1 (proj2 (proj2 (proj2 (proj2 (proj2 (proj2 (proj2 (proj2 (wt_nonneg x)))))))))) Nj).
    unfold_sums. cbn beta in *.
    rewrite (holder_weights _ _ Ha) in *. rewrite (holder_weights _ _ Hb) in *.
    destruct a, b; cbn [wmode rl rd wl fw wr ap up xc rc compat] in *; try reflexivity; exfalso; lia.
  Qed.

  Theorem no_crash : forall i p s, nthN i (ths st) = Some (p, s) -> p <> Crashed.
  Proof.
    intros i p s Ni E. subst p. destruct HI as [_ _ _ _ _ _ _ _ H9].
    pose proof (sumf_member cr _ _ _ _ (fun x => proj2 (proj2 (proj2 (proj2 (proj2 (proj2 (proj2 (proj2 (proj2 (wt_nonneg x)))))))))) Ni) as T.
    unfold Scr in H9. simpl in T. lia.
  Qed.

  Lemma sumf_all_idle : forall f l,
    f (Ready MIdle) = 0 -> f (Done MIdle) = 0 ->
    (forall th, In th l -> holds (fst th) = Some MIdle) -> sumf f l = 0.
  Proof.
    intros f l H1 H2. induction l as [|[p s] l IH]; intro A; simpl; [reflexivity|].
    rewrite IH by (intros; apply A; right; assumption).
    specialize (A (p, s) (or_introl eq_refl)). simpl in A.
    destruct p; simpl in A; try discriminate; inversion A; subst; lia.
  Qed.

  Theorem idle_when_all_released :
    (forall th, In th (ths st) -> holds (fst th) = Some MIdle) -> sh st = idle_shared.
  Proof.
    intro A. destruct HI as [H1 H2 H3 H4 H5 H6 _ _ _]. unfold_sums.
    rewrite (sumf_all_idle (fun p => rl (wt p)) _ eq_refl eq_refl A) in H1.
    rewrite (sumf_all_idle (fun p => wl (wt p)) _ eq_refl eq_refl A) in H2.
    rewrite (sumf_all_idle (fun p => rd (wt p)) _ eq_refl eq_refl A) in H3.
    rewrite (sumf_all_idle (fun p => wr (wt p)) _ eq_refl eq_refl A) in H4.
    rewrite (sumf_all_idle (fun p => ap (wt p)) _ eq_refl eq_refl A) in H5.
    rewrite (sumf_all_idle (fun p => up (wt p)) _ eq_refl eq_refl A) in H6.
    destruct (sh st) as [R Wr Ap Up RL WL]. cbn [readers writing appending updating readLevel writeLevel] in *.
    subst. destruct Wr, Ap, Up; simpl in *; try discriminate; reflexivity.
  Qed.
End Consequences.

Lemma probe_idle : probe idle_shared = Some [EvRet OpLX true; EvRet OpLS true; EvRet OpLH true].
Proof. vm_compute. reflexivity. Qed.

(* ---------- the round-robin completion terminates (no lock operation can loop or block) ---------- *)
Definition wsum (l : list thread) : nat := fold_right (fun th a => twork th + a)%nat O l.

Lemma work_wsum : forall st, work st = wsum (ths st).
Proof. reflexivity. Qed.

Lemma wsum_app : forall l1 l2, wsum (l1 ++ l2) = (wsum l1 + wsum l2)%nat.
Proof. induction l1 as [|a l1 IH]; intros; simpl; [reflexivity | rewrite IH; lia]. Qed.

Lemma rank_entry : forall m o, (rank (entry m o) <= 14)%nat.
Proof. intros m o. destruct m, o; simpl; lia. Qed.

Lemma pstep_work : forall s p scr s' p' scr' evs,
  terminal p = false -> pstep s p scr = (s', p', scr', evs) -> (twork (p', scr') < twork (p, scr))%nat.
Proof.
  intros s p scr s' p' scr' evs T E. unfold twork. cbn [fst snd].
  destruct p as [m|m| |k|k|k|k|k| |k|k|k| | |k|k|k|k|k|k a|k a|k|k| | |a|a|a| | | | | | | | | ];
    try discriminate T.
  1: { cbn [pstep] in E. destruct (fetch m scr) as [[o r]|] eqn:F.
       - apply fetch_legal in F. destruct F as [_ F]. inversion E; subst; clear E.
         pose proof (rank_entry m o). cbn [rank]. lia.
       - inversion E; subst; clear E. simpl. lia. }
  all: try destruct k; try destruct a; cbn [pstep] in E; split_ifs E; inversion E; subst; clear E; cbn [rank]; lia.
Qed.

Lemma step_work : forall st t st' evs b,
  step st t = (st', evs, b) ->
  if b then (work st' < work st)%nat else st' = st.
Proof.
  intros [s l] t st' evs b E. unfold step in E. cbn [sh ths] in E.
  destruct (nthN t l) as [[p scr]|] eqn:N; [|inversion E; subst; reflexivity].
  destruct (terminal p) eqn:T; [inversion E; subst; reflexivity|].
  destruct (pstep s p scr) as [[[s1 p1] scr1] evs1] eqn:P.
  inversion E; subst; clear E.
  destruct (nthN_split _ _ _ _ N) as (l1 & l2 & E1 & E2 & _).
  rewrite !work_wsum. cbn [ths]. rewrite E2. subst l. rewrite !wsum_app. simpl.
  pose proof (pstep_work _ _ _ _ _ _ _ T P). lia.
Qed.

Lemma step_flag : forall st t p scr,
  nthN t (ths st) = Some (p, scr) -> terminal p = false -> snd (step st t) = true.
Proof.
  intros st t p scr N T. unfold step. rewrite N, T.
  destruct (pstep (sh st) p scr) as [[[s1 p1] scr1] evs1]. reflexivity.
Qed.

Lemma exec_work_le : forall sched st st' evs n, exec st sched = (st', evs, n) -> (work st' <= work st)%nat.
Proof.
  induction sched as [|t r IH]; intros st st' evs n E; simpl in E.
  - inversion E; subst. lia.
  - destruct (step st t) as [[st1 e1] b] eqn:S1. destruct (exec st1 r) as [[st2 e2] n2] eqn:S2.
    inversion E; subst; clear E.
    pose proof (step_work _ _ _ _ _ S1) as W. pose proof (IH _ _ _ _ S2).
    destruct b; [lia | subst; lia].
Qed.

Lemma exec_work_lt : forall sched st st' evs n t p scr,
  In t sched -> nthN t (ths st) = Some (p, scr) -> terminal p = false ->
  exec st sched = (st', evs, n) -> (work st' < work st)%nat.
Proof.
  induction sched as [|t0 r IH]; intros st st' evs n t p scr I N T E; [contradiction|].
  simpl in E. destruct (step st t0) as [[st1 e1] b] eqn:S1. destruct (exec st1 r) as [[st2 e2] n2] eqn:S2.
  inversion E; subst; clear E.
  pose proof (step_work _ _ _ _ _ S1) as W. pose proof (exec_work_le _ _ _ _ _ S2) as L.
  destruct b; [lia|]. subst st1.
  destruct I as [I|I].
  - subst t0. pose proof (step_flag _ _ _ _ N T) as Fl. rewrite S1 in Fl. discriminate Fl.
  - eapply IH; eassumption.
Qed.

Lemma not_all_terminal_witness : forall l k,
  forallb (fun th : thread => terminal (fst th)) l = false ->
  exists t p scr, nthN t l = Some (p, scr) /\ terminal p = false /\ In (k + t)%N (tids_from k l).
Proof.
  induction l as [|[p scr] l IH]; intros k H; simpl in H; [discriminate|].
  destruct (terminal p) eqn:T; simpl in H.
  - destruct (IH (N.succ k) H) as (t & q & s & N & Tq & I).
    exists (N.succ t), q, s. split; [|split; [assumption|]].
    + simpl. destruct (N.eqb_spec (N.succ t) 0%N); [lia|]. rewrite N.pred_succ. assumption.
    + simpl. right. replace (k + N.succ t)%N with (N.succ k + t)%N by lia. assumption.
  - exists 0%N, p, scr. split; [reflexivity|]. split; [assumption|]. simpl. left. lia.
Qed.

Lemma run_rr_completes : forall fuel st, (work st < fuel)%nat -> exists r, run_rr fuel st = Some r.
Proof.
  induction fuel as [|f IH]; intros st W; [lia|].
  simpl. destruct (all_terminal st) eqn:A; [eexists; reflexivity|].
  destruct (exec st (tids st)) as [[st1 e1] n1] eqn:X.
  destruct (not_all_terminal_witness _ 0%N A) as (t & p & scr & N & T & I).
  rewrite N.add_0_l in I.
  pose proof (exec_work_lt _ _ _ _ _ _ _ _ I N T X) as L.
  destruct (IH st1) as [[[st2 e2] n2] R]; [lia|]. rewrite R. eexists; reflexivity.
Qed.

Lemma run_rr_all_terminal : forall fuel st st' evs n, run_rr fuel st = Some (st', evs, n) -> all_terminal st' = true.
Proof.
  induction fuel as [|f IH]; intros st st' evs n E; simpl in E.
  - destruct (all_terminal st) eqn:A; [inversion E; subst; assumption | discriminate].
  - destruct (all_terminal st) eqn:A; [inversion E; subst; assumption|].
    destruct (exec st (tids st)) as [[st1 e1] n1]. destruct (run_rr f st1) as [[[st2 e2] n2]|] eqn:R; [|discriminate].
    inversion E; subst. eapply IH; eassumption.
Qed.

Theorem run_case_completes : forall scripts sched,
  exists st evs n, run_case scripts sched = Some (st, evs, n) /\ all_terminal st = true.
Proof.
  intros scripts sched. unfold run_case.
  destruct (exec (init scripts) sched) as [[st1 e1] n1].
  destruct (run_rr_completes (S (work st1)) st1) as [[[st2 e2] n2] R]; [lia|].
  rewrite R. do 3 eexists. split; [reflexivity|]. eapply run_rr_all_terminal; eassumption.
Qed.

(* ---------- statements in the form used by Properties_C54.v ---------- *)
Theorem reach_holders_compatible : forall scripts sched i j pi si pj sj a b,
  i <> j ->
  nthN i (ths (reach scripts sched)) = Some (pi, si) ->
  nthN j (ths (reach scripts sched)) = Some (pj, sj) ->
  holds pi = Some a -> holds pj = Some b -> compat a b = true.
Proof. intros scripts sched. apply holders_compatible. apply reach_inv. Qed.

Theorem reach_exclusive_alone : forall scripts sched i j pi si pj sj b,
  i <> j ->
  nthN i (ths (reach scripts sched)) = Some (pi, si) ->
  nthN j (ths (reach scripts sched)) = Some (pj, sj) ->
  holds pi = Some MExcl -> holds pj = Some b -> b = MIdle.
Proof.
  intros scripts sched i j pi si pj sj b D Ni Nj Ha Hb.
  pose proof (reach_holders_compatible _ _ _ _ _ _ _ _ _ _ D Ni Nj Ha Hb) as C.
  destruct b; simpl in C; try discriminate; reflexivity.
Qed.

Theorem reach_one_writer : forall scripts sched i j pi si pj sj a b,
  i <> j ->
  nthN i (ths (reach scripts sched)) = Some (pi, si) ->
  nthN j (ths (reach scripts sched)) = Some (pj, sj) ->
  holds pi = Some a -> holds pj = Some b -> is_writer a = true -> is_writer b = true -> False.
Proof.
  intros scripts sched i j pi si pj sj a b D Ni Nj Ha Hb Wa Wb.
  pose proof (reach_holders_compatible _ _ _ _ _ _ _ _ _ _ D Ni Nj Ha Hb) as C.
  destruct a, b; simpl in *; discriminate.
Qed.

Theorem reach_sharer_writer_append : forall scripts sched i j pi si pj sj a b,
  i <> j ->
  nthN i (ths (reach scripts sched)) = Some (pi, si) ->
  nthN j (ths (reach scripts sched)) = Some (pj, sj) ->
  holds pi = Some a -> holds pj = Some b -> is_sharer a = true -> is_writer b = true ->
  b = MAppend \/ b = MBusy.
Proof.
  intros scripts sched i j pi si pj sj a b D Ni Nj Ha Hb Sa Wb.
  pose proof (reach_holders_compatible _ _ _ _ _ _ _ _ _ _ D Ni Nj Ha Hb) as C.
  destruct a, b; simpl in *; try discriminate; auto.
Qed.

Theorem reach_one_header_updater : forall scripts sched i j pi si pj sj,
  i <> j ->
  nthN i (ths (reach scripts sched)) = Some (pi, si) ->
  nthN j (ths (reach scripts sched)) = Some (pj, sj) ->
  holds pi = Some MHeaders -> holds pj = Some MHeaders -> False.
Proof.
  intros scripts sched i j pi si pj sj D Ni Nj Ha Hb.
  pose proof (reach_holders_compatible _ _ _ _ _ _ _ _ _ _ D Ni Nj Ha Hb) as C. discriminate C.
Qed.

Theorem reach_no_crash : forall scripts sched i p s,
  nthN i (ths (reach scripts sched)) = Some (p, s) -> p <> Crashed.
Proof. intros scripts sched. apply no_crash. apply reach_inv. Qed.

Theorem reach_idle_when_all_released : forall scripts sched,
  (forall th, In th (ths (reach scripts sched)) -> holds (fst th) = Some MIdle) ->
  sh (reach scripts sched) = idle_shared.
Proof. intros scripts sched. apply idle_when_all_released. apply reach_inv. Qed.

Theorem reach_obtainable_when_all_released : forall scripts sched,
  (forall th, In th (ths (reach scripts sched)) -> holds (fst th) = Some MIdle) ->
  probe (sh (reach scripts sched)) = Some [EvRet OpLX true; EvRet OpLS true; EvRet OpLH true].
Proof. intros scripts sched A. rewrite (reach_idle_when_all_released _ _ A). apply probe_idle. Qed.

(* at a quiescent point (every process is between two calls) the six fields say exactly who holds what *)
Definition is_headers (m : mode) : bool := match m with MHeaders => true | _ => false end.
Definition holders (f : mode -> bool) (l : list thread) : Z :=
  sumf (fun p => match holds p with Some m => b2z (f m) | None => 0 end) l.

Lemma sums_of_holders : forall l,
  (forall th, In th l -> holds (fst th) <> None) ->
  Srl l = holders is_sharer l /\ Srd l = holders is_sharer l /\ Swl l = holders is_writer l /\
  Swr l = holders is_writer l /\ Sap l = holders is_append l /\ Sup l = holders is_headers l.
Proof.
  unfold holders. unfold_sums.
  induction l as [|[p s] l IH]; intro A; [simpl; repeat split; reflexivity|].
  rewrite !sumf_cons.
  destruct IH as (I1 & I2 & I3 & I4 & I5 & I6); [intros; apply A; right; assumption|].
  specialize (A (p, s) (or_introl eq_refl)). cbn [fst] in A.
  rewrite I1, I2, I3, I4, I5, I6.
  destruct p; try (exfalso; apply A; reflexivity); destruct m; cbn; repeat split; reflexivity.
Qed.

Theorem reach_quiescent_fields : forall scripts sched,
  let st := reach scripts sched in
  (forall th, In th (ths st) -> holds (fst th) <> None) ->
  readers (sh st) = holders is_sharer (ths st) /\
  readLevel (sh st) = holders is_sharer (ths st) /\
  writeLevel (sh st) = holders is_writer (ths st) /\
  b2z (writing (sh st)) = holders is_writer (ths st) /\
  b2z (appending (sh st)) = holders is_append (ths st) /\
  b2z (updating (sh st)) = holders is_headers (ths st).
Proof.
  intros scripts sched st A. destruct (reach_inv scripts sched) as [H1 H2 H3 H4 H5 H6 _ _ _].
  fold st in H1, H2, H3, H4, H5, H6.
  destruct (sums_of_holders _ A) as (I1 & I2 & I3 & I4 & I5 & I6).
  rewrite H1, H2, H3, H4, H5, H6. repeat split; assumption.
Qed.
