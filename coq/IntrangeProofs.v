(* IntrangeProofs.v — proofs for C43 (ACLIntRange). *)
Require Import SquidV.Bytes SquidV.TokModel SquidV.IntrangeModel.
Require Import ZifyBool ZifyN.
Local Open Scope Z_scope.

(* ================= specification side ================= *)
(* value of a string of decimal digits *)
Definition dec_value (ds : bytes) : Z := fold_left (fun a c => a * 10 + (Z.of_N c - 48)) ds 0.
Definition all_digits (ds : bytes) : bool :=
  match ds with [] => false | _ => forallb is_digit ds end.
(* a C integer numeral: optional sign, 1*DIGIT, nothing else *)
Definition numeral (s : bytes) : option Z :=
  match s with
  | [] => None
  | c :: ds =>
      if (c =? 45)%N then (if all_digits ds then Some (- dec_value ds) else None)
      else if (c =? 43)%N then (if all_digits ds then Some (dec_value ds) else None)
      else if all_digits s then Some (dec_value s) else None
  end.
(* the closed range a token lists: "N" or "A-B" split at the first '-', 16-bit, ordered *)
Definition tok_range (t : bytes) : option (Z * Z) :=
  let '(a, rest) := span (fun c => negb (c =? 45)%N) t in
  match numeral a, (match rest with [] => numeral a | _ :: b => numeral b end) with
  | Some lo, Some hi => if (0 <=? lo) && (lo <=? hi) && (hi <=? 65535) then Some (lo, hi) else None
  | _, _ => None
  end.
(* tokens as ConfigParser delivers them: no NUL, no isspace() byte *)
Definition clean_char (c : N) : bool := negb (c =? 0)%N && negb (is_c_space c).
Definition clean (t : bytes) : bool := forallb clean_char t.

(* ================= strtoll on clean strings ================= *)
Lemma digit_of_10 c : digit_of 10 c = if is_digit c then Some (Z.of_N c - 48) else None.
Proof.
  unfold digit_of, digit_raw, is_upper, is_lower.
  destruct (is_digit c) eqn:Ed.
  - unfold is_digit in Ed. destruct (Z.of_N c - 48 >=? 10) eqn:E; [lia|reflexivity].
  - unfold is_digit in Ed.
    destruct ((65 <=? c)%N && (c <=? 90)%N) eqn:E1.
    { destruct (Z.of_N c - 55 >=? 10) eqn:E; [reflexivity|lia]. }
    destruct ((97 <=? c)%N && (c <=? 122)%N) eqn:E2.
    { destruct (Z.of_N c - 87 >=? 10) eqn:E; [reflexivity|lia]. }
    reflexivity.
Qed.

Definition dval (c : N) : Z := Z.of_N c - 48.

Lemma digit_run_span l : digit_run 10 l = map dval (fst (span is_digit l)).
Proof.
  induction l as [|c r IH]; cbn [digit_run span]; [reflexivity|].
  rewrite digit_of_10. destruct (is_digit c); [|reflexivity].
  destruct (span is_digit r) as [a b]. cbn [fst map] in *. now rewrite IH.
Qed.

Lemma digits_value_map ds acc :
  digits_value 10 (map dval ds) acc = fold_left (fun a c => a * 10 + (Z.of_N c - 48)) ds acc.
Proof.
  revert acc. induction ds as [|c ds IH]; intros acc; [reflexivity|].
  cbn [map]. unfold digits_value in *. cbn [fold_left]. apply IH.
Qed.

Lemma lenN_map {A B} (f : A -> B) l : lenN (map f l) = lenN l.
Proof. induction l as [|x l IH]; cbn [map lenN]; [reflexivity| now rewrite IH]. Qed.

Lemma dec_value_nonneg_acc ds : forall a, 0 <= a -> forallb is_digit ds = true ->
  0 <= fold_left (fun a c => a * 10 + (Z.of_N c - 48)) ds a.
Proof.
  induction ds as [|c ds IH]; intros a Ha Hd; cbn [fold_left]; [exact Ha|].
  cbn [forallb] in Hd. apply andb_prop in Hd as [Hc Hd]. apply IH; [|exact Hd].
  unfold is_digit in Hc. lia.
Qed.
Lemma dec_value_nonneg ds : forallb is_digit ds = true -> 0 <= dec_value ds.
Proof. apply dec_value_nonneg_acc. lia. Qed.

Lemma c_string_clean t : clean t = true -> c_string t = t.
Proof.
  induction t as [|c r IH]; intros H; cbn [c_string]; [reflexivity|].
  cbn [clean forallb] in H. apply andb_prop in H as [Hc Hr]. unfold clean_char in Hc.
  destruct (c =? 0)%N eqn:E; [cbn in Hc; discriminate|]. now rewrite (IH Hr).
Qed.

Lemma span_all_true {A} (p : A -> bool) l : forallb p l = true -> span p l = (l, []).
Proof.
  induction l as [|x l IH]; intros H; cbn [span]; [reflexivity|].
  cbn [forallb] in H. apply andb_prop in H as [Hx Hl]. now rewrite Hx, (IH Hl).
Qed.

Lemma span_fst_eq_all {A} (p : A -> bool) l : snd (span p l) = [] -> forallb p l = true.
Proof.
  induction l as [|x l IH]; cbn [span forallb]; [reflexivity|].
  destruct (p x) eqn:E; [|discriminate]. destruct (span p l) as [a b]. cbn [snd] in *. intros H. now rewrite (IH H).
Qed.

Lemma dropN_lenN_app {A} (a b : list A) : dropN (lenN a) (a ++ b) = b.
Proof.
  induction a as [|x a IH]; cbn [lenN app].
  - destruct b; reflexivity.
  - cbn [dropN]. destruct (N.succ (lenN a) =? 0)%N eqn:E; [lia|]. now rewrite N.pred_succ.
Qed.

Lemma dropN_succ {A} n (x : A) l : dropN (N.succ n) (x :: l) = dropN n l.
Proof. cbn [dropN]. destruct (N.succ n =? 0)%N eqn:E; [lia|]. now rewrite N.pred_succ. Qed.

(* saturation as glibc does it *)
Definition sat_pos (v : Z) : Z := if v >? two63 - 1 then two63 - 1 else v.
Definition sat_neg (v : Z) : Z := if v >? two63 then - two63 else - v.

(* the sign dispatch of strtoll10, as boolean tests *)
Lemma sign_split (l1 : bytes) (n1 : N) :
  (match l1 with
   | 45%N :: r => (true, r, N.succ n1)
   | 43%N :: r => (false, r, N.succ n1)
   | _ => (false, l1, n1)
   end) =
  match l1 with
  | c :: r => if (c =? 45)%N then (true, r, N.succ n1)
              else if (c =? 43)%N then (false, r, N.succ n1) else (false, l1, n1)
  | [] => (false, l1, n1)
  end.
Proof.
  destruct l1 as [|c r]; [reflexivity|]. destruct c as [|p]; [reflexivity|].
  do 7 (try (destruct p as [p|p|])); reflexivity.
Qed.

(* strtoll10 on clean text, in terms of the leading sign and the maximal digit run *)
Lemma strtoll10_clean l :
  clean l = true ->
  strtoll10 l =
  let '(neg, l2, n2) :=
    match l with
    | c :: r => if (c =? 45)%N then (true, r, 1%N) else if (c =? 43)%N then (false, r, 1%N) else (false, l, 0%N)
    | [] => (false, l, 0%N)
    end in
  let d := fst (span is_digit l2) in
  match d with
  | [] => (0, 0%N, false)
  | _ => if neg then (sat_neg (dec_value d), (n2 + lenN d)%N, dec_value d >? two63)
         else (sat_pos (dec_value d), (n2 + lenN d)%N, dec_value d >? two63 - 1)
  end.
Proof.
  intros Hcl. unfold strtoll10. rewrite (c_string_clean l Hcl).
  assert (Hsk : skip_space l 0%N = (l, 0%N)).
  { destruct l as [|c r]; [reflexivity|]. cbn [skip_space].
    cbn [clean forallb] in Hcl. apply andb_prop in Hcl as [Hc _]. unfold clean_char in Hc.
    destruct (is_c_space c); [rewrite andb_false_r in Hc; discriminate|reflexivity]. }
  rewrite Hsk. rewrite sign_split. change (N.succ 0) with 1%N.
  set (sg := match l with
    | c :: r => if (c =? 45)%N then (true, r, 1%N) else if (c =? 43)%N then (false, r, 1%N) else (false, l, 0%N)
    | [] => (false, l, 0%N) end).
  destruct sg as [[neg l2] n2].
  rewrite digit_run_span. cbv zeta.
  destruct (fst (span is_digit l2)) as [|y ys] eqn:Ed; [reflexivity|].
  change (map dval (y :: ys)) with (dval y :: map dval ys).
  change (dval y :: map dval ys) with (map dval (y :: ys)).
  rewrite digits_value_map, lenN_map. fold (dec_value (y :: ys)).
  unfold sat_neg, sat_pos.
  destruct neg.
  - destruct (dec_value (y :: ys) >? two63); reflexivity.
  - destruct (dec_value (y :: ys) >? two63 - 1); reflexivity.
Qed.

Lemma dropN_span {A} (p : A -> bool) l : dropN (lenN (fst (span p l))) l = snd (span p l).
Proof.
  transitivity (dropN (lenN (fst (span p l))) (fst (span p l) ++ snd (span p l))); [now rewrite span_app|].
  apply dropN_lenN_app.
Qed.

Lemma all_digits_span l :
  all_digits l = match fst (span is_digit l), snd (span is_digit l) with
                 | _ :: _, [] => true
                 | _, _ => false
                 end.
Proof.
  unfold all_digits. destruct l as [|c r]; [reflexivity|].
  destruct (forallb is_digit (c :: r)) eqn:E.
  - rewrite (span_all_true _ _ E). reflexivity.
  - destruct (snd (span is_digit (c :: r))) eqn:Es.
    + apply span_fst_eq_all in Es. congruence.
    + destruct (fst (span is_digit (c :: r))); reflexivity.
Qed.

Lemma all_digits_whole l : all_digits l = true -> fst (span is_digit l) = l.
Proof.
  unfold all_digits. destruct l as [|c r]; [discriminate|]. intros H. now rewrite (span_all_true _ _ H).
Qed.

(* glibc's saturation *)
Definition sat64 (v : Z) : Z := if v >? two63 - 1 then two63 - 1 else if v <? - two63 then - two63 else v.

(* the digit part of xatoll, after the sign: n2 characters were skipped before l2 *)
Lemma xatoll_tail (l2 : bytes) (n2 : N) (pre : bytes) :
  lenN pre = n2 ->
  let d := fst (span is_digit l2) in
  (match d with
   | [] => true
   | _ => match dropN (n2 + lenN d) (pre ++ l2) with [] => false | _ :: _ => true end
   end) = negb (all_digits l2).
Proof.
  intros Hpre d. rewrite all_digits_span. fold d.
  destruct d as [|y ys] eqn:Ed; [reflexivity|].
  assert (Hdrop : dropN (n2 + lenN (y :: ys)) (pre ++ l2) = snd (span is_digit l2)).
  { rewrite <- Ed. unfold d. rewrite <- (dropN_span is_digit l2). subst n2.
    clear. induction pre as [|x pre IH]; cbn [lenN app]; [now rewrite N.add_0_l|].
    replace (N.succ (lenN pre) + lenN (fst (span is_digit l2)))%N with (N.succ (lenN pre + lenN (fst (span is_digit l2)))) by lia.
    rewrite dropN_succ. exact IH. }
  rewrite Hdrop. destruct (snd (span is_digit l2)); reflexivity.
Qed.

Lemma xatoll_clean s : clean s = true ->
  xatoll s = match numeral s with Some v => Some (sat64 v) | None => None end.
Proof.
  intros Hcl. unfold xatoll. rewrite (strtoll10_clean s Hcl), (c_string_clean s Hcl).
  destruct s as [|c r]; [reflexivity|]. unfold numeral.
  destruct (c =? 45)%N eqn:E45; [|destruct (c =? 43)%N eqn:E43].
  - cbv zeta. pose proof (xatoll_tail r 1%N [c] eq_refl) as Ht. cbv zeta in Ht. cbn [app] in Ht.
    destruct (fst (span is_digit r)) as [|y ys] eqn:Ed.
    + cbn [N.eqb]. destruct (all_digits r); [discriminate|reflexivity].
    + destruct ((1 + lenN (y :: ys) =? 0)%N) eqn:En; [lia|].
      destruct (dropN (1 + lenN (y :: ys)) (c :: r)) eqn:Edr.
      * destruct (all_digits r) eqn:Ea; [|discriminate]. rewrite <- Ed, (all_digits_whole r Ea).
        f_equal. unfold sat_neg, sat64.
        assert (0 <= dec_value r) by (apply dec_value_nonneg; unfold all_digits in Ea; destruct r; [discriminate|exact Ea]).
        destruct (dec_value r >? two63) eqn:E1; destruct (- dec_value r >? two63 - 1) eqn:E2;
          destruct (- dec_value r <? - two63) eqn:E3; unfold two63 in *; lia.
      * destruct (all_digits r); [discriminate|reflexivity].
  - cbv zeta. pose proof (xatoll_tail r 1%N [c] eq_refl) as Ht. cbv zeta in Ht. cbn [app] in Ht.
    destruct (fst (span is_digit r)) as [|y ys] eqn:Ed.
    + cbn [N.eqb]. destruct (all_digits r); [discriminate|reflexivity].
    + destruct ((1 + lenN (y :: ys) =? 0)%N) eqn:En; [lia|].
      destruct (dropN (1 + lenN (y :: ys)) (c :: r)) eqn:Edr.
      * destruct (all_digits r) eqn:Ea; [|discriminate]. rewrite <- Ed, (all_digits_whole r Ea).
        f_equal. unfold sat_pos, sat64.
        assert (0 <= dec_value r) by (apply dec_value_nonneg; unfold all_digits in Ea; destruct r; [discriminate|exact Ea]).
        destruct (dec_value r >? two63 - 1) eqn:E1; destruct (dec_value r <? - two63) eqn:E3; unfold two63 in *; lia.
      * destruct (all_digits r); [discriminate|reflexivity].
  - cbv zeta. pose proof (xatoll_tail (c :: r) 0%N [] eq_refl) as Ht. cbv zeta in Ht. cbn [app] in Ht.
    destruct (fst (span is_digit (c :: r))) as [|y ys] eqn:Ed.
    + cbn [N.eqb]. destruct (all_digits (c :: r)); [discriminate|reflexivity].
    + destruct ((0 + lenN (y :: ys) =? 0)%N) eqn:En; [cbn [lenN] in En; lia|].
      destruct (dropN (0 + lenN (y :: ys)) (c :: r)) eqn:Edr.
      * destruct (all_digits (c :: r)) eqn:Ea; [|discriminate]. rewrite <- Ed, (all_digits_whole _ Ea).
        f_equal. unfold sat_pos, sat64.
        assert (0 <= dec_value (c :: r)) by (apply dec_value_nonneg; exact Ea).
        destruct (dec_value (c :: r) >? two63 - 1) eqn:E1; destruct (dec_value (c :: r) <? - two63) eqn:E3; unfold two63 in *; lia.
      * destruct (all_digits (c :: r)); [discriminate|reflexivity].
Qed.

(* ================= xatos ================= *)
Lemma land_high_zero p : 0 <= p -> (Z.land p (-65536) =? 0) = (p <=? 65535).
Proof.
  intros Hp. change (-65536) with (Z.lnot (Z.ones 16)).
  rewrite <- Z.ldiff_land, Z.ldiff_ones_r by lia.
  rewrite Z.shiftr_div_pow2, Z.shiftl_mul_pow2 by lia. change (2 ^ 16) with 65536.
  destruct (p <=? 65535) eqn:E.
  - assert (p / 65536 = 0) as -> by (apply Z.div_small; lia). reflexivity.
  - assert (1 <= p / 65536) by (apply Z.div_le_lower_bound; lia). lia.
Qed.

Definition port16 (p : Z) : bool := (0 <=? p) && (p <=? 65535).

Theorem xatos_spec s : clean s = true ->
  xatos s = match numeral s with Some p => if port16 p then Some p else None | None => None end.
Proof.
  intros Hcl. unfold xatos. rewrite (xatoll_clean s Hcl).
  destruct (numeral s) as [v|]; [|reflexivity]. unfold port16, sat64.
  destruct (v >? two63 - 1) eqn:E1.
  - cbn. destruct (0 <=? v) eqn:E2; destruct (v <=? 65535) eqn:E3; unfold two63 in *; try lia; reflexivity.
  - destruct (v <? - two63) eqn:E2.
    + cbn. destruct (0 <=? v) eqn:E3; [unfold two63 in *; lia|reflexivity].
    + destruct (v <? 0) eqn:E3.
      * destruct (0 <=? v) eqn:E4; [lia|reflexivity].
      * rewrite (land_high_zero v) by lia. destruct (0 <=? v) eqn:E4; [|lia].
        destruct (v <=? 65535); reflexivity.
Qed.

(* ================= one token ================= *)
Lemma clean_app a b : clean (a ++ b) = clean a && clean b.
Proof. unfold clean. apply forallb_app. Qed.

Lemma clean_span_parts p t : clean t = true ->
  clean (fst (span p t)) = true /\ clean (snd (span p t)) = true.
Proof. intros H. rewrite <- (span_app p t), clean_app in H. now apply andb_prop in H. Qed.

Lemma clean_tail c r : clean (c :: r) = true -> clean r = true.
Proof. cbn [clean forallb]. intros H. now apply andb_prop in H. Qed.

(* the half-open range stored for a token is [lo, hi+1) of the closed range it lists; nothing overflows *)
Theorem ir_parse_token_spec t : clean t = true ->
  ir_parse_token t = (match tok_range t with Some (lo, hi) => Some (lo, hi + 1) | None => None end, false).
Proof.
  intros Hcl. unfold ir_parse_token, tok_range. rewrite (c_string_clean t Hcl).
  destruct (clean_span_parts (fun c => negb (c =? 45)%N) t Hcl) as [Ha Hb].
  destruct (span (fun c => negb (c =? 45)%N) t) as [a rest]. cbn [fst snd] in Ha, Hb.
  rewrite (xatos_spec a Ha). destruct (numeral a) as [lo|]; [|reflexivity].
  destruct (port16 lo) eqn:Elo.
  2:{ destruct (match rest with [] => Some lo | _ :: b => numeral b end) as [hi|]; [|reflexivity].
      unfold port16 in Elo. destruct ((0 <=? lo) && (lo <=? hi) && (hi <=? 65535)) eqn:E; [lia|reflexivity]. }
  assert (Hp2 : match rest with [] => Some lo | _ :: b => xatos b end =
                match (match rest with [] => Some lo | _ :: b => numeral b end) with
                | Some p => if port16 p then Some p else None | None => None end).
  { destruct rest as [|x b]; [now rewrite Elo|]. apply xatos_spec. exact (clean_tail x b Hb). }
  rewrite Hp2. destruct (match rest with [] => Some lo | _ :: b => numeral b end) as [hi|]; [|reflexivity].
  unfold port16 in *. destruct ((0 <=? hi) && (hi <=? 65535)) eqn:Ehi.
  - destruct (hi >=? lo) eqn:Ege.
    + unfold add32, fits32, wrap32, two31, two32, int_max.
      destruct ((0 <=? lo) && (lo <=? hi) && (hi <=? 65535)) eqn:E; [|lia].
      f_equal; [|lia]. f_equal. f_equal.
      rewrite Z.mod_small by lia. lia.
    + destruct ((0 <=? lo) && (lo <=? hi) && (hi <=? 65535)) eqn:E; [lia|reflexivity].
  - destruct ((0 <=? lo) && (lo <=? hi) && (hi <=? 65535)) eqn:E; [lia|reflexivity].
Qed.

(* ================= the token loop ================= *)
Definition stored (t : bytes) : option (Z * Z) :=
  match tok_range t with Some (lo, hi) => Some (lo, hi + 1) | None => None end.

Fixpoint all_stored (toks : list bytes) : option (list (Z * Z)) :=
  match toks with
  | [] => Some []
  | t :: r => match stored t, all_stored r with
              | Some x, Some xs => Some (x :: xs)
              | _, _ => None
              end
  end.

Lemma ir_parse_acc toks : forall acc ub, forallb clean toks = true ->
  ir_parse toks acc ub = (match all_stored toks with Some xs => Some (rev acc ++ xs) | None => None end, ub).
Proof.
  induction toks as [|t r IH]; intros acc ub Hcl; cbn [ir_parse all_stored].
  - now rewrite app_nil_r.
  - cbn [forallb] in Hcl. apply andb_prop in Hcl as [Ht Hr].
    rewrite (ir_parse_token_spec t Ht). fold (stored t).
    destruct (stored t) as [x|]; [|now rewrite orb_false_r].
    rewrite (IH (x :: acc) (ub || false) Hr), orb_false_r. cbn [rev].
    destruct (all_stored r) as [xs|]; [|reflexivity]. now rewrite <- app_assoc.
Qed.

Theorem ir_parse_spec toks : forallb clean toks = true ->
  ir_parse toks [] false = (all_stored toks, false).
Proof.
  intros H. rewrite (ir_parse_acc toks [] false H). destruct (all_stored toks); reflexivity.
Qed.

Lemma all_stored_some toks rs : all_stored toks = Some rs ->
  Forall2 (fun t r => exists lo hi, tok_range t = Some (lo, hi) /\ r = (lo, hi + 1)) toks rs.
Proof.
  revert rs. induction toks as [|t r IH]; intros rs; cbn [all_stored].
  - intros [= <-]. constructor.
  - unfold stored. destruct (tok_range t) as [[lo hi]|] eqn:Et; [|discriminate].
    destruct (all_stored r) as [xs|]; [|discriminate]. intros [= <-].
    constructor; [exists lo, hi; split; [exact Et|reflexivity] | apply IH; reflexivity].
Qed.

Lemma all_stored_none toks : all_stored toks = None <-> exists t, In t toks /\ tok_range t = None.
Proof.
  induction toks as [|t r IH]; cbn [all_stored].
  - split; [discriminate|]. intros (t & [] & _).
  - unfold stored. destruct (tok_range t) as [[lo hi]|] eqn:Et.
    + destruct (all_stored r) as [xs|].
      * split; [discriminate|]. intros (t' & [<-|Hin] & Hn); [congruence|].
        destruct IH as [_ IH]. discriminate IH. now exists t'.
      * split; [|reflexivity]. intros _. destruct IH as [IH _]. destruct (IH eq_refl) as (t' & Hin & Hn).
        exists t'. split; [now right|exact Hn].
    + split; [|reflexivity]. intros _. exists t. split; [now left|exact Et].
Qed.

Lemma tok_range_bounds t lo hi : tok_range t = Some (lo, hi) -> 0 <= lo <= hi /\ hi <= 65535.
Proof.
  unfold tok_range. destruct (span _ t) as [a rest]. destruct (numeral a) as [l|]; [|discriminate].
  destruct (match rest with [] => Some l | _ :: b => numeral b end) as [h|]; [|discriminate].
  destruct ((0 <=? l) && (l <=? h) && (h <=? 65535)) eqn:E; [|discriminate]. intros [= <- <-]. lia.
Qed.

(* ================= match ================= *)
Definition wf_range (r : Z * Z) : Prop := 0 <= fst r < snd r /\ snd r <= 65536.

Lemma ir_hit_spec el i : wf_range el -> - two31 <= i < int_max ->
  ir_hit el (i, i + 1) = ((fst el <=? i) && (i <? snd el), false).
Proof.
  intros [Hs He] Hi. unfold ir_hit. cbn [fst snd].
  destruct (Z.min (snd el) (i + 1) >? Z.max (fst el) i) eqn:E.
  - unfold sub32, fits32, wrap32, two31, two32, two64, int_max in *.
    assert (Hd : Z.min (snd el) (i + 1) - Z.max (fst el) i = 1) by lia. rewrite Hd. cbn.
    destruct (fst el <=? i) eqn:E1; destruct (i <? snd el) eqn:E2; try lia. reflexivity.
  - destruct (fst el <=? i) eqn:E1; destruct (i <? snd el) eqn:E2; try lia; reflexivity.
Qed.

Lemma ir_scan_spec rs i ub : Forall wf_range rs -> - two31 <= i < int_max ->
  ir_scan rs (i, i + 1) ub = (existsb (fun r => (fst r <=? i) && (i <? snd r)) rs, ub).
Proof.
  intros Hwf Hi. revert ub. induction Hwf as [|el rs Hel Hrs IH]; intros ub; cbn [ir_scan existsb]; [reflexivity|].
  rewrite (ir_hit_spec el i Hel Hi).
  destruct ((fst el <=? i) && (i <? snd el)); cbn [orb]; [now rewrite orb_false_r|].
  now rewrite IH, orb_false_r.
Qed.

Theorem ir_match_spec rs i : Forall wf_range rs -> - two31 <= i < int_max ->
  ir_match rs i = (existsb (fun r => (fst r <=? i) && (i <? snd r)) rs, false).
Proof.
  intros Hwf Hi. unfold ir_match, add32.
  assert (Hw : wrap32 (i + 1) = i + 1) by (unfold wrap32, two31, two32, int_max in *; rewrite Z.mod_small by lia; lia).
  assert (Hf : negb (fits32 (i + 1)) = false) by (unfold fits32, two31, int_max in *; lia).
  rewrite Hw, Hf. apply ir_scan_spec; assumption.
Qed.

(* at INT_MAX the very first addition overflows, whatever the list *)
Theorem ir_match_int_max_overflows rs : snd (ir_match rs int_max) = true.
Proof.
  unfold ir_match. cbn [add32]. set (tf := (int_max, wrap32 (int_max + 1))).
  assert (G : forall l ub, ub = true -> snd (ir_scan l tf ub) = true).
  { induction l as [|el l IH]; intros ub ->; cbn [ir_scan]; [reflexivity|].
    destruct (ir_hit el tf) as [h o]. destruct h; [reflexivity|]. now apply IH. }
  unfold add32. apply G. reflexivity.
Qed.

Lemma stored_wf toks rs : all_stored toks = Some rs -> Forall wf_range rs.
Proof.
  intros H. apply all_stored_some in H. induction H as [|t r ts rs' (lo & hi & Ht & ->) _ IH]; constructor; [|exact IH].
  apply tok_range_bounds in Ht. unfold wf_range. cbn [fst snd]. lia.
Qed.

Lemma existsb_stored toks rs i : all_stored toks = Some rs ->
  existsb (fun r => (fst r <=? i) && (i <? snd r)) rs = true <->
  exists t lo hi, In t toks /\ tok_range t = Some (lo, hi) /\ lo <= i <= hi.
Proof.
  intros H. apply all_stored_some in H. induction H as [|t r ts rs' (lo & hi & Ht & ->) _ IH]; cbn [existsb].
  - split; [discriminate|]. intros (t & lo & hi & [] & _).
  - cbn [fst snd]. rewrite orb_true_iff, IH. split.
    + intros [Hh|(t' & lo' & hi' & Hin & Ht' & Hi)].
      * exists t, lo, hi. split; [now left|]. split; [exact Ht|lia].
      * exists t', lo', hi'. split; [now right|]. split; assumption.
    + intros (t' & lo' & hi' & [<-|Hin] & Ht' & Hi).
      * left. rewrite Ht in Ht'. injection Ht' as <- <-. lia.
      * right. exists t', lo', hi'. repeat split; assumption || lia.
Qed.

(* ================= the property ================= *)
Theorem intrange_accept_iff toks : forallb clean toks = true ->
  (exists rs, fst (ir_parse toks [] false) = Some rs) <-> (forall t, In t toks -> tok_range t <> None).
Proof.
  intros Hcl. rewrite (ir_parse_spec toks Hcl). cbn [fst]. split.
  - intros (rs & Hrs) t Hin Hn. assert (all_stored toks = None) by (apply all_stored_none; now exists t). congruence.
  - intros H. destruct (all_stored toks) as [rs|] eqn:E; [now exists rs|].
    apply all_stored_none in E. destruct E as (t & Hin & Hn). exfalso. exact (H t Hin Hn).
Qed.

Theorem intrange_stored toks rs : forallb clean toks = true ->
  fst (ir_parse toks [] false) = Some rs ->
  Forall2 (fun t r => exists lo hi, tok_range t = Some (lo, hi) /\ r = (lo, hi + 1)) toks rs.
Proof. intros Hcl. rewrite (ir_parse_spec toks Hcl). cbn [fst]. apply all_stored_some. Qed.

Theorem intrange_match_iff toks rs i : forallb clean toks = true ->
  fst (ir_parse toks [] false) = Some rs -> - two31 <= i < int_max ->
  (fst (ir_match rs i) = true <-> exists t lo hi, In t toks /\ tok_range t = Some (lo, hi) /\ lo <= i <= hi).
Proof.
  intros Hcl Hp Hi. rewrite (ir_parse_spec toks Hcl) in Hp. cbn [fst] in Hp.
  rewrite (ir_match_spec rs i (stored_wf toks rs Hp) Hi). cbn [fst]. apply existsb_stored. exact Hp.
Qed.

Theorem intrange_no_overflow toks : forallb clean toks = true ->
  snd (ir_parse toks [] false) = false /\
  forall rs i, fst (ir_parse toks [] false) = Some rs -> - two31 <= i < int_max -> snd (ir_match rs i) = false.
Proof.
  intros Hcl. rewrite (ir_parse_spec toks Hcl). cbn [fst snd]. split; [reflexivity|].
  intros rs i Hp Hi. now rewrite (ir_match_spec rs i (stored_wf toks rs Hp) Hi).
Qed.

(* ================= what tok_range means, relationally ================= *)
Lemma span_no45 t : ~ In 45%N t -> span (fun c => negb (c =? 45)%N) t = (t, []).
Proof.
  intros H. apply span_all_true. apply forallb_forall. intros c Hc.
  destruct (c =? 45)%N eqn:E; [|reflexivity]. exfalso. apply H. apply N.eqb_eq in E. now subst.
Qed.

Lemma span_at45 a b : ~ In 45%N a -> span (fun c => negb (c =? 45)%N) (a ++ 45%N :: b) = (a, 45%N :: b).
Proof.
  induction a as [|x a IH]; intros H; cbn [app span]; [reflexivity|].
  destruct (x =? 45)%N eqn:E.
  - exfalso. apply H. left. apply N.eqb_eq in E. now subst.
  - cbn [negb]. rewrite IH; [reflexivity|]. intros Hin. apply H. now right.
Qed.

Lemma span_45_shape t :
  (~ In 45%N t /\ span (fun c => negb (c =? 45)%N) t = (t, [])) \/
  (exists a b, t = a ++ 45%N :: b /\ ~ In 45%N a /\ span (fun c => negb (c =? 45)%N) t = (a, 45%N :: b)).
Proof.
  induction t as [|x t IH].
  - left. split; [intros []|reflexivity].
  - destruct (x =? 45)%N eqn:E.
    + right. exists [], t. apply N.eqb_eq in E. subst x. split; [reflexivity|]. split; [intros []|reflexivity].
    + destruct IH as [[Hn Hs]|(a & b & -> & Hn & Hs)].
      * left. split.
        { intros [Hx|Hin]; [subst x; discriminate|exact (Hn Hin)]. }
        { cbn [span]. now rewrite E, Hs. }
      * right. exists (x :: a), b. split; [reflexivity|]. split.
        { intros [Hx|Hin]; [subst x; discriminate|exact (Hn Hin)]. }
        { cbn [span app]. rewrite E. cbn [negb]. now rewrite Hs. }
Qed.

Definition lists_range (t : bytes) (lo hi : Z) : Prop :=
  (0 <= lo <= hi /\ hi <= 65535) /\
  ((~ In 45%N t /\ numeral t = Some lo /\ hi = lo) \/
   (exists a b, t = a ++ 45%N :: b /\ ~ In 45%N a /\ numeral a = Some lo /\ numeral b = Some hi)).

Theorem tok_range_meaning t lo hi : tok_range t = Some (lo, hi) <-> lists_range t lo hi.
Proof.
  unfold lists_range, tok_range. split.
  - intros H. destruct (span_45_shape t) as [[Hn Hs]|(a & b & Ht & Hn & Hs)]; rewrite Hs in H.
    + destruct (numeral t) as [l|] eqn:En; [|discriminate].
      destruct ((0 <=? l) && (l <=? l) && (l <=? 65535)) eqn:E; [|discriminate]. injection H as <- <-.
      split; [lia|]. left. repeat split; assumption.
    + destruct (numeral a) as [l|] eqn:Ea; [|discriminate]. destruct (numeral b) as [h|] eqn:Eb; [|discriminate].
      destruct ((0 <=? l) && (l <=? h) && (h <=? 65535)) eqn:E; [|discriminate]. injection H as <- <-.
      split; [lia|]. right. exists a, b. repeat split; assumption.
  - intros [Hb [(Hn & Hnum & ->)|(a & b & -> & Hn & Ha & Hbn)]].
    + rewrite (span_no45 t Hn), Hnum.
      destruct ((0 <=? lo) && (lo <=? lo) && (lo <=? 65535)) eqn:E; [reflexivity|lia].
    + rewrite (span_at45 a b Hn), Ha, Hbn.
      destruct ((0 <=? lo) && (lo <=? hi) && (hi <=? 65535)) eqn:E; [reflexivity|lia].
Qed.
