(* handlers for the range area (C28): HttpHdrRange::ParseCreate + canonize *)
let specs_str (l : (z * z) list) : string =
  String.concat "" (string_of_int (List.length l) :: List.map (fun (o, n) -> " " ^ string_of_z o ^ ":" ^ string_of_z n) l)

let () =
  reg "range" (fun [v; clen] ->
      match range_run (bytes_of_hex v) (z_of_string clen) with
      | (_, true) -> "UB"
      | (None, false) -> "none"
      | (Some (specs, (ret, cs)), false) ->
        "ok " ^ specs_str specs ^ " | " ^ b2s ret ^ " " ^ specs_str cs)
