(* MathProofs.v — proofs about MathModel.v (src/SquidMath.h). *)
Require Import SquidV.Bytes SquidV.MathModel SquidV.gen.IntTypes_gen.
Local Open Scope Z_scope.

(* The hand-written type model agrees with what the compiler / SquidMath.h say today. *)
Lemma type_model_matches_compiler :
  model_types = gen_types /\ model_promote = gen_promote /\ model_common = gen_common /\
  model_sum_type = gen_sum_type /\ model_all_unsigned = gen_all_unsigned.
Proof. vm_compute. repeat split; reflexivity. Qed.
