"""C05: pipelined responses are delivered in request order, one per request (end to end through the real squid)."""
import base64, concurrent.futures, json, os, random, socket, threading, time
from vlib import std, lab, common

PID = "C05"
META = {
    "text": "Theorems (Properties_C05.v, closed under the global context) about the transcribed response sequencer "
            "(Pipeline::add/front/popMe, ConnStateData::parseRequests/concurrentRequestQueueFilled/kick/afterClientWrite, "
            "clientSocketRecipient, ClientSocketContextPushDeferredIfNeeded, Http1::Server::handleReply, "
            "Http::Stream::writeComplete/pullData/finished/deferRecipientForLater): for ALL pipeline_prefetch values and ALL "
            "event lists (client bytes arriving in any segmentation, per-stream data callbacks and socket-write completions "
            "in any order) the bytes on the client socket are exactly the complete responses of the finished requests, in "
            "request order, followed by a block-aligned prefix of the next request's own response (C05_pipeline_order), hence "
            "always a prefix of the concatenation of the responses in request order (C05_output_is_prefix_in_request_order); "
            "no assert() of the modelled code (popMe FIFO, deferred twice, out.size==0 at push, concurrent Comm::Write) can "
            "fail (C05_no_assertion_failure); at most pipeline_prefetch+1 requests are in the pipeline (C05_prefetch_bound); "
            "while a response is outstanding some event is enabled (C05_progress) and when nothing is enabled any more every "
            "request received exactly its one complete response (C05_complete_when_quiescent; up to and including the first "
            "request that asked to close: C05_close_stops_after_response). Tie: buffer-size constants regenerated from the "
            "headers; the extracted model is diffed against the real squid binary (built from the working tree) on pipelines "
            "of 1..10 mixed GET/HEAD/POST, hits and misses, origin delays forcing out-of-order completion, pipeline_prefetch "
            "0..5, arbitrary segmentation; the prefetch admission (which requests reach the origin while the first response is "
            "withheld) is compared too.",
    "note": "partial: the theorems are about the transcribed sequencer (PipetunnelModel.v part 1) with the client stream of a "
            "request abstracted to 'delivers the elements of that request's own response one per callback'; that the "
            "event-driven proxy (store client, clientReplyContext, Comm) behaves like that rests on the end-to-end "
            "correspondence. 1xx control messages, request-parse errors, ssl-bump and pinned connections are not modelled. "
            "Trusted: Coq kernel, extraction, gen/gen_pipetunnel.cc, vlib/lab.py stubs.",
    "technique": "Coq proof (inductive invariant over all event lists of a faithful state-machine model) + end-to-end "
                 "differential correspondence of the extracted model against the running squid + independent oracle",
}

PFS = [0, 1, 2, 3, 5]
POOL = [0, 700, 5000, 20000]          # body sizes of the primed (cache hit) objects per squid instance
GATE_DELAY = 1.0
GATE_EARLY = 0.6


# ------------------------------------------------------------------ scenarios
def gen_one(rng, k):
    pf = rng.choice(PFS)
    n = rng.choice([1, 2, 2, 3, 3, 4, 5, 6, 8, 10])
    gate = rng.random() < 0.3
    reqs = []
    closed_at = None
    for i in range(n):
        m = rng.choice(["GET", "GET", "GET", "HEAD", "POST"])
        kind = "miss" if (m == "POST" or rng.random() < 0.65) else "hit"
        if gate and i == 0:
            kind = "miss"
        r = {"m": m, "kind": kind}
        if kind == "hit":
            r["pool"] = rng.randrange(len(POOL))
        else:
            r["n"] = rng.choice([0, 1, 50, 300, 4000, 4096, 4097, 9000, 30000]) if rng.random() < 0.6 else rng.randrange(0, 12000)
            r["delay"] = rng.choice([0, 0, 0.05, 0.1, 0.2, 0.3]) if not (gate and i == 0) else GATE_DELAY
            # decreasing delays make later requests finish first upstream
            if rng.random() < 0.4 and not (gate and i == 0):
                r["delay"] = round(max(0.0, 0.3 - 0.04 * i), 2)
            r["framing"] = rng.choice(["cl", "cl", "chunked", "close"])
        if m == "POST":
            r["pbody"] = rng.choice([0, 1, 10, 500, 3000])
        if closed_at is None and n > 1 and rng.random() < 0.06:
            r["close"] = True
            closed_at = i
        reqs.append(r)
    ncuts = rng.choice([0, 0, 1, 2, 3, 5])
    cuts = [[rng.randrange(n), rng.choice("hhb"), rng.choice([0, 0, rng.random()])] for _ in range(ncuts)]
    # model schedule: random data/write events (by the theorems the result does not depend on it)
    sched = []
    for _ in range(rng.choice([0, 3, 10, 30])):
        sched.append("w" if rng.random() < 0.35 else "d%d" % rng.randrange(1, n + 1))
    return {"pf": pf, "gate": gate, "reqs": reqs, "cuts": cuts, "sched": sched, "k": k}


def gen_scenarios(rng, n):
    return [gen_one(rng, k) for k in range(n)]


# ------------------------------------------------------------------ bytes of a scenario
def pool_rid(pf, j):
    return "h%dx%d" % (pf, j)


def body_for(rid, n):
    return (rid + "|").encode() + lab.body_bytes(n, len(rid) + n)


def post_body(i, n):
    return (b"P%02d-" % i + b"abcdefghij" * (n // 10 + 1))[:n] if n else b""


def request_bytes(s, rids, urls):
    """list of (head bytes, body bytes) per request"""
    out = []
    for i, r in enumerate(s["reqs"]):
        url = urls[i]
        host = url.split("://", 1)[1].split("/", 1)[0]
        h = "%s %s HTTP/1.1\r\nHost: %s\r\n" % (r["m"], url, host)
        body = b""
        if r["m"] == "POST":
            body = post_body(i, r.get("pbody", 0))
            h += "Content-Length: %d\r\n" % len(body)
        if r.get("close"):
            h += "Connection: close\r\n"
        out.append(((h + "\r\n").encode(), body))
    return out


def segments(parts, cuts):
    """cut the byte stream at the given places [request index, 'h'|'b', fraction of that part]; returns
    (list of segments, item tokens per segment). The items do not depend on the URL lengths, so the model side
    can compute them from the scenario alone."""
    stream = b"".join(h + b for h, b in parts)
    total = len(stream)
    starts = []
    pos = 0
    for h, bd in parts:
        starts.append((pos, pos + len(h)))
        pos += len(h) + len(bd)
    pts = set()
    for i, part, frac in cuts:
        if i >= len(parts):
            continue
        h, bd = parts[i]
        base, ln = (starts[i][0], len(h)) if part == "h" else (starts[i][1], len(bd))
        off = 0 if (frac == 0 or ln <= 1) else max(1, min(ln - 1, int(frac * ln)))
        p = base + off
        if 0 < p < total:
            pts.add(p)
    bounds = [0] + sorted(pts) + [total]
    segs, items = [], []
    for a, b in zip(bounds, bounds[1:]):
        segs.append(stream[a:b])
        toks = []
        pos = 0
        for i, (h, bd) in enumerate(parts):
            he = pos + len(h)
            be = he + len(bd)
            if a < he <= b:
                toks.append("H%d" % (i + 1))
            ov = min(b, be) - max(a, he)
            if ov > 0:
                toks.append("B%d" % ov)
            pos = be
        items.append(toks)
    return segs, items


def expected_len(s, i):
    """bytes of the response in the model's unit: 1 for the head + body bytes"""
    r = s["reqs"][i]
    if r["m"] == "HEAD":
        return 1
    n = POOL[r["pool"]] if r["kind"] == "hit" else r["n"]
    rid = pool_rid(s["pf"], r["pool"]) if r["kind"] == "hit" else "s%06dr%02d" % (0, i)
    return 1 + len(rid) + 1 + n


def to_case(s):
    reqs = []
    for i, r in enumerate(s["reqs"]):
        reqs.append("%d:%d:%d:%d:%d" % (i + 1, r.get("pbody", 0) if r["m"] == "POST" else 0, 0 if r.get("close") else 1,
                                       expected_len(s, i), 1 if r["kind"] == "miss" else 0))
    parts = request_bytes(s, None, ["http://127.0.0.1:1/x" for _ in s["reqs"]])
    _, items = segments(parts, s["cuts"])
    evs = ["r" + "".join("/" + t for t in toks) for toks in items]
    # spread the scheduled events between and after the reads
    sched = list(s["sched"])
    out = []
    for e in evs:
        out.append(e)
        if sched and len(evs) > 1:
            out.append(sched.pop(0))
    out += sched
    return "pipe.run %d %s %d %s" % (s["pf"], ",".join(reqs), 1 if s["gate"] else 0, " ".join(out))


# ------------------------------------------------------------------ implementation side
_state = {}


def _hook(rec, spec):
    if "n" in spec:
        s2 = dict(spec)
        s2["body_b64"] = base64.b64encode(body_for(rec["rid"], spec["n"])).decode()
        s2["headers"] = list(spec.get("headers", [])) + [["X-Rid", rec["rid"]]]
        return s2
    return spec


def talk(port, segs, want, methods, gap=0.015, total=20.0, idle=2.5, grace=0.12):
    """send the segments, read until `want` complete responses were followed by `grace` seconds of silence,
    the peer closes, or nothing arrives for `idle` seconds"""
    s = socket.create_connection(("127.0.0.1", port), timeout=5)
    raw = b""
    closed = False
    try:
        for k, seg in enumerate(segs):
            try:
                s.sendall(seg)
            except OSError:
                break
            if k + 1 < len(segs):
                time.sleep(gap)
        t0 = last = time.time()
        done_at = None
        s.settimeout(0.03)
        while True:
            now = time.time()
            if now - t0 > total or now - last > idle:
                break
            if done_at is None and lab.n_complete(raw, want, methods):
                done_at = now
            if done_at is not None and now - max(done_at, last) > grace:
                break
            try:
                d = s.recv(262144)
            except socket.timeout:
                continue
            except OSError:
                closed = True
                break
            if not d:
                closed = True
                break
            raw += d
            last = time.time()
    finally:
        try:
            s.close()
        except OSError:
            pass
    return raw, closed


def _one(args):
    sq, org, s, sid = args
    pf = s["pf"]
    rids, urls = [], []
    for i, r in enumerate(s["reqs"]):
        if r["kind"] == "hit":
            rid = pool_rid(pf, r["pool"])
            url = _state["pool_urls"][(pf, r["pool"])]
        else:
            rid = "s%06dr%02d" % (sid, i)
            spec = {"n": r["n"], "framing": r["framing"]}
            if r["delay"]:
                spec["delay"] = r["delay"]
            url = org.url(spec, rid)
        rids.append(rid)
        urls.append(url)
    parts = request_bytes(s, rids, urls)
    segs, _ = segments(parts, s["cuts"])
    methods = [r["m"] for r in s["reqs"]]
    try:
        raw, closed = talk(sq.port, segs, len(methods), methods)
    except OSError as ex:
        return "noconnect %s" % type(ex).__name__
    try:
        resps, rest = lab.parse_responses(raw, methods=methods, eof=closed)
    except Exception as ex:
        return "unparsable %s" % type(ex).__name__
    resps = [r for r in resps if not (r.status is not None and 100 <= r.status < 200)]
    used = set()
    out = []
    for pos, r in enumerate(resps):
        rid = r.get("X-Rid")
        cand = [i for i, x in enumerate(rids) if x == rid]
        if r.status is None or not cand:
            out.append("?%s" % (r.status,))
            continue
        free = [i for i in cand if i not in used]
        i = free[0] if free else cand[0]
        dup = not free
        used.add(i)
        rq = s["reqs"][i]
        n = POOL[rq["pool"]] if rq["kind"] == "hit" else rq["n"]
        want = b"" if rq["m"] == "HEAD" else body_for(rid, n)
        # a response at position `pos` is judged as a response to the request at that position (HEAD has no body)
        if pos < len(methods) and methods[pos] == "HEAD" and rq["m"] != "HEAD":
            want = b""
        tag = "%d*%d" % (i + 1, 1 + len(r.body))
        if dup:
            tag += "!dup"
        if r.status != 200:
            tag += "!status%d" % r.status
        if not r.complete:
            tag += "!inc"
        elif r.body != want:
            tag += "!body"
        out.append(tag)
    early = "-"
    if s["gate"]:
        arr = {}
        for i, rid in enumerate(rids):
            if s["reqs"][i]["kind"] == "miss":
                a = org.arrivals(rid)
                if a:
                    arr[i] = a[0]["t"]
        if 0 in arr:
            e = sorted(i + 1 for i, t in arr.items() if t < arr[0] + GATE_EARLY)
            early = ",".join(map(str, e)) if e else "none"
        else:
            early = "none"
    return "resp=%s closed=%d early=%s crash=0 rest=%d" % (",".join(out) if out else "-", 1 if closed else 0, early, len(rest))


def _ensure(L):
    if "sq" in _state and all(q.alive() for q in _state["sq"].values()):
        return
    for q in _state.get("sq", {}).values():      # a crashed instance: make sure nothing is left of it
        try:
            q.stop()
        except Exception:
            pass
    _state["org"] = org = L.origin(hook=_hook)
    _state["sq"] = {}
    _state["pool_urls"] = {}
    _state.setdefault("n", 0)
    _state["boots"] = boots = _state.get("boots", 0) + 1

    def boot(pf):
        return pf, L.squid(extra_conf="pipeline_prefetch %d\n" % pf, name="vc05b%dpf%dp%d" % (boots, pf, os.getpid()))
    with concurrent.futures.ThreadPoolExecutor(max_workers=len(PFS)) as ex:
        for pf, sq in ex.map(boot, PFS):
            _state["sq"][pf] = sq
    for pf, sq in _state["sq"].items():
        for j, n in enumerate(POOL):
            url = org.url({"n": n, "headers": [["Cache-Control", "max-age=100000"]]}, pool_rid(pf, j))
            _state["pool_urls"][(pf, j)] = url
            r, raw = lab.get(sq.port, url)
            if r is None or r.status != 200:
                raise lab.LabError("could not prime the cache: %r" % (raw[:200],))


def run_impl(L, scenarios):
    _ensure(L)
    jobs = []
    for s in scenarios:
        _state["n"] += 1
        jobs.append((_state["sq"][s["pf"]], _state["org"], s, _state["n"]))
    with concurrent.futures.ThreadPoolExecutor(max_workers=10) as ex:
        obs = list(ex.map(_one, jobs))
    for pf, sq in _state["sq"].items():
        if not sq.alive() or sq.log_has("assertion failed", "FATAL:"):
            obs = [o + " squid-died" if s["pf"] == pf else o for s, o in zip(scenarios, obs)]
    return obs


# ------------------------------------------------------------------ oracle
def oracle(s, obs):
    """The property on what squid did: the client received exactly one complete response per request, in request
    order, each carrying the body the origin produced for that request; nothing else on the connection. Requests
    after one that carried `Connection: close` are not answered."""
    if "squid-died" in obs:
        return ("oracle:squid-died", "squid crashed or logged an assertion failure while serving the pipeline")
    if not obs.startswith("resp="):
        return ("oracle:no-transaction", "the exchange did not complete: " + obs)
    f = dict(x.split("=", 1) for x in obs.split())
    n = len(s["reqs"])
    want = n
    for i, r in enumerate(s["reqs"]):
        if r.get("close"):
            want = i + 1
            break
    got = [] if f["resp"] == "-" else f["resp"].split(",")
    for pos, g in enumerate(got):
        if pos >= want:
            return ("oracle:extra-response", "more responses than requests: position %d is `%s`" % (pos + 1, g))
        if g.startswith("?"):
            return ("oracle:foreign-response", "response %d does not belong to any request of this connection: %s" % (pos + 1, g))
        idx = int(g.split("*")[0])
        if idx != pos + 1:
            return ("oracle:out-of-order", "response %d on the connection answers request %d (order received: %s)"
                    % (pos + 1, idx, f["resp"]))
        if "!dup" in g:
            return ("oracle:duplicate-response", "request %d was answered twice" % idx)
        if "!inc" in g:
            return ("oracle:incomplete-response", "response %d is incomplete" % idx)
        if "!body" in g:
            return ("oracle:wrong-body", "response %d does not carry the body the origin produced for request %d" % (pos + 1, idx))
        if "!status" in g:
            return ("oracle:unexpected-status", "response %d has status %s" % (idx, g.split("!status")[1][:3]))
    if len(got) < want:
        return ("oracle:missing-response", "only %d of %d requests were answered (%s)" % (len(got), want, f["resp"]))
    if f.get("rest", "0") != "0":
        return ("oracle:trailing-bytes", "%s unexpected bytes follow the last response" % f["rest"])
    return None


def run(res, tier):
    res.rule = ("pipelines of 1..10 mixed GET/HEAD/POST requests sent on one connection in 1..6 arbitrary segments (cut anywhere, "
                "also inside heads and POST bodies) through the real squid with pipeline_prefetch 0/1/2/3/5; cache hits (primed "
                "objects of 0..20000 bytes) and misses interleaved; origin framing content-length / chunked / close-delimited, "
                "bodies 0..30000 bytes carrying the request id; origin delays 0..0.3 s (often decreasing, so later requests "
                "finish first upstream); sometimes `Connection: close` on one request; in 30% of the scenarios the first "
                "response is withheld for 1 s and the set of requests that reached the origin meanwhile is compared with the "
                "model's admission (prefetch) prediction; non-trivial = at least 2 requests")
    try:
        std.run_lab(res, PID, tier, area="pipetunnel", gens=["pipetunnel"], gen_scenarios=gen_scenarios,
                    run_impl=run_impl,
                    to_case=to_case, oracle=oracle,
                    corr_name="PipetunnelModel (prun/drain) vs the running squid",
                    n_quick=150, n_thorough=3000, seed_salt=5,
                    kind_fn=lambda s, o: "pf%d:n%s:%s" % (s["pf"], "1" if len(s["reqs"]) == 1 else "2+", "gate" if s["gate"] else "free"),
                    nontrivial_fn=lambda s, o: len(s["reqs"]) >= 2)
    finally:
        _state.clear()
