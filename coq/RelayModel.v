(* RelayModel.v — the body data path of the proxy, both directions (properties C01, C02).

   Response direction (C01), transcribed from
     src/HttpReply.cc        expectingBody(), bodySize()
     src/http.cc             processReplyHeader() (flags.chunked), writeReplyBody(), truncateVirginBody(),
                             decodeAndWriteReplyBody(), persistentConnStatus(), processReplyBody()
     src/clients/Client.cc   markParsedVirginReplyAsWhole(), completeForwarding()
     src/FwdState.cc         completed(): completeSuccessfully() / completeTruncated() (ENTRY_BAD_LENGTH)
     src/client_side_reply.cc buildReplyHeader() (chunkedReply), replyStatus(), checkTransferDone()
     src/servers/Http1Server.cc handleReply() (mustSendLastChunk)
     src/http/Stream.cc      sendStartOfMessage(), sendBody(), packChunk()
   Request direction (C02), transcribed from
     src/client_side.cc      expectRequestBody(), handleRequestBodyData(), handleChunkedRequestBody(),
                             finishDechunkingRequest()
     src/BodyPipe.cc         putMoreData(), getMoreData(), postAppend(), clearProducer(), scheduleBodyEndNotification()
     src/clients/Client.cc   handleRequestBodyProductionEnded(), sentRequestBody(), sendMoreRequestBody()
     src/http.cc             sendRequest() (flags.chunked_request), getMoreRequestBody(), finishingChunkedRequest()

   The chunked *decoders* (Http::One::TeChunkedParser on both sides) are represented by the byte-at-a-time
   reference chunked reader below (the same reader that judges what the peers receive); that the real parser
   agrees with it on well-formed input is property C24 and the end-to-end correspondence of this check.
   Executable definitions only. *)
Require Import SquidV.Bytes.
Require Import SquidV.gen.Relay_gen.
Local Open Scope N_scope.

(* ====================================================================================================== *)
(* 1. Reference chunked reader (RFC 9112 section 7.1), one byte at a time                                  *)
(* ====================================================================================================== *)
Definition is_digit (c : N) : bool := (48 <=? c) && (c <=? 57).
Definition is_uhex (c : N) : bool := (65 <=? c) && (c <=? 70).
Definition is_lhex (c : N) : bool := (97 <=? c) && (c <=? 102).
Definition is_hex (c : N) : bool := is_digit c || is_uhex c || is_lhex c.
Definition hexval (c : N) : N := if is_digit c then c - 48 else if is_uhex c then c - 55 else c - 87.

Inductive cst :=
| CSize0              (* start of a chunk-size line: at least one hex digit required *)
| CSize (acc : N)     (* inside chunk-size *)
| CExt (sz : N)       (* inside chunk-ext: skipped up to CR *)
| CSizeLF (sz : N)    (* CR of the size line seen *)
| CData (left : N)    (* left >= 1 chunk-data bytes outstanding *)
| CDataCR | CDataLF   (* CRLF after chunk-data *)
| CTr0                (* start of a trailer-section line *)
| CTr                 (* inside a trailer field line *)
| CTrLF               (* CR of a trailer field line seen *)
| CEndLF              (* CR of the final empty line seen *)
| CDone               (* last-chunk and trailer section complete *)
| CErr.               (* malformed *)

Definition cst_final (s : cst) : bool := match s with CDone | CErr => true | _ => false end.
Definition cst_done (s : cst) : bool := match s with CDone => true | _ => false end.
Definition cst_err (s : cst) : bool := match s with CErr => true | _ => false end.

(* one input byte: next state and the decoded bytes it contributes (none or itself) *)
Definition cstep (s : cst) (c : N) : cst * bytes :=
  match s with
  | CSize0 => if is_hex c then (CSize (hexval c), []) else (CErr, [])
  | CSize a =>
      if is_hex c then (CSize (a * 16 + hexval c), [])
      else if c =? 13 then (CSizeLF a, [])
      else if (c =? 59) || (c =? 32) || (c =? 9) then (CExt a, [])
      else (CErr, [])
  | CExt a => if c =? 13 then (CSizeLF a, []) else if c =? 10 then (CErr, []) else (CExt a, [])
  | CSizeLF a => if c =? 10 then (if a =? 0 then CTr0 else CData a, []) else (CErr, [])
  | CData n => (if n =? 1 then CDataCR else CData (n - 1), [c])
  | CDataCR => if c =? 13 then (CDataLF, []) else (CErr, [])
  | CDataLF => if c =? 10 then (CSize0, []) else (CErr, [])
  | CTr0 => if c =? 13 then (CEndLF, []) else if c =? 10 then (CErr, []) else (CTr, [])
  | CTr => if c =? 13 then (CTrLF, []) else if c =? 10 then (CErr, []) else (CTr, [])
  | CTrLF => if c =? 10 then (CTr0, []) else (CErr, [])
  | CEndLF => if c =? 10 then (CDone, []) else (CErr, [])
  | CDone => (CDone, [])
  | CErr => (CErr, [])
  end.

(* run over a buffer; stops at CDone / CErr and returns the unread rest *)
Fixpoint crun (s : cst) (l : bytes) : cst * bytes * bytes :=
  match l with
  | [] => (s, [], [])
  | c :: r =>
      if cst_final s then (s, [], l)
      else let '(s1, o1) := cstep s c in
           let '(s2, o2, rest) := crun s1 r in (s2, o1 ++ o2, rest)
  end.

(* the same reader writing into a buffer with `cap` bytes of free space (TeChunkedParser::parseChunkBody
   copies min(left, available, theOut->potentialSpaceSize()) bytes and reports needsMoreSpace()) *)
Fixpoint crun_cap (cap : N) (s : cst) (l : bytes) : cst * bytes * bytes :=
  match l with
  | [] => (s, [], [])
  | c :: r =>
      if cst_final s then (s, [], l)
      else match s with
           | CData _ =>
               if cap =? 0 then (s, [], l)
               else let '(s1, o1) := cstep s c in
                    let '(s2, o2, rest) := crun_cap (cap - 1) s1 r in (s2, o1 ++ o2, rest)
           | _ => let '(s1, o1) := cstep s c in
                  let '(s2, o2, rest) := crun_cap cap s1 r in (s2, o1 ++ o2, rest)
           end
  end.

(* ====================================================================================================== *)
(* 2. Chunk encoders                                                                                       *)
(* ====================================================================================================== *)
Definition hexdig (upper : bool) (v : N) : N :=
  if v <? 10 then 48 + v else if upper then 55 + v else 87 + v.

(* printf("%x"/"%X"): most significant digit first, no leading zeros, "0" for zero; fuel = an upper bound on
   the number of digits *)
Fixpoint hex_digits (fuel : nat) (upper : bool) (n : N) : bytes :=
  match fuel with
  | O => []
  | S k => if n <? 16 then [hexdig upper n]
           else hex_digits k upper (n / 16) ++ [hexdig upper (n mod 16)]
  end.
Definition crlf : bytes := [13; 10].

(* a chunk whose size is |d|, with chunk-ext text `ext` *)
Definition enc_chunk (upper : bool) (ext d : bytes) : bytes :=
  hex_digits (S (length d)) upper (lenN d) ++ ext ++ crlf ++ d ++ crlf.
(* last-chunk, trailer section (already CRLF-terminated field lines), final CRLF *)
Definition enc_last (ext trailer : bytes) : bytes := [48] ++ ext ++ crlf ++ trailer ++ crlf.

(* Http::Stream::packChunk(): mb.appendf("%" PRIX64 "\r\n", length); append(data); append("\r\n") *)
Definition pack_chunk : bytes -> bytes := enc_chunk true [].
(* HttpStateData::getMoreRequestBody(): buf.appendf("%x\r\n", size); append(raw); append("\r\n") *)
Definition up_chunk : bytes -> bytes := enc_chunk false [].
Definition last_chunk : bytes := [48; 13; 10; 13; 10].     (* "0\r\n\r\n" *)

(* what a sender may put after the chunk size: nothing, or ';' / SP / HTAB followed by anything without CR, LF *)
Definition no_crlf (c : N) : bool := negb ((c =? 13) || (c =? 10)).
Definition ext_ok (e : bytes) : bool :=
  match e with
  | [] => true
  | c :: _ => ((c =? 59) || (c =? 32) || (c =? 9)) && forallb no_crlf e
  end.
(* a trailer field line: non-empty, no CR / LF *)
Definition line_ok (l : bytes) : bool := negb (match l with [] => true | _ => false end) && forallb no_crlf l.
Definition enc_trailer (ls : list bytes) : bytes := concat (map (fun l => l ++ crlf) ls).

(* a whole chunked message body: data chunks ds (each non-empty), per-chunk extension, last-chunk, trailers *)
Definition enc_chunked (upper : bool) (ext : bytes) (ds : list bytes) (trailer : list bytes) : bytes :=
  concat (map (enc_chunk upper ext) ds) ++ enc_last ext (enc_trailer trailer).

(* ====================================================================================================== *)
(* 3. Response direction                                                                                   *)
(* ====================================================================================================== *)
(* what the reply head says (after HttpHeader::parse: Content-Length is dropped when chunked) *)
Record rhead := { h_status : N; h_head : bool (* request method is HEAD *);
                  h_clen : option N (* content_length >= 0 *); h_chunked : bool (* header.chunked() *) }.

Definition eff_clen (h : rhead) : option N := if h_chunked h then None else h_clen h.

(* HttpReply::expectingBody(method, size): (expectBody, size written only when expectBody) *)
Definition expecting_body (h : rhead) : bool :=
  if h_head h then false
  else if h_status h =? sc_no_content then false
  else if h_status h =? sc_not_modified then false
  else if h_status h <? sc_okay then false
  else true.
Definition expected_size (h : rhead) : option N :=       (* None = -1 *)
  if expecting_body h then (if h_chunked h then None else eff_clen h) else None.

(* HttpReply::bodySize(method), sline.version.major >= 1 *)
Definition body_size (h : rhead) : option N :=
  if h_head h then Some 0
  else if h_status h =? sc_okay then eff_clen h
  else if h_status h =? sc_no_content then Some 0
  else if h_status h =? sc_not_modified then Some 0
  else if h_status h <? sc_okay then Some 0
  else eff_clen h.

(* how HttpStateData reads the body *)
Inductive oframing := ONoBody | OLen (n : N) | OChunked | OClose.
Definition origin_framing (h : rhead) : oframing :=
  if h_chunked h then OChunked            (* flags.chunked = header.chunked(), whatever the status *)
  else if negb (expecting_body h) then ONoBody
  else match eff_clen h with Some n => OLen n | None => OClose end.

(* events on the server connection after the reply head was parsed: the first event is the rest of the read
   that completed the head (possibly empty) *)
Inductive oev := OSeg (b : bytes) | OEof.

Record srv := {
  sv_dec : cst;       (* httpChunkDecoder *)
  sv_seen : N;        (* payloadSeen - payloadTruncated *)
  sv_body : bytes;    (* body bytes appended to the StoreEntry *)
  sv_whole : bool;    (* markedParsedVirginReplyAsWhole *)
  sv_done : bool      (* serverComplete() was called *)
}.
Definition srv_init : srv := {| sv_dec := CSize0; sv_seen := 0; sv_body := []; sv_whole := false; sv_done := false |}.

(* one HttpStateData::readReply() -> processReplyBody() round *)
Definition srv_step (f : oframing) (s : srv) (e : oev) : srv :=
  if sv_done s then s else
  match f, e with
  | ONoBody, OSeg b =>
      (* writeReplyBody(): truncateVirginBody() treats a reply without a body as clen = 0 and chops everything
         that was read after the head (payloadTruncated += extras), so nothing reaches addVirginReplyBody();
         "http parsed header-only reply"; persistentConnStatus(): bodySize()==0 -> statusIfComplete(), or
         COMPLETE_NONPERSISTENT_MSG when bytes were dropped — serverComplete() either way *)
      {| sv_dec := sv_dec s; sv_seen := sv_seen s; sv_body := sv_body s; sv_whole := true; sv_done := true |}
  | ONoBody, OEof =>
      {| sv_dec := sv_dec s; sv_seen := sv_seen s; sv_body := sv_body s; sv_whole := true; sv_done := true |}
  | OLen n, OSeg b =>
      (* truncateVirginBody() chops what exceeds Content-Length; whole when clen == payloadSeen - payloadTruncated;
         persistentConnStatus(): INCOMPLETE_MSG while payloadSeen < content_length *)
      let take := takeN (n - sv_seen s) b in
      let seen := sv_seen s + lenN take in
      {| sv_dec := sv_dec s; sv_seen := seen; sv_body := sv_body s ++ take;
         sv_whole := (seen =? n); sv_done := (seen =? n) |}
  | OLen n, OEof =>
      (* eof: persistentConnStatus() = COMPLETE_NONPERSISTENT_MSG; markPrematureReplyBodyEofFailure() unless whole *)
      {| sv_dec := sv_dec s; sv_seen := sv_seen s; sv_body := sv_body s; sv_whole := (sv_seen s =? n); sv_done := true |}
  | OClose, OSeg b =>
      {| sv_dec := sv_dec s; sv_seen := sv_seen s + lenN b; sv_body := sv_body s ++ b; sv_whole := false; sv_done := false |}
  | OClose, OEof =>
      (* "http parsed body ending with expected/required EOF" *)
      {| sv_dec := sv_dec s; sv_seen := sv_seen s; sv_body := sv_body s; sv_whole := true; sv_done := true |}
  | OChunked, OSeg b =>
      (* decodeAndWriteReplyBody(): a parser exception loses what this call decoded and ends the transaction *)
      let '(d, out, _) := crun (sv_dec s) b in
      if cst_err d then
        {| sv_dec := d; sv_seen := sv_seen s; sv_body := sv_body s; sv_whole := false; sv_done := true |}
      else
        {| sv_dec := d; sv_seen := sv_seen s + lenN b; sv_body := sv_body s ++ out;
           sv_whole := cst_done d; sv_done := cst_done d |}
  | OChunked, OEof =>
      {| sv_dec := sv_dec s; sv_seen := sv_seen s; sv_body := sv_body s; sv_whole := false; sv_done := true |}
  end.

Definition srv_run (f : oframing) (evs : list oev) : srv := fold_left (srv_step f) evs srv_init.

(* how the client-side frames the message it sends *)
Inductive cframing :=
| CHeadOnly           (* HEAD: body_size = 0, done_copying *)
| CNoBody             (* 204 / 304 / 1xx: bodySize() = 0; the store holds no body bytes for such a reply *)
| CLen (n : N)        (* Content-Length kept *)
| CChunked            (* request->flags.chunkedReply *)
| CCloseDelim.        (* unknown size to an HTTP/1.0 client: proxyKeepalive = false *)

(* clientReplyContext::buildReplyHeader(): maySendChunkedReply = HTTP reply && client version >= 1.1 *)
Definition client_framing (h : rhead) (client11 : bool) : cframing :=
  if h_head h then CHeadOnly
  else match body_size h with
       | Some n => if expecting_body h then CLen n else CNoBody
       | None => if client11 then CChunked else CCloseDelim
       end.

(* bytes written to the client after the reply head, given the successive non-empty store deliveries `ps`
   (clientReplyContext::sendMoreData -> Http1::Server::handleReply -> sendStartOfMessage / sendBody) and the
   final state of the entry; the bool tells whether squid then closes the connection (initiateClose /
   !proxyKeepalive) rather than keeping it for the next request *)
Definition client_stream (cf : cframing) (whole : bool) (ps : list bytes) : bytes * bool :=
  match cf with
  | CHeadOnly => ([], false)
  | CNoBody => (concat ps, false)
  | CLen n => (concat ps, negb whole)                       (* STREAM_UNPLANNED_COMPLETE on ENTRY_BAD_LENGTH *)
  | CChunked =>
      (* mustSendLastChunk = chunkedReply && !streamError && !ENTRY_BAD_LENGTH && !startOfOutput():
         sendBody(empty) packs "0\r\n\r\n" *)
      (concat (map pack_chunk ps) ++ (if whole then pack_chunk [] else []), negb whole)
  | CCloseDelim => (concat ps, true)
  end.

(* the judge: a reference HTTP/1.1 message-body reader for the framing announced in the head;
   result = (body, complete, unread rest) *)
Definition ref_read (cf : cframing) (stream : bytes) (eof : bool) : bytes * bool * bytes :=
  match cf with
  | CHeadOnly | CNoBody => ([], true, stream)
  | CLen n => (takeN n stream, n <=? lenN stream, dropN n stream)
  | CChunked => let '(d, out, rest) := crun CSize0 stream in (out, cst_done d, rest)
  | CCloseDelim => (stream, eof, [])
  end.

(* what the reference reader makes of everything the client receives after the reply head *)
Definition client_view (cf : cframing) (whole : bool) (ps : list bytes) : bytes * bool * bytes :=
  let '(stream, closed) := client_stream cf whole ps in ref_read cf stream closed.

(* store deliveries of at most k bytes each (HTTP_REQBUF_SZ in the running proxy) *)
Fixpoint chop_aux (fuel : nat) (k : N) (l : bytes) : list bytes :=
  match fuel with
  | O => []
  | S f => match l with
           | [] => []
           | _ => takeN k l :: chop_aux f k (dropN k l)
           end
  end.
Definition chop (k : N) (l : bytes) : list bytes := chop_aux (length l) (N.max k 1) l.

(* the whole relay for one transaction *)
Definition relay (h : rhead) (client11 : bool) (evs : list oev) (k : N) : cframing * (bytes * bool) :=
  let s := srv_run (origin_framing h) evs in
  let cf := client_framing h client11 in
  (cf, client_stream cf (sv_whole s) (chop k (sv_body s))).

(* ====================================================================================================== *)
(* 4. Request direction                                                                                    *)
(* ====================================================================================================== *)
Inductive upmode :=
| UpLen (n : N)       (* Content-Length passthrough (request->content_length >= 0 at sendRequest()) *)
| UpChunked.          (* flags.chunked_request *)

Record rq := {
  q_chunked_in : bool;   (* ConnStateData::bodyParser != nullptr *)
  q_inbuf : bytes;       (* ConnStateData::inBuf: read from the client, not yet piped *)
  q_dec : cst;           (* bodyParser state *)
  q_buf : bytes;         (* BodyPipe::theBuf *)
  q_put : N;             (* thePutSize *)
  q_get : N;             (* theGetSize *)
  q_size : option N;     (* theBodySize >= 0 *)
  q_prod : bool;         (* BodyPipe::theProducer set (ConnStateData::bodyPipe != nullptr) *)
  q_whole : bool;        (* Client::receivedWholeRequestBody *)
  q_abort : bool;        (* noteBodyProducerAborted delivered: abortTransaction(), server connection closed *)
  q_pieces : list bytes; (* successive BodyPipe::getMoreData() results written upstream *)
  q_last : bool          (* flags.sentLastChunk *)
}.

(* MemBuf::potentialSpaceSize() of theBuf (max_capacity = BodyPipe::MaxCapacity) *)
Definition pipe_space (cap : N) (buf : bytes) : N :=
  let terminated := lenN buf + 1 in if terminated <? cap then cap - terminated else 0.

(* ConnStateData::expectRequestBody(size) *)
Definition rq_init (clen : option N) : rq :=
  {| q_chunked_in := match clen with None => true | Some _ => false end;
     q_inbuf := []; q_dec := CSize0; q_buf := []; q_put := 0; q_get := 0; q_size := clen; q_prod := true;
     q_whole := false; q_abort := false; q_pieces := []; q_last := false |}.

(* ConnStateData::handleRequestBodyData() *)
Definition intake (cap : N) (q : rq) : rq :=
  if negb (q_prod q) then q else
  if q_chunked_in q then
    (* handleChunkedRequestBody(): parse(inBuf) into the checked-out pipe buffer *)
    match q_inbuf q with
    | [] => q
    | _ =>
      let '(d, out, rest) := crun_cap (pipe_space cap (q_buf q)) (q_dec q) (q_inbuf q) in
      if cst_err d then
        (* abortChunkedRequestBody(): stopProducingFor(bodyPipe, false); comm_reset_close(client) *)
        {| q_chunked_in := true; q_inbuf := []; q_dec := d; q_buf := q_buf q; q_put := q_put q; q_get := q_get q;
           q_size := q_size q; q_prod := false; q_whole := q_whole q; q_abort := q_abort q;
           q_pieces := q_pieces q; q_last := q_last q |}
      else
        let put := q_put q + lenN out in
        {| q_chunked_in := true; q_inbuf := rest; q_dec := d; q_buf := q_buf q ++ out; q_put := put; q_get := q_get q;
           (* finishDechunkingRequest(true): clearProducer(atEof): theBodySize = thePutSize *)
           q_size := if cst_done d then Some put else q_size q;
           q_prod := negb (cst_done d); q_whole := q_whole q; q_abort := q_abort q;
           q_pieces := q_pieces q; q_last := q_last q |}
    end
  else
    (* putMoreData(): size = min(size, unproducedSize(), potentialSpaceSize()); postAppend(): clearProducer(true)
       once !mayNeedMoreData() *)
    let unproduced := match q_size q with Some n => n - q_put q | None => 0 end in
    let size := N.min (N.min (lenN (q_inbuf q)) unproduced) (pipe_space cap (q_buf q)) in
    let put := q_put q + size in
    {| q_chunked_in := false; q_inbuf := dropN size (q_inbuf q); q_dec := q_dec q;
       q_buf := q_buf q ++ takeN size (q_inbuf q); q_put := put; q_get := q_get q; q_size := q_size q;
       q_prod := if size =? 0 then q_prod q
                 else match q_size q with Some n => put <? n | None => true end;
       q_whole := q_whole q; q_abort := q_abort q; q_pieces := q_pieces q; q_last := q_last q |}.

Inductive qev :=
| QSeg (b : bytes)   (* the client connection delivers more bytes: inBuf.append; handleReadData() *)
| QSpace             (* BodyProducer::noteMoreBodySpaceAvailable -> handleRequestBodyData() *)
| QAbort             (* the client connection is gone before the body ended: stopProducingFor(bodyPipe, false) *)
| QNote              (* the consumer receives the pipe's end notification (scheduleBodyEndNotification) *)
| QGet.              (* the consumer can write: sendMoreRequestBody() / doneSendingRequestBody() *)

Definition rq_step (cap : N) (up : upmode) (q : rq) (e : qev) : rq :=
  match e with
  | QSeg b =>
      intake cap {| q_chunked_in := q_chunked_in q; q_inbuf := q_inbuf q ++ b; q_dec := q_dec q; q_buf := q_buf q;
                    q_put := q_put q; q_get := q_get q; q_size := q_size q; q_prod := q_prod q; q_whole := q_whole q;
                    q_abort := q_abort q; q_pieces := q_pieces q; q_last := q_last q |}
  | QSpace => intake cap q
  | QAbort =>
      if q_prod q then
        {| q_chunked_in := q_chunked_in q; q_inbuf := []; q_dec := q_dec q; q_buf := q_buf q; q_put := q_put q;
           q_get := q_get q; q_size := q_size q; q_prod := false; q_whole := q_whole q; q_abort := q_abort q;
           q_pieces := q_pieces q; q_last := q_last q |}
      else q
  | QNote =>
      if q_prod q then q
      else
        (* bodySizeKnown() && bodySize() == thePutSize -> noteBodyProductionEnded, else noteBodyProducerAborted *)
        let ended := match q_size q with Some n => n =? q_put q | None => false end in
        {| q_chunked_in := q_chunked_in q; q_inbuf := q_inbuf q; q_dec := q_dec q; q_buf := q_buf q; q_put := q_put q;
           q_get := q_get q; q_size := q_size q; q_prod := false;
           q_whole := q_whole q || ended; q_abort := q_abort q || negb ended;
           q_pieces := q_pieces q; q_last := q_last q |}
  | QGet =>
      if q_abort q then q else
      match q_buf q with
      | [] =>
          (* nothing buffered: doneSendingRequestBody() -> finishingChunkedRequest() once the whole body is known
             to have been received *)
          match up with
          | UpChunked =>
              if q_whole q && negb (q_last q) then
                {| q_chunked_in := q_chunked_in q; q_inbuf := q_inbuf q; q_dec := q_dec q; q_buf := []; q_put := q_put q;
                   q_get := q_get q; q_size := q_size q; q_prod := q_prod q; q_whole := q_whole q; q_abort := q_abort q;
                   q_pieces := q_pieces q; q_last := true |}
              else q
          | UpLen _ => q
          end
      | d =>
          (* getMoreData() drains theBuf (the destination MemBuf is larger than the pipe); chunked: last-chunk is
             appended to the same write when receivedWholeRequestBody *)
          {| q_chunked_in := q_chunked_in q; q_inbuf := q_inbuf q; q_dec := q_dec q; q_buf := []; q_put := q_put q;
             q_get := q_get q + lenN d; q_size := q_size q; q_prod := q_prod q; q_whole := q_whole q; q_abort := q_abort q;
             q_pieces := q_pieces q ++ [d];
             q_last := match up with UpChunked => q_last q || q_whole q | UpLen _ => q_last q end |}
      end
  end.

Definition rq_run (cap : N) (up : upmode) (clen : option N) (evs : list qev) : rq :=
  fold_left (rq_step cap up) evs (rq_init clen).

(* the body bytes written on the server connection after the request head *)
Definition up_stream (up : upmode) (q : rq) : bytes :=
  match up with
  | UpLen _ => concat (q_pieces q)
  | UpChunked => concat (map up_chunk (q_pieces q)) ++ (if q_last q then last_chunk else [])
  end.

(* the judge for the upstream message: (body, complete) *)
Definition ref_read_up (up : upmode) (stream : bytes) : bytes * bool :=
  match up with
  | UpLen n => (takeN n stream, n <=? lenN stream)
  | UpChunked => let '(d, out, _) := crun CSize0 stream in (out, cst_done d)
  end.

(* a fair schedule used by the correspondence runner: after every client segment the pipe is pumped
   (get, space) until nothing moves, then the end notification and a final get *)
Fixpoint pump (fuel : nat) (cap : N) (up : upmode) (q : rq) : rq :=
  match fuel with
  | O => q
  | S f =>
      let q1 := rq_step cap up (rq_step cap up q QGet) QSpace in
      match q_buf q1, q_inbuf q1 with
      | [], [] => q1
      | [], _ => if q_prod q1 then pump f cap up q1 else q1
      | _, _ => pump f cap up q1
      end
  end.

Definition rq_fair (cap : N) (up : upmode) (clen : option N) (segs : list bytes) (abort : bool) : rq :=
  let q := fold_left (fun q b => pump (S (length b)) cap up (rq_step cap up q (QSeg b))) segs (rq_init clen) in
  let q := if abort then rq_step cap up q QAbort else q in
  let q := rq_step cap up q QNote in
  rq_step cap up (rq_step cap up q QGet) QGet.
