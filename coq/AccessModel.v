(* AccessModel.v — C45: the http_access decision of the running proxy, from squid.conf lines to
   "forwarded" / "403 access denied".  Transcribes, from /repo:

     src/acl/Acl.cc            Acl::Node::ParseNamedAcl / ParseNamed (find the ACL by name, same type or die,
                               parse() appends to the existing data), Acl::Node::matches
     src/acl/Gadgets.cc        aclParseAccessLine (allow|deny, AndNode::lineParse, empty rule skipped,
                               Acl::Tree::add(rule, action))
     src/acl/InnerNode.cc      lineParse ('!' prefix -> NotNode, unknown name -> self_destruct)
     src/cf_parser.cci         DEFAULT "acl all src all"; DEFAULT_IF_NONE "http_access deny all"
     src/acl/BoolOps.cc, Tree.cc, Checklist.cc
                               the synchronous path of Tree(OrNode)/AndNode/NotNode::doMatch, winningAction,
                               calcImplicitAnswer (the full machine, asynchronous lookups included, is
                               AcltreeModel.v of C44; AccessProofs.v relates the two)
     src/acl/SourceIp.cc, DestinationIp.cc, Ip.cc          -> AclipModel.v (C42)
     src/acl/DestinationDomain.cc, DomainData.cc           -> AcldomModel.v (C41)
     src/acl/UrlPort.cc, IntRange.cc                       -> IntrangeModel.v (C43)
     src/acl/Method.cc, MethodData.cc, src/http/RequestMethod.cc, src/sbuf/SBuf.cc (compare)
     src/client_side_request.cc  ClientRequestContext::clientAccessCheck / clientAccessCheckDone

   ACL data are mutable objects shared by all rules that name them and by all requests: every lookup
   re-shapes a splay tree (src, dst, dstdomain) or reorders a list (method), so the model threads the
   objects through rules and requests.

   Not modelled (inputs are given in the form these steps produce):
   - the text -> (addr1, addr2, mask) conversion of IP values (sscanf patterns, getaddrinfo): IP values
     arrive as [iptok]; the five legacy spellings of "all" must be given as IWord;
   - hosts_file parsing: the static ipcache / fqdncache entries arrive as [env];
   - a failed reverse lookup (asynchronous, then negatively cached) is its result "none";
   - URL parsing: the request carries url.host() (lower-cased by the URL parser), hostIsNumeric/hostIP,
     url.port();
   - flags of acl lines (-n, -i, --), deny_info, authentication, adapted_http_access, the predefined ACLs
     other than "all", relaxed_header_parser off.
   Executable definitions only. *)
Require Import SquidV.Bytes SquidV.SplayModel SquidV.TokModel SquidV.IntrangeModel.
Require SquidV.AcldomModel SquidV.AclipModel.
Require Import SquidV.gen.AccessMeth_gen.
Local Open Scope N_scope.

(* ================= request methods ================= *)
(* tolower() as SBuf::compare applies it, from the regenerated table *)
Definition mfold (c : N) : N := if c <? 256 then tbl_get c am_tolower_tbl c else c.

Record meth : Type := mkMeth { m_id : N; m_image : bytes }.   (* theMethod, theImage *)

(* image().length() == end-begin && image().caseCmp(begin, end-begin) == 0 in HttpRequestMethodXXX()
   (since /repo ae7c270): SBuf::compare(const char *, n) scans min(length(), n) bytes and reports a difference
   in length only when the SBuf is the SHORTER side, which is why the length is compared first; before that
   repair a token that was a (case-insensitive) prefix of the image compared equal ("GE" was GET) *)
Definition cfg_image_eq (image tok : bytes) : bool :=
  (lenN tok =? lenN image) && list_eqb (map mfold (takeN (lenN tok) image)) (map mfold tok).

(* image().caseCmp(s) == 0 in HttpRequestMethod(const SBuf &): SBuf against SBuf, lengths compared *)
Definition req_image_eq (image tok : bytes) : bool :=
  (lenN tok =? lenN image) && list_eqb (map mfold image) (map mfold tok).

(* for (++theMethod; theMethod < METHOD_ENUM_END; ++theMethod) if (0 == image().caseCmp(...)) return;
   (relaxed_header_parser is on: the case-sensitive re-check is skipped) *)
Fixpoint meth_scan (eq : bytes -> bytes -> bool) (tbl : list (N * bytes)) (tok : bytes) : option N :=
  match tbl with
  | [] => None
  | (id, image) :: r => if eq image tok then Some id else meth_scan eq r tok
  end.

Definition meth_parse (eq : bytes -> bytes -> bool) (tok : bytes) : meth :=
  match tok with
  | [] => mkMeth am_NONE []                               (* end == begin *)
  | _ => match meth_scan eq am_methods tok with
         | Some id => mkMeth id []
         | None => mkMeth am_OTHER tok                    (* theImage.assign(begin, end-begin) *)
         end
  end.

Definition meth_parse_cfg : bytes -> meth := meth_parse cfg_image_eq.   (* "acl x method <tok>" *)
Definition meth_parse_req : bytes -> meth := meth_parse req_image_eq.   (* the request line *)

(* HttpRequestMethod::operator== *)
Definition meth_eq (a b : meth) : bool :=
  (m_id a =? m_id b) && (negb (m_id a =? am_OTHER) || list_eqb (m_image a) (m_image b)).

(* ACLMethodData::match: first equal value; values.erase(i); values.push_front(toFind) *)
Fixpoint meth_find (vals : list meth) (m : meth) (seen : list meth) : option (list meth) :=
  match vals with
  | [] => None
  | v :: r => if meth_eq v m then Some (m :: rev seen ++ r) else meth_find r m (v :: seen)
  end.

(* ================= configuration ================= *)
Inductive atype : Type := TSrc | TDst | TDom | TPort | TMeth.
Definition atype_eqb (a b : atype) : bool :=
  match a, b with
  | TSrc, TSrc | TDst, TDst | TDom, TDom | TPort, TPort | TMeth, TMeth => true
  | _, _ => false
  end.

(* an IP value as written: a word (all, ipv4, ipv6, a legacy spelling of all), a.b.c.d, a.b.c.d/n,
   a.b.c.d-e.f.g.h, a.b.c.d-e.f.g.h/n; addresses are 32-bit numbers *)
Inductive iptok : Type :=
| IWord (w : bytes)
| ISingle (a : N)
| ICidr (a n : N)
| IRange (a b : N)
| IRangeCidr (a b n : N).

Inductive line : Type :=
| LAcl (name : bytes) (ty : atype) (ips : list iptok) (txt : list bytes)   (* ips for src/dst, txt otherwise *)
| LAccess (allow : bool) (terms : list (bool * bytes)).                   (* (negated, ACL name) *)

Definition v4 (a : N) : N := AclipModel.V4ANY + a.        (* ::ffff:a.b.c.d *)
Definition tok_plain : bytes := [120].                     (* a text parseGlobal() does not take *)

(* what acl_ip_data::FactoryParse() makes of a value: Ip::Address = text for addr1/addr2 (addr2
   setAnyAddr() when absent), DecodeMask() ("" -> NoAddr; "/n" -> applyMask(n, AF_INET)), then
   addr1.applyMask(mask), addr2.applyMask(mask) *)
Definition ip_spec (t : iptok) : bytes * AclipModel.spec :=
  match t with
  | IWord w => (w, match AclipModel.parse_global w with Some _ => AclipModel.SG | None => AclipModel.SX end)
  | ISingle a => (tok_plain, AclipModel.SV [AclipModel.IpVal (v4 a) 0 AclipModel.ALL1])
  | ICidr a n =>
      (tok_plain, match AclipModel.mask_of_cidr n true with
                  | Some m => AclipModel.SV [AclipModel.IpVal (AclipModel.applyMask (v4 a) m) (AclipModel.applyMask 0 m) m]
                  | None => AclipModel.SX
                  end)
  | IRange a b => (tok_plain, AclipModel.SV [AclipModel.IpVal (v4 a) (v4 b) AclipModel.ALL1])
  | IRangeCidr a b n =>
      (tok_plain, match AclipModel.mask_of_cidr n true with
                  | Some m => AclipModel.SV [AclipModel.IpVal (AclipModel.applyMask (v4 a) m) (AclipModel.applyMask (v4 b) m) m]
                  | None => AclipModel.SX
                  end)
  end.

(* the data member of an ACL object *)
Inductive adata : Type :=
| DIp (f4 f6 : bool) (t : tree AclipModel.ipval) (n : Z)   (* ACLIP: matchAnyIpv4/6, splay of ranges *)
| DDom (t : tree bytes) (n : Z)                             (* ACLDomainData: splay of domains *)
| DPort (rs : list (Z * Z))                                 (* ACLIntRange: std::list of [lo, hi+1) *)
| DMeth (vs : list meth).                                   (* ACLMethodData: std::list *)

Record aclobj : Type := mkAcl { a_name : bytes; a_type : atype; a_data : adata }.

Definition empty_data (ty : atype) : adata :=
  match ty with
  | TSrc | TDst => DIp false false (@Leaf _) 0%Z
  | TDom => DDom (@Leaf _) 0%Z
  | TPort => DPort []
  | TMeth => DMeth []
  end.

(* A->parse(): appends to what earlier lines of the same name stored; None = self_destruct() *)
Definition parse_into (d : adata) (ips : list iptok) (txt : list bytes) : option adata :=
  match d with
  | DIp f4 f6 t n =>
      match AclipModel.acl_parse_from f4 f6 t n (map ip_spec ips) with
      | AclipModel.POk f4' f6' t' n' => Some (DIp f4' f6' t' n')
      | _ => None
      end
  | DDom t n =>
      match AcldomModel.acl_parse_from t n txt with
      | AcldomModel.MOk t' n' => Some (DDom t' n')
      | _ => None
      end
  | DPort rs =>
      match ir_parse txt (rev rs) false with
      | (Some rs', _) => Some (DPort rs')
      | (None, _) => None
      end
  | DMeth vs => Some (DMeth (vs ++ map meth_parse_cfg txt))
  end.

Fixpoint find_acl (name : bytes) (acls : list aclobj) : option aclobj :=
  match acls with
  | [] => None
  | a :: r => if list_eqb (a_name a) name then Some a else find_acl name r
  end.

Fixpoint set_data (name : bytes) (d : adata) (acls : list aclobj) : list aclobj :=
  match acls with
  | [] => []
  | a :: r => if list_eqb (a_name a) name then mkAcl (a_name a) (a_type a) d :: r else a :: set_data name d r
  end.

Definition rule : Type := (bool * list (bool * bytes))%type.     (* action allow?, AndNode children *)
Record cstate : Type := mkC { c_acls : list aclobj; c_rules : list rule }.

(* one squid.conf line; None = the configuration is fatal (squid does not start) *)
Definition cfg_step (s : cstate) (l : line) : option cstate :=
  match l with
  | LAcl name ty ips txt =>
      match find_acl name (c_acls s) with
      | Some a =>
          if atype_eqb (a_type a) ty then
            match parse_into (a_data a) ips txt with
            | Some d => Some (mkC (set_data name d (c_acls s)) (c_rules s))
            | None => None
            end
          else None                                          (* "already exists with different type" *)
      | None =>
          match parse_into (empty_data ty) ips txt with
          | Some d => Some (mkC (c_acls s ++ [mkAcl name ty d]) (c_rules s))
          | None => None
          end
      end
  | LAccess allow terms =>
      if forallb (fun t => match find_acl (snd t) (c_acls s) with Some _ => true | None => false end) terms
      then match terms with
           | [] => Some s                                    (* "Access line contains no ACL's, skipping" *)
           | _ => Some (mkC (c_acls s) (c_rules s ++ [(allow, terms)]))
           end
      else None                                              (* "ACL not found" -> self_destruct() *)
  end.

Fixpoint cfg_steps (s : cstate) (ls : list line) : option cstate :=
  match ls with
  | [] => Some s
  | l :: r => match cfg_step s l with Some s' => cfg_steps s' r | None => None end
  end.

Definition s_all : bytes := AclipModel.s_all.
(* DEFAULT: acl all src all *)
Definition predefined : list line := [LAcl s_all TSrc [IWord s_all] []].
(* DEFAULT_IF_NONE: http_access deny all *)
Definition default_rule : line := LAccess false [(false, s_all)].

Definition cfg_parse (ls : list line) : option cstate :=
  match cfg_steps (mkC [] []) (predefined ++ ls) with
  | Some s => match c_rules s with
              | [] => cfg_step s default_rule
              | _ => Some s
              end
  | None => None
  end.

(* ================= one request ================= *)
Record request : Type := mkReq {
  rq_client : N;            (* client address, 32 bits *)
  rq_method : bytes;        (* method token of the request line *)
  rq_host : bytes;          (* url.host() *)
  rq_hostip : option N;     (* url.hostIsNumeric() ? url.hostIP() : none; 32 bits *)
  rq_port : Z               (* url.port() *)
}.

(* static ipcache / fqdncache entries made from hosts_file: name -> address, address -> names[0] *)
Record env : Type := mkEnv { e_fwd : list (bytes * N); e_rev : list (N * bytes) }.

Fixpoint assoc_b (k : bytes) (l : list (bytes * N)) : option N :=
  match l with
  | [] => None
  | (k', v) :: r => if list_eqb k' k then Some v else assoc_b k r
  end.
Fixpoint assoc_n (k : N) (l : list (N * bytes)) : option bytes :=
  match l with
  | [] => None
  | (k', v) :: r => if k' =? k then Some v else assoc_n k r
  end.

(* ipcache_gethostbyname(url.host()): numeric hosts are their own address; names come from the static
   entries; an unknown name ends (after the failed lookup) in "no addresses" *)
Definition resolve (e : env) (rq : request) : list N :=
  match rq_hostip rq with
  | Some a => [a]
  | None => match assoc_b (rq_host rq) (e_fwd e) with Some a => [a] | None => [] end
  end.

Definition s_none : bytes := [110; 111; 110; 101].          (* "none" *)

(* ACLDestinationIP::match: for (ip : ia->goodAndBad()) if (ACLIP::match(ip)) return 1; return 0 *)
Fixpoint dst_loop (f4 f6 : bool) (t : tree AclipModel.ipval) (ips : list N) : tree AclipModel.ipval * bool :=
  match ips with
  | [] => (t, false)
  | a :: r =>
      let '(t', b) := AclipModel.acl_match f4 f6 t (v4 a) in
      if b then (t', true) else dst_loop f4 f6 t' r
  end.

(* Acl::DestinationDomainCheck::match; [rdns] is checklist->dst_rdns *)
Definition dom_eval (e : env) (rq : request) (rdns : option bytes) (t : tree bytes)
  : tree bytes * bool * option bytes :=
  let '(t1, b1) := AcldomModel.acl_match t (rq_host rq) in
  if b1 then (t1, true, rdns)
  else match rq_hostip rq with
       | None => (t1, false, rdns)                             (* not numeric: trust the above result *)
       | Some a =>
           match rdns with
           | Some r => let '(t2, b2) := AcldomModel.acl_match t1 r in (t2, b2, rdns)
           | None =>
               match assoc_n a (e_rev e) with
               | Some nm => let '(t2, b2) := AcldomModel.acl_match t1 nm in (t2, b2, Some nm)
               | None => let '(t2, b2) := AcldomModel.acl_match t1 s_none in (t2, b2, None)
               end
           end
       end.

(* Acl::Node::matches() of a named ACL: (matched, new data, new dst_rdns) *)
Definition leaf_eval (e : env) (rq : request) (rdns : option bytes) (a : aclobj) : bool * adata * option bytes :=
  match a_type a, a_data a with
  | TSrc, DIp f4 f6 t n =>
      let '(t', b) := AclipModel.acl_match f4 f6 t (v4 (rq_client rq)) in (b, DIp f4 f6 t' n, rdns)
  | TDst, DIp f4 f6 t n =>
      let '(t', b) := dst_loop f4 f6 t (resolve e rq) in (b, DIp f4 f6 t' n, rdns)
  | TDom, DDom t n =>
      let '(t', b, rdns') := dom_eval e rq rdns t in (b, DDom t' n, rdns')
  | TPort, DPort rs => (fst (ir_match rs (rq_port rq)), DPort rs, rdns)
  | TMeth, DMeth vs =>
      match meth_find vs (meth_parse_req (rq_method rq)) [] with
      | Some vs' => (true, DMeth vs', rdns)
      | None => (false, DMeth vs, rdns)
      end
  | _, d => (false, d, rdns)                                   (* type and data always agree *)
  end.

(* Acl::AndNode::doMatch over the children of one rule (NotNode inverts a finished child) *)
Fixpoint and_walk (e : env) (rq : request) (acls : list aclobj) (rdns : option bytes) (terms : list (bool * bytes))
  : bool * list aclobj * option bytes :=
  match terms with
  | [] => (true, acls, rdns)
  | (neg, name) :: r =>
      match find_acl name acls with
      | None => (false, acls, rdns)                            (* lineParse() made sure it exists *)
      | Some a =>
          let '(b, d, rdns') := leaf_eval e rq rdns a in
          let acls' := set_data name d acls in
          if xorb neg b then and_walk e rq acls' rdns' r else (false, acls', rdns')
      end
  end.

(* Acl::Tree (OrNode::doMatch) + winningAction(): the action of the first rule that matches *)
Fixpoint or_walk (e : env) (rq : request) (acls : list aclobj) (rdns : option bytes) (rules : list rule)
  : option bool * list aclobj :=
  match rules with
  | [] => (None, acls)
  | (allow, terms) :: r =>
      let '(b, acls', rdns') := and_walk e rq acls rdns terms in
      if b then (Some allow, acls') else or_walk e rq acls' rdns' r
  end.

Inductive verdict : Type := VAllowed | VDenied | VDunno.

(* ACLChecklist::nonBlockingCheck ... calcImplicitAnswer(): no match = the reverse of the last action *)
Definition check (e : env) (s : cstate) (rq : request) : verdict * cstate :=
  let '(w, acls') := or_walk e rq (c_acls s) None (c_rules s) in
  let v := match w with
           | Some true => VAllowed
           | Some false => VDenied
           | None => match rev (c_rules s) with
                     | (true, _) :: _ => VDenied
                     | (false, _) :: _ => VAllowed
                     | [] => VDunno
                     end
           end in
  (v, mkC acls' (c_rules s)).

(* clientAccessCheckDone(): allowed -> doCallouts() goes on to forwarding; otherwise
   clientBuildError(ERR_ACCESS_DENIED, 403) (no auth scheme is involved in these ACL types) *)
Inductive outcome : Type := OForward | ODeny403.
Definition access_done (v : verdict) : outcome :=
  match v with VAllowed => OForward | _ => ODeny403 end.

Fixpoint serve (e : env) (s : cstate) (reqs : list request) : list outcome :=
  match reqs with
  | [] => []
  | rq :: r => let '(v, s') := check e s rq in access_done v :: serve e s' r
  end.

(* a squid.conf access section, an environment and a sequence of requests; None = squid refuses to start *)
Definition access_run (cfg : list line) (e : env) (reqs : list request) : option (list outcome) :=
  match cfg_parse cfg with
  | Some s => Some (serve e s reqs)
  | None => None
  end.
