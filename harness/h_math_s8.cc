#define H_MATH_PART 8
#include "h_math_part.h"
