(* Properties_C39.v -- C39: the ICP, HTCP and SNMP listeners tolerate arbitrary datagrams.
   Statements only; proofs live in AdversarialProofs.v.

   Vocabulary (AdversarialModel.v): a decoder model answers [Ok v] / [Fail] (datagram refused) / [OOB] (the C code
   would access a receive buffer or a fixed destination outside its bounds) / [NoFuel] (model loop budget, never
   reached).  [icp_udp size recvmax stale d], [htcp_udp pending size recvmax stale d], [snmp_udp size recvmax stale d]
   model icpHandleUdp, htcpRecv+htcpHandleMsg and snmpHandleUdp+snmp_parse on a static buffer of [size] bytes whose
   previous content is [stale], after receiving at most [recvmax] bytes of the datagram [d].  Buffer sizes and
   receive limits are the regenerated constants of gen/Adversarial_gen.v and gen/Udpbufs_gen.v.
   [is_byte x] = 0 <= x < 256. *)
Require Import SquidV.Bytes SquidV.gen.Adversarial_gen SquidV.gen.Udpbufs_gen.
Require Import SquidV.AdversarialModel SquidV.AdversarialProofs.
Local Open Scope Z_scope.

(* --- the checked access is the checked list lookup --- *)
Theorem C39_checked_read_is_nth_error : forall (l : list Z) (i : Z),
  rd (buf_of_list l) i =
  if i <? 0 then OOB else match nth_error l (Z.to_nat i) with Some x => Ok x | None => OOB end.
Proof. exact rd_list_is_nth_error. Qed.
Print Assumptions C39_checked_read_is_nth_error.

(* --- ICP: no datagram and no stale buffer content takes icpHandleUdp / icpHandleIcpV2 / V3 / icpGetUrl outside the
       SQUID_UDP_SO_RCVBUF-byte buffer --- *)
Theorem C39_icp_in_bounds : forall (stale : Z -> Z) (d : list Z),
  Forall is_byte d -> (forall i, is_byte (stale i)) ->
  icp_udp icp_bufsize (icp_bufsize - icp_recv_slack) stale d <> Got OOB /\
  icp_udp icp_bufsize (icp_bufsize - icp_recv_slack) stale d <> Got NoFuel.
Proof. exact icp_in_bounds. Qed.
Print Assumptions C39_icp_in_bounds.

(* ... and a URL handed on by icpGetUrl starts after the header and ends, with its NUL, exactly at the end of the
   received bytes ([class_inside len c]: for IcpQuery/IcpReply (Some (offset, strlen)):
   icp_hdr_size <= offset /\ 0 <= strlen /\ offset + strlen + 1 = len) *)
Theorem C39_icp_url_inside_datagram : forall (stale : Z -> Z) (d : list Z) (c : icp_class),
  Forall is_byte d -> (forall i, is_byte (stale i)) ->
  icp_udp icp_bufsize (icp_bufsize - icp_recv_slack) stale d = Got (Ok c) ->
  class_inside (Z.min (lenZ d) (icp_bufsize - icp_recv_slack)) c.
Proof. exact icp_url_inside_datagram. Qed.
Print Assumptions C39_icp_url_inside_datagram.

Theorem C39_icp_header_and_url_readers_in_bounds : forall (stale : Z -> Z) (d : list Z),
  Forall is_byte d -> (forall i, is_byte (stale i)) ->
  icp_unit icp_bufsize (icp_bufsize - icp_recv_slack) stale d <> OOB /\
  icp_unit icp_bufsize (icp_bufsize - icp_recv_slack) stale d <> NoFuel.
Proof. exact icp_unit_in_bounds. Qed.
Print Assumptions C39_icp_header_and_url_readers_in_bounds.

(* --- HTCP: no datagram, no stale content and no set of outstanding queries takes htcpHandleMsg /
       htcpUnpackSpecifier / htcpUnpackDetail (reads, in-place NUL writes, later C-string scans) outside the buffer --- *)
Theorem C39_htcp_in_bounds : forall (pending : Z -> bool) (stale : Z -> Z) (d : list Z),
  Forall is_byte d -> (forall i, is_byte (stale i)) ->
  htcp_udp pending htcp_bufsize (htcp_bufsize - htcp_recv_slack) stale d <> OOB /\
  htcp_udp pending htcp_bufsize (htcp_bufsize - htcp_recv_slack) stale d <> NoFuel.
Proof. exact htcp_in_bounds. Qed.
Print Assumptions C39_htcp_in_bounds.

(* ... every in-place write lands in [0, len] and every unpacked field (offset, counted size, C-string length) lies in
   [0, len], len = number of received bytes ([wrange], [hclass_inside], [spec_inside], [detail_inside]) *)
Theorem C39_htcp_fields_and_writes_inside_datagram :
  forall (pending : Z -> bool) (stale : Z -> Z) (d : list Z) (r : htcp_result),
  Forall is_byte d -> (forall i, is_byte (stale i)) ->
  htcp_udp pending htcp_bufsize (htcp_bufsize - htcp_recv_slack) stale d = Ok r ->
  wrange 0 (Z.min (lenZ d) (htcp_bufsize - htcp_recv_slack)) (hr_state r) /\
  hclass_inside (Z.min (lenZ d) (htcp_bufsize - htcp_recv_slack)) (hr_class r).
Proof. exact htcp_inside_datagram. Qed.
Print Assumptions C39_htcp_fields_and_writes_inside_datagram.

Theorem C39_htcp_unpackers_in_bounds : forall (stale : Z -> Z) (d : list Z),
  Forall is_byte d -> (forall i, is_byte (stale i)) ->
  safe (htcp_spec_unit htcp_bufsize (htcp_bufsize - htcp_recv_slack) stale d) /\
  safe (htcp_detail_unit htcp_bufsize (htcp_bufsize - htcp_recv_slack) stale d).
Proof. exact htcp_unpackers_in_bounds. Qed.
Print Assumptions C39_htcp_unpackers_in_bounds.

(* --- SNMP: no datagram (up to the sizeof(buf)-1 bytes snmpHandleUdp receives) takes snmp_parse / snmp_msg_Decode and
       the ASN.1 readers outside the SNMP_REQUEST_SIZE-byte buffer or the fixed destinations (Community[128], the
       MAX_NAME_LEN-element object identifiers, the value strings)
       [holds since /repo 71f8893 (asn_header_fits); before it a 4095-byte datagram was read 1..3 bytes past the buffer] --- *)
Theorem C39_snmp_in_bounds : forall (stale : Z -> Z) (d : list Z),
  Forall is_byte d -> (forall i, is_byte (stale i)) ->
  snmp_udp snmp_request_size (snmp_request_size - snmp_recv_slack) stale d <> Got OOB /\
  snmp_udp snmp_request_size (snmp_request_size - snmp_recv_slack) stale d <> Got NoFuel.
Proof. exact snmp_in_bounds. Qed.
Print Assumptions C39_snmp_in_bounds.

(* the decoder itself on ANY object: one byte after the [len] bytes it is asked to decode suffices *)
Theorem C39_snmp_decoder_in_bounds_on_any_object : forall (b : buf) (len : Z),
  bytes_ok b -> 0 <= len -> len + 1 <= bsize b -> len < 2147483648 ->
  snmp_msg_decode b len <> OOB /\ snmp_msg_decode b len <> NoFuel.
Proof. exact snmp_msg_decode_safe. Qed.
Print Assumptions C39_snmp_decoder_in_bounds_on_any_object.

(* --- the hypotheses are satisfiable, the decoders accept real messages --- *)
Example C39_snmp_get_is_decoded :
  snmp_udp snmp_request_size (snmp_request_size - snmp_recv_slack) (fun _ => 165)
    [48; 41; 2; 1; 0; 4; 6; 112; 117; 98; 108; 105; 99; 160; 28; 2; 1; 7; 2; 1; 0; 2; 1; 0; 48; 17; 48; 15; 6; 11; 43; 6; 1; 4;
     1; 155; 39; 1; 1; 1; 0; 5; 0]
  = Got (Ok (mkmsg 0 [112; 117; 98; 108; 105; 99] 160 7 0 0 [mkvar 5 11 0])).
Proof. vm_compute. reflexivity. Qed.

Example C39_icp_query_url_is_found :
  icp_udp icp_bufsize (icp_bufsize - icp_recv_slack) (fun _ => 165)
    [1; 2; 0; 44; 0; 0; 0; 7; 0; 0; 0; 0; 0; 0; 0; 0; 0; 0; 0; 0; 0; 0; 0; 0; 104; 116; 116; 112; 58; 47; 47; 101; 120; 97; 109;
     112; 108; 101; 46; 99; 111; 109; 47; 0]
  = Got (Ok (IcpQuery (Some (24, 19)))).
Proof. vm_compute. reflexivity. Qed.

Example C39_htcp_tst_specifier_is_unpacked :
  match htcp_udp (fun _ => false) htcp_bufsize (htcp_bufsize - htcp_recv_slack) (fun _ => 165)
    [0; 58; 0; 1; 0; 52; 16; 2; 0; 0; 0; 9; 0; 3; 71; 69; 84; 0; 19; 104; 116; 116; 112; 58; 47; 47; 101; 120; 97; 109; 112; 108;
     101; 46; 99; 111; 109; 47; 0; 8; 72; 84; 84; 80; 47; 49; 46; 49; 0; 6; 65; 58; 32; 98; 13; 10; 0; 2] with
  | Ok r => hr_class r = HtcpTstReq (Some (mkspec 14 19 40 50 6 [3; 19; 8; 6])) /\ hw (hr_state r) = [56; 48; 38; 17]
  | _ => False
  end.
Proof. vm_compute. split; reflexivity. Qed.

(* the former over-read witness (4095 bytes, last variable `30 00` at the very end) is receivable and now refused *)
Example C39_snmp_former_witness_refused : forall stale,
  lenZ snmp_witness = snmp_request_size - snmp_recv_slack /\
  snmp_udp snmp_request_size (snmp_request_size - snmp_recv_slack) stale snmp_witness = Got Fail.
Proof. exact snmp_witness_refused. Qed.

(* the one byte of slack is needed: on an object of exactly the datagram's size an empty INTEGER at the end is over-read *)
Example C39_snmp_exact_size_object_needs_the_spare_byte : snmp_exact [48; 2; 2; 0] = Got OOB.
Proof. exact snmp_exact_needs_one_byte. Qed.
