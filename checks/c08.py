"""C08: no descriptor leaks or crashes across abort histories (end to end through the real squid).

Implementation side: squid built from /repo's working tree, run between raw-socket clients that complete, abort
(FIN or RST) at random byte offsets of the request or of the response, half-close, or stall while HOLDING their socket
open, and a scripted origin that completes (keep-alive, chunked, close-delimited, closing after the reply), cuts the
reply at a random byte offset (FIN or RST), closes before replying, or stalls before / inside the reply. After the
traffic of a history has stopped -- the stalled peers still holding their sockets, so that only squid's own (short,
configured) timeouts can release the descriptors -- the number of open descriptors of the squid process
(/proc/<pid>/fd) must return to the value it had before the history, the process must be alive, cache.log must not
contain an assertion / FATAL / BUG line, and the descriptor-table accounting must agree with the kernel
(Number_FD of mgr:info = rows of mgr:filedescriptors = /proc count - untracked constant).

Model side: the extracted descriptor-ownership protocol machine (coq/FdleakModel.v) run on the abstract event
schedule of the same history; it predicts the quiescent observation and, for sequential histories, the number of
idle server connections in the pool after every transaction.

A second scenario kind drives the real src/fd.cc (harness/h_fdleak.cc) with random fd_open/fd_close sequences against
the model's transcription of fd_open/fd_close/fdUpdateBiggest."""
import concurrent.futures, json, os, random, re, socket, struct, threading, time
from vlib import std, lab, common, hbuild, recipes

PID = "C08"
META = {
    "text": "Theorems (Properties_C08.v, 14, all closed under the global context). (1) src/fd.cc transcribed line by line "
            "(fd_open incl. its 'Closing open FD' branch, fd_close, fdUpdateBiggest with its three asserts and the "
            "downward scan): after ANY sequence of calls that respects the callers' obligations no assert fires, the open "
            "flags are those of the plain replay, Number_FD = number of open flags, Biggest_FD = largest open descriptor. "
            "(2) _comm_close: idempotent; on an open descriptor it schedules every close handler once, in list order, then "
            "comm_close_complete, and leaves no handler and no timeout. (3) A descriptor-ownership protocol machine "
            "(owners: ConnStateData per client connection, HttpStateData per server connection, the IdleConnList/PconnPool "
            "incl. the fdUsageHigh refusal and pop-and-close for non-retriable requests; events: accept, connect, pool pop, "
            "complete persistent / non-persistent reply, server failure, client completion, client EOF/RST, any armed "
            "timeout, idle-connection read, close by a third party, the AsyncCallQueue firing, in ANY order): in every "
            "reachable state no fd.cc assert has fired, Number_FD/Biggest_FD/kernel descriptor set agree with the table, "
            "exactly the descriptors being closed have one comm_close_complete pending (each close(2) happens once), "
            "PconnPool's count is the pool size, every job owns at most one descriptor, and with an empty call queue every "
            "open descriptor is infrastructure, or owned by one live job with its close handler registered and a timeout "
            "armed, or pooled with a timeout armed (no orphans); a close from anywhere notifies the owner first and an "
            "aborted client's server connection is released with it. (4) C08_quiescent_returns_to_baseline_partial: after "
            "ANY history, once every armed timeout has fired and the call queue has run dry, exactly the descriptors open "
            "before traffic are open (table and kernel), Number_FD and Biggest_FD are back at their start values, the pool "
            "is empty; C08_model_prediction: the observation line the extracted model prints for the lab is that theorem. "
            "Tie: (a) the real src/fd.cc + src/fde.cc compiled from the working tree on every run are driven with random "
            "fd_open/fd_close sequences and diffed against the extracted fd model; (b) the real squid binary is driven "
            "through random histories of concurrent transactions -- clients completing, keeping the connection, sending a "
            "second request, aborting (FIN/RST) at random offsets of the request head/body or of the response, "
            "half-closing, or stalling while HOLDING the socket; origin completing (Content-Length, chunked, "
            "close-delimited, closing after a keep-alive reply), cutting the reply at a random offset (FIN/RST), closing "
            "before replying, stalling before or inside the reply; cacheable and uncacheable, memory cache on and caching "
            "off -- and after traffic stops, with the stalled peers still holding their sockets, /proc/<pid>/fd must "
            "return to the pre-traffic count within the configured timeouts, squid must be alive, cache.log must have no "
            "assertion/FATAL/BUG, and Number_FD (mgr:info) = rows of mgr:filedescriptors = /proc count minus the untracked "
            "constant; sequential histories additionally compare the number of idle server connections after every "
            "transaction with the model's pool.",
    "note": "partial (the weakest claim of the suite): the protocol theorems are about the model's owners; that every real "
            "owner (ConnStateData, FwdState, HttpStateData, Comm::Connection's closing destructor, store/disk, helper, ICAP "
            "and tunnel descriptors) follows the protocol is NOT proved and rests on the end-to-end runs only. Not modelled: "
            "IdleConnList's array capacity growth and closeN, pinned connections, CONNECT tunnels, TLS goodbye, half-closed "
            "monitoring, shutdown. Lab timeouts: all of client_idle_pconn/server_idle_pconn/read/request/request_start/"
            "write/connect_timeout and client_lifetime are set to 2-4 s; a client that stalls inside a request BODY is "
            "released only by client_lifetime (default 1 day) -- neither request_timeout nor read_timeout applies (observed, "
            "documented behaviour, not counted as a leak). Trusted: Coq kernel, extraction, vlib/lab.py, /proc.",
    "technique": "Coq proof (inductive invariant of a descriptor-ownership protocol machine over all event orders; "
                 "line-by-line model of fd.cc with assertion outcomes) + differential correspondence of the extracted model "
                 "against the real fd.cc (unit harness) and against the running squid under random abort histories + "
                 "independent oracle on /proc/<pid>/fd, cache manager reports and cache.log",
}

TIMEOUTS = {"client_idle_pconn_timeout": 2, "server_idle_pconn_timeout": 3, "read_timeout": 2, "request_timeout": 2,
            "request_start_timeout": 2, "write_timeout": 3, "connect_timeout": 2, "client_lifetime": 4}
QUIESCE = max(TIMEOUTS.values()) + 6.0      # how long the descriptors may take to return after traffic stops
STALL = QUIESCE + 15.0                      # a stalled origin stays silent (socket open) past the observation window
CONF_COMMON = "".join("%s %d seconds\n" % kv for kv in sorted(TIMEOUTS.items()))
CFGS = {
    "mem": "",                               # memory cache on
    "off": "cache deny all\n",               # caching off
    "ufs": None,                             # memory + disk cache (see Inst)
}
LINGER0 = struct.pack("ii", 1, 0)
BAD_LOG = ("assertion failed", "FATAL", "BUG")

C_KINDS = ["ok", "ok", "ok_hold", "ok2", "abort_req", "abort_req_rst", "stall_req", "abort_resp", "abort_resp_rst",
           "half", "stall_resp"]
S_KINDS = ["ok", "ok", "chunked", "closefr", "closeafter", "cut", "cut_rst", "nocl", "nocl_rst", "slow", "stall_head",
           "stall_body"]


# ------------------------------------------------------------------ scenarios
def gen_group(rng):
    sk = rng.choice(S_KINDS)
    g = {"s": sk, "blen": rng.choice([0, 1, 37, 900, 5000, 70000, 300000]),
         "cacheable": rng.random() < 0.5, "method": "GET"}
    if rng.random() < 0.25:
        g["method"] = "POST"
        g["reqbody"] = rng.choice([1, 50, 3000, 100000])
        g["cacheable"] = False
    if sk in ("cut", "cut_rst"):
        g["blen"] = max(g["blen"], 37)
        g["at"] = rng.randrange(0, g["blen"])
    if sk == "stall_body":
        g["at"] = rng.randrange(1, 200 + g["blen"])
    return g


def gen_client(rng):
    ck = rng.choice(C_KINDS)
    c = {"c": ck}
    if ck in ("abort_req", "abort_req_rst", "stall_req"):
        c["at"] = rng.randrange(1, 1000)          # permille of the request bytes that are sent
    if ck in ("abort_resp", "abort_resp_rst"):
        c["at"] = rng.choice([0, 1, 17, 100, 400, 3000, 60000])   # response bytes read before the abort
    return c


def gen_history(rng, k):
    seq = (k % 4 == 3)
    cfg = ["mem", "ufs", "off"][k % 3]
    if seq:
        ng = rng.randrange(2, 5)
        groups = []
        for _ in range(ng):
            sk = rng.choice(["ok", "ok", "chunked", "closefr", "cut", "nocl", "closeafter"])
            g = {"s": sk, "blen": rng.choice([1, 37, 900, 5000]), "cacheable": False, "method": rng.choice(["GET", "GET", "POST"])}
            if g["method"] == "POST":
                g["reqbody"] = rng.choice([1, 50, 3000])
            if sk == "cut":
                g["at"] = rng.randrange(0, g["blen"])
            groups.append(g)
        txs = []
        for gi in range(ng):
            ck = rng.choice(["ok", "ok", "ok", "abort_req", "stall_req", "ok_hold"])
            c = {"c": ck, "g": gi}
            if ck in ("abort_req", "stall_req"):
                c["at"] = rng.randrange(1, 400)   # inside the request head
            txs.append(c)
        return {"kind": "hist", "cfg": "off", "seq": True, "par": 1, "groups": groups, "txs": txs}
    ng = rng.randrange(2, 7)
    groups = [gen_group(rng) for _ in range(ng)]
    ntx = rng.randrange(8, 21)
    txs = []
    for _ in range(ntx):
        c = gen_client(rng)
        c["g"] = rng.randrange(ng)
        txs.append(c)
    return {"kind": "hist", "cfg": cfg, "seq": False, "par": rng.choice([2, 4, 8]), "groups": groups, "txs": txs}


def gen_fdops(rng, k):
    """random fd_open/fd_close sequences for the real fd.cc: 'o<fd>' / 'c<fd>'; mostly valid (close only what is open),
    sometimes re-opening an open descriptor (fd_open's 'Closing open FD' branch)"""
    n = rng.randrange(1, 40)
    maxfd = rng.choice([4, 8, 16, 32])
    opened = set()
    ops = []
    for _ in range(n):
        r = rng.random()
        if opened and r < 0.4:
            fd = rng.choice(sorted(opened))
            ops.append("c%d" % fd)
            opened.discard(fd)
        elif opened and r < 0.47:
            fd = rng.choice(sorted(opened))
            ops.append("o%d" % fd)              # open on an open entry
        else:
            fd = rng.randrange(maxfd)
            if fd in opened and rng.random() < 0.8:
                continue
            ops.append("o%d" % fd)
            opened.add(fd)
    return {"kind": "fdops", "maxfd": maxfd, "ops": ops}


def gen_scenarios(rng, n):
    out = []
    nf = max(20, n)       # unit-level fd.cc cases are cheap
    for k in range(nf):
        out.append(gen_fdops(rng, k))
    for k in range(n):
        out.append(gen_history(rng, k))
    return out


# ------------------------------------------------------------------ abstract event schedule (for the model)
def reaches_forwarding(c):
    """does the client send the complete request head (so that squid parses the request and starts forwarding)?
    For abort_req/stall_req the cut point is a permille of the request; the driver guarantees that 'at' < 400 lies
    inside the head for sequential histories; in concurrent histories the model is told what really happened by
    nothing -- every interleaving is covered by the theorems and the quiescent prediction does not depend on it."""
    return c["c"] not in ("abort_req", "abort_req_rst", "stall_req")


def to_case(s):
    if s["kind"] == "fdops":
        return "fdleak.fdops %d %s" % (s["maxfd"], " ".join(s["ops"]) if s["ops"] else "-")
    # per transaction: <client kind>:<server kind>:<method>:<reaches>; the runner turns it into model events
    toks = []
    for c in s["txs"]:
        g = s["groups"][c["g"]]
        toks.append("%s:%s:%s:%d" % (c["c"], g["s"], g["method"], 1 if reaches_forwarding(c) else 0))
    return "fdleak.hist %d %d %s" % (1 if s["seq"] else 0, s["par"], " ".join(toks))


# ------------------------------------------------------------------ implementation side
_state = {}
_diag = {}
NINST = 6


def _nfd(pid):
    try:
        return len(os.listdir("/proc/%d/fd" % pid))
    except OSError:
        return -1


def _stable_nfd(pid, need=3, gap=0.05, limit=3.0):
    t0 = time.time()
    last = _nfd(pid)
    same = 1
    while same < need and time.time() - t0 < limit:
        time.sleep(gap)
        n = _nfd(pid)
        if n == last:
            same += 1
        else:
            last, same = n, 1
    return last


def _mgr(sq, actions):
    """several cache manager reports over ONE client connection (so that each report sees exactly one descriptor of
    its own)"""
    out = []
    s = socket.create_connection(("127.0.0.1", sq.port), timeout=5)
    try:
        for a in actions:
            s.sendall(("GET http://verif.test:%d/squid-internal-mgr/%s HTTP/1.1\r\nHost: verif.test:%d\r\n\r\n"
                       % (sq.port, a, sq.port)).encode())
            raw = b""
            s.settimeout(5)
            while not lab.n_complete(raw, 1):
                d = s.recv(262144)
                if not d:
                    break
                raw += d
            rs, _ = lab.parse_responses(raw, ["GET"], eof=True)
            out.append(rs[0].body.decode("latin1") if rs and rs[0].status == 200 else "")
    finally:
        s.close()
    return out


def _fd_rows(txt):
    rows = []
    for l in txt.splitlines():
        m = re.match(r"\s*(\d+)\s+(\S+)\s+(\d+)\s+(\d+)\*?\s+(\d+)\*?\s*(.*)$", l)
        if m:
            rows.append((int(m.group(1)), m.group(2), m.group(6)))
    return rows


def _acct(sq, pid):
    """(Number_FD, rows of the descriptor table, /proc count while quiet); the /proc count is taken before and after
    the two reports (made over one connection) and must be the same, otherwise the measurement is repeated"""
    for _ in range(6):
        pq = _stable_nfd(pid)
        info, fds = _mgr(sq, ["info", "filedescriptors"])
        pq2 = _stable_nfd(pid)
        if pq == pq2:
            break
    m = re.search(r"Number of file desc currently in use:\s*(\d+)", info)
    rows = _fd_rows(fds)
    return (int(m.group(1)) if m else -1), rows, pq


def _count_idle(sq):
    (fds,) = _mgr(sq, ["filedescriptors"])
    return sum(1 for fd, typ, desc in _fd_rows(fds) if "Idle server" in desc)


class Inst:
    def __init__(self, L, cfg, k):
        self.org = L.origin()
        name = "vc08%s%dp%d" % (cfg, k, os.getpid())
        if cfg == "ufs":
            # a disk cache: swap-out files are FD_FILE descriptors opened and closed per stored object
            sq = lab.Squid(L, CONF_COMMON + "cache_dir ufs %s 20 2 2\n" % os.path.join(L.dir, name, "cache"), 0, None, name,
                           "8 MB", "", "http_access allow all")
            L.procs.append(sq)
            sq.run_z()
            sq.start(20)
            self.sq = sq
        else:
            self.sq = L.squid(extra_conf=CONF_COMMON + CFGS[cfg], name=name)
        self.cfg = cfg
        self.lock = threading.Lock()
        self.pid = self.sq.proc.pid
        # warm up: one complete transaction, then wait for its idle connections to expire
        lab.get(self.sq.port, self.org.url({"body": "warm"}, "warm%d" % k))
        t0 = time.time()
        n = _stable_nfd(self.pid)
        while time.time() - t0 < QUIESCE:
            time.sleep(0.3)
            n2 = _stable_nfd(self.pid)
            if n2 == n and time.time() - t0 > TIMEOUTS["server_idle_pconn_timeout"] + 1.5:
                break
            n = n2
        nfd, rows, pq = _acct(self.sq, self.pid)
        self.untracked = pq - (len(rows) - 1)      # kernel descriptors the table does not know (epoll, shm segments)
        self.base = pq


def _origin_spec(g, seed):
    sk = g["s"]
    spec = {"body_gen": [g["blen"], seed]}
    hs = []
    if g["cacheable"]:
        hs.append(["Cache-Control", "max-age=1000"])
    else:
        hs.append(["Cache-Control", "no-store"])
    spec["headers"] = hs
    if sk == "chunked":
        spec["framing"] = "chunked"; spec["chunks"] = [977, 13, 4096]
    elif sk == "closefr":
        spec["framing"] = "close"
    elif sk == "closeafter":
        spec["close"] = True
    elif sk in ("cut", "cut_rst"):
        spec["cut_after"] = g["at"]
        if sk == "cut_rst": spec["reset"] = True
    elif sk in ("nocl", "nocl_rst"):
        spec["close_before_reply"] = True
        if sk == "nocl_rst": spec["reset"] = True
    elif sk == "slow":
        spec["delay"] = 0.3
    elif sk == "stall_head":
        spec["delay"] = STALL                      # longer than the whole observation window
    elif sk == "stall_body":
        spec["splits"] = [g["at"]]; spec["split_delay"] = STALL
    return spec


def _close(sock, rst=False):
    try:
        if rst:
            sock.setsockopt(socket.SOL_SOCKET, socket.SO_LINGER, LINGER0)
        sock.close()
    except OSError:
        pass


def _read_response(sock, method, stop_at=None, total=9.0):
    """read one response; returns (raw, complete, closed_by_peer)"""
    raw = b""
    t0 = time.time()
    sock.settimeout(0.1)
    while time.time() - t0 < total:
        if stop_at is not None and len(raw) >= stop_at:
            return raw, False, False
        if lab.n_complete(raw, 1, [method]):
            return raw, True, False
        try:
            d = sock.recv(65536 if stop_at is None else max(1, min(65536, stop_at - len(raw))))
        except socket.timeout:
            continue
        except OSError:
            return raw, False, True
        if not d:
            return raw, False, True
        raw += d
    return raw, False, False


def _do_tx(inst, c, g, rid, holders, seed, inhead=False):
    url = inst.org.url(_origin_spec(g, seed), rid)
    method = g["method"]
    host = url.split("://", 1)[1].split("/", 1)[0]
    req = "%s %s HTTP/1.1\r\nHost: %s\r\nUser-Agent: c08\r\n" % (method, url, host)
    body = b""
    if method == "POST":
        body = lab.body_bytes(g["reqbody"], seed + 1)
        req += "Content-Length: %d\r\n" % len(body)
    head = (req + "\r\n").encode("latin1")
    data = head + body
    ck = c["c"]
    try:
        sock = socket.create_connection(("127.0.0.1", inst.sq.port), timeout=5)
    except OSError:
        return "noconnect"
    sock.setsockopt(socket.IPPROTO_TCP, socket.TCP_NODELAY, 1)
    try:
        if ck in ("abort_req", "abort_req_rst", "stall_req"):
            n = max(1, min(len(data) - 1, len(data) * c["at"] // 1000))
            if inhead:
                n = max(1, min(len(head) - 1, len(head) * c["at"] // 1000))
            sock.sendall(data[:n])
            if ck == "stall_req":
                holders.append(sock); sock = None
                return "held"
            time.sleep(0.02)
            _close(sock, ck.endswith("_rst")); sock = None
            return "aborted"
        sock.sendall(data)
        if ck == "half":
            try:
                sock.shutdown(socket.SHUT_WR)
            except OSError:
                pass
        if ck == "stall_resp":
            holders.append(sock); sock = None
            return "held"
        if ck in ("abort_resp", "abort_resp_rst"):
            raw, complete, closed = _read_response(sock, method, stop_at=c["at"])
            _close(sock, ck.endswith("_rst")); sock = None
            return "aborted"
        raw, complete, closed = _read_response(sock, method)
        if ck == "ok_hold" and not closed:
            holders.append(sock); sock = None
            return "held" if complete else "held-incomplete"
        if ck == "ok2" and complete and not closed:
            try:
                sock.sendall(data)
                raw2, complete2, closed2 = _read_response(sock, method)
            except OSError:
                pass
        return "done" if complete else "incomplete"
    except OSError:
        return "oserror"
    finally:
        if sock is not None:
            _close(sock)


def _run_history(inst, s, hid):
    sq, pid = inst.sq, inst.pid
    if not sq.alive():
        return "alive=0"
    p0 = _stable_nfd(pid)
    holders = []
    idle_obs = []
    txs = s["txs"]

    def one(i):
        c = txs[i]
        g = s["groups"][c["g"]]
        rid = "h%dg%d" % (hid, c["g"]) if g["cacheable"] else "h%dg%dt%d" % (hid, c["g"], i)
        return _do_tx(inst, c, g, rid, holders, hid * 131 + c["g"], inhead=s["seq"])

    if s["seq"]:
        for i in range(len(txs)):
            one(i)
            _stable_nfd(pid, need=4, gap=0.05, limit=2.0)
            idle_obs.append(_count_idle(sq))
    else:
        with concurrent.futures.ThreadPoolExecutor(max_workers=s["par"]) as ex:
            list(ex.map(one, range(len(txs))))
    # traffic has stopped; stalled peers still hold their sockets: only squid's timeouts can release descriptors
    t0 = time.time()
    n = _nfd(pid)
    while time.time() - t0 < QUIESCE:
        n = _nfd(pid)
        if n == p0 and _stable_nfd(pid, need=3, gap=0.05, limit=0.5) == p0:
            break
        time.sleep(0.1)
    leak = n - p0
    extra = ""
    alive = sq.alive()
    acct = "dead"
    if alive:
        try:
            nfd, rows, pq = _acct(sq, pid)
            bad = []
            if nfd != len(rows):
                bad.append("Number_FD=%d,table=%d" % (nfd, len(rows)))
            if pq - (len(rows) - 1) != inst.untracked:
                bad.append("kernel=%d,table=%d,untracked=%d" % (pq, len(rows) - 1, inst.untracked))
            acct = "0" if not bad else "/".join(bad)
            if leak:
                extra = "; ".join("%d %s %s" % r for r in rows)
        except Exception as ex:
            acct = "mgr-failed"
            extra = repr(ex)
    for h in holders:
        _close(h)
    logbad = sq.log_has(*BAD_LOG)
    obs = "alive=%d log=%s leak=%d acct=%s" % (1 if alive else 0, "clean" if not logbad else "+".join(x.replace(" ", "_") for x in logbad),
                                             leak, acct)
    if s["seq"]:
        obs += " idle=" + ",".join(map(str, idle_obs))
    if extra or leak or logbad:
        _diag[json.dumps(s, sort_keys=True)] = {"table": extra, "log": sq.log_tail(1500) if logbad or not alive else ""}
    return obs


def _fdops_exe():
    if "fdexe" not in _state:
        _state["fdexe"] = hbuild.build("fdleak", "h_fdleak.cc", fresh=["src/fd.cc", "src/fde.cc"], link=FD_LINK, sanitize="ubsan")
    return _state["fdexe"]


# testHttpReply's link recipe without the fd.cc / fde.cc stubs; the harness supplies Comm::SetSelect itself
FD_LINK = [l for l in recipes.HTTPREPLY if l not in ("tests/stub_fd.o", "tests/stub_fde.o")] + ["-Wl,--allow-multiple-definition"]


def _setup(L):
    if "inst" in _state and all(i.sq.alive() for i in _state["inst"]):
        return
    insts = []
    jobs = [("mem", 0), ("ufs", 1), ("off", 2), ("off", 3), ("ufs", 4), ("mem", 5)][:NINST]
    with concurrent.futures.ThreadPoolExecutor(max_workers=len(jobs)) as ex:
        insts = list(ex.map(lambda a: Inst(L, a[0], a[1]), jobs))
    _state["inst"] = insts
    _state.setdefault("n", 0)


def run_impl(L, scenarios):
    obs = [None] * len(scenarios)
    fd_idx = [i for i, s in enumerate(scenarios) if s["kind"] == "fdops"]
    if fd_idx:
        from vlib import corr
        lines = corr.run_lines(_fdops_exe(), [to_case(scenarios[i]) for i in fd_idx])
        for i, l in zip(fd_idx, lines):
            obs[i] = l
    hist_idx = [i for i, s in enumerate(scenarios) if s["kind"] == "hist"]
    if hist_idx:
        _setup(L)
        insts = _state["inst"]
        # an instance that crashed or leaked keeps serving: every history takes its own baseline
        queues = {id(inst): [] for inst in insts}
        load = {}
        for i in hist_idx:
            cand = [inst for inst in insts if inst.cfg == scenarios[i]["cfg"]]
            inst = min(cand, key=lambda x: load.get(id(x), 0))
            load[id(inst)] = load.get(id(inst), 0) + len(scenarios[i]["txs"]) + 10
            queues[id(inst)].append(i)

        def work(inst):
            for i in queues[id(inst)]:
                with inst.lock:
                    _state["n"] += 1
                    hid = _state["n"]
                try:
                    obs[i] = _run_history(inst, scenarios[i], hid)
                except Exception as ex:
                    obs[i] = "driver-error %r" % (ex,)
        with concurrent.futures.ThreadPoolExecutor(max_workers=len(insts)) as ex:
            list(ex.map(work, insts))
    return obs


# ------------------------------------------------------------------ oracle
def oracle(s, obs):
    """The property on what squid did."""
    if s["kind"] == "fdops":
        return oracle_fdops(s, obs)
    f = dict(x.split("=", 1) for x in obs.split() if "=" in x)
    d = _diag.get(json.dumps(s, sort_keys=True), {})
    if f.get("alive") != "1":
        return ("oracle:squid-died", "squid is no longer running after the history: %s %s" % (obs, d.get("log", "")[-600:]))
    if f.get("log") != "clean":
        return ("oracle:cache-log:" + f.get("log", "?"), "cache.log contains %s: %s" % (f.get("log"), d.get("log", "")[-600:]))
    if "leak" not in f:
        return ("oracle:no-observation", "the history could not be driven: " + obs)
    if int(f["leak"]) > 0:
        return ("oracle:descriptor-leak", "%s descriptors above the pre-traffic baseline remain open %.0f s after traffic stopped "
                "(all configured timeouts are <= %d s); descriptor table: %s" % (f["leak"], QUIESCE, max(TIMEOUTS.values()), d.get("table", "")[:900]))
    if int(f["leak"]) < 0:
        return ("oracle:descriptor-lost", "fewer descriptors than before the history (%s): a baseline descriptor was closed" % f["leak"])
    if f.get("acct") != "0":
        return ("oracle:fd-accounting", "descriptor table accounting disagrees with the kernel: " + f.get("acct", "?"))
    return None


def oracle_fdops(s, obs):
    """fd.cc accounting: after any sequence of fd_open/fd_close, Number_FD = number of open flags and Biggest_FD = the
    largest open descriptor (-1 if none); the flags are those an independent replay of the sequence gives."""
    f = obs.split()
    if not f or f[0] != "ok":
        # closing a descriptor that is not open is an assertion in fd_close: the generator never does it
        return ("oracle:fdops-failed", "valid fd_open/fd_close sequence did not run: " + obs)
    opened = set()
    for op in s["ops"]:
        fd = int(op[1:])
        if op[0] == "o": opened.add(fd)
        else: opened.discard(fd)
    number, biggest, flags = int(f[1]), int(f[2]), f[3]
    want = "".join("1" if i in opened else "0" for i in range(s["maxfd"]))
    if flags != want:
        return ("oracle:fd-open-flags", "open flags %s, expected %s" % (flags, want))
    if number != len(opened):
        return ("oracle:number-fd", "Number_FD=%d with %d open descriptors" % (number, len(opened)))
    if biggest != (max(opened) if opened else -1):
        return ("oracle:biggest-fd", "Biggest_FD=%d, open=%s" % (biggest, sorted(opened)))
    return None


def kind_fn(s, o):
    if s["kind"] == "fdops":
        return "fdops:" + o.split()[0]
    return ("seq:" if s["seq"] else "conc:") + s["cfg"] + ":" + " ".join(x for x in o.split() if x.startswith(("alive", "leak")))


def nontrivial_fn(s, o):
    if s["kind"] == "fdops":
        return len(s["ops"]) >= 3
    return any(c["c"] not in ("ok", "ok2") or s["groups"][c["g"]]["s"] not in ("ok", "chunked", "slow") for c in s["txs"])


def prebuild():
    _fdops_exe()
    _state.pop("fdexe", None)


def run(res, tier):
    res.rule = ("two scenario kinds. fdops: 1-40 random fd_open/fd_close calls on a table of 4-32 entries (close only open "
                "entries; 7%% re-open an open entry) run on the real fd.cc. hist: a history on one squid instance (6 instances, "
                "memory cache on / caching off): concurrent histories = 8-20 transactions over 2-6 URL groups (server behaviour "
                "per group: ok, chunked, close-delimited, close-after-reply, cut at random byte (FIN/RST), close before reply "
                "(FIN/RST), slow, stall before reply, stall at random byte; body 0-300000 bytes; cacheable or not; GET or POST "
                "with 1-100000 byte body) x client behaviour (ok, ok and hold the connection, two requests, abort request at "
                "random permille (FIN/RST), stall request at random permille, abort response after 0-60000 bytes (FIN/RST), "
                "half-close, stop reading and hold), 2-8 client threads; sequential histories = 2-4 uncacheable transactions "
                "with the idle-pool size observed after each. After traffic: wait (<= %.0f s) for /proc/<pid>/fd to return to "
                "the pre-history count while stalled peers still hold their sockets; then liveness, cache.log, accounting. "
                "non-trivial = at least one transaction with a client or server fault" % QUIESCE)
    try:
        std.run_lab(res, PID, tier, area="fdleak", gen_scenarios=gen_scenarios, run_impl=run_impl, to_case=to_case,
                    oracle=oracle, corr_name="FdleakModel (descriptor protocol machine) vs the running squid",
                    n_quick=28, n_thorough=500, seed_salt=8, kind_fn=kind_fn, nontrivial_fn=nontrivial_fn)
    finally:
        _state.clear()
        _diag.clear()
