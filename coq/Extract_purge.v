(* Extract_purge.v — extraction of the invalidation model (C20) (ExtrOcamlBasic only). *)
Require Import ExtrOcamlBasic.
Require Import SquidV.Bytes SquidV.PurgeModel.
Extraction "m_purge.ml" request_of refetched evicted_keys method_of_image purges_others should_invalidate
  resp_maybe_cacheable same_url_hosts url_is_relative uri_add_relative_path uri_set_path uri_absolute uri_encode encode_path.
