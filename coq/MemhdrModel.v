(* MemhdrModel.v — src/stmem.cc (mem_hdr) and src/mem_node.cc as a functional model (C49).

   A mem_hdr is a splay tree (include/splay.h = SplayModel.v) of mem_nodes keyed
   by mem_hdr::NodeCompare, plus the counter Splay::elements and inmem_hi.
   A mem_node is (nodeBuffer.offset, nodeBuffer.length, the bytes deposited in data[]);
   the list holds exactly the first nodeBuffer.length bytes of data[] (invariant).

   Pointers: the C++ code holds mem_node pointers while the tree is re-shaped
   (nodeToRecieve returns one, writeAvailable appends to it in place). Here a
   pointer to a stored node is modelled by the node's offset, which is unique
   among the stored nodes (part of the invariant proved in MemhdrProofs.v):
   [set_node] replaces the stored node with that offset.

   Outcomes: [AssertFail] = an assert() of the code fails (xassert -> abort),
   [FatalDump] = fatal_dump() is called, [Stuck] = loop fuel exhausted or a
   situation the pointer abstraction does not cover (theorems show it is
   unreachable).

   Not modelled: write_pending / NodeGet (unlink() of a write-pending node),
   int64/size_t wrap-around (offsets are unbounded Z, amounts unbounded N),
   debugs() arguments (endOffset() inside debugs() is only evaluated at debug
   level 6/9). *)
Require Import SquidV.Bytes SquidV.SplayModel SquidV.gen.Memhdr_gen.
Local Open Scope Z_scope.

Record node : Type := mkNode { n_off : Z; n_length : N; n_data : bytes }.

Definition n_len (n : node) : Z := Z.of_N (n_length n).               (* (int64_t)nodeBuffer.length *)
Definition n_end (n : node) : Z := n_off n + n_len n.                 (* mem_node::end() *)
(* mem_node::space(): SM_PAGE_SIZE - nodeBuffer.length (size_t; length <= SM_PAGE_SIZE is invariant) *)
Definition n_space (n : node) : N := (sm_page_size - n_length n)%N.
(* mem_node::canAccept *)
Definition canAccept (n : node) (location : Z) : bool :=
  (location =? n_end n) && (0 <? n_space n)%N.

(* Range<int64_t>::size() of [a,b) *)
Definition range_size (a b : Z) : Z := if b >? a then b - a else 0.

(* mem_hdr::NodeCompare(left, right) with left->dataRange() = [qs,qe):
   0 if the ranges intersect, else -1 if left.start < right.start, else 1 *)
Definition node_compare (qs qe : Z) (n : node) : Z :=
  if range_size (Z.max qs (n_off n)) (Z.min qe (n_end n)) >? 0 then 0
  else if qs <? n_off n then -1 else 1.

Inductive res (A : Type) : Type :=
| Ok (a : A)
| AssertFail
| FatalDump
| Stuck.
Arguments Ok {A} _.
Arguments AssertFail {A}.
Arguments FatalDump {A}.
Arguments Stuck {A}.

Record mem_hdr : Type := mkHdr { h_nodes : tree node; h_hi : Z; h_count : N }.

Definition mh_empty : mem_hdr := mkHdr Leaf 0 0%N.
Definition with_nodes (h : mem_hdr) (t : tree node) : mem_hdr := mkHdr t (h_hi h) (h_count h).

(* SplayNode::start() / finish() from the head *)
Fixpoint leftmost (t : tree node) : option node :=
  match t with
  | Leaf => None
  | Node l x _ => match l with Leaf => Some x | Node _ _ _ => leftmost l end
  end.
Fixpoint rightmost (t : tree node) : option node :=
  match t with
  | Leaf => None
  | Node _ x r => match r with Leaf => Some x | Node _ _ _ => rightmost r end
  end.

Fixpoint tree_map (f : node -> node) (t : tree node) : tree node :=
  match t with
  | Leaf => Leaf
  | Node l x r => Node (tree_map f l) (f x) (tree_map f r)
  end.
(* in-place modification of the stored node that [n'] points to *)
Definition set_node (n' : node) (t : tree node) : tree node :=
  tree_map (fun n => if n_off n =? n_off n' then n' else n) t.

(* mem_hdr::lowestOffset *)
Definition mh_lowestOffset (h : mem_hdr) : Z :=
  match leftmost (h_nodes h) with Some n => n_off n | None => 0 end.

(* mem_hdr::endOffset: assert (result == inmem_hi) *)
Definition mh_endOffset (h : mem_hdr) : res Z :=
  let result := match rightmost (h_nodes h) with Some n => n_end n | None => 0 end in
  if result =? h_hi h then Ok result else AssertFail.

(* nodes.find(&target, NodeCompare) with target = mem_node(qs), length qe-qs.
   Splay::find returns nullptr without comparing when head == nullptr; otherwise
   NodeCompare evaluates target.dataRange() -> start(): assert(offset >= 0). *)
Definition find_range (qs qe : Z) (t : tree node) : res (tree node * option node) :=
  match t with
  | Leaf => Ok (Leaf, None)
  | Node _ _ _ => if qs <? 0 then AssertFail else Ok (sp_find (node_compare qs qe) t)
  end.

(* mem_hdr::getBlockContainingLocation *)
Definition getBlock (location : Z) (t : tree node) : res (tree node * option node) :=
  find_range location (location + 1) t.

(* mem_hdr::appendNode: nodes.insert(aNode, NodeCompare); ++elements unless a stored node compares equal *)
Definition appendNode (h : mem_hdr) (v : node) : mem_hdr * bool :=
  let '(t', dup) := sp_insert (node_compare (n_off v) (n_end v)) v (h_nodes h) in
  match dup with
  | None => (mkHdr t' (h_hi h) (h_count h + 1)%N, true)
  | Some _ => (mkHdr t' (h_hi h) (h_count h), false)
  end.

(* mem_hdr::nodeToRecieve: the header afterwards and the node returned *)
Definition nodeToRecieve (h : mem_hdr) (offset : Z) : res (mem_hdr * node) :=
  if (h_count h =? 0)%N then
    (* case 1: nothing in memory *)
    let '(h1, _) := appendNode h (mkNode offset 0%N []) in
    match leftmost (h_nodes h1) with
    | Some n => Ok (h1, n)                    (* nodes.start()->data *)
    | None => Stuck                           (* null dereference; unreachable *)
    end
  else
    (* case 2: location fits within an extant node *)
    let '(t1, candidate) :=
      if offset >? 0 then sp_find (node_compare (offset - 1) offset) (h_nodes h)
      else (h_nodes h, None) in
    let h1 := with_nodes h t1 in
    let fresh :=
      let v := mkNode offset 0%N [] in
      let '(h2, inserted) := appendNode h1 v in
      if inserted then Ok (h2, v) else Stuck  (* a never-stored node would be written to; unreachable *) in
    match candidate with
    | Some c => if canAccept c offset then Ok (h1, c) else fresh
    | None => fresh
    end.

(* mem_hdr::writeAvailable: header afterwards and the number of bytes deposited *)
Definition writeAvailable (h : mem_hdr) (aNode : node) (location : Z) (source : bytes) : res (mem_hdr * N) :=
  if negb (location =? n_off aNode + n_len aNode) then AssertFail
  else if negb (canAccept aNode location) then AssertFail
  else
    let copyLen := N.min (lenN source) (n_space aNode) in
    (* memcpy(data + length, source, copyLen); nodeBuffer.length += copyLen *)
    let aNode' := mkNode (n_off aNode) (n_length aNode + copyLen)%N (n_data aNode ++ takeN copyLen source) in
    let hi' := if h_hi h <=? location then location + Z.of_N copyLen else h_hi h in
    Ok (mkHdr (set_node aNode' (h_nodes h)) hi' (h_count h), copyLen).

(* the loop of mem_hdr::write; every iteration deposits at least one byte *)
Fixpoint write_loop (fuel : nat) (h : mem_hdr) (currentOffset : Z) (source : bytes) : res mem_hdr :=
  match source with
  | [] => Ok h                                            (* len == 0 *)
  | _ :: _ =>
      match fuel with
      | O => Stuck
      | S f =>
          match nodeToRecieve h currentOffset with
          | Ok (h1, target) =>
              match writeAvailable h1 target currentOffset source with
              | Ok (h2, wrote) =>
                  if (wrote =? 0)%N then AssertFail          (* assert (wrote) *)
                  else write_loop f h2 (currentOffset + Z.of_N wrote) (dropN wrote source)
              | AssertFail => AssertFail
              | FatalDump => FatalDump
              | Stuck => Stuck
              end
          | AssertFail => AssertFail
          | FatalDump => FatalDump
          | Stuck => Stuck
          end
      end
  end.

(* mem_hdr::write *)
Definition mh_write (h : mem_hdr) (offset : Z) (data : bytes) : res mem_hdr :=
  (* unionNotEmpty: assert (candidate.offset >= 0); nodes.find(&target, NodeCompare) *)
  if offset <? 0 then AssertFail
  else
    let '(t1, hit) := sp_find (node_compare offset (offset + Z.of_N (lenN data))) (h_nodes h) in
    match hit with
    | Some _ => FatalDump                                  (* "Attempt to overwrite already in-memory data" *)
    | None => write_loop (S (length data)) (with_nodes h t1) offset data
    end.

(* mem_hdr::copyAvailable: the bytes copied *)
Definition copyAvailable (aNode : node) (location : Z) (amount : N) : res bytes :=
  if n_off aNode >? location then Ok []
  else if negb (n_end aNode >? location) then AssertFail
  else
    let copyOffset := Z.to_N (location - n_off aNode) in
    let copyLen := N.min amount (n_length aNode - copyOffset)%N in
    Ok (takeN copyLen (dropN copyOffset (n_data aNode))).

(* the loop of mem_hdr::copy; every iteration but the last moves to a later node *)
Fixpoint copy_loop (fuel : nat) (t : tree node) (p : option node) (bytes_to_go : N) (location : Z)
         (acc : bytes) : res (tree node * bytes) :=
  match p with
  | None => Ok (t, acc)
  | Some n =>
      if (bytes_to_go =? 0)%N then Ok (t, acc)
      else
        match fuel with
        | O => Stuck
        | S f =>
            match copyAvailable n location bytes_to_go with
            | Ok chunk =>
                if (lenN chunk =? 0)%N then Ok (t, acc)    (* hit a sparse patch *)
                else
                  let location' := location + Z.of_N (lenN chunk) in
                  match getBlock location' t with
                  | Ok (t', p') => copy_loop f t' p' (bytes_to_go - lenN chunk)%N location' (acc ++ chunk)
                  | AssertFail => AssertFail
                  | FatalDump => FatalDump
                  | Stuck => Stuck
                  end
            | AssertFail => AssertFail
            | FatalDump => FatalDump
            | Stuck => Stuck
            end
        end
  end.

(* mem_hdr::copy(StoreIOBuffer(length, offset, buf)): the bytes put into buf (the return value is their number) *)
Definition mh_copy (h : mem_hdr) (offset : Z) (length : N) : res (mem_hdr * bytes) :=
  if negb (offset + Z.of_N length >? offset) then AssertFail    (* assert(target.range().end > target.range().start) *)
  else if (h_count h =? 0)%N then AssertFail                    (* "No data to read": assert (0) *)
  else
    match getBlock offset (h_nodes h) with
    | Ok (t1, None) => FatalDump                                (* "could not find start of ... in memory" *)
    | Ok (t1, Some p) =>
        match copy_loop (S (tree_size t1)) t1 (Some p) length offset [] with
        | Ok (t2, got) => Ok (with_nodes h t2, got)
        | AssertFail => AssertFail
        | FatalDump => FatalDump
        | Stuck => Stuck
        end
    | AssertFail => AssertFail
    | FatalDump => FatalDump
    | Stuck => Stuck
    end.

(* mem_hdr::hasContigousContentRange *)
Fixpoint contig_loop (fuel : nat) (t : tree node) (currentStart rstart rend : Z) : res (tree node * bool) :=
  match getBlock currentStart t with
  | Ok (t', Some curr) =>
      let currentStart' := n_end curr in
      if currentStart' >=? rend then Ok (t', true)
      else match fuel with
           | O => Stuck
           | S f => contig_loop f t' currentStart' rstart rend
           end
  | Ok (t', None) => Ok (t', range_size rstart rend =? 0)       (* !range.size() *)
  | AssertFail => AssertFail
  | FatalDump => FatalDump
  | Stuck => Stuck
  end.

Definition mh_hasContig (h : mem_hdr) (rstart rend : Z) : res (mem_hdr * bool) :=
  match contig_loop (S (tree_size (h_nodes h))) (h_nodes h) rstart rstart rend with
  | Ok (t', b) => Ok (with_nodes h t', b)
  | AssertFail => AssertFail
  | FatalDump => FatalDump
  | Stuck => Stuck
  end.

(* mem_hdr::freeDataUpto: the loop; unlink() = nodes.remove(aNode, NodeCompare) *)
Fixpoint free_loop (fuel : nat) (h : mem_hdr) (target_offset : Z) : res mem_hdr :=
  match h_nodes h with
  | Leaf => Ok h                                    (* nodes.start() == nullptr *)
  | Node Leaf _ Leaf => Ok h                        (* theStart == nodes.finish(): keep the last one *)
  | Node _ _ _ =>
      match leftmost (h_nodes h) with
      | None => Stuck
      | Some s =>
          if n_end s >? target_offset then Ok h
          else
            match fuel with
            | O => Stuck
            | S f =>
                let '(t', removed) := sp_remove (node_compare (n_off s) (n_end s)) (h_nodes h) in
                if removed then free_loop f (mkHdr t' (h_hi h) (h_count h - 1)%N) target_offset
                else Stuck                          (* the deleted node would stay in the tree; unreachable *)
            end
      end
  end.

Definition mh_free (h : mem_hdr) (target_offset : Z) : res (mem_hdr * Z) :=
  match free_loop (S (tree_size (h_nodes h))) h target_offset with
  | Ok h' => Ok (h', mh_lowestOffset h')
  | AssertFail => AssertFail
  | FatalDump => FatalDump
  | Stuck => Stuck
  end.

(* ---------- operation histories ---------- *)
Inductive op : Type :=
| OWrite (offset : Z) (data : bytes)
| OFree (target : Z)
| OCopy (offset : Z) (length : N)
| OHas (rstart rend : Z)
| OEnd
| OLow.

Inductive out : Type :=
| RWrite
| RFree (lowest : Z)
| RCopy (got : bytes)
| RHas (b : bool)
| REnd (e : Z)
| RLow (l : Z)
| RAssert
| RFatal
| RStuck.

Definition abnormal (o : out) : bool :=
  match o with RAssert | RFatal | RStuck => true | _ => false end.

Definition lift {A} (h : mem_hdr) (r : res A) (f : A -> mem_hdr * out) : mem_hdr * out :=
  match r with
  | Ok a => f a
  | AssertFail => (h, RAssert)
  | FatalDump => (h, RFatal)
  | Stuck => (h, RStuck)
  end.

Definition mh_step (h : mem_hdr) (o : op) : mem_hdr * out :=
  match o with
  | OWrite off data => lift h (mh_write h off data) (fun h' => (h', RWrite))
  | OFree target => lift h (mh_free h target) (fun '(h', lo) => (h', RFree lo))
  | OCopy off len => lift h (mh_copy h off len) (fun '(h', got) => (h', RCopy got))
  | OHas a b => lift h (mh_hasContig h a b) (fun '(h', r) => (h', RHas r))
  | OEnd => lift h (mh_endOffset h) (fun e => (h, REnd e))
  | OLow => (h, RLow (mh_lowestOffset h))
  end.

(* the process dies at the first failed assert / fatal: the history ends there *)
Fixpoint mh_run (h : mem_hdr) (ops : list op) : list out * mem_hdr :=
  match ops with
  | [] => ([], h)
  | o :: rest =>
      let '(h', r) := mh_step h o in
      if abnormal r then ([r], h')
      else let '(rs, hf) := mh_run h' rest in (r :: rs, hf)
  end.
