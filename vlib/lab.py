"""End-to-end lab: builds squid from /repo's working tree in a scratch copy (outside /repo and /verif,
removed on exit), runs it between a scripted origin stub and raw-socket clients.

Usage:
    with lab.Lab("C04") as L:
        L.build()                               # scratch copy + make
        org = L.origin()                        # scripted origin (thread)
        sq = L.squid(extra_conf="...")          # squid -N
        raw = lab.exchange(sq.port, [b"GET http://127.0.0.1:%d/x HTTP/1.1\r\nHost: x\r\n\r\n" % org.port])
"""
import base64, json, os, random, shutil, signal, socket, socketserver, subprocess, tempfile, threading, time
from .common import REPO, VERIF, sh

SCRATCH_ROOT = os.environ.get("VERIF_SCRATCH_ROOT", "/var/tmp")


def free_port():
    s = socket.socket()
    s.bind(("127.0.0.1", 0))
    p = s.getsockname()[1]
    s.close()
    return p


class LabError(Exception):
    pass


class Lab:
    def __init__(self, tag):
        self.tag = tag
        self.dir = tempfile.mkdtemp(prefix="squid-verif-%s." % tag, dir=SCRATCH_ROOT)
        os.chmod(self.dir, 0o755)
        self.tree = os.path.join(self.dir, "tree")
        self.procs = []
        self.origins = []
        self.build_log = ""
        self.built = False

    def __enter__(self):
        return self

    def __exit__(self, *a):
        self.close()

    # ---------------------------------------------------------------- build
    def build(self, targets=("squid",), timeout=3000):
        """Build squid from /repo's CURRENT working tree in a scratch copy outside /repo and /verif.
        The copy is keyed by the exact source state (HEAD + uncommitted diff + untracked sources) and shared by
        concurrent / consecutive checks of the same state (flock); copies of other source states and copies not
        used for 90 minutes are removed. VERIF_PRIVATE_BUILD=1 forces a private copy removed on exit.
        Raises LabError with the log tail."""
        import fcntl, hashlib
        t0 = time.time()
        rc0, head, e = sh(["git", "-C", REPO, "rev-parse", "HEAD"], timeout=60)
        rc, diff, e = sh(["git", "-C", REPO, "diff", "HEAD", "--", "."], timeout=120)
        rc, st, e = sh(["git", "-C", REPO, "status", "--porcelain", "--untracked-files=no"], timeout=60)
        key = hashlib.sha256((head + "\0" + diff + "\0" + st).encode("utf-8", "replace")).hexdigest()[:16]
        private = bool(os.environ.get("VERIF_PRIVATE_BUILD")) or rc0 != 0 or rc != 0   # no git info: never share
        root = os.path.join(SCRATCH_ROOT, "squid-verif-build")
        os.makedirs(root, exist_ok=True)
        os.chmod(root, 0o755)
        if private:
            self.tree = os.path.join(self.dir, "tree")
            self._build_into(self.tree, st, timeout)
        else:
            self.tree = os.path.join(root, key)
            lockf = open(os.path.join(root, ".lock-" + key), "w")
            try:
                fcntl.flock(lockf, fcntl.LOCK_EX)
                marker = os.path.join(self.tree, ".verif-build-ok")
                if not os.path.exists(marker):
                    shutil.rmtree(self.tree, ignore_errors=True)
                    self._build_into(self.tree, st, timeout)
                    with open(marker, "w") as f:
                        f.write(key)
                os.utime(marker, None)
                # drop stale copies: other source states whose lock is free (nobody is building or about to use
                # them) and that were not used for 90 minutes (or never finished building)
                now = time.time()
                for d in os.listdir(root):
                    p = os.path.join(root, d)
                    if d.startswith(".") or p == self.tree or not os.path.isdir(p):
                        continue
                    try:
                        lf = open(os.path.join(root, ".lock-" + d), "a")
                    except OSError:
                        continue
                    try:
                        try:
                            fcntl.flock(lf, fcntl.LOCK_EX | fcntl.LOCK_NB)
                        except OSError:
                            continue          # in use
                        m = os.path.join(p, ".verif-build-ok")
                        if os.path.exists(m):
                            if now - os.path.getmtime(m) > 5400:
                                shutil.rmtree(p, ignore_errors=True)
                        else:
                            shutil.rmtree(p, ignore_errors=True)   # abandoned partial build
                    finally:
                        try:
                            fcntl.flock(lf, fcntl.LOCK_UN)
                        except OSError:
                            pass
                        lf.close()
            finally:
                fcntl.flock(lockf, fcntl.LOCK_UN)
                lockf.close()
        self.built = True
        self.build_s = time.time() - t0
        return os.path.join(self.tree, "src", "squid")

    def _build_into(self, tree, status_porcelain, timeout):
        rc, o, e = sh(["rsync", "-a", "--delete", "--exclude", ".git", REPO + "/", tree + "/"], timeout=900)
        if rc != 0:
            raise LabError("rsync failed: " + e[-500:])
        # sources modified relative to HEAD: make sure they are newer than their objects
        for line in status_porcelain.splitlines():
            f = line[3:].strip()
            p = os.path.join(tree, f)
            if os.path.isfile(p):
                os.utime(p, None)
        rc, o, e = sh(["make", "-j16"], cwd=tree, timeout=timeout)
        self.build_log = (o + e)[-6000:]
        if rc != 0 or not os.path.exists(os.path.join(tree, "src", "squid")):
            shutil.rmtree(tree, ignore_errors=True)
            raise LabError("squid no longer builds from /repo's working tree:\n" + self.build_log[-2500:])

    # ---------------------------------------------------------------- origin
    def origin(self, **kw):
        o = Origin(**kw)
        self.origins.append(o)
        return o

    # ---------------------------------------------------------------- squid
    def squid(self, extra_conf="", workers=0, env=None, name=None, cache_mem="8 MB", wait=20, preconf="", access="http_access allow all"):
        if not self.built:
            self.build()
        s = Squid(self, extra_conf, workers, env, name or ("v%s%dp%d" % (self.tag.lower(), len(self.procs), os.getpid())),
                  cache_mem, preconf, access)
        self.procs.append(s)
        s.start(wait)
        return s

    # ---------------------------------------------------------------- shims
    def shim(self, name):
        """compile lab/shim_<name>.c into the scratch dir; returns the .so path (for LD_PRELOAD)"""
        so = os.path.join(self.dir, "shim_%s.so" % name)
        if not os.path.exists(so):
            rc, o, e = sh(["gcc", "-O1", "-shared", "-fPIC", "-o", so, os.path.join(VERIF, "lab", "shim_%s.c" % name), "-ldl"],
                          timeout=120)
            if rc != 0:
                raise LabError("shim build failed: " + e[-800:])
        return so

    def clock(self):
        """returns a Clock whose env() makes squid follow an adjustable offset"""
        return Clock(self)

    def close(self):
        for p in self.procs:
            try:
                p.stop()
            except Exception:
                pass
        for o in self.origins:
            try:
                o.close()
            except Exception:
                pass
        if not os.environ.get("VERIF_KEEP_SCRATCH"):
            shutil.rmtree(self.dir, ignore_errors=True)


class Clock:
    def __init__(self, lab):
        import struct
        self.struct = struct
        self.path = os.path.join(lab.dir, "clock.%d" % len(os.listdir(lab.dir)))
        with open(self.path, "wb") as f:
            f.write(struct.pack("q", 0))
        os.chmod(self.path, 0o644)
        self.so = lab.shim("time")
        self.offset = 0

    def env(self):
        return {"LD_PRELOAD": self.so, "VERIF_TIME_FILE": self.path}

    def set(self, seconds, settle=1.3):
        """move squid's clock to real time + seconds; squid notices within one event-loop turn (~1 s)"""
        self.offset = int(seconds)
        with open(self.path, "r+b") as f:
            f.write(self.struct.pack("q", self.offset))
        if settle:
            time.sleep(settle)

    def now(self):
        return time.time() + self.offset


def http_date(t):
    return time.strftime("%a, %d %b %Y %H:%M:%S GMT", time.gmtime(t))


class Squid:
    def __init__(self, lab, extra_conf, workers, env, name, cache_mem, preconf, access):
        self.lab = lab
        self.name = name
        self.port = free_port()
        self.dir = os.path.join(lab.dir, name)
        os.makedirs(self.dir, exist_ok=True)
        for d in (lab.dir, self.dir):
            os.chmod(d, 0o755)
        shutil.chown(self.dir, "nobody")
        t = lab.tree
        self.workers = workers
        self.conf = os.path.join(self.dir, "squid.conf")
        self.cache_log = os.path.join(self.dir, "cache.log")
        self.access_log = os.path.join(self.dir, "access.log")
        conf = """
%s
http_port 127.0.0.1:%d
cache_effective_user nobody
pid_filename %s/squid.pid
cache_log %s
access_log stdio:%s
coredump_dir %s
mime_table %s/src/mime.conf.default
icon_directory %s/icons
error_directory %s/errors/templates
unlinkd_program %s/src/unlinkd
logfile_daemon %s/src/log/file/log_file_daemon
pinger_enable off
dns_nameservers 127.0.0.1
visible_hostname verif.test
shutdown_lifetime 0 seconds
cache_mem %s
%s
%s
""" % (preconf, self.port, self.dir, self.cache_log, self.access_log, self.dir, t, t, t, t, t, cache_mem,
            extra_conf, access)
        if workers:
            conf += "workers %d\n" % workers
        with open(self.conf, "w") as f:
            f.write(conf)
        self.env = dict(os.environ)
        if env:
            self.env.update(env)
        self.proc = None

    def _rm_shm(self):
        for f in os.listdir("/dev/shm"):
            if f.startswith("squid-%s-" % self.name) or f.startswith("squid-%s_" % self.name) or f == "squid-" + self.name \
               or f.startswith(self.name + "-") or f.startswith(self.name + "_"):
                try:
                    os.unlink(os.path.join("/dev/shm", f))
                except OSError:
                    pass

    def run_z(self):
        """squid -z (create cache dirs)"""
        self._rm_shm()
        rc, o, e = sh([os.path.join(self.lab.tree, "src", "squid"), "-N", "-z", "-n", self.name, "-f", self.conf],
                      env=self.env, timeout=120)
        self._rm_shm()
        return rc

    def start(self, wait=20):
        self._rm_shm()
        args = [os.path.join(self.lab.tree, "src", "squid"), "-n", self.name, "-f", self.conf]
        args.insert(1, "-N" if not self.workers else "--foreground")
        self.stderr = open(os.path.join(self.dir, "stderr"), "ab")
        self.proc = subprocess.Popen(args, env=self.env, stdout=self.stderr, stderr=self.stderr, cwd=self.dir,
                                     start_new_session=True)
        t0 = time.time()
        while time.time() - t0 < wait:
            if self.proc.poll() is not None:
                raise LabError("squid exited at startup rc=%s: %s" % (self.proc.returncode, self.log_tail()))
            try:
                s = socket.create_connection(("127.0.0.1", self.port), timeout=0.5)
                s.close()
                return
            except OSError:
                time.sleep(0.1)
        raise LabError("squid did not listen within %ss: %s" % (wait, self.log_tail()))

    def alive(self):
        return self.proc is not None and self.proc.poll() is None

    def log_tail(self, n=2000):
        try:
            with open(self.cache_log, "rb") as f:
                return f.read()[-n:].decode("utf-8", "replace")
        except OSError:
            try:
                with open(os.path.join(self.dir, "stderr"), "rb") as f:
                    return f.read()[-n:].decode("utf-8", "replace")
            except OSError:
                return ""

    def log_has(self, *needles):
        try:
            with open(self.cache_log, "rb") as f:
                txt = f.read().decode("utf-8", "replace")
        except OSError:
            return []
        return [n for n in needles if n in txt]

    def access_lines(self):
        try:
            with open(self.access_log, "rb") as f:
                return f.read().decode("utf-8", "replace").splitlines()
        except OSError:
            return []

    def stop(self, sig=signal.SIGTERM, wait=10):
        if self.proc is None:
            return
        if self.proc.poll() is None:
            try:
                os.killpg(self.proc.pid, sig)
            except OSError:
                pass
            t0 = time.time()
            while self.proc.poll() is None and time.time() - t0 < wait:
                time.sleep(0.05)
            if self.proc.poll() is None:
                try:
                    os.killpg(self.proc.pid, signal.SIGKILL)
                except OSError:
                    pass
                self.proc.wait()
        else:
            try:
                os.killpg(self.proc.pid, signal.SIGKILL)
            except OSError:
                pass
        self._rm_shm()
        self.proc = None

    def kill(self):
        self.stop(sig=signal.SIGKILL, wait=3)


# ------------------------------------------------------------------ origin stub
def spec_path(spec, rid="r"):
    """URL path that makes the origin stub behave as `spec` (a dict). Never uses a query string."""
    return "/%s/S/%s" % (rid, base64.urlsafe_b64encode(json.dumps(spec, separators=(",", ":")).encode()).decode().rstrip("="))


def body_bytes(n, seed=0):
    """deterministic pseudo-random body of n bytes (all 256 values)"""
    r = random.Random(seed)
    return bytes(r.getrandbits(8) for _ in range(n)) if n < 4096 else (bytes(r.getrandbits(8) for _ in range(4096)) * (n // 4096 + 1))[:n]


class _Handler(socketserver.BaseRequestHandler):
    def handle(self):
        org = self.server.org
        conn = self.request
        conn.settimeout(org.io_timeout)
        buf = b""
        try:
            while True:
                # read one request head
                while b"\r\n\r\n" not in buf:
                    d = conn.recv(65536)
                    if not d:
                        return
                    buf += d
                head, rest = buf.split(b"\r\n\r\n", 1)
                lines = head.split(b"\r\n")
                reqline = lines[0].decode("latin1")
                hdrs = []
                for l in lines[1:]:
                    if b":" in l:
                        n, v = l.split(b":", 1)
                        hdrs.append((n.decode("latin1"), v.strip().decode("latin1")))
                hl = {n.lower(): v for n, v in hdrs}
                body = b""
                if "chunked" in hl.get("transfer-encoding", "").lower():
                    raw = rest
                    while True:
                        dec = dechunk(raw)
                        if dec is not None:
                            body, consumed = dec
                            rest = raw[consumed:]
                            break
                        d = conn.recv(65536)
                        if not d:
                            body = b"<truncated-chunked>" + raw
                            rest = b""
                            break
                        raw += d
                elif "content-length" in hl:
                    n = int(hl["content-length"])
                    while len(rest) < n:
                        d = conn.recv(65536)
                        if not d:
                            break
                        rest += d
                    body, rest = rest[:n], rest[n:]
                buf = rest
                parts = reqline.split(" ")
                target = parts[1] if len(parts) > 1 else ""
                spec = {}
                rid = None
                path = target
                if "://" in path:
                    path = "/" + path.split("://", 1)[1].split("/", 1)[-1] if "/" in path.split("://", 1)[1] else "/"
                segs = path.split("/")
                if len(segs) >= 4 and segs[2] == "S":
                    rid = segs[1]
                    b = segs[3].split("?")[0]
                    try:
                        spec = json.loads(base64.urlsafe_b64decode(b + "=" * (-len(b) % 4)))
                    except Exception:
                        spec = {}
                elif len(segs) >= 2:
                    rid = segs[1]
                rec = {"line": reqline, "headers": hdrs, "body": body, "rid": rid, "t": time.time(),
                       "conn": id(conn), "raw_head": head}
                with org.lock:
                    rec["n"] = len(org.log)
                    org.log.append(rec)
                    k = sum(1 for r in org.log if r["rid"] == rid)
                if org.hook:
                    spec = org.hook(rec, spec) or spec
                # per-arrival overrides: spec["nth"] = {"2": {...}} applies to the 2nd arrival of this rid
                if "nth" in spec and str(k) in spec["nth"]:
                    s2 = dict(spec); s2.update(spec["nth"][str(k)]); spec = s2
                if not self.respond(conn, spec, rec, hl):
                    return
        except (OSError, socket.timeout):
            return

    def respond(self, conn, spec, rec, hl):
        if spec.get("delay"):
            time.sleep(spec["delay"])
        if spec.get("close_before_reply"):
            if spec.get("reset"):
                conn.setsockopt(socket.SOL_SOCKET, socket.SO_LINGER, b"\x01\x00\x00\x00\x00\x00\x00\x00")
            return False
        if "raw" in spec:
            data = base64.b64decode(spec["raw"])
            self.send_split(conn, data, spec)
            return not spec.get("close", True)
        status = spec.get("status", 200)
        if "body_gen" in spec:
            body = body_bytes(spec["body_gen"][0], spec["body_gen"][1])
        elif "body_b64" in spec:
            body = base64.b64decode(spec["body_b64"])
        else:
            body = spec.get("body", "ok:%s:%d" % (rec["rid"], rec["n"])).encode("latin1")
        ims = spec.get("cond304") and ("if-none-match" in hl or "if-modified-since" in hl)
        if ims:
            status = 304
        hdrs = [tuple(h) for h in spec.get("headers", [])]
        if not spec.get("nodate") and not any(n.lower() == "date" for n, _ in hdrs):
            hdrs.append(("Date", http_date(time.time() + self.server.org.clock_offset())))
        framing = spec.get("framing", "cl")
        method = rec["line"].split(" ")[0]
        out = b"HTTP/1.1 %d %s\r\n" % (status, spec.get("reason", "OK").encode())
        for n, v in hdrs:
            out += n.encode("latin1") + b": " + v.encode("latin1") + b"\r\n"
        nobody = status in (204, 304) or 100 <= status < 200 or method == "HEAD"
        payload = b""
        if nobody:
            if framing == "cl" and status != 304 and method == "HEAD":
                out += b"Content-Length: %d\r\n" % len(body)
        elif framing == "cl":
            out += b"Content-Length: %d\r\n" % spec.get("declared_len", len(body))
            payload = body
        elif framing == "chunked":
            out += b"Transfer-Encoding: chunked\r\n"
            sizes = spec.get("chunks") or [max(len(body), 1)]
            i = 0; k = 0
            while i < len(body):
                n = max(1, sizes[k % len(sizes)]); k += 1
                c = body[i:i + n]; i += n
                payload += b"%x%s\r\n" % (len(c), spec.get("chunk_ext", "").encode()) + c + b"\r\n"
            if not spec.get("omit_last_chunk"):
                payload += b"0\r\n" + spec.get("trailer", "").encode() + b"\r\n"
        else:  # close-delimited
            out += b"Connection: close\r\n"
            payload = body
        out += b"\r\n"
        data = out + payload
        cut = spec.get("cut_after")
        if cut is not None:
            data = data[:len(out) + cut]
        self.send_split(conn, data, spec)
        if cut is not None:
            if spec.get("reset"):
                conn.setsockopt(socket.SOL_SOCKET, socket.SO_LINGER, b"\x01\x00\x00\x00\x00\x00\x00\x00")
            return False
        if framing == "close" and not nobody:
            return False
        return not spec.get("close", False)

    def send_split(self, conn, data, spec):
        splits = spec.get("splits")
        if not splits:
            conn.sendall(data)
            return
        i = 0
        for n in splits:
            if i >= len(data):
                break
            conn.sendall(data[i:i + n]); i += n
            time.sleep(spec.get("split_delay", 0.01))
        if i < len(data):
            conn.sendall(data[i:])


class _Server(socketserver.ThreadingTCPServer):
    allow_reuse_address = True
    daemon_threads = True
    request_queue_size = 128


class Origin:
    def __init__(self, hook=None, io_timeout=30):
        self.log = []
        self.lock = threading.Lock()
        self.hook = hook
        self.io_timeout = io_timeout
        self.clock = None
        self.srv = _Server(("127.0.0.1", 0), _Handler)
        self.srv.org = self
        self.port = self.srv.server_address[1]
        self.th = threading.Thread(target=self.srv.serve_forever, kwargs={"poll_interval": 0.05}, daemon=True)
        self.th.start()

    def clock_offset(self):
        return self.clock.offset if self.clock else 0

    def url(self, spec, rid="r"):
        return "http://127.0.0.1:%d%s" % (self.port, spec_path(spec, rid))

    def arrivals(self, rid=None):
        with self.lock:
            return [r for r in self.log if rid is None or r["rid"] == rid]

    def clear(self):
        with self.lock:
            self.log.clear()

    def close(self):
        try:
            self.srv.shutdown()
            self.srv.server_close()
        except Exception:
            pass


# ------------------------------------------------------------------ client side
def dechunk(raw):
    """returns (body, consumed) for a complete chunked body at the start of raw, else None; raises ValueError if malformed"""
    i = 0
    body = b""
    while True:
        j = raw.find(b"\r\n", i)
        if j < 0:
            return None
        szs = raw[i:j].split(b";")[0].strip()
        try:
            n = int(szs, 16)
        except ValueError:
            raise ValueError("bad chunk size %r" % szs[:20])
        i = j + 2
        if n == 0:
            # trailers until empty line
            while True:
                j = raw.find(b"\r\n", i)
                if j < 0:
                    return None
                if j == i:
                    return body, j + 2
                i = j + 2
        if len(raw) < i + n + 2:
            return None
        body += raw[i:i + n]
        if raw[i + n:i + n + 2] != b"\r\n":
            raise ValueError("missing CRLF after chunk data")
        i += n + 2


class Resp:
    def __init__(self):
        self.status = None
        self.version = ""
        self.headers = []
        self.body = b""
        self.complete = False     # framing says the message is complete
        self.framing = None
        self.raw_head = b""
        self.size = 0

    def get(self, name, default=None):
        for n, v in self.headers:
            if n.lower() == name.lower():
                return v
        return default

    def getall(self, name):
        return [v for n, v in self.headers if n.lower() == name.lower()]


def parse_responses(raw, methods=None, eof=True):
    """Reference HTTP/1.1 response reader: splits a byte stream into responses (list of Resp, leftover)."""
    out = []
    i = 0
    k = 0
    while i < len(raw):
        j = raw.find(b"\r\n\r\n", i)
        r = Resp()
        if j < 0:
            r.raw_head = raw[i:]
            out.append(r)
            return out, b""
        head = raw[i:j]
        r.raw_head = head
        lines = head.split(b"\r\n")
        sl = lines[0].split(b" ", 2)
        try:
            r.version = sl[0].decode("latin1"); r.status = int(sl[1])
        except Exception:
            out.append(r)
            return out, raw[i:]
        for l in lines[1:]:
            if b":" in l:
                n, v = l.split(b":", 1)
                r.headers.append((n.decode("latin1"), v.strip().decode("latin1")))
        i = j + 4
        method = methods[k] if methods and k < len(methods) else "GET"
        if 100 <= r.status < 200:
            r.complete = True; r.framing = "none"
            out.append(r)
            continue   # interim response: same request still pending
        k += 1
        te = (r.get("Transfer-Encoding") or "").lower()
        if method == "HEAD" or r.status in (204, 304):
            r.complete = True; r.framing = "none"
        elif "chunked" in te:
            r.framing = "chunked"
            try:
                d = dechunk(raw[i:])
            except ValueError:
                d = None
                r.framing = "chunked-bad"
            if d is None:
                # incomplete: collect what decodes
                r.body = partial_dechunk(raw[i:])
                i = len(raw)
            else:
                r.body, c = d
                r.complete = True
                i += c
        elif r.get("Content-Length") is not None:
            r.framing = "cl"
            try:
                n = int(r.get("Content-Length"))
            except ValueError:
                n = 0
            r.body = raw[i:i + n]
            r.complete = len(r.body) == n
            i += len(r.body)
        else:
            r.framing = "close"
            r.body = raw[i:]
            r.complete = eof
            i = len(raw)
        out.append(r)
    return out, b""


def partial_dechunk(raw):
    i = 0
    body = b""
    while True:
        j = raw.find(b"\r\n", i)
        if j < 0:
            return body
        try:
            n = int(raw[i:j].split(b";")[0].strip(), 16)
        except ValueError:
            return body
        i = j + 2
        if n == 0:
            return body
        body += raw[i:i + n]
        if len(raw) < i + n + 2:
            return body
        i += n + 2


def exchange(port, segments, idle=1.0, total=15.0, gap=0.02, half_close=False, until=None, recv_first=False):
    """Connect to 127.0.0.1:port, send the byte segments (gap seconds apart), read until the peer closes,
    `idle` seconds pass without data after at least one byte (or after sending when nothing arrives for `total`),
    or until(raw) returns True. Returns (raw bytes received, closed_by_peer)."""
    s = socket.create_connection(("127.0.0.1", port), timeout=5)
    raw = b""
    closed = False
    try:
        for k, seg in enumerate(segments):
            if seg:
                try:
                    s.sendall(seg)
                except OSError:
                    break
            if k + 1 < len(segments):
                time.sleep(gap)
        if half_close:
            try:
                s.shutdown(socket.SHUT_WR)
            except OSError:
                pass
        t0 = time.time()
        last = time.time()
        s.settimeout(0.05)
        while True:
            now = time.time()
            if now - t0 > total:
                break
            if raw and now - last > idle:
                break
            if until and until(raw):
                break
            try:
                d = s.recv(262144)
            except socket.timeout:
                continue
            except OSError:
                closed = True
                break
            if not d:
                closed = True
                break
            raw += d
            last = time.time()
    finally:
        try:
            s.close()
        except OSError:
            pass
    return raw, closed


def n_complete(raw, want, methods=None):
    """until-predicate helper: True when `want` complete final responses are in raw"""
    try:
        rs, _ = parse_responses(raw, methods, eof=False)
    except Exception:
        return False
    fin = [r for r in rs if r.status is not None and not (100 <= r.status < 200)]
    return len(fin) >= want and all(r.complete for r in fin[:want])


def get(port, url, headers=(), method="GET", body=None, version="1.1", idle=0.6, total=15.0):
    """one request on a fresh connection; returns Resp (or None) and raw"""
    h = "%s %s HTTP/%s\r\n" % (method, url, version)
    hs = list(headers)
    if not any(n.lower() == "host" for n, _ in hs):
        host = url.split("://", 1)[1].split("/", 1)[0] if "://" in url else "verif.test"
        hs.insert(0, ("Host", host))
    if body is not None and not any(n.lower() in ("content-length", "transfer-encoding") for n, _ in hs):
        hs.append(("Content-Length", str(len(body))))
    for n, v in hs:
        h += "%s: %s\r\n" % (n, v)
    h += "\r\n"
    data = h.encode("latin1") + (body or b"")
    raw, closed = exchange(port, [data], idle=idle, total=total, until=lambda r: n_complete(r, 1, [method]))
    rs, _ = parse_responses(raw, [method], eof=closed)
    fin = [r for r in rs if r.status is not None and not (100 <= r.status < 200)]
    return (fin[0] if fin else None), raw
