Require Import SquidV.Bytes SquidV.HopModel SquidV.HopProofs SquidV.CondModel SquidV.HopRevalModel.
Require Import SquidV.gen.HdrTable_gen.
Local Open Scope N_scope.

Lemma map_snd_tag_from {A} (l : list A) i : map snd (tag_from i l) = l.
Proof. revert i; induction l as [|x r IH]; intros i; cbn [tag_from map snd]; [reflexivity|now rewrite IH]. Qed.

Lemma filter_map_snd {A} (p : A -> bool) (l : list (N * A)) :
  map snd (filter (fun q => p (snd q)) l) = filter p (map snd l).
Proof. induction l as [|[i x] r IH]; cbn [filter map snd]; [reflexivity|]. destruct (p x); cbn [map snd]; now rewrite IH. Qed.

(* sequential deletion = one filter against all non-skipped fresh entries *)
Lemma filter_true {A} (l : list A) : filter (fun _ => true) l = l.
Proof. induction l as [|x r IH]; cbn [filter]; [reflexivity|now rewrite IH]. Qed.

Lemma filter_filter {A} (p q : A -> bool) l : filter p (filter q l) = filter (fun x => q x && p x) l.
Proof.
  induction l as [|x r IH]; cbn [filter]; [reflexivity|].
  destruct (q x); cbn [filter andb]; [destruct (p x); now rewrite IH|exact IH].
Qed.

Lemma filter_ext' {A} (p q : A -> bool) l : (forall x, p x = q x) -> filter p l = filter q l.
Proof. intros H. induction l as [|x r IH]; cbn [filter]; [reflexivity|]. rewrite H, IH. reflexivity. Qed.

Lemma update_delete_filter fresh : forall cur,
  update_delete fresh cur =
  filter (fun h => negb (existsb (fun e => negb (skip_update_header (hdr_id e)) && deleted_by e h) fresh)) cur.
Proof.
  induction fresh as [|e r IH]; intros cur; cbn [update_delete existsb].
  - cbn [negb]. now rewrite filter_true.
  - destruct (skip_update_header (hdr_id e)) eqn:Es; cbn [negb andb orb].
    + apply IH.
    + rewrite IH, filter_filter. apply filter_ext'. intros h.
      destruct (deleted_by e h); cbn [negb andb orb]; reflexivity.
Qed.

(* the index-tracking merge is HttpHeader::update (CondModel.hdr_update) *)
Theorem merged_tagged_is_update old fresh : map snd (merged_tagged old fresh) = hdr_update old fresh.
Proof.
  unfold merged_tagged, hdr_update, update_added. rewrite map_app.
  rewrite (filter_map_snd (fun h => negb (existsb (fun e => negb (skip_update_header (hdr_id e)) && deleted_by e h) fresh))).
  rewrite (filter_map_snd (fun h => negb (skip_update_header (hdr_id h)))).
  rewrite !map_snd_tag_from. now rewrite update_delete_filter.
Qed.

(* after a revalidation the client still receives no hop-by-hop / Connection-named field: the response
   filter guarantee applies to the merged header whatever the stored and the 304 header sets were *)
Theorem reval_filter_sound old fresh e :
  In e (resp_filter false (hdr_update old fresh)) ->
  is_hopbyhop (hdr_id e) = false /\
  (hdr_id e =? ID_PROXY_AUTHENTICATE) = false /\
  is_member (conn_value (filter (fun h => negb (hdr_id h =? ID_PROXY_AUTHENTICATE)) (hdr_update old fresh))) (h_name e) = false /\
  (In e old \/ In e fresh).
Proof.
  intros H. apply resp_filter_sound in H. destruct H as (H1 & H2 & H3 & H4).
  repeat split; try assumption.
  unfold hdr_update in H4. apply in_app_or in H4. destruct H4 as [H4|H4].
  - left. rewrite update_delete_filter in H4. apply filter_In in H4. tauto.
  - right. unfold update_added in H4. apply filter_In in H4. tauto.
Qed.

(* the 304's own Connection field is part of the merged header (it is not skipped by update), so whatever
   it names is removed before relaying *)
Theorem reval_connection_of_304_is_honoured old fresh c :
  In c fresh -> (hdr_id c =? ID_CONNECTION) = true ->
  In c (hdr_update old fresh).
Proof.
  intros Hin Hid. unfold hdr_update. apply in_or_app. right. unfold update_added. apply filter_In. split; [exact Hin|].
  unfold skip_update_header. apply N.eqb_eq in Hid. rewrite Hid.
  assert (E : (ID_CONNECTION =? ID_VARY) = false) by (vm_compute; reflexivity). now rewrite E.
Qed.

(* ... but the property itself fails on this path: a stored field nominated by the stored response's own
   Connection field is relayed once a 304 with another Connection field has been merged *)
Definition wit_old : list hdr :=
  [ {| h_name := map N.of_nat [67;111;110;110;101;99;116;105;111;110]%nat; h_value := map N.of_nat [88;45;70;111;111]%nat |};
    {| h_name := map N.of_nat [88;45;70;111;111]%nat; h_value := [118] |} ].
Definition wit_fresh : list hdr :=
  [ {| h_name := map N.of_nat [67;111;110;110;101;99;116;105;111;110]%nat; h_value := map N.of_nat [120;45;111;116;104;101;114]%nat |} ].

Theorem reval_stored_field_refuted :
  exists old fresh e, In e old /\ is_member (conn_value old) (h_name e) = true /\
                      In e (resp_filter false (hdr_update old fresh)).
Proof.
  exists wit_old, wit_fresh, (nth 1 wit_old {| h_name := []; h_value := [] |}).
  split; [vm_compute; auto|]. split; [vm_compute; reflexivity|]. vm_compute. auto.
Qed.
