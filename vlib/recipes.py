"""Link recipes (prebuilt support objects from /repo's in-tree build), copied
from the unit-test link lines of src/Makefile (make -n tests/testX)."""

HTTP1 = ("tests/stub_HelperChildConfig.o MemBuf.o tests/stub_MemObject.o String.o tests/stub_cache_cf.o "
         "tests/stub_cache_manager.o tests/stub_cbdata.o tests/stub_comm.o tests/stub_debug.o tests/stub_event.o "
         "tests/stub_libanyp.o tests/stub_libmem.o tests/stub_libsecurity.o mime_header.o tests/stub_stmem.o "
         "tests/stub_store.o tests/stub_store_stats.o tests/stub_tools.o wordlist.o test_tools.o globals.o "
         "tests/stub_libtime.o http/libhttp.la parser/libparser.la anyp/libanyp.la SquidConfig.o base/libbase.la "
         "ip/libip.la sbuf/libsbuf.la ../lib/libmiscutil.la ../compat/libcompatsquid.la").split()

TOKENIZER = ("tests/stub_StatHist.o tests/stub_debug.o tests/stub_libmem.o parser/libparser.la sbuf/libsbuf.la "
             "base/libbase.la ../compat/libcompatsquid.la").split()

HTML = ("test_tools.o globals.o tests/stub_debug.o tests/stub_libmem.o html/libhtml.la sbuf/libsbuf.la "
        "base/libbase.la ../compat/libcompatsquid.la").split()

URL = ("tests/stub_HelperChildConfig.o tests/stub_HttpHeader.o tests/stub_HttpRequest.o tests/stub_StatHist.o "
       "String.o tests/stub_access_log.o tests/stub_cbdata.o tests/stub_debug.o tests/stub_libhttp.o "
       "tests/stub_libmem.o anyp/libanyp.la libsquid.la parser/libparser.la base/libbase.la ip/libip.la "
       "sbuf/libsbuf.la ../lib/libmiscencoding.la ../compat/libcompatsquid.la").split()

HTTPREPLY = ("SquidConfig.o tests/stub_CachePeer.o ConfigParser.o tests/stub_ETag.o tests/stub_HelperChildConfig.o HttpBody.o "
             "HttpControlMsg.o HttpHdrCc.o HttpHdrContRange.o HttpHdrRange.o HttpHdrSc.o HttpHdrScTarget.o "
             "HttpHeader.o HttpHeaderTools.o HttpReply.o tests/stub_HttpRequest.o tests/stub_Instance.o "
             "MasterXaction.o MemBuf.o Notes.o StatCounters.o tests/stub_StatHist.o StrList.o String.o "
             "tests/stub_access_log.o tests/stub_cache_cf.o tests/stub_cache_manager.o cbdata.o "
             "tests/stub_client_side.o tests/stub_comm.o tests/stub_debug.o tests/stub_errorpage.o "
             "tests/stub_event.o tests/stub_fatal.o tests/stub_fd.o tests/stub_libanyp.o tests/stub_libauth.o "
             "tests/stub_libcomm.o tests/stub_liberror.o tests/stub_libformat.o tests/stub_libmem.o "
             "tests/stub_libmgr.o tests/stub_libsecurity.o tests/stub_libsslsquid.o mime_header.o "
             "tests/stub_neighbors.o tests/stub_store.o tests/stub_store_stats.o tests/stub_tools.o wordlist.o "
             "test_tools.o globals.o tests/stub_fde.o hier_code.o tests/stub_libtime.o CommCalls.o "
             "http/libhttp.la parser/libparser.la acl/libacls.la acl/libapi.la acl/libstate.la anyp/libanyp.la "
             "ip/libip.la base/libbase.la ipc/libipc.la sbuf/libsbuf.la ../lib/libmisccontainers.la "
             "../lib/libmiscencoding.la ../lib/libmiscutil.la ../compat/libcompatsquid.la").split()

ENCODING = ("../lib/libmiscencoding.la ../lib/libmiscutil.la ../compat/libcompatsquid.la").split()
