(* Extract_intrange.v — extraction of the C43 model (ExtrOcamlBasic only). *)
Require Import ExtrOcamlBasic.
Require Import SquidV.Bytes SquidV.IntrangeModel.
Extraction "m_intrange.ml" ir_run ir_parse ir_match ir_parse_token xatos.
