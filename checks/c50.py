"""C50: character sets and tokenizers follow set semantics."""
import random
from vlib import std, hbuild, coq, recipes, common

PID = "C50"
META = {
    "text": "Theorems (Properties_C50.v, 13, closed under the global context) state for ALL sets, inputs and limits that the CharacterSet operations are the set operations and that Tokenizer prefix/suffix/skipAll/skipAllTrailing/token return exactly the maximal (or limit-bounded) runs and leave the rest; the named sets regenerated from the code are proved equal to their RFC definitions. The model is tied to the code by differential runs of the extracted model against src/base/CharacterSet.cc and src/parser/Tokenizer.cc compiled from the working tree (UBSan).",
    "note": "Trusted: Coq kernel, extraction, gen/gen_charsets.cc, harness/h_tok.cc; the hand-written TokModel.v/CharSetModel.v are validated against the code only on the generated cases (30k quick / 400k thorough).",
    "technique": "Coq proof (induction on lists, span lemmas; vm_compute sweep over the 256 regenerated table entries) + extracted-model differential correspondence",
}
NPOS = 4294967295
FRESH = ["src/base/CharacterSet.cc", "src/parser/Tokenizer.cc"] + hbuild.glob_fresh("src/sbuf")


def impl(sanitize="ubsan"):
    return hbuild.build("h_tok", "h_tok.cc", fresh=FRESH, link=recipes.TOKENIZER, sanitize=sanitize)


def prebuild():
    impl()


def sethex(members):
    raw = bytearray(32)
    for c in members:
        raw[c // 8] |= 1 << (c % 8)
    return raw.hex()


def setof(h):
    raw = bytes.fromhex(h)
    return set(c for c in range(256) if raw[c // 8] >> (c % 8) & 1)


def hx(b):
    return bytes(b).hex() if len(b) else "-"


def unhx(h):
    return b"" if h == "-" else bytes.fromhex(h)


NAMED = [set(range(48, 58)), set(range(65, 91)) | set(range(97, 123)), {32, 9}, {13}, {10}, {13, 10},
         set(range(33, 127)), set(range(128, 256)), set(range(0, 32)) | {127}, set(), set(range(256)),
         {0}, {255}, {0, 255}, {32}, set(b"!#$%&'*+-.^_`|~") | set(range(48, 58)) | set(range(65, 91)) | set(range(97, 123))]


def rand_set(rng):
    k = rng.random()
    if k < 0.4:
        return set(rng.choice(NAMED))
    if k < 0.6:
        return set(rng.sample(range(256), rng.choice([1, 2, 3, 5, 20, 128, 250])))
    if k < 0.8:
        lo = rng.randrange(256); hi = rng.randrange(lo, 256)
        return set(range(lo, hi + 1))
    return set(c for c in range(256) if rng.random() < rng.choice([0.05, 0.5, 0.95]))


def rand_input(rng, s):
    """mostly runs of members / non-members so that every branch is taken"""
    ins = sorted(s) or [0]
    outs = sorted(set(range(256)) - s) or [0]
    parts = []
    for _ in range(rng.choice([0, 1, 1, 2, 3, 4, 6])):
        pool = ins if rng.random() < 0.6 else outs
        parts.append(bytes(rng.choice(pool) for _ in range(rng.choice([0, 1, 1, 2, 3, 8, 40]))))
    return b"".join(parts)


def rand_limit(rng, n):
    return rng.choice([0, 1, 2, 3, max(n - 1, 0), n, n + 1, NPOS, NPOS - 1, rng.randrange(0, 70)])


def gen_cases(rng, n):
    cases = []
    for _ in range(n):
        s = rand_set(rng); inp = rand_input(rng, s); h = sethex(s)
        op = rng.choice(["tok.prefix", "tok.prefix", "tok.suffix", "tok.suffix", "tok.skipAll", "tok.skipAllTrailing",
                         "tok.skipOne", "tok.skipOneTrailing", "tok.token", "tok.token", "tok.skip", "tok.skipSuffix",
                         "tok.skipChar", "cs.plus", "cs.minus", "cs.complement", "cs.add", "cs.remove",
                         "cs.addRange", "cs.ofString", "cs.mem"])
        if op in ("tok.prefix", "tok.suffix"):
            cases.append("%s %s %d %s" % (op, h, rand_limit(rng, len(inp)), hx(inp)))
        elif op in ("tok.skipAll", "tok.skipAllTrailing", "tok.skipOne", "tok.skipOneTrailing", "tok.token"):
            cases.append("%s %s %s" % (op, h, hx(inp)))
        elif op in ("tok.skip", "tok.skipSuffix"):
            k = rng.randrange(0, len(inp) + 1)
            t = inp[:k] if op == "tok.skip" else inp[len(inp) - k:]
            if rng.random() < 0.3 and t:
                t = bytearray(t); t[rng.randrange(len(t))] ^= 1; t = bytes(t)
            if rng.random() < 0.1:
                t = t + b"x"
            cases.append("%s %s %s" % (op, hx(t), hx(inp)))
        elif op == "tok.skipChar":
            c = inp[0] if inp and rng.random() < 0.6 else rng.randrange(256)
            cases.append("%s %d %s" % (op, c, hx(inp)))
        elif op in ("cs.plus", "cs.minus"):
            cases.append("%s %s %s" % (op, h, sethex(rand_set(rng))))
        elif op == "cs.complement":
            cases.append("%s %s" % (op, h))
        elif op in ("cs.add", "cs.remove", "cs.mem"):
            cases.append("%s %s %d" % (op, h, rng.choice([0, 255, rng.randrange(256)])))
        elif op == "cs.addRange":
            lo = rng.randrange(256); hi = rng.choice([lo, 255, rng.randrange(256), min(lo + rng.randrange(5), 255)])
            cases.append("%s %s %d %d" % (op, h, lo, hi))
        elif op == "cs.ofString":
            cases.append("%s %s" % (op, hx(bytes(rng.randrange(1, 256) for _ in range(rng.randrange(0, 12))))))
    return cases


def oracle(case, out):
    """The property itself, evaluated on the implementation's answer with an
    independent Python statement of set / maximal-run semantics.
    Returns None if the answer satisfies the property, else a description."""
    a = case.split()
    op = a[0]
    w = out.split()
    if out.startswith(("CRASH", "EXC", "ERR")) or "BAD-" in out:
        return "implementation crashed / threw / broke its own accounting: " + out[:200]
    try:
        if op.startswith("cs."):
            s = setof(a[1]) if op != "cs.ofString" else None
            if op == "cs.plus": exp = s | setof(a[2])
            elif op == "cs.minus": exp = s - setof(a[2])
            elif op == "cs.complement": exp = set(range(256)) - s
            elif op == "cs.add": exp = s | {int(a[2])}
            elif op == "cs.remove": exp = s - {int(a[2])}
            elif op == "cs.addRange":
                lo, hi = int(a[2]), int(a[3]); exp = s | set(range(lo, hi + 1)) | {hi}
            elif op == "cs.ofString": exp = set(unhx(a[1]))
            elif op == "cs.mem":
                return None if out == ("1" if int(a[2]) in s else "0") else "membership wrong"
            return None if setof(out) == exp else "set operation result is not the set-theoretic one"
        if op in ("tok.prefix", "tok.suffix"):
            s = setof(a[1]); lim = int(a[2]); inp = unhx(a[3])
            win = inp[:lim] if op == "tok.prefix" else (inp[len(inp) - lim:] if lim < len(inp) else inp)
            if op == "tok.prefix":
                k = 0
                while k < len(win) and win[k] in s: k += 1
                exp = "fail" if k == 0 else "ok %s %s" % (hx(inp[:k]), hx(inp[k:]))
            else:
                k = 0
                while k < len(win) and win[len(win) - 1 - k] in s: k += 1
                exp = "fail" if k == 0 else "ok %s %s" % (hx(inp[len(inp) - k:]), hx(inp[:len(inp) - k]))
            return None if out == exp else "expected %s" % exp
        if op in ("tok.skipAll", "tok.skipOne"):
            s = setof(a[1]); inp = unhx(a[2]); k = 0
            while k < len(inp) and inp[k] in s and (op == "tok.skipAll" or k < 1): k += 1
            exp = "%d %s" % (k, hx(inp[k:]))
            return None if out == exp else "expected %s" % exp
        if op in ("tok.skipAllTrailing", "tok.skipOneTrailing"):
            s = setof(a[1]); inp = unhx(a[2]); k = 0
            while k < len(inp) and inp[len(inp) - 1 - k] in s and (op == "tok.skipAllTrailing" or k < 1): k += 1
            exp = "%d %s" % (k, hx(inp[:len(inp) - k]))
            return None if out == exp else "expected %s" % exp
        if op == "tok.token":
            s = setof(a[1]); inp = unhx(a[2]); i = 0
            while i < len(inp) and inp[i] in s: i += 1
            j = i
            while j < len(inp) and inp[j] not in s: j += 1
            if j == len(inp): exp = "fail"
            else:
                k = j
                while k < len(inp) and inp[k] in s: k += 1
                exp = "ok %s %s" % (hx(inp[i:j]), hx(inp[k:]))
            return None if out == exp else "expected %s" % exp
        if op == "tok.skip":
            t = unhx(a[1]); inp = unhx(a[2])
            exp = "%d %s" % (1 if (inp.startswith(t) and t) else 0, hx(inp[len(t):] if inp.startswith(t) else inp))
            return None if out == exp else "expected %s" % exp
        if op == "tok.skipSuffix":
            t = unhx(a[1]); inp = unhx(a[2])
            exp = "%d %s" % (1 if (inp.endswith(t) and t) else 0, hx(inp[:len(inp) - len(t)] if inp.endswith(t) else inp))
            return None if out == exp else "expected %s" % exp
        if op == "tok.skipChar":
            c = int(a[1]); inp = unhx(a[2]); hit = bool(inp) and inp[0] == c
            exp = "%d %s" % (1 if hit else 0, hx(inp[1:] if hit else inp))
            return None if out == exp else "expected %s" % exp
    except Exception as ex:
        return "unparsable implementation output %r (%s)" % (out[:100], ex)
    return None


def oracle_sig(case, out):
    why = oracle(case, out)
    return ("oracle:" + case.split()[0], why) if why else None


def mutate(rng, case):
    """a neighbouring case: flip one byte of the last hex argument or change the limit"""
    a = case.split()
    if a[-1] != "-" and rng.random() < 0.7:
        b = bytearray(unhx(a[-1])) if len(a[-1]) % 2 == 0 and not a[-1].isdigit() else None
        if b:
            b[rng.randrange(len(b))] = rng.randrange(256)
            a[-1] = hx(b)
            return " ".join(a)
    if a[0] in ("tok.prefix", "tok.suffix"):
        a[2] = str(rng.choice([0, 1, 2, 3, NPOS]))
    return " ".join(a)


def run(res, tier):
    res.rule = ("random character sets (named RFC sets, ranges, sparse/dense random) x inputs built from runs of members "
                "and non-members x limits {0,1,2,3,len-1,len,len+1,npos,..}; a case is non-trivial when the "
                "operation consumed or produced at least one byte / changed at least one member")
    std.run_standard(res, PID, tier, area="tok", build_impl=impl, gen_cases=gen_cases, oracle=oracle_sig,
                     corr_name="TokModel/CharSetModel vs src/parser/Tokenizer.cc, src/base/CharacterSet.cc",
                     gens=["charsets"], n_quick=30000, n_thorough=400000, seed_salt=50, mutate=mutate,
                     kind_fn=lambda c, o: c.split()[0] + ":" + (o.split()[0] if o.split()[0] in ("ok", "fail", "0", "1") else "val"),
                     nontrivial_fn=lambda c, o: not (o.startswith("fail") or o.startswith("0 ")))
