(* handlers for the chunked area (TeChunkedParser driven by a (segment, capacity) schedule) *)
let stage_num = function StNone -> 0 | StSz -> 2 | StExt -> 3 | StChunk -> 4 | StMime -> 5 | StDone -> 6
let err_name = function
  | E0x -> "0x" | ESize -> "size" | ENeg -> "negsize" | EExtCrlf -> "extcrlf" | EDataCrlf -> "datacrlf"
  | EExtName -> "extname" | EQPair -> "qpair" | EQdtext -> "qdtext" | EToken -> "token"

(* "n:cap,n:cap,..." + encoding hex -> [(segment, cap)], segment lengths clipped to what is left *)
let schedule (s : string) (enchex : string) : (n list * n) list * int list =
  let enc = if enchex = "-" then "" else enchex in
  let total = String.length enc / 2 in
  if s = "-" then ([], []) else
  let steps = String.split_on_char ',' s in
  let fed = ref 0 in
  let lens = ref [] in
  let out = List.map (fun st ->
      match String.split_on_char ':' st with
      | [a; c] ->
        let want = int_of_string a in
        let k = if want > total - !fed then total - !fed else want in
        let seg = if k = 0 then [] else bytes_of_hex (String.sub enc (2 * !fed) (2 * k)) in
        fed := !fed + k; lens := k :: !lens;
        (seg, n_of_string c)
      | _ -> failwith "bad schedule") steps in
  (out, List.rev !lens)

let () =
  reg "chunked" (fun [mode; sched; enc] ->
      let (sc, lens) = schedule sched enc in
      let r = run_chunked (mode = "1") sc in
      let b = Buffer.create 256 in
      let apps = ref 0 in
      List.iter (fun ((((ret, st), sp), rem), app) ->
          apps := !apps + int_of_n app;
          Buffer.add_string b (Printf.sprintf "%s%s%s:%d:%s:%s " (b2s ret)
                                 (b2s (match st.p_stage with StDone -> false | _ -> true)) (b2s sp)
                                 (stage_num st.p_stage) (string_of_n rem) (string_of_n app))) r.r_trace;
      let ncalls = List.length r.r_trace in
      let sum_first k = let rec go k l acc = if k = 0 then acc else match l with [] -> acc | x :: t -> go (k - 1) t (acc + x) in go k lens 0 in
      let tail st calls =
        Printf.sprintf "| %s st=%d size=%s left=%s used=%d rest=%s out=%s" st (stage_num r.r_state.p_stage)
          (string_of_n r.r_state.p_size) (string_of_n r.r_state.p_left) (sum_first calls) (hex_of_bytes r.r_rest) (hex_of_bytes r.r_out) in
      (match r.r_status with
       | RDone -> Buffer.add_string b (tail "DONE" ncalls)
       | RMore -> Buffer.add_string b (tail "END" ncalls)
       | RStuck -> Buffer.add_string b (tail "STUCK" ncalls)
       | RThrow e ->
         Buffer.add_string b (Printf.sprintf "X:%d | EXC-%s out=%s" (List.length r.r_out - !apps) (err_name e) (hex_of_bytes r.r_out))
       | RFuel -> Buffer.add_string b "MODEL-OUT-OF-FUEL");
      Buffer.contents b)
