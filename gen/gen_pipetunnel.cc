// Constant generator for the pipetunnel area (C05, C06): buffer sizes the models depend on, as the
// headers of /repo define them now. Prints Coq source; sections are introduced by "@@FILE <name>".
#include "squid.h"
#include "http/forward.h"
#include <iostream>

int main()
{
    std::cout << "@@FILE Pipetunnel_gen.v\n";
    std::cout << "(* generated against /repo by gen/gen_pipetunnel.cc -- do not edit *)\n"
              "Require Import SquidV.Bytes.\nLocal Open Scope N_scope.\n";
    std::cout << "(* HTTP_REQBUF_SZ (src/http/forward.h): size of Http::Stream::reqbuf, the unit in which a\n"
              "   client stream hands body data to clientSocketRecipient *)\n";
    std::cout << "Definition gen_http_reqbuf_sz : N := " << static_cast<unsigned long long>(HTTP_REQBUF_SZ) << ".\n";
    std::cout << "(* SQUID_TCP_SO_RCVBUF (include/autoconf.h): size of TunnelStateData::Connection::buf and the\n"
              "   upper bound of one tunnel read / one pre-read copy *)\n";
    std::cout << "Definition gen_tunnel_bufsz : N := " << static_cast<unsigned long long>(SQUID_TCP_SO_RCVBUF) << ".\n";
    return 0;
}
