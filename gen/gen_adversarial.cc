// Table generator for C39 (AdversarialModel.v): sizes, offsets, opcode numbers and bit-field layouts the UDP decoders
// depend on, as the compiler sees them in /repo's working tree. src/htcp.cc is #included because its wire structures
// are file-local.
#include "squid.h"
#include "snmp_core.h"
#include "snmp.h"
#include "snmp_pdu.h"
#include "snmp_vars.h"
#include "asn1.h"
#include "ICP.h"
#include "defines.h"
#include "../src/htcp.cc"

#include <cstddef>
#include <cstdio>
#include <cstring>
#include <cstdlib>

bool Chrooted = false;
extern "C" { struct verif_lt_sym { const char *name; void *address; };
             verif_lt_sym lt__PROGRAM__LTX_preloaded_symbols[] = { { nullptr, nullptr } }; }

static void defz(const char *name, long long v, const char *comment = nullptr) {
    if (comment) printf("(* %s *)\n", comment);
    printf("Definition %s : Z := %lld.\n", name, v);
}
#define DEFZ(n, v) defz(n, static_cast<long long>(v), #v)

template <class F> static void table(const char *name, F f) {
    printf("Definition %s : list Z := [", name);
    for (int b = 0; b < 256; ++b) printf("%s%d", b ? ";" : "", int(f(b)));
    printf("].\n");
}

// value of a data-header field when bytes 2 and 3 of the structure are b2, b3 (all other bytes 0)
template <class H, class G> static int field(int b2, int b3, G get) {
    H h; memset(&h, 0, sizeof(h));
    unsigned char raw[sizeof(H)]; memset(raw, 0, sizeof(raw));
    raw[2] = b2; raw[3] = b3;
    memcpy(&h, raw, sizeof(H));
    return get(h);
}

template <class H> static void layout(const char *pfx) {
    // every field must depend on one byte only; verified exhaustively
    for (int b2 = 0; b2 < 256; ++b2)
        for (int b3 = 0; b3 < 256; ++b3) {
            if (field<H>(b2, b3, [](H &h) { return int(h.opcode); }) != field<H>(b2, 0, [](H &h) { return int(h.opcode); }) ||
                field<H>(b2, b3, [](H &h) { return int(h.response); }) != field<H>(b2, 0, [](H &h) { return int(h.response); }) ||
                field<H>(b2, b3, [](H &h) { return int(h.F1); }) != field<H>(0, b3, [](H &h) { return int(h.F1); }) ||
                field<H>(b2, b3, [](H &h) { return int(h.RR); }) != field<H>(0, b3, [](H &h) { return int(h.RR); })) {
                fprintf(stderr, "%s: bit-field layout is not bytewise\n", pfx);
                exit(2);
            }
        }
    // length must be bytes 0..1 and msg_id bytes 4..7
    {
        H h; unsigned char raw[sizeof(H)]; memset(raw, 0, sizeof(raw));
        raw[0] = 0x12; raw[1] = 0x34; raw[4] = 1; raw[5] = 2; raw[6] = 3; raw[7] = 4;
        memcpy(&h, raw, sizeof(H));
        if (ntohs(h.length) != 0x1234 || ntohl(h.msg_id) != 0x01020304u || h.opcode || h.response || h.F1 || h.RR) {
            fprintf(stderr, "%s: length/msg_id are not at bytes 0..1 / 4..7\n", pfx);
            exit(2);
        }
    }
    char n[64];
    snprintf(n, sizeof(n), "%s_opcode", pfx);   table(n, [](int b) { return field<H>(b, 0, [](H &h) { return int(h.opcode); }); });
    snprintf(n, sizeof(n), "%s_response", pfx); table(n, [](int b) { return field<H>(b, 0, [](H &h) { return int(h.response); }); });
    snprintf(n, sizeof(n), "%s_f1", pfx);       table(n, [](int b) { return field<H>(0, b, [](H &h) { return int(h.F1); }); });
    snprintf(n, sizeof(n), "%s_rr", pfx);       table(n, [](int b) { return field<H>(0, b, [](H &h) { return int(h.RR); }); });
}

int main() {
    printf("@@FILE Adversarial_gen.v\n");
    printf("(* generated from /repo by gen/gen_adversarial.cc -- do not edit *)\n");
    printf("From Coq Require Import ZArith List.\nImport ListNotations.\nLocal Open Scope Z_scope.\n");
    // ---- SNMP / ASN.1
    DEFZ("snmp_request_size", SNMP_REQUEST_SIZE);
    DEFZ("max_name_len", MAX_NAME_LEN);
    DEFZ("sizeof_oid", sizeof(oid));
    DEFZ("sizeof_int", sizeof(int));
    DEFZ("max_subid", MAX_SUBID);
    DEFZ("asn_long_len", ASN_LONG_LEN);
    DEFZ("asn_extension_id", ASN_EXTENSION_ID);
    DEFZ("asn_bit8", ASN_BIT8);
    DEFZ("asn_seq_con", ASN_SEQUENCE | ASN_CONSTRUCTOR);
    DEFZ("asn_integer", ASN_INTEGER);
    DEFZ("asn_octet_str", ASN_OCTET_STR);
    DEFZ("asn_null", ASN_NULL);
    DEFZ("asn_object_id", ASN_UNIVERSAL | ASN_PRIMITIVE | ASN_OBJECT_ID);
    DEFZ("smi_ipaddress", SMI_IPADDRESS);
    DEFZ("smi_counter32", SMI_COUNTER32);
    DEFZ("smi_gauge32", SMI_GAUGE32);
    DEFZ("smi_timeticks", SMI_TIMETICKS);
    DEFZ("smi_opaque", SMI_OPAQUE);
    DEFZ("smi_counter64", SMI_COUNTER64);
    DEFZ("smi_nosuchobject", SMI_NOSUCHOBJECT);
    DEFZ("smi_nosuchinstance", SMI_NOSUCHINSTANCE);
    DEFZ("smi_endofmibview", SMI_ENDOFMIBVIEW);
    // ---- ICP
    DEFZ("icp_bufsize", SQUID_UDP_SO_RCVBUF);
    DEFZ("icp_hdr_size", sizeof(icp_common_t));
    {
        icp_common_t h;   // offsets measured on an object (the class has constructors)
        const char *b = reinterpret_cast<const char *>(&h);
        defz("icp_off_opcode", reinterpret_cast<const char *>(&h.opcode) - b);
        defz("icp_off_version", reinterpret_cast<const char *>(&h.version) - b);
        defz("icp_off_length", reinterpret_cast<const char *>(&h.length) - b);
        defz("icp_off_reqnum", reinterpret_cast<const char *>(&h.reqnum) - b);
        defz("icp_off_flags", reinterpret_cast<const char *>(&h.flags) - b);
        defz("icp_off_pad", reinterpret_cast<const char *>(&h.pad) - b);
        defz("icp_sizeof_length", sizeof(h.length));
    }
    DEFZ("icp_version_2", ICP_VERSION_2);
    DEFZ("icp_version_3", ICP_VERSION_3);
    DEFZ("icp_invalid", ICP_INVALID);
    DEFZ("icp_query", ICP_QUERY);
    DEFZ("icp_hit", ICP_HIT);
    DEFZ("icp_miss", ICP_MISS);
    DEFZ("icp_err", ICP_ERR);
    DEFZ("icp_decho", ICP_DECHO);
    DEFZ("icp_miss_nofetch", ICP_MISS_NOFETCH);
    DEFZ("icp_denied", ICP_DENIED);
    DEFZ("icp_end", ICP_END);
    DEFZ("icp_query_prefix", sizeof(uint32_t));
    // ---- HTCP
    DEFZ("htcp_hdr_size", sizeof(htcpHeader));
    DEFZ("htcp_dhdr_size", sizeof(htcpDataHeader));
    DEFZ("htcp_dhdr_squid_size", sizeof(htcpDataHeaderSquid));
    DEFZ("htcp_off_major", offsetof(htcpHeader, major));
    DEFZ("htcp_off_minor", offsetof(htcpHeader, minor));
    DEFZ("htcp_op_end", HTCP_END);
    DEFZ("htcp_op_tst", HTCP_TST);
    DEFZ("htcp_op_clr", HTCP_CLR);
    DEFZ("htcp_rr_request", RR_REQUEST);
    DEFZ("htcp_n_queried", N_QUERIED_KEYS);
    layout<htcpDataHeader>("htcp_new");
    layout<htcpDataHeaderSquid>("htcp_old");
    return 0;
}
