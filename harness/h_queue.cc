// Harness for C56: the real Ipc::OneToOneUniQueue + Ipc::QueueReader
// (src/ipc/Queue.h templates instantiated here, src/ipc/Queue.cc compiled
// unmodified from /repo's working tree, both with `-include sched_atomic.h`)
// driven by one producer and one consumer coroutine under an explicit schedule.
//
// case line:  q.run <cap> <i0> <polls> <items> <schedule>
//   cap      queue capacity (items), > 0
//   i0       initial value of theIn and theOut (both; the queue starts empty). 0 = a
//            freshly constructed queue; other values stand for "i0 pushes and pops
//            happened before" (used to reach the 2^32 index wrap)
//   polls    how many times the idle consumer may look at the queue on its own
//            (timer-driven poll, no notification, no clearSignal)
//   items    comma separated values the producer pushes in this order ('-' = none);
//            4294967295 is reserved (the harness fills the ring with it = "unwritten")
//   schedule string of thread digits ('-' = empty): 0 = producer, 1 = consumer; one
//            digit = the named thread performs ONE scheduling step:
//              * one atomic operation inside push()/pop()/clearSignal() (together with
//                the non-atomic index arithmetic that follows it), or
//              * the non-atomic copy of the item into / out of the ring (the memcpy()
//                calls of Queue.h are given a scheduling point of their own), or
//              * producer: sending the notification a push() asked for, or
//              * consumer: one look at its mailbox while idle.
//            Past the end of the schedule: round-robin until both ended.
//
// Producer = what IpcIoFile/CollapsedForwarding do: push(v, reader); Full => the item
// is dropped; push() == true => send a notification (a separate step). Ends after its
// last item.
// Consumer = HandleMessagesAtStart, then HandleNotification for ever: clearSignal();
// pop() until it returns false; idle. Idle: a pending notification is taken
// (then clearSignal + pop loop); else, if polls remain, a poll (pop loop only); else,
// if the producer has ended, the consumer ends; else nothing happens in this step.
//
// result line: events in global order
//   P<v>+ / P<v>-   push(v) returned true / false        P<v>F  push(v) threw Full
//   N               producer sent the notification
//   T               idle consumer took a notification      S     idle consumer starts a poll
//   C               clearSignal() returned
//   G<v>            pop() returned true with value v (GU = the slot was never written)
//   E               pop() returned false (the consumer goes idle)
//   !               the consumer ended (idle, nothing pending, producer ended)
//   X<t>            an exception / assertion escaped in thread t (thread ends)
//   | in=<theIn> out=<theOut> size=<theSize> b=<popBlocked> s=<popSignal> n=<notifications not taken>
//   | drain=<v,v,..>   what a single-threaded pop loop then still finds (at most cap+2 pops; '-' = nothing)
//   | steps=<scheduling steps executed>
#include "squid.h"
#include "base/InstanceId.h"
#include "debug/Stream.h"
#include "ipc/mem/FlexibleArray.h"
#include "ipc/mem/Pointer.h"
#include "util.h"
#include <algorithm>
#include <cstring>

// the item copy is not atomic: give it a scheduling point of its own
static inline void *verif_memcpy(void *d, const void *s, size_t n) {
    verif_sched::point();
    return std::memcpy(d, s, n);
}
#define memcpy verif_memcpy
#define private public
#include "ipc/Queue.h"
#undef private
#undef memcpy

#include "hcommon.h"
#include <new>

struct AssertFailed {
    const char *msg;
};
extern "C" void xassert(const char *msg, const char *, int) { throw AssertFailed{msg}; }

// Link-time stand-ins for the parts of squid that only the multi-queue classes of
// Queue.cc (FewToFewBiQueue/MultiQueue owners: shared segments, String ids; not
// exercised here) refer to. debugs() is off (all levels 0); Must() failures throw.
#include "SquidString.h"
#include "ipc/mem/Segment.h"
#include "base/Assure.h"
#include <stdexcept>
int Debug::Levels[MAX_DEBUG_SECTIONS];
std::ostringstream &Debug::Start(const int, const int) { static std::ostringstream os; os.str(""); return os; }
void Debug::Finish() {}
[[ noreturn ]] void ReportAndThrow_(int, const char *description, const SourceLocation &) {
    throw std::runtime_error(description ? description : "Must() failed");
}
std::ostream &SourceLocation::print(std::ostream &os) const { return os; }
String::String(String const &) { abort(); }
String::~String() {}
void String::append(char const *) { abort(); }
Ipc::Mem::Segment::Segment(const char *const) { abort(); }
Ipc::Mem::Segment::~Segment() {}
void Ipc::Mem::Segment::create(const off_t) { abort(); }
void Ipc::Mem::Segment::open(const bool) { abort(); }
void *Ipc::Mem::Segment::reserve(size_t) { abort(); }

static const uint32_t Unwritten = 0xFFFFFFFFu;

struct Case {
    Ipc::OneToOneUniQueue *q = nullptr;
    Ipc::QueueReader *reader = nullptr;
    std::vector<uint32_t> items;
    unsigned long polls = 0;
    unsigned long notifs = 0;
    bool producerDone = false;
    std::string log;
};

static void ev(Case &c, const std::string &e) {
    if (!c.log.empty())
        c.log.push_back(' ');
    c.log += e;
}

static std::string val(uint32_t v) { return v == Unwritten ? std::string("U") : std::to_string(v); }

static void producer(Case &c) {
    try {
        for (const uint32_t v : c.items) {
            bool notify = false;
            try {
                notify = c.q->push(v, c.reader);
            } catch (const Ipc::OneToOneUniQueue::Full &) {
                ev(c, "P" + val(v) + "F");
                continue;
            }
            ev(c, "P" + val(v) + (notify ? "+" : "-"));
            if (notify) {
                verif_sched::point(); // the out-of-band notification message is sent
                ++c.notifs;
                ev(c, "N");
            }
        }
    } catch (...) {
        ev(c, "X0");
    }
    c.producerDone = true;
}

static void consumer(Case &c) {
    try {
        bool clear = true; // HandleMessagesAtStart()
        for (;;) {
            if (clear) {
                c.reader->clearSignal();
                ev(c, "C");
            }
            uint32_t v = 0;
            while (c.q->pop(v, c.reader))
                ev(c, "G" + val(v));
            ev(c, "E");
            for (;;) { // idle
                verif_sched::point();
                if (c.notifs > 0) {
                    --c.notifs;
                    ev(c, "T");
                    clear = true;
                    break;
                }
                if (c.polls > 0) {
                    --c.polls;
                    ev(c, "S");
                    clear = false;
                    break;
                }
                if (c.producerDone) {
                    ev(c, "!");
                    return;
                }
            }
        }
    } catch (...) {
        ev(c, "X1");
    }
}

static bool parseU32(const std::string &s, uint32_t &out) {
    if (s.empty() || s.size() > 10)
        return false;
    unsigned long long x = 0;
    for (char ch : s) {
        if (ch < '0' || ch > '9')
            return false;
        x = x * 10 + static_cast<unsigned>(ch - '0');
    }
    if (x > 0xFFFFFFFFull)
        return false;
    out = static_cast<uint32_t>(x);
    return true;
}

int main() {
    std::string line;
    verif_sched::Scheduler sched;
    sched.maxSteps = 100000;
    while (std::getline(std::cin, line)) {
        auto a = splitws(line);
        if (a.empty()) { std::cout << "\n"; continue; }
        std::ostringstream o;
        try {
            uint32_t cap = 0, i0 = 0, polls = 0;
            if (a[0] == "q.run" && a.size() == 6 && parseU32(a[1], cap) && parseU32(a[2], i0) && parseU32(a[3], polls)
                && cap > 0 && cap <= 4096) {
                Case c;
                bool bad = false;
                if (a[4] != "-") {
                    std::string cur;
                    for (size_t k = 0; k <= a[4].size(); ++k) {
                        if (k == a[4].size() || a[4][k] == ',') {
                            uint32_t v = 0;
                            if (!parseU32(cur, v) || v == Unwritten)
                                bad = true;
                            c.items.push_back(v);
                            cur.clear();
                        } else
                            cur.push_back(a[4][k]);
                    }
                }
                std::vector<int> schedule;
                if (a[5] != "-")
                    for (char ch : a[5]) {
                        if (ch != '0' && ch != '1')
                            bad = true;
                        schedule.push_back(ch - '0');
                    }
                if (bad) {
                    o << "ERR bad-args";
                } else {
                    c.polls = polls;
                    // like squid: the queue lives in zero-filled shared memory and is constructed in place
                    const int bytes = Ipc::OneToOneUniQueue::Items2Bytes(sizeof(uint32_t), static_cast<int>(cap));
                    void *mem = calloc(1, static_cast<size_t>(bytes));
                    c.q = new (mem) Ipc::OneToOneUniQueue(sizeof(uint32_t), static_cast<int>(cap));
                    std::memset(c.q->theBuffer, 0xFF, static_cast<size_t>(cap) * sizeof(uint32_t));
                    c.q->theIn = i0;
                    c.q->theOut = i0;
                    void *rmem = calloc(1, sizeof(Ipc::QueueReader));
                    c.reader = new (rmem) Ipc::QueueReader();
                    const bool finished = sched.run(2, [&c](int t) { if (t == 0) producer(c); else consumer(c); }, schedule);
                    o << (c.log.empty() ? "-" : c.log);
                    if (!finished)
                        o << " LIVELOCK";
                    o << " | in=" << c.q->theIn << " out=" << c.q->theOut << " size=" << c.q->theSize.v
                      << " b=" << (c.reader->popBlocked.v ? 1 : 0) << " s=" << (c.reader->popSignal.v ? 1 : 0)
                      << " n=" << c.notifs;
                    // single-threaded drain (no scheduler: operations execute directly)
                    o << " | drain=";
                    if (!finished) {
                        o << "?"; // coroutines are suspended inside the queue code: do not touch it
                    } else {
                        std::string d;
                        try {
                            uint32_t v = 0;
                            for (uint32_t k = 0; k < cap + 2; ++k) {
                                if (!c.q->pop(v, c.reader))
                                    break;
                                if (!d.empty())
                                    d.push_back(',');
                                d += val(v);
                            }
                        } catch (...) {
                            d += "X";
                        }
                        o << (d.empty() ? "-" : d);
                    }
                    o << " | steps=" << sched.steps;
                    c.reader->~QueueReader();
                    free(rmem);
                    c.q->~OneToOneUniQueue();
                    free(mem);
                }
            } else
                o << "ERR bad-args";
        } catch (const std::exception &e) { o.str(""); o << "EXC " << e.what(); }
        catch (const AssertFailed &e) { o.str(""); o << "EXC assert " << e.msg; }
        std::cout << o.str() << "\n" << std::flush;
    }
    return 0;
}
