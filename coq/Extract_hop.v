(* Extract_hop.v — extraction of the hop-by-hop filter model (ExtrOcamlBasic only). *)
Require Import ExtrOcamlBasic.
Require Import SquidV.Bytes SquidV.HopModel SquidV.HopRevalModel.
Extraction "m_hop.ml" list_items is_member conn_value resp_kept req_kept hdr_id reval_kept.
