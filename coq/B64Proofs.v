(* B64Proofs.v — specifications and proofs for the base64 / Basic-credential model (C36). *)
Require Import SquidV.Bytes SquidV.B64Model.
Require Import SquidV.gen.Base64_gen.
Require Import ZifyBool ZifyN ZifyNat.
Ltac Zify.zify_post_hook ::= Z.div_mod_to_equations.
Local Open Scope N_scope.

(* ================================================================== *)
(* 1. The specification side: RFC 4648 section 4, written from the RFC  *)

(* "ABCDEFGHIJKLMNOPQRSTUVWXYZabcdefghijklmnopqrstuvwxyz0123456789+/" *)
Definition rfc4648_alphabet : list N :=
  [65;66;67;68;69;70;71;72;73;74;75;76;77;78;79;80;81;82;83;84;85;86;87;88;89;90;
   97;98;99;100;101;102;103;104;105;106;107;108;109;110;111;112;113;114;115;116;117;118;119;120;121;122;
   48;49;50;51;52;53;54;55;56;57;43;47].

(* symbol for a 6-bit value *)
Definition E (i : N) : N := tbl_get 0 rfc4648_alphabet i.

(* the encoding: 3 bytes -> 4 symbols, final 1 or 2 bytes zero-extended and padded with '=' *)
Fixpoint enc_spec (l : bytes) : bytes :=
  match l with
  | [] => []
  | [a] => [E (a / 4); E ((a mod 4) * 16); PAD; PAD]
  | [a; b] => [E (a / 4); E ((a mod 4) * 16 + b / 16); E ((b mod 16) * 4); PAD]
  | a :: b :: c :: r =>
      E (a / 4) :: E ((a mod 4) * 16 + b / 16) :: E ((b mod 16) * 4 + c / 64) :: E (c mod 64) :: enc_spec r
  end.

Definition is_byte (b : N) : bool := b <? 256.
Definition all_bytes_ok (l : bytes) : Prop := forallb is_byte l = true.

(* white space the decoder skips: HT LF VT FF CR SP *)
Definition b64_ws (c : N) : bool := ((9 <=? c) && (c <=? 13)) || (c =? 32).
Definition strip_ws (l : bytes) : bytes := filter (fun c => negb (b64_ws c)) l.

(* ================================================================== *)
(* 2. generic helpers                                                    *)

Lemma list_ind3 {A} (P : list A -> Prop) :
  P [] -> (forall a, P [a]) -> (forall a b, P [a; b]) ->
  (forall a b c r, P r -> P (a :: b :: c :: r)) -> forall l, P l.
Proof.
  intros H0 H1 H2 H3.
  assert (G : forall l, P l /\ (forall a, P (a :: l)) /\ (forall a b, P (a :: b :: l))).
  { induction l as [|x l [IH0 [IH1 IH2]]]; [repeat split; auto|].
    repeat split; auto. }
  intros l; apply G.
Qed.

Lemma forallb_app_iff {A} (p : A -> bool) a b :
  forallb p (a ++ b) = true <-> forallb p a = true /\ forallb p b = true.
Proof. rewrite forallb_app, andb_true_iff. tauto. Qed.

Lemma lenN_rev {A} (l : list A) : lenN (rev l) = lenN l.
Proof. rewrite !lenN_length, rev_length. reflexivity. Qed.

Lemma lenN_dropN {A} n (l : list A) : lenN (dropN n l) = lenN l - n.
Proof.
  revert n; induction l as [|x l IH]; intros n; cbn [dropN lenN]; [lia|].
  destruct (n =? 0) eqn:En; cbn [lenN]; [apply N.eqb_eq in En; lia|].
  apply N.eqb_neq in En. rewrite IH. lia.
Qed.

Lemma forallb_takeN {A} (p : A -> bool) n l : forallb p l = true -> forallb p (takeN n l) = true.
Proof.
  revert n; induction l as [|x l IH]; intros n H; cbn [takeN]; [reflexivity|].
  cbn [forallb] in H. apply andb_true_iff in H as [Hx Hl].
  destruct (n =? 0); cbn [forallb]; [reflexivity|]. now rewrite Hx, IH.
Qed.

Lemma forallb_dropN {A} (p : A -> bool) n l : forallb p l = true -> forallb p (dropN n l) = true.
Proof.
  revert n; induction l as [|x l IH]; intros n H; cbn [dropN]; [reflexivity|].
  destruct (n =? 0); [exact H|]. cbn [forallb] in H. apply andb_true_iff in H as [_ Hl]. now apply IH.
Qed.

(* bit operations as arithmetic *)
Lemma land63 x : N.land 63 x = x mod 64.
Proof. rewrite N.land_comm. change 63 with (N.ones 6). rewrite N.land_ones. reflexivity. Qed.

Lemma land_shiftl_small a b n : b < 2 ^ n -> N.land (N.shiftl a n) b = 0.
Proof.
  intros H. apply N.bits_inj_0; intro m. rewrite N.land_spec.
  destruct (N.lt_ge_cases m n) as [Hm|Hm].
  - rewrite N.shiftl_spec_low by exact Hm. reflexivity.
  - replace b with (b mod 2 ^ n) by (apply N.mod_small; exact H).
    rewrite N.mod_pow2_bits_high by exact Hm. apply andb_false_r.
Qed.

Lemma lor_shiftl_add a b n : b < 2 ^ n -> N.lor (N.shiftl a n) b = a * 2 ^ n + b.
Proof.
  intros H. rewrite <- N.lxor_lor by (apply land_shiftl_small; exact H).
  rewrite <- N.add_nocarry_lxor by (apply land_shiftl_small; exact H).
  rewrite N.shiftl_mul_pow2. reflexivity.
Qed.

Lemma enc_tbl_is_rfc : b64_enc_tbl = rfc4648_alphabet.
Proof. vm_compute. reflexivity. Qed.

Lemma ENC_E x : ENC x = E (x mod 64).
Proof. unfold ENC, E. rewrite land63, enc_tbl_is_rfc. reflexivity. Qed.

Ltac pow2 :=
  change (2 ^ 1) with 2 in *; change (2 ^ 2) with 4 in *; change (2 ^ 4) with 16 in *;
  change (2 ^ 6) with 64 in *; change (2 ^ 8) with 256 in *; change (2 ^ 0) with 1 in *.

Lemma byte_lt b : is_byte b = true -> b < 256.
Proof. unfold is_byte. lia. Qed.

(* ================================================================== *)
(* 3. encode_raw is the RFC encoding                                     *)

Definition grp (a b c : N) : bytes :=
  [E (a / 4); E ((a mod 4) * 16 + b / 16); E ((b mod 16) * 4 + c / 64); E (c mod 64)].

Lemma enc_spec_cons3 a b c r : enc_spec (a :: b :: c :: r) = grp a b c ++ enc_spec r.
Proof. reflexivity. Qed.

Lemma enc_spec_app3 x y : lenN x mod 3 = 0 -> enc_spec (x ++ y) = enc_spec x ++ enc_spec y.
Proof.
  revert x. apply (list_ind3 (fun x => lenN x mod 3 = 0 -> enc_spec (x ++ y) = enc_spec x ++ enc_spec y)).
  - reflexivity.
  - intros a H. cbn [lenN] in H. discriminate H.
  - intros a b H. cbn [lenN] in H. discriminate H.
  - intros a b c r IH H. cbn [lenN] in H.
    change ((a :: b :: c :: r) ++ y) with (a :: b :: c :: (r ++ y)).
    rewrite !enc_spec_cons3, IH, app_assoc; [reflexivity|]. lia.
Qed.

Lemma raw_group a b c : a < 256 -> b < 256 -> c < 256 ->
  [ENC (N.shiftr a 2); ENC (N.lor (N.shiftl a 4) (N.shiftr b 4));
   ENC (N.lor (N.shiftl b 2) (N.shiftr c 6)); ENC c] = grp a b c.
Proof.
  intros Ha Hb Hc. unfold grp. rewrite !ENC_E.
  rewrite !N.shiftr_div_pow2.
  rewrite (lor_shiftl_add a (b / 2 ^ 4) 4) by (pow2; lia).
  rewrite (lor_shiftl_add b (c / 2 ^ 6) 2) by (pow2; lia).
  pow2.
  repeat f_equal; lia.
Qed.

Lemma raw_loop_spec r : forallb is_byte r = true -> lenN r mod 3 = 0 ->
  forall acc, raw_loop r acc = enc_spec (rev r) ++ acc.
Proof.
  revert r. apply (list_ind3 (fun r => forallb is_byte r = true -> lenN r mod 3 = 0 ->
                                 forall acc, raw_loop r acc = enc_spec (rev r) ++ acc)).
  - reflexivity.
  - intros a _ H. cbn [lenN] in H. discriminate H.
  - intros a b _ H. cbn [lenN] in H. discriminate H.
  - intros c b a r IH Hb Hl acc. cbn [lenN] in Hl.
    cbn [forallb] in Hb. apply andb_true_iff in Hb as [Hc Hb]. apply andb_true_iff in Hb as [Hb' Hb].
    apply andb_true_iff in Hb as [Ha Hr].
    apply byte_lt in Hc, Hb', Ha.
    cbn [raw_loop]. rewrite IH by (try assumption; lia).
    cbn [rev]. rewrite <- !app_assoc. cbn [app].
    rewrite (enc_spec_app3 (rev r) [a; b; c]) by (rewrite lenN_rev; lia).
    cbn [enc_spec]. rewrite <- app_assoc.
    change (ENC (N.shiftr a 2) :: ENC (N.lor (N.shiftl a 4) (N.shiftr b 4))
             :: ENC (N.lor (N.shiftl b 2) (N.shiftr c 6)) :: ENC c :: acc)
      with ([ENC (N.shiftr a 2); ENC (N.lor (N.shiftl a 4) (N.shiftr b 4));
             ENC (N.lor (N.shiftl b 2) (N.shiftr c 6)); ENC c] ++ acc).
    rewrite raw_group by assumption. reflexivity.
Qed.

Lemma encode_raw_spec x : all_bytes_ok x -> encode_raw x = enc_spec x.
Proof.
  unfold all_bytes_ok. intros Hx. unfold encode_raw. rewrite <- rev_alt.
  assert (Hr : forallb is_byte (rev x) = true).
  { rewrite forallb_forall in *. intros y Hy. apply Hx. now apply in_rev. }
  assert (Hlen : lenN (rev x) = lenN x) by apply lenN_rev.
  destruct (lenN x mod 3 =? 0) eqn:E0.
  - rewrite raw_loop_spec by (try assumption; lia). rewrite rev_involutive, app_nil_r. reflexivity.
  - destruct (lenN x mod 3 =? 1) eqn:E1.
    + destruct (rev x) as [|i0 r'] eqn:Er.
      { cbn [lenN] in Hlen. rewrite <- Hlen in E0. discriminate E0. }
      cbn [forallb] in Hr. apply andb_true_iff in Hr as [H0 Hr]. apply byte_lt in H0.
      cbn [lenN] in Hlen.
      rewrite raw_loop_spec by (try assumption; lia).
      assert (Hx' : x = rev r' ++ [i0]).
      { rewrite <- (rev_involutive x), Er. reflexivity. }
      rewrite Hx'. rewrite enc_spec_app3 by (rewrite lenN_rev; lia).
      cbn [enc_spec]. rewrite !ENC_E, N.shiftr_div_pow2, N.shiftl_mul_pow2. pow2.
      repeat f_equal; lia.
    + destruct (rev x) as [|i1 [|i0 r']] eqn:Er.
      { cbn [lenN] in Hlen. rewrite <- Hlen in E0. discriminate E0. }
      { cbn [lenN] in Hlen. rewrite <- Hlen in E1. discriminate E1. }
      cbn [forallb] in Hr. apply andb_true_iff in Hr as [H1 Hr]. apply andb_true_iff in Hr as [H0 Hr].
      apply byte_lt in H0, H1. cbn [lenN] in Hlen.
      rewrite raw_loop_spec by (try assumption; lia).
      assert (Hx' : x = rev r' ++ [i0; i1]).
      { rewrite <- (rev_involutive x), Er. cbn [rev]. rewrite <- app_assoc. reflexivity. }
      rewrite Hx'. rewrite enc_spec_app3 by (rewrite lenN_rev; lia).
      cbn [enc_spec]. rewrite !ENC_E, !N.shiftr_div_pow2, N.shiftl_mul_pow2.
      rewrite (lor_shiftl_add i0 (i1 / 2 ^ 4) 4) by (pow2; lia). pow2.
      repeat f_equal; lia.
Qed.
