(* HdrparseProofs.v — proofs about HdrparseModel (C25). *)
Require Import SquidV.Bytes SquidV.ClenModel SquidV.HdrparseModel.
Require Import SquidV.gen.CharSets_gen SquidV.gen.HdrTable_gen.
Local Open Scope N_scope.

Lemma rejects_nul relaxed req proh block : In 0 block -> h_parse relaxed req proh block = None.
Proof.
  intros H. unfold h_parse, h_block_fields.
  assert (E : has_nul block = true).
  { unfold has_nul. apply existsb_exists. exists 0. split; [exact H|reflexivity]. }
  now rewrite E.
Qed.
