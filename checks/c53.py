"""C53: the shared page allocator (src/ipc/mem/PageStack.cc) never double-allocates or loses pages."""
import itertools, random
from vlib import std, hbuild

PID = "C53"
META = {
    "text": "Theorems (Properties_C53.v) hold for ANY tree height, ANY capacity that fits the tree, ANY number of processes, ANY "
            "scripts of pop()/push() calls by protocol-following clients and ANY interleaving of their single atomic operations "
            "(load, compare_exchange, fetch_add, fetch_or, ++/--size_): an inductive invariant over the tree of counters (for "
            "every node with a live parent: parent's counter for that side + pops on their way to the node + pushes that updated "
            "the node but not yet its parent = what the node itself offers; every page index is either a set bit of its leaf or "
            "held by exactly one process; size_ = free bits + in-flight corrections) gives: every page handed out is a valid page "
            "of the pool and is held by nobody else (no double allocation), no assert() of the file can fire; at every moment root "
            "counters + pages in the hands of processes (held, being pushed, or reserved by a pop that committed at the root) = pool "
            "size, and the step in which a pop() answers false is a read of a root whose counters are both zero, so at that instant "
            "no page of the pool is free (telescoping sum of the counting equations over the levels of the tree, sums over positions "
            "and over processes exchanged); at quiescence size_ and the root counters equal the number of free pages exactly, every "
            "tree counter is exact and every unheld page is a set bit of its leaf (so every released "
            "page can be allocated again). The model is tied to the code by running the extracted model and the real PageStack.cc, "
            "compiled unmodified from the working tree against a scheduler-controlled std::atomic (harness/sched_atomic.h), on the "
            "same scripts and schedules (every context switch at an atomic operation) and diffing events, final size_, all tree "
            "words, held pages and the result of draining the stack.",
    "note": "Trusted: Coq kernel, extraction, harness/sched_atomic.h + h_pagestack.cc (cooperative scheduler, client protocol, "
            "ownership table), sequentially consistent atomics, compare_exchange_weak without spurious failures (a spurious failure "
            "equals a schedule with a retry), clients push only pages they hold. PagestackModel.v is validated against the code "
            "only on the generated schedules (exhaustive 2/3-thread prefixes + random 1..4 threads, capacities 0..600 = tree "
            "heights 2..5). UBSan runs in recover mode; every report during a case is counted by the harness, shown as UB=<n> in the result line and reported by the oracle (oracle:ub); the model never predicts one.",
    "technique": "Coq proof (inductive invariant over all interleavings of an unbounded number of processes: per-node counting "
                 "equations with weighted program-counter sums, per-page ownership equation, bit-level lemmas for x&(x-1) / "
                 "trailing zeros / fetch_or) + extracted-model differential correspondence under a scheduler-controlled std::atomic",
}
FRESH = ["src/ipc/mem/PageStack.cc", "src/ipc/mem/Page.cc"]
OPS = "ouv"


def impl(sanitize="ubsan"):
    # PageStack.h / Page.h / FlexibleArray.h are header parts of the anchor: compiled into both units from the working tree.
    # UBSan in *recover* mode (reports are counted by the harness and printed in the result line), hence sanitize=None here.
    flags = ["-include", "sched_atomic.h"]
    link = ["tests/stub_debug.o", "base/libbase.la"]
    if sanitize:
        flags += ["-O1", "-g", "-fsanitize=undefined"]
        link += ["-fsanitize=undefined"]
    return hbuild.build("h_pagestack", "h_pagestack.cc", fresh=FRESH, link=link, flags=flags, sanitize=None, syslibs=[])


def prebuild():
    impl()


# ---------------------------------------------------------------- generators
PHRASES = ["o", "o", "ou", "ou", "ov", "oou", "oov", "oouu", "oovv", "ouo", "ovo", "ooo", "oouo", "ouou", "oovuo", "u", "v", "uo", "uuo", "uvo"]
# capacities: 0, tiny (contention for the last pages), and both sides of every leaf / tree-height boundary (heights 2..5)
CAPS_TINY = [1, 1, 2, 2, 3, 3, 4, 5]
CAPS_EDGE = [0, 6, 7, 63, 64, 65, 66, 127, 128, 129, 130, 131, 191, 192, 193, 255, 256, 257, 258, 300, 320, 384, 511, 512, 513, 600]

PAIRS = [  # (capacity, mode, scripts)
    (1, "F", ("ou", "ou")), (1, "F", ("oo", "ou")), (2, "F", ("oou", "ou")), (2, "F", ("ouo", "oo")), (3, "F", ("oov", "oou")),
    (1, "E", ("uo", "oo")), (2, "E", ("uo", "uo")), (3, "E", ("uuo", "uo")), (2, "E", ("uo", "o")),
    (65, "F", ("ou", "ou")), (66, "E", ("uo", "uo")), (129, "F", ("oou", "ov")), (130, "E", ("uo", "uoo")), (257, "F", ("ou", "oo")),
    (64, "F", ("ou", "ou")), (128, "F", ("ouo", "ou")),
]
TRIPLES = [(1, "F", ("ou", "ou", "o")), (2, "F", ("ou", "oo", "ou")), (3, "E", ("uo", "uo", "uo")), (130, "F", ("ou", "ov", "oo")),
           (2, "E", ("uo", "o", "o"))]
# a fixed prefix first brings thread 0 into the middle of an operation; then every continuation
PREFIXED = [(1, "F", ("ou", "o"), "0" * 5), (1, "F", ("ou", "oo"), "0" * 7), (2, "F", ("oou", "oo"), "0" * 4), (65, "F", ("ou", "oo"), "0" * 6),
            (129, "F", ("oou", "ou"), "0" * 9), (2, "E", ("uo", "oo"), "0" * 2), (130, "E", ("uo", "oo"), "0" * 3)]


def rand_script(rng):
    k = rng.random()
    if k < 0.8:
        return "".join(rng.choice(PHRASES) for _ in range(rng.choice([1, 1, 2, 2, 3])))
    return "".join(rng.choice(OPS) for _ in range(rng.randrange(0, 9)))


def rand_schedule(rng, n, scripts, cap):
    per_op = 9 if cap <= 128 else 13
    total = sum(per_op * len(s) + 1 for s in scripts)
    style = rng.random()
    if style < 0.08:
        return ""
    want = rng.choice([total // 4, total // 2, total, total, total + 5])
    out = []
    if style < 0.55:   # bursts
        while len(out) < want:
            t = rng.randrange(n)
            out.extend([t] * rng.choice([1, 1, 1, 2, 2, 3, 4, 5, 6, 8]))
    elif style < 0.85:  # uniform
        out = [rng.randrange(n) for _ in range(want)]
    else:               # one thread runs far ahead, then the others
        t = rng.randrange(n)
        out = [t] * rng.randrange(1, 14) + [rng.randrange(n) for _ in range(want)]
    return "".join(str(t) for t in out[:want + 14])


def mk(cap, mode, scripts, sched):
    return "ps.run %d %s %d %s %s" % (cap, mode, len(scripts), " ".join(s or "-" for s in scripts), sched or "-")


def gen_cases(rng, n):
    """n counts the random stream; the small-scope exhaustive stream is added on top:
    every schedule prefix of length L over two (three) threads for each configuration (after the prefix: round-robin)."""
    quick = n <= 50000
    cases = []
    L = 9 if quick else 13
    for cap, mode, scr in PAIRS:
        for bits in itertools.product("01", repeat=L):
            cases.append(mk(cap, mode, list(scr), "".join(bits)))
    for cap, mode, scr in TRIPLES:
        for bits in itertools.product("012", repeat=5 if quick else 8):
            cases.append(mk(cap, mode, list(scr), "".join(bits)))
    for cap, mode, scr, prefix in PREFIXED:
        for bits in itertools.product("01", repeat=L - 1):
            cases.append(mk(cap, mode, list(scr), prefix + "".join(bits)))
    # construction alone, every capacity up to 3 leaves past the 4-leaf tree, both modes
    for cap in range(0, 200 if quick else 1100):
        cases.append(mk(cap, "F", ["o"], ""))
    for _ in range(n):
        nt = rng.choice([1, 2, 2, 2, 2, 3, 3, 3, 3, 4])
        k = rng.random()
        cap = rng.choice(CAPS_TINY) if k < 0.6 else rng.choice(CAPS_EDGE) if k < 0.95 else rng.randrange(0, 601)
        mode = "F" if rng.random() < 0.65 else "E"
        scripts = [rand_script(rng) for _ in range(nt)]
        cases.append(mk(cap, mode, scripts, rand_schedule(rng, nt, scripts, cap)))
    return cases


# ---------------------------------------------------------------- oracle (independent statement of the property)
def numbers(s):
    """inverse of the harness' run-compressed number lists"""
    out = []
    for part in s.split(","):
        if not part:
            continue
        if "-" in part:
            lo, hi = part.split("-")
            out.extend(range(int(lo), int(hi) + 1))
        else:
            out.append(int(part))
    return out


def parse(case, out):
    a = case.split()
    cap, mode, n = int(a[1]), a[2], int(a[3])
    parts = out.split(" | ")
    fields = {}
    for p in parts[1:]:
        k, _, v = p.partition("=")
        fields[k] = v
    return cap, mode, n, parts[0].split(), fields


def oracle(case, out):
    if out.startswith(("CRASH", "EXC", "ERR", "FUEL", "CTOR#")):
        return ("oracle:crash", "implementation crashed / threw / failed an assert() while constructing the stack: " + out[:200])
    try:
        cap, mode, n, events, f = parse(case, out)
        # the pool: page numbers 1..cap; who holds what (a client gives a page up when it calls push())
        held = [set() for _ in range(n)]
        if mode == "E":
            for i in range(cap):
                held[i % n].add(i + 1)
        universe = cap
        # pass 1: which pop calls succeed (needed to judge failures), call intervals
        calls = []          # [thread, kind, start index, end index or None, result]
        open_call = [None] * n
        for k, e in enumerate(events):
            if e in ("-", "LIVELOCK"):
                continue
            t, what = int(e[0]), e[1:]
            if what.startswith("@"):
                open_call[t] = len(calls)
                calls.append([t, what[1], k, None, None])
            elif what.startswith("o") or what.startswith("u"):
                c = calls[open_call[t]]
                c[3], c[4] = k, what
                open_call[t] = None
        # pass 2: replay
        inflight_push = 0
        inflight_pop_ok = 0
        will_succeed = {}
        for c in calls:
            if c[1] == "o" and c[4] is not None and c[4].startswith("o+"):
                will_succeed[c[2]] = True
        definitely_free = []   # after event k: pages that are in the stack whatever the in-flight calls do
        for k, e in enumerate(events):
            if e == "-":
                definitely_free.append(universe - sum(len(h) for h in held))
                continue
            if e == "LIVELOCK":
                return ("oracle:livelock", "an operation did not finish within the step bound")
            t, what = int(e[0]), e[1:]
            if what == "#" or what == "#?":
                return ("oracle:assert", "an assert() of PageStack.cc failed in thread %d although every client follows the protocol" % t)
            if what[0] == "D":
                return ("oracle:double-allocation", "the harness ownership table says page %s was handed out while it had a holder" % what[1:])
            if what == "@o":
                if will_succeed.get(k):
                    inflight_pop_ok += 1
            elif what.startswith("@u"):
                num = int(what[2:])
                if num not in held[t]:
                    return ("oracle:harness-protocol", "thread %d pushes page %d that it does not hold" % (t, num))
                held[t].discard(num)
                inflight_push += 1
            elif what.startswith("o+"):
                num = int(what[2:])
                inflight_pop_ok -= 1
                if not (1 <= num <= cap):
                    return ("oracle:invalid-page", "pop() returned page number %d, not a page of the pool 1..%d" % (num, cap))
                for u in range(n):
                    if num in held[u]:
                        return ("oracle:double-allocation", "pop() of thread %d returned page %d while thread %d holds it" % (t, num, u))
                held[t].add(num)
            elif what.startswith("u"):
                inflight_push -= 1
            elif what in ("o-", "!"):
                pass
            else:
                return ("oracle:unparsable", "unknown event " + e)
            definitely_free.append(universe - sum(len(h) for h in held) - inflight_push - inflight_pop_ok)
        # an allocation fails only if, at some point during it, no page was free
        for c in calls:
            if c[1] == "o" and c[4] == "o-":
                a, b = c[2], c[3]
                if min(definitely_free[a:b]) >= 1:
                    return ("oracle:spurious-failure",
                            "pop() of thread %d (events %d..%d) failed although at every moment of the call at least %d page(s) were "
                            "in the stack and not claimable by any call in progress" % (c[0], a, b, min(definitely_free[a:b])))
        if "UB" in f:
            return ("oracle:ub", "UBSan reported %s instance(s) of undefined behaviour in PageStack.cc while running this case" % f["UB"])
        if any(c[3] is None for c in calls):
            return ("oracle:unfinished", "a call never returned")
        # quiescence: every client is between calls / ended
        free = set(range(1, cap + 1))
        for h in held:
            free -= h
        got_held = [set(numbers(x)) for x in f["held"].split(";")]
        if got_held != held:
            return ("oracle:harness-held", "harness says clients hold %s, the answers imply %s" % (f["held"], held))
        if int(f["sz"]) != len(free):
            return ("oracle:accounting", "all clients ended, %d page(s) are free but size() = %s" % (len(free), f["sz"]))
        if f["drain"].endswith("#"):
            return ("oracle:assert", "an assert() failed while draining the quiescent stack")
        d = numbers(f["drain"])
        if len(d) != len(set(d)):
            return ("oracle:double-allocation", "draining the quiescent stack returned a page twice: %s" % f["drain"])
        if set(d) - free:
            return ("oracle:double-allocation" if set(d) & set().union(*held) else "oracle:invalid-page",
                    "draining the quiescent stack returned page(s) %s that are not free" % sorted(set(d) - free)[:5])
        if free - set(d):
            return ("oracle:page-lost", "every client ended; page(s) %s are held by nobody but pop() does not return them any more"
                    % sorted(free - set(d))[:8])
    except Exception as ex:
        return ("oracle:unparsable", "unparsable implementation output %r (%s)" % (out[:160], ex))
    return None


def overlapped(out):
    """some call of one thread was in progress while another thread's event happened"""
    inop = set()
    for e in out.split(" | ")[0].split():
        if len(e) < 2 or not e[0].isdigit():
            continue
        t, k = e[0], e[1]
        if inop - {t}:
            return True
        if k == "@":
            inop.add(t)
        elif k in "ou":
            inop.discard(t)
    return False


POPS = {"granted": 0, "refused": 0}


def kind(case, out):
    ev = out.split(" | ")[0].split()
    ok = sum(1 for e in ev if e[1:3] == "o+")
    no = sum(1 for e in ev if e[1:3] == "o-")
    POPS["granted"] += ok
    POPS["refused"] += no
    res = "nopop" if ok + no == 0 else "allok" if no == 0 else "allfail" if ok == 0 else "mixed"
    a = case.split()
    cap = int(a[1])
    h = "cap0" if cap == 0 else "h2" if cap <= 128 else "h3" if cap <= 256 else "h4" if cap <= 512 else "h5"
    return "%st:%s:%s:%s" % (a[3], a[2], h, res)


def mutate(rng, case):
    a = case.split()
    n = int(a[3])
    k = rng.random()
    sched = list(a[-1]) if a[-1] != "-" else []
    if k < 0.55 and sched:
        i = rng.randrange(len(sched))
        if rng.random() < 0.5:
            sched[i] = str(rng.randrange(n))
        else:
            j = rng.randrange(len(sched)); sched[i], sched[j] = sched[j], sched[i]
    elif k < 0.75:
        sched.insert(rng.randrange(len(sched) + 1), str(rng.randrange(n)))
    elif k < 0.9:
        i = 4 + rng.randrange(n)
        s = list(a[i]) if a[i] != "-" else []
        s.insert(rng.randrange(len(s) + 1), rng.choice(OPS))
        a[i] = "".join(s)
    else:
        a[1] = str(max(0, int(a[1]) + rng.choice([-1, 1, 64, -64])))
    a[-1] = "".join(sched) or "-"
    return " ".join(a)


def run(res, tier):
    res.rule = ("1..4 protocol-following client threads running scripts of pop()/push(oldest held)/push(newest held) on a real PageStack "
                "(capacity 0..600: tree heights 2..5; created full, or created empty with the pages dealt to the clients) under explicit "
                "schedules (one entry = one atomic operation of PageStack.cc or one between-calls step): every schedule prefix of length 9 "
                "(13 thorough) for 16 two-thread configurations (and after 7 fixed prefixes that first park thread 0 inside an operation) "
                "and of length 5 (8) for 5 three-thread ones, construction alone for every capacity 0..199 (0..1099), then random "
                "burst/uniform/run-ahead schedules over random phrase scripts; past the schedule: round-robin; finally the stack is "
                "drained single-threaded. A case is non-trivial when some call of one thread was in progress while another thread "
                "completed a step (context switch inside an operation)")
    res.trusted.append("harness/sched_atomic.h replaces std::atomic by a cooperative-scheduler version at compile time (-include); atomics "
                       "are sequentially consistent; PageStack.cc itself is compiled unmodified; UBSan runs in recover mode and the harness "
                       "counts its reports per case (shown as UB=<n> in the result line)")
    std.run_standard(res, PID, tier, area="pagestack", build_impl=impl, gen_cases=gen_cases, oracle=oracle,
                     corr_name="PagestackModel vs src/ipc/mem/PageStack.cc under sched_atomic.h",
                     n_quick=6000, n_thorough=120000, seed_salt=53, mutate=mutate,
                     kind_fn=kind, nontrivial_fn=lambda c, o: overlapped(o))
    res.extra["pop_outcomes"] = dict(POPS)   # outcome balance over all pop() calls


def replay(d):
    """./verif replay <file>: run the recorded case on the implementation built from the current tree"""
    from vlib import corr
    case = d.get("replay", {}).get("case")
    if not case:
        print(d.get("description", "no case recorded"))
        return 0
    out = corr.run_lines(impl(), [case])[0]
    v = oracle(case, out)
    print("case:   " + case)
    print("impl:   " + out)
    print("oracle: " + ("holds" if v is None else "%s: %s" % v))
    return 1 if v else 0
