(* Properties_C60.v — C60: ICAP adaptation delivers exactly the virgin or the adapted message. Statements only. *)
Require Import SquidV.Bytes SquidV.IcapModel SquidV.IcapProofs SquidV.gen.IcapConst_gen.
Local Open Scope N_scope.

Theorem C60_status_dispatch :
  icap_dispatch 100 = 1 /\ icap_dispatch 200 = 2 /\ icap_dispatch 201 = 2 /\ icap_dispatch 204 = 3 /\ icap_dispatch 206 = 4 /\
  forall s, s <> 100 -> s <> 200 -> s <> 201 -> s <> 204 -> s <> 206 -> icap_dispatch s = 0.
Proof. exact dispatch_table. Qed.
Print Assumptions C60_status_dispatch.
