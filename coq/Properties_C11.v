(* Properties_C11.v — C11: responses forbidden to be stored are never served from cache.
   Statements only; proofs live in ReuseProofs.v. Directive names/ids, status codes, the method table, the implicit
   refresh_pattern rule (gen/Reuse_gen.v) and the squid.conf defaults (gen/ReuseCfg_gen.v) are regenerated from
   /repo on every run. `two_requests cf h q p now gap` is the transcription of what Squid does with a request q for a new
   URL answered by the origin with p at time `now`, followed `gap` seconds later by an identical request. *)
Require Import SquidV.Bytes SquidV.HopModel SquidV.HopProofs SquidV.ReuseModel SquidV.ReuseProofs.
Require Import SquidV.gen.Reuse_gen SquidV.gen.ReuseCfg_gen.
Local Open Scope Z_scope.

(* ---- the property, on header text: a response sent with no-store or private, or a request sent with no-store, is never
   answered from the cache, for ALL configurations of the numeric knobs, all other headers, statuses and times; the second
   request goes to the origin unconditionally (unless the client itself said only-if-cached) *)
Theorem C11_forbidden_never_hit : forall cf h q p now gap,
  ignore_cache_control h = false ->
  simple (join_values (p_cc_vals p)) = true -> simple (join_values (q_cc_vals q)) = true ->
  sent_with d_no_store (p_cc_vals p) \/ sent_with d_private (p_cc_vals p) \/ sent_with d_no_store (q_cc_vals q) ->
  two_requests cf h q p now gap <> Hit /\
  (q_only_if_cached q = false -> two_requests cf h q p now gap = Miss).
Proof. exact forbidden_never_hit. Qed.
Print Assumptions C11_forbidden_never_hit.

(* ---- Authorization: without public / must-revalidate / s-maxage in the response the second request always reaches
   the origin (default negative_ttl) *)
Theorem C11_authorization_never_hit_without_permission : forall cf h q p now gap,
  negative_ttl cf <= 0 -> q_has_authorization q = true ->
  simple (join_values (p_cc_vals p)) = true ->
  ~ sent_with d_public (p_cc_vals p) -> ~ sent_with d_must_revalidate (p_cc_vals p) -> ~ sent_with d_s_maxage (p_cc_vals p) ->
  two_requests cf h q p now gap <> Hit /\
  (q_only_if_cached q = false ->
   two_requests cf h q p now gap = Miss \/ two_requests cf h q p now gap = Revalidate).
Proof. exact authorization_never_hit_without_permission. Qed.
Print Assumptions C11_authorization_never_hit_without_permission.

(* ---- the same four statements over Squid's own (quote-aware) list reader, without the `simple` restriction *)
Theorem C11_response_no_store_never_reused : forall cf h q p now gap,
  ignore_cache_control h = false -> has_directive d_no_store (p_cc_vals p) ->
  two_requests cf h q p now gap = (if q_only_if_cached q then NotForwarded else Miss).
Proof. exact response_no_store_never_reused. Qed.
Print Assumptions C11_response_no_store_never_reused.

Theorem C11_response_private_never_reused : forall cf h q p now gap,
  ignore_cache_control h = false -> has_directive d_private (p_cc_vals p) ->
  two_requests cf h q p now gap = (if q_only_if_cached q then NotForwarded else Miss).
Proof. exact response_private_never_reused. Qed.
Print Assumptions C11_response_private_never_reused.

Theorem C11_request_no_store_never_reused : forall cf h q p now gap,
  has_directive d_no_store (q_cc_vals q) ->
  two_requests cf h q p now gap = (if q_only_if_cached q then NotForwarded else Miss).
Proof. exact request_no_store_never_reused. Qed.
Print Assumptions C11_request_no_store_never_reused.

Theorem C11_authorization_hit_needs_permission : forall cf h q p now gap,
  negative_ttl cf <= 0 -> q_has_authorization q = true ->
  two_requests cf h q p now gap = Hit ->
  has_directive d_public (p_cc_vals p) \/ has_directive d_must_revalidate (p_cc_vals p)
  \/ has_directive d_s_maxage (p_cc_vals p).
Proof. exact authorization_hit_needs_permission. Qed.
Print Assumptions C11_authorization_hit_needs_permission.

(* the negative_ttl hypothesis is necessary: with negative caching configured (not a default), an authenticated 404 that
   carries only no-cache is served as a negative hit *)
Theorem C11_authorization_nondefault_negative_ttl_witness :
  two_requests wit_cf plain_hstate wit_q (wit_p 404 [d_no_cache]) 1700000000 1 = Hit /\ 0 < negative_ttl wit_cf.
Proof. exact (conj authorization_negative_ttl_witness eq_refl). Qed.
Print Assumptions C11_authorization_nondefault_negative_ttl_witness.

(* ---- components *)
(* HttpHdrCc::parse never misses a no-store / private element, whatever else the field contains (duplicates, malformed
   arguments, unknown directives, quoted strings elsewhere) *)
Theorem C11_no_store_element_always_recognised : forall s,
  (exists item, In item (cc_items s) /\ is_directive d_no_store item = true) ->
  exists c, cc_parse s = Some c /\ m_no_store c = true.
Proof. exact parse_sees_no_store. Qed.
Print Assumptions C11_no_store_element_always_recognised.

Theorem C11_private_element_always_recognised : forall s,
  (exists item, In item (cc_items s) /\ is_directive d_private item = true) ->
  exists c, cc_parse s = Some c /\ m_private c = true.
Proof. exact parse_sees_private. Qed.
Print Assumptions C11_private_element_always_recognised.

(* ... and never invents a shared-caching permission *)
Theorem C11_shared_permission_bits_sound : forall s c, cc_parse s = Some c ->
  (m_public c || m_must_revalidate c || is_some (v_s_maxage c)) = true ->
  exists item, In item (cc_items s) /\
    (is_directive d_public item || is_directive d_must_revalidate item || is_directive d_s_maxage item) = true.
Proof. exact parse_permission_sound. Qed.
Print Assumptions C11_shared_permission_bits_sound.

(* the strListGetItem loop reads quote-free list text as: split at commas, trim SP/HTAB, ignore empty elements *)
Theorem C11_cache_control_list_reading : forall l, simple l = true -> cc_items l = ref_items l.
Proof. exact cc_items_is_ref. Qed.
Print Assumptions C11_cache_control_list_reading.

(* the model's loop bound is never what ends the list *)
Theorem C11_list_loop_bound_sufficient : forall l k,
  ritems_fuel (S (length (c_str l)) + k) (c_str l) = ritems l.
Proof. exact ritems_fuel_sufficient. Qed.
Print Assumptions C11_list_loop_bound_sufficient.

(* ... nor is the bound of the quoted-string loop (httpHeaderParseQuotedString): the out-of-fuel result is unreachable and
   the reader never records it *)
Theorem C11_quoted_string_loop_bound_sufficient : forall p len, parse_quoted p len <> QsFuel.
Proof. exact parse_quoted_never_out_of_fuel. Qed.
Print Assumptions C11_quoted_string_loop_bound_sufficient.

Theorem C11_cache_control_reader_total : forall s c, cc_parse s = Some c -> fuel_out c = false.
Proof. exact cc_parse_total. Qed.
Print Assumptions C11_cache_control_reader_total.

(* the default settings the model hard-wires (regenerated constants) *)
Theorem C11_defaults_assumed :
  cfg_no_refresh_pattern = true /\ refresh_default_flags_clear = true /\ cfg_reload_into_ims = false /\
  cfg_refresh_all_ims = false /\ cfg_offline_mode = false /\ cfg_vary_ignore_expire = false /\
  cfg_no_store_miss = true /\ cfg_no_send_hit = true /\ cfg_no_cache_acl = true /\
  (negative_ttl default_config <= 0)%Z /\ use_http_violations = true.
Proof. exact defaults_assumed. Qed.
Print Assumptions C11_defaults_assumed.

(* ---- non-vacuity: the hypotheses are satisfiable and the unforbidden counterparts ARE hits *)
Example C11_ex_plain_hit : run (ex_q false []) (ex_p [t_max_age_3600]) = Hit.
Proof. exact ex_plain_hit. Qed.
Example C11_ex_no_store_miss : run (ex_q false []) (ex_p [t_max_age_no_store]) = Miss.
Proof. exact ex_no_store_miss. Qed.
Example C11_ex_private_miss : run (ex_q false []) (ex_p [t_max_age_3600; t_private_arg]) = Miss.
Proof. exact ex_private_miss. Qed.
Example C11_ex_request_no_store_miss : run (ex_q false [d_no_store]) (ex_p [t_max_age_3600]) = Miss.
Proof. exact ex_req_no_store_miss. Qed.
Example C11_ex_authorization_miss : run (ex_q true []) (ex_p [t_max_age_3600]) = Miss.
Proof. exact ex_auth_miss. Qed.
Example C11_ex_authorization_public_hit : run (ex_q true []) (ex_p [t_max_age_3600; d_public]) = Hit.
Proof. exact ex_auth_public_hit. Qed.
Example C11_ex_authorization_no_cache_revalidates : run (ex_q true []) (ex_p [t_max_age_3600; d_no_cache]) = Revalidate.
Proof. exact ex_auth_no_cache_revalidate. Qed.
Example C11_ex_sent_with_no_store :
  sent_with d_no_store [t_max_age_no_store] /\ simple (join_values [t_max_age_no_store]) = true.
Proof. exact ex_sent_with. Qed.
Example C11_ex_sent_with_private : sent_with d_private [t_max_age_3600; t_private_arg].
Proof. exact ex_sent_with_private. Qed.
Example C11_ex_no_shared_permission :
  ~ sent_with d_public [t_max_age_3600] /\ ~ sent_with d_must_revalidate [t_max_age_3600] /\
  ~ sent_with d_s_maxage [t_max_age_3600] /\ simple (join_values [t_max_age_3600]) = true /\
  (negative_ttl default_config <= 0)%Z.
Proof. exact ex_no_permission. Qed.
