// Harness for C57: the REAL Rock::Rebuild (src/fs/rock/RockRebuild.cc, included below so that its
// file-local LoadingParts/LoadingEntry/LoadingSlot state can be dumped), Rock::DbCellHeader
// (src/fs/rock/RockDbCell.h/.cc), storeRebuildLoadEntry/storeRebuildParseEntry (src/store_rebuild.cc, the
// real file, not tests/stub_store_rebuild.cc), the real Ipc::StoreMap and Ipc::Mem::PageStack, driven over a
// db file written from the case line. Derived from src/tests/testRock.cc (same set-up, same link recipe).
//
// case line:  rr.run <N> <slotSize> <doublecheck> <slot_0> ... <slot_{N-1}>
//   N            number of db slots the cache_dir must have: (1 MB - 16 KB header) / slotSize
//   slotSize     cache_dir ... slot-size=<slotSize>
//   doublecheck  opt_store_doublecheck (squid -S): 0 | 1
//   slot         E                              a slot of zero bytes
//                T<k>                           the file ends k (< 40) bytes into this slot; all later slots are T0
//                H:<k0>:<k1>:<entrySize>:<payloadSize>:<version>:<firstSlot>:<nextSlot>:<meta>
//                                               DbCellHeader fields (decimal; firstSlot/nextSlot signed) followed by
//   meta         Z                              payload begins with zero bytes
//                B                              payload begins with bytes that are not swap metadata
//                K<haskey>,<mk0>,<mk1>,<swap_file_sz>,<private>,<pad>,<hdrlen>
//                                               a well-formed swap meta prefix: optional STORE_META_KEY_MD5 (mk0,mk1),
//                                               STORE_META_STD_LFS with swap_file_sz and flags (KEY_PRIVATE iff private),
//                                               optional STORE_META_URL of <pad> bytes; hdrlen = its total length
//
// The rebuild job is constructed and driven directly (start(), then steps() until doneLoading() and
// doneValidating()), i.e. exactly the calls the event loop makes, without waiting for the 10 ms timers.
//
// result line:
//   ok c=<scancount>,<objcount>,<invalid>,<clashcount>,<dupcount>,<badflags>,<validations> n=<anchors.count>
//      | e <fileno>=<leState>,<anchored>,<leSize>,<leVersion>,<writing>,<readers>,<waitingToBeFreed>,<k0>.<k1>,<start>,<swap_file_sz>,<validated> ...
//      | s <slot>=<more>,<mapped><finalized><freed>,<slice.size>,<slice.next> ...
//      | f <free slot ids popped from the real free-slot PageStack, sorted>
//   CRASH assert | CRASH exc     an assert() failed / an exception escaped the job (squid would die)
#include <string>
#include <vector>
#include <map>
#include <algorithm>
#include <sstream>
#include <iostream>
#include <memory>
#include <atomic>
#include <array>
#include <limits>
#include <stdexcept>
#include <sys/stat.h>
#include <sys/types.h>
#include <dirent.h>
#include <signal.h>
#include <unistd.h>
#include <fcntl.h>

#include "squid.h"
#define private public
#define protected public
#include "ipc/ReadWriteLock.h"
#include "ipc/StoreMap.h"
#include "ipc/mem/PageStack.h"
#include "fs/rock/RockSwapDir.h"
#include "fs/rock/RockRebuild.h"
#undef private
#undef protected
#include "fs/rock/RockRebuild.cc"

#include "ConfigParser.h"
#include "DiskIO/DiskIOModule.h"
#include "fde.h"
#include "globals.h"
#include "HttpHeader.h"
#include "MemObject.h"
#include "SquidConfig.h"
#include "Store.h"
#include "store/Disk.h"
#include "store/Disks.h"
#include "store/SwapMeta.h"
#include "StoreFileSystem.h"
#include "event.h"
#include "mem/forward.h"
#include "comm.h"
#include "RemovalPolicy.h"
#include "hcommon.h"

struct AssertFailed {
    const char *msg;
};
extern "C" void xassert(const char *msg, const char *, int) { throw AssertFailed{msg}; }
// referenced by storeCleanupComplete() of the real store_rebuild.cc (never reached: swanSong() is not run)
void storeDigestNoteStoreReady(void) {}

static std::string BaseDir;

/// Rebuild::checkpoint() schedules the next steps() call with a 10 ms timer; the harness makes that call itself
static void
dropTimer(Rock::Rebuild *rb)
{
    if (eventFind(Rock::Rebuild::Steps, rb))
        eventDelete(Rock::Rebuild::Steps, rb);
}

static void
addSwapDir(RefCount<Rock::SwapDir> aStore)
{
    allocate_new_swapdir(Config.cacheSwap);
    Config.cacheSwap.swapDirs[Config.cacheSwap.n_configured] = aStore.getRaw();
    ++Config.cacheSwap.n_configured;
}

static void
startup()
{
    Config.memShared.defaultTo(false);
    Config.shmLocking.defaultTo(false);
    Ipc::Mem::Segment::BasePath = "/dev/shm";
    Config.Store.avgObjectSize = 1024;
    Config.Store.objectsPerBucket = 20;
    Config.Store.maxObjectSize = 2048;
    Config.store_dir_select_algorithm = xstrdup("round-robin");
    Config.replPolicy = new RemovalPolicySettings;
    Config.replPolicy->type = xstrdup("lru");
    Config.replPolicy->args = nullptr;
    extern REMOVALPOLICYCREATE createRemovalPolicy_lru;
    storeReplAdd("lru", createRemovalPolicy_lru);
    visible_appname_string = xstrdup(APP_FULLNAME);
    Mem::Init();
    fde::Init();
    comm_init();
    httpHeaderInitModule();
    mem_policy = createRemovalPolicy(Config.replPolicy);
}

static void put(std::string &b, const void *p, size_t n) { b.append(static_cast<const char *>(p), n); }

/// the bytes of one db slot (at most the first 4 KB matter to the rebuild)
static bool
slotBytes(const std::string &tok, std::string &out, std::string &err)
{
    out.clear();
    if (tok == "E")
        return true; // hole: zeros
    std::vector<std::string> f;
    {
        std::string cur;
        for (char c : tok) {
            if (c == ':') { f.push_back(cur); cur.clear(); } else cur.push_back(c);
        }
        f.push_back(cur);
    }
    if (f.size() != 9 || f[0] != "H") { err = "bad-slot-token"; return false; }
    Rock::DbCellHeader h;
    h.key[0] = std::stoull(f[1]);
    h.key[1] = std::stoull(f[2]);
    h.entrySize = std::stoull(f[3]);
    h.payloadSize = static_cast<uint32_t>(std::stoull(f[4]));
    h.version = static_cast<uint32_t>(std::stoull(f[5]));
    h.firstSlot = static_cast<sfileno>(std::stoll(f[6]));
    h.nextSlot = static_cast<sfileno>(std::stoll(f[7]));
    put(out, &h, sizeof(h));
    const std::string &m = f[8];
    if (m == "Z") {
        out.append(64, '\0');
    } else if (m == "B") {
        out.append("\x7f\x01\x02\x03garbage-not-swap-meta", 26);
    } else if (m[0] == 'K') {
        std::vector<std::string> g;
        std::string cur;
        for (size_t i = 1; i < m.size(); ++i) {
            if (m[i] == ',') { g.push_back(cur); cur.clear(); } else cur.push_back(m[i]);
        }
        g.push_back(cur);
        if (g.size() != 7) { err = "bad-meta-token"; return false; }
        const bool hasKey = g[0] == "1";
        uint64_t mk[2] = { std::stoull(g[1]), std::stoull(g[2]) };
        const uint64_t ssz = std::stoull(g[3]);
        const bool priv = g[4] == "1";
        const size_t pad = std::stoull(g[5]);
        const uint64_t hdrlen = std::stoull(g[6]);
        std::string fields;
        if (hasKey) {
            const char t = Store::STORE_META_KEY_MD5;
            const int l = 16;
            put(fields, &t, 1); put(fields, &l, sizeof(l)); put(fields, mk, 16);
        }
        {
            // the STORE_META_STD_LFS value is the raw StoreEntry tail starting at timestamp
            StoreEntry e;
            e.timestamp = 1000000000;
            e.lastref = 1000000000;
            e.expires = -1;
            e.lastModified(999999999);
            e.swap_file_sz = ssz;
            e.refcount = 1;
            e.flags = 0;
            if (priv)
                EBIT_SET(e.flags, KEY_PRIVATE);
            const char t = Store::STORE_META_STD_LFS;
            const int l = Store::STORE_HDR_METASIZE;
            put(fields, &t, 1); put(fields, &l, sizeof(l)); put(fields, &e.timestamp, l);
        }
        if (pad) {
            const char t = Store::STORE_META_URL;
            const int l = static_cast<int>(pad);
            std::string url(pad, 'u');
            url[pad - 1] = '\0';
            put(fields, &t, 1); put(fields, &l, sizeof(l)); put(fields, url.data(), pad);
        }
        const char magic = Store::SwapMetaMagic;
        const int total = static_cast<int>(Store::SwapMetaPrefixSize + fields.size());
        if (static_cast<uint64_t>(total) != hdrlen) {
            err = "hdrlen-mismatch-built-" + std::to_string(total);
            return false;
        }
        put(out, &magic, 1); put(out, &total, sizeof(total)); out += fields;
        out.append(32, 'd'); // some "body"
    } else {
        err = "bad-meta-kind";
        return false;
    }
    return true;
}

static void
rmTree()
{
    unlink((BaseDir + "/rock").c_str());
    rmdir(BaseDir.c_str());
}

static std::string
runCase(const std::vector<std::string> &a)
{
    const int64_t N = std::stoll(a[1]);
    const uint64_t slotSize = std::stoull(a[2]);
    const int dbl = std::stoi(a[3]);
    if (static_cast<int64_t>(a.size()) != 4 + N)
        return "ERR slot-count";

    // 1. the db image
    rmTree();
    if (mkdir(BaseDir.c_str(), 0700) != 0)
        return "ERR mkdir";
    const std::string file = BaseDir + "/rock";
    {
        const int fd = open(file.c_str(), O_WRONLY | O_CREAT | O_TRUNC, 0600);
        if (fd < 0)
            return "ERR create";
        std::string err;
        off_t end = Rock::SwapDir::HeaderSize;
        bool truncated = false;
        for (int64_t i = 0; i < N; ++i) {
            const std::string &tok = a[4 + i];
            const off_t off = Rock::SwapDir::HeaderSize + static_cast<off_t>(slotSize) * i;
            if (tok[0] == 'T') {
                const size_t k = std::stoull(tok.substr(1));
                if (!truncated) {
                    std::string junk(k, '\xab');
                    if (k && pwrite(fd, junk.data(), k, off) != static_cast<ssize_t>(k)) { close(fd); return "ERR write"; }
                    end = off + k;
                    truncated = true;
                } else if (k) { close(fd); return "ERR late-truncation"; }
                continue;
            }
            if (truncated) { close(fd); return "ERR slot-after-truncation"; }
            std::string bytes;
            if (!slotBytes(tok, bytes, err)) { close(fd); return "ERR " + err; }
            if (bytes.size() > slotSize) { close(fd); return "ERR slot-overflow"; }
            if (!bytes.empty() && pwrite(fd, bytes.data(), bytes.size(), off) != static_cast<ssize_t>(bytes.size())) { close(fd); return "ERR write"; }
            end = off + slotSize;
        }
        if (ftruncate(fd, end) != 0) { close(fd); return "ERR truncate"; }
        close(fd);
    }

    // 2. the cache_dir, its shared segments, map and free-slot stack (as TestRock::setUp + SwapDir::init)
    opt_store_doublecheck = dbl;
    RefCount<Rock::SwapDir> store = new Rock::SwapDir();
    addSwapDir(store);
    {
        char *path = xstrdup(BaseDir.c_str());
        std::string cfg = "1 max-size=16384 slot-size=" + std::to_string(slotSize);
        char *config_line = xstrdup(cfg.c_str());
        ConfigParser::SetCfgLine(config_line);
        store->parse(0, path);
        store_maxobjsize = 1024 * 1024 * 2;
        safe_free(path);
        safe_free(config_line);
    }
    Rock::SwapDirRr *rr = new Rock::SwapDirRr;
    rr->useConfig();

    std::ostringstream o;
    Rock::Rebuild *rb = nullptr;
    bool crashed = false;
    try {
        if (store->slotLimitActual() != N || store->entryLimitActual() != N) {
            o << "ERR slot-limit-" << store->slotLimitActual() << "-" << store->entryLimitActual();
            crashed = true;
        } else {
            store->freeSlots = shm_old(Ipc::Mem::PageStack)(store->freeSlotsPath());
            store->map = new Rock::SwapDir::DirMap(store->inodeMapPath());
            store->map->cleaner = store.getRaw();

            const auto stats = shm_old(Rock::Rebuild::Stats)(Rock::Rebuild::Stats::Path(store->path).c_str());
            if (stats->completed(*store)) {
                o << "ERR already-complete";
                crashed = true;
            } else {
                rb = new Rock::Rebuild(store.getRaw(), stats);
                rb->start();
                dropTimer(rb);
                int guard = 0;
                while (!(rb->doneLoading() && rb->doneValidating())) {
                    rb->steps();
                    dropTimer(rb);
                    if (++guard > 100000) { o << "ERR no-progress"; crashed = true; break; }
                }
            }
        }
    } catch (const AssertFailed &e) {
        if (getenv("VERIF_RR_DEBUG")) std::cerr << "assert: " << e.msg << "\n";
        o.str(""); o << "CRASH assert"; crashed = true;
    } catch (const std::exception &e) {
        if (getenv("VERIF_RR_DEBUG")) std::cerr << "exc: " << e.what() << "\n";
        o.str(""); o << "CRASH exc"; crashed = true;
    } catch (...) {
        o.str(""); o << "CRASH exc"; crashed = true;
    }

    if (!crashed) {
        try {
            const auto &c = rb->counts;
            o << "ok c=" << c.scancount << "," << c.objcount << "," << c.invalid << "," << c.clashcount << ","
              << c.dupcount << "," << c.badflags << "," << c.validations
              << " n=" << store->map->anchors->count.load() << " | e";
            auto &parts = *rb->parts;
            for (int64_t f = 0; f < N; ++f) {
                auto &an = store->map->anchors->items[f];
                const auto &fl = parts.flags().at(f);
                const uint64_t lesz = parts.sizes().at(f);
                const uint32_t lever = parts.versions().at(f);
                const bool touched = fl.state != 0 || fl.anchored || lesz || lever || an.lock.writing.load() ||
                                     an.lock.readers.load() || an.waitingToBeFreed.load() || an.key[0] || an.key[1] ||
                                     an.start.load() != 0 || an.basics.swap_file_sz.load() != 0 || an.basics.flags != 0;
                if (!touched)
                    continue;
                o << " " << f << "=" << int(fl.state) << "," << int(fl.anchored) << "," << lesz << "," << lever << ","
                  << int(an.lock.writing.load()) << "," << an.lock.readers.load() << "," << int(an.waitingToBeFreed.load()) << ","
                  << an.key[0] << "." << an.key[1] << "," << an.start.load() << "," << an.basics.swap_file_sz.load() << ","
                  << (EBIT_TEST(an.basics.flags, ENTRY_VALIDATED) ? 1 : 0);
            }
            o << " | s";
            for (int64_t s = 0; s < N; ++s) {
                const auto &fl = parts.flags().at(s);
                const auto more = parts.mores().at(s);
                auto &sl = store->map->slices->items[s];
                const bool touched = more != -1 || fl.mapped || fl.finalized || fl.freed || sl.size.load() != 0 || sl.next.load() != -1;
                if (!touched)
                    continue;
                o << " " << s << "=" << more << "," << int(fl.mapped) << int(fl.finalized) << int(fl.freed) << ","
                  << sl.size.load() << "," << sl.next.load();
            }
            o << " | f";
            std::vector<int64_t> ids;
            for (int64_t k = 0; k < N + 2; ++k) {
                Ipc::Mem::PageId p;
                if (!store->freeSlots->pop(p))
                    break;
                ids.push_back(static_cast<int64_t>(p.number) - 1);
            }
            std::sort(ids.begin(), ids.end());
            for (auto id : ids)
                o << " " << id;
        } catch (const AssertFailed &e) {
            o.str(""); o << "ERR dump-assert " << e.msg;
        } catch (const std::exception &e) {
            o.str(""); o << "ERR dump-exc " << e.what();
        }
    }

    // 3. tear down (as TestRock::tearDown)
    try {
        if (rb) {
            dropTimer(rb);
            delete rb;
        }
    } catch (...) {
    }
    try {
        store = nullptr;
        free_cachedir(&Config.cacheSwap);
        rr->finishShutdown();
        delete rr; // unlinks the shared segments
    } catch (const AssertFailed &e) {
        return o.str() + " ERR teardown-assert " + e.msg;
    } catch (...) {
        return o.str() + " ERR teardown";
    }
    rmTree();
    return o.str();
}

/// remove shared memory segments left behind by dead harness processes
static void
cleanStale()
{
    DIR *d = opendir("/dev/shm");
    if (!d)
        return;
    std::vector<std::string> victims;
    while (const auto e = readdir(d)) {
        const std::string n = e->d_name;
        const auto p = n.find("verif-rr-");
        if (p == std::string::npos)
            continue;
        const long pid = atol(n.c_str() + p + 9);
        if (pid > 0 && kill(static_cast<pid_t>(pid), 0) != 0)
            victims.push_back("/dev/shm/" + n);
    }
    closedir(d);
    for (const auto &v : victims)
        unlink(v.c_str());
    // db directories of dead harness processes
    if (DIR *t = opendir("/tmp")) {
        std::vector<std::string> dirs;
        while (const auto e = readdir(t)) {
            const std::string n = e->d_name;
            if (n.compare(0, 9, "verif-rr-") != 0)
                continue;
            const long pid = atol(n.c_str() + 9);
            if (pid > 0 && kill(static_cast<pid_t>(pid), 0) != 0)
                dirs.push_back("/tmp/" + n);
        }
        closedir(t);
        for (const auto &dname : dirs) {
            unlink((dname + "/rock").c_str());
            rmdir(dname.c_str());
        }
    }
}

int
main()
{
    BaseDir = "/tmp/verif-rr-" + std::to_string(getpid());
    cleanStale();
    if (!getenv("VERIF_RR_DEBUG")) {
        // the unit-test stubs linked from /repo report every call on stderr ("SKIP: ... (not implemented)")
        const int nul = open("/dev/null", O_WRONLY);
        if (nul >= 0) { dup2(nul, 2); close(nul); }
    }
    startup();
    std::string line;
    while (std::getline(std::cin, line)) {
        auto a = splitws(line);
        if (a.empty()) { std::cout << "\n" << std::flush; continue; }
        std::string out;
        try {
            if (a[0] == "rr.run" && a.size() >= 4)
                out = runCase(a);
            else
                out = "ERR unknown-entry " + a[0];
        } catch (const AssertFailed &e) {
            out = std::string("ERR harness-assert ") + e.msg;
        } catch (const std::exception &e) {
            out = std::string("ERR harness-exc ") + e.what();
        }
        std::cout << out << "\n" << std::flush;
    }
    rmTree();
    return 0;
}
