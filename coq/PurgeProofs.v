(* PurgeProofs.v — proofs about PurgeModel.v (C20). *)
Require Import SquidV.Bytes SquidV.PurgeModel.
Require Import SquidV.gen.PurgeMethods_gen SquidV.gen.PurgeUri_gen.
Local Open Scope N_scope.

(* ------------------------------------------------------------------ byte lists, keys *)
Lemma list_eqb_refl (a : bytes) : list_eqb a a = true.
Proof. induction a as [|x a IH]; cbn [list_eqb]; [reflexivity|]. now rewrite N.eqb_refl, IH. Qed.

Lemma list_eqb_eq (a b : bytes) : list_eqb a b = true <-> a = b.
Proof.
  revert b; induction a as [|x a IH]; intros [|y b]; cbn [list_eqb]; split; intros H; try reflexivity; try discriminate.
  - apply andb_true_iff in H as [Hx Hr]. apply N.eqb_eq in Hx. apply IH in Hr. now subst.
  - inversion H; subst. now rewrite N.eqb_refl, list_eqb_refl.
Qed.

Lemma list_eqb_sym (a b : bytes) : list_eqb a b = list_eqb b a.
Proof.
  revert b; induction a as [|x a IH]; intros [|y b]; cbn [list_eqb]; try reflexivity.
  now rewrite N.eqb_sym, IH.
Qed.

Lemma key_eqb_refl (k : key) : key_eqb k k = true.
Proof. unfold key_eqb. now rewrite N.eqb_refl, list_eqb_refl. Qed.

Lemma key_eqb_sym (a b : key) : key_eqb a b = key_eqb b a.
Proof. unfold key_eqb. now rewrite N.eqb_sym, list_eqb_sym. Qed.

Lemma key_eqb_eq (a b : key) : key_eqb a b = true <-> a = b.
Proof.
  destruct a as [i u], b as [j v]; unfold key_eqb; cbn [fst snd]. split; intros H.
  - apply andb_true_iff in H as [Hi Hu]. apply N.eqb_eq in Hi. apply list_eqb_eq in Hu. now subst.
  - inversion H; subst. now rewrite N.eqb_refl, list_eqb_refl.
Qed.

(* ------------------------------------------------------------------ the store *)
Lemma store_has_evict_same (k : key) (s : store) : store_has (evict_if_found k s) k = false.
Proof.
  unfold store_has, evict_if_found. induction s as [|e s IH]; cbn [filter existsb]; [reflexivity|].
  destruct (key_eqb e k) eqn:E; cbn [negb]; [exact IH|].
  cbn [existsb]. rewrite key_eqb_sym, E. exact IH.
Qed.

Lemma store_has_evict_mono (k k' : key) (s : store) :
  store_has s k = false -> store_has (evict_if_found k' s) k = false.
Proof.
  unfold store_has, evict_if_found. induction s as [|e s IH]; cbn [filter existsb]; [reflexivity|].
  intros H. apply orb_false_iff in H as [H1 H2].
  destruct (negb (key_eqb e k')); cbn [existsb]; [rewrite H1; cbn [orb]|]; now apply IH.
Qed.

Lemma store_has_evict_other (k k' : key) (s : store) :
  key_eqb k k' = false -> store_has (evict_if_found k' s) k = store_has s k.
Proof.
  intros Hne. unfold store_has, evict_if_found. induction s as [|e s IH]; cbn [filter existsb]; [reflexivity|].
  destruct (key_eqb e k') eqn:E; cbn [negb existsb]; [|now rewrite IH].
  apply key_eqb_eq in E; subst e. now rewrite Hne, IH.
Qed.

Lemma evict_all_mono (ks : list key) : forall s k, store_has s k = false -> store_has (evict_all ks s) k = false.
Proof.
  unfold evict_all. induction ks as [|k' ks IH]; intros s k H; cbn [fold_left]; [exact H|].
  apply IH. now apply store_has_evict_mono.
Qed.

Lemma evicted_not_in_store (ks : list key) : forall s k, In k ks -> store_has (evict_all ks s) k = false.
Proof.
  induction ks as [|k' ks IH]; intros s k Hin; [destruct Hin|].
  unfold evict_all; cbn [fold_left]. destruct Hin as [->|Hin].
  - apply (evict_all_mono ks). apply store_has_evict_same.
  - now apply IH.
Qed.

Lemma not_evicted_stays (ks : list key) : forall s k,
  (forall k', In k' ks -> key_eqb k k' = false) -> store_has (evict_all ks s) k = store_has s k.
Proof.
  induction ks as [|k' ks IH]; intros s k H; [reflexivity|].
  unfold evict_all; cbn [fold_left]. fold (evict_all ks (evict_if_found k' s)).
  rewrite IH by (intros k2 H2; apply H; now right).
  apply store_has_evict_other. apply H. now left.
Qed.

(* ------------------------------------------------------------------ method table *)
Lemma attrs_of_prop (P : attrs -> bool) (tbl : list (N * bytes * attrs)) :
  forallb (fun e => P (snd e)) tbl = true -> P (false, false, false) = true -> forall id, P (attrs_of tbl id) = true.
Proof.
  intros Ht Hd id. induction tbl as [|[[i img] a] r IH]; cbn [attrs_of]; [exact Hd|].
  cbn [forallb snd] in Ht. apply andb_true_iff in Ht as [Ha Hr].
  destruct (i =? id); [exact Ha| now apply IH].
Qed.

Lemma should_invalidate_purges (id : N) : should_invalidate id = true -> purges_others id = true.
Proof.
  unfold should_invalidate, purges_others.
  pose proof (attrs_of_prop (fun a => implb (fst (fst a)) (snd (fst a))) pg_methods) as H.
  specialize (H ltac:(vm_compute; reflexivity) ltac:(reflexivity) id). cbn beta in H.
  destruct (fst (fst (attrs_of pg_methods id))); cbn [implb] in H; [intros _; exact H| discriminate].
Qed.

Lemma named_methods_invalidate :
  should_invalidate pg_METHOD_POST = true /\ should_invalidate pg_METHOD_PUT = true /\
  should_invalidate pg_METHOD_DELETE = true /\ should_invalidate pg_METHOD_OTHER = true.
Proof. vm_compute. repeat split. Qed.

Lemma safe_methods_do_not_purge :
  purges_others pg_METHOD_GET = false /\ purges_others pg_METHOD_HEAD = false /\ purges_others pg_METHOD_CONNECT = false /\
  purges_others pg_METHOD_NONE = false.
Proof. vm_compute. repeat split. Qed.

Lemma cacheable_are_get_head : cacheable_ids pg_methods = [pg_METHOD_GET; pg_METHOD_HEAD].
Proof. vm_compute. reflexivity. Qed.

Lemma cacheable_ids_spec (tbl : list (N * bytes * attrs)) (m : N) :
  In m (cacheable_ids tbl) <-> exists img si po, In (m, img, (si, po, true)) tbl.
Proof.
  induction tbl as [|[[i img] [[si po] c]] r IH]; cbn [cacheable_ids].
  - split; [intros []| intros (? & ? & ? & [])].
  - destruct c; cbn [In]; rewrite IH; split.
    + intros [->|(img' & si' & po' & H)]; [exists img, si, po; now left| exists img', si', po'; now right].
    + intros (img' & si' & po' & [H|H]); [inversion H; now left| right; now exists img', si', po'].
    + intros (img' & si' & po' & H); exists img', si', po'; now right.
    + intros (img' & si' & po' & [H|H]); [inversion H| now exists img', si', po'].
Qed.

(* a method token that matches no table image (under caseCmp) is METHOD_OTHER, relaxed parser or not *)
Lemma method_search_other (relaxed : bool) (tbl : list (N * bytes * attrs)) (s : bytes) :
  forallb (fun e => negb (case_eqb (snd (fst e)) s)) tbl = true -> method_search relaxed tbl s = pg_METHOD_OTHER.
Proof.
  induction tbl as [|[[i img] a] r IH]; cbn [method_search forallb fst snd]; [reflexivity|].
  intros H. apply andb_true_iff in H as [H1 H2]. apply negb_true_iff in H1. rewrite H1.
  destruct (i =? pg_METHOD_NONE); now apply IH.
Qed.

Lemma unknown_method_is_other (relaxed : bool) (s : bytes) :
  s <> [] -> forallb (fun e => negb (case_eqb (snd (fst e)) s)) pg_methods = true ->
  method_of_image relaxed s = pg_METHOD_OTHER.
Proof.
  intros Hs H. unfold method_of_image. destruct s as [|c s]; [congruence|]. now apply method_search_other.
Qed.

(* ------------------------------------------------------------------ Uri caches *)
Definition uri_abs_text (u : uri) : bytes := u_front u ++ uri_encode pg_PathChars (uri_path u).
Definition caches_ok (u : uri) : Prop :=
  (u_abspath_cache u = [] \/ u_abspath_cache u = uri_encode pg_PathChars (uri_path u)) /\
  (u_abs_cache u = [] \/ u_abs_cache u = uri_abs_text u).

Lemma nonempty_false (l : bytes) : nonempty l = false -> l = [].
Proof. destruct l; [reflexivity| discriminate]. Qed.

Lemma uri_absolute_path_ok (u : uri) : caches_ok u ->
  fst (uri_absolute_path u) = uri_encode pg_PathChars (uri_path u) /\ caches_ok (snd (uri_absolute_path u)) /\
  u_front (snd (uri_absolute_path u)) = u_front u /\ u_path (snd (uri_absolute_path u)) = u_path u /\
  u_httpx (snd (uri_absolute_path u)) = u_httpx u /\ u_urn (snd (uri_absolute_path u)) = u_urn u /\
  u_abs_cache (snd (uri_absolute_path u)) = u_abs_cache u.
Proof.
  intros [Hp Ha]. unfold uri_absolute_path. destruct (nonempty (u_abspath_cache u)) eqn:E; cbn [fst snd].
  - destruct Hp as [Hp|Hp]; [rewrite Hp in E; discriminate|]. repeat split; try assumption. now right.
  - repeat split; cbn; try reflexivity.
    + now right.
    + exact Ha.
Qed.

Lemma uri_absolute_ok (u : uri) : caches_ok u ->
  fst (uri_absolute u) = uri_abs_text u /\ caches_ok (snd (uri_absolute u)) /\
  u_front (snd (uri_absolute u)) = u_front u /\ u_path (snd (uri_absolute u)) = u_path u /\
  u_httpx (snd (uri_absolute u)) = u_httpx u /\ u_urn (snd (uri_absolute u)) = u_urn u /\
  (fst (uri_absolute u) <> [] -> u_abs_cache (snd (uri_absolute u)) = fst (uri_absolute u)).
Proof.
  intros Hok. pose proof Hok as [Hp Ha]. unfold uri_absolute. destruct (nonempty (u_abs_cache u)) eqn:E; cbn [fst snd].
  - destruct Ha as [Ha|Ha]; [rewrite Ha in E; discriminate|]. repeat split; try assumption; try reflexivity. now right.
  - destruct (uri_absolute_path_ok u Hok) as (H1 & H2 & H3 & H4 & H5 & H6 & H7).
    destruct (uri_absolute_path u) as [ap u1] eqn:Eap; cbn [fst snd] in *.
    repeat split; cbn; try assumption.
    + unfold uri_abs_text. now rewrite H3, H1.
    + destruct H2 as [H2 _]. unfold uri_path in *; cbn. unfold uri_path in H2. rewrite H4, H5 in *. exact H2.
    + right. unfold uri_abs_text, uri_path; cbn. rewrite H1, H3. unfold uri_path. now rewrite H4, H5.
Qed.

(* the text absolute() returns does not change when it is asked again (whatever the caches held) *)
Lemma uri_absolute_fst_idem (u : uri) : fst (uri_absolute (snd (uri_absolute u))) = fst (uri_absolute u).
Proof.
  destruct u as [fr hx urn p ca cp]. unfold uri_absolute; cbn [u_abs_cache].
  destruct (nonempty ca) eqn:Ea; cbn [fst snd u_abs_cache]; [now rewrite Ea|].
  unfold uri_absolute_path; cbn [u_abspath_cache u_front u_httpx u_urn u_path u_abs_cache].
  destruct (nonempty cp) eqn:Ep; cbn [fst snd u_front u_abs_cache u_abspath_cache u_httpx u_urn u_path].
  - destruct (nonempty (fr ++ cp)) eqn:Ev; cbn [fst snd]; [reflexivity|].
    cbn [u_abspath_cache]. rewrite Ep. reflexivity.
  - set (v := uri_encode pg_PathChars (uri_path (mkUri fr hx urn p ca cp))).
    destruct (nonempty (fr ++ v)) eqn:Ev; cbn [fst snd]; [reflexivity|].
    cbn [u_abspath_cache]. destruct (nonempty v) eqn:Ev2; cbn [fst snd u_front]; [reflexivity|].
    unfold uri_path; cbn [u_path u_httpx]. reflexivity.
Qed.

Lemma eru_fst_idem (rq : request) :
  fst (effective_request_uri (snd (effective_request_uri rq))) = fst (effective_request_uri rq).
Proof.
  unfold effective_request_uri.
  destruct ((rq_method rq =? pg_METHOD_CONNECT) || rq_authority_form rq) eqn:E; cbn [fst snd]; [now rewrite E|].
  destruct (uri_absolute (rq_url rq)) as [a u'] eqn:Eu; cbn [fst snd rq_method rq_authority_form rq_url].
  rewrite E. pose proof (uri_absolute_fst_idem (rq_url rq)) as H. rewrite Eu in H; cbn [fst snd] in H.
  destruct (uri_absolute u') as [a2 u2]; cbn [fst snd] in *. exact H.
Qed.

Lemma eru_method (rq : request) : rq_method (snd (effective_request_uri rq)) = rq_method rq.
Proof.
  unfold effective_request_uri. destruct ((rq_method rq =? pg_METHOD_CONNECT) || rq_authority_form rq); [reflexivity|].
  now destruct (uri_absolute (rq_url rq)).
Qed.

(* ------------------------------------------------------------------ what is evicted *)
Lemma in_purge_by_url (m : N) (url : bytes) : In (m, url) (purge_entries_by_url url) <-> In m (cacheable_ids pg_methods).
Proof.
  unfold purge_entries_by_url. rewrite in_map_iff. split.
  - intros (x & Hx & Hin). inversion Hx; now subst.
  - intros H. now exists m.
Qed.

Definition request_uri (rq : request) : bytes := cstr (fst (effective_request_uri rq)).

Lemma maybe_purge_target (rq : request) (rp : reply) (m : N) :
  purges_others (rq_method rq) = true -> rp_status rp < STATUS_LIMIT -> In m (cacheable_ids pg_methods) ->
  In (m, request_uri rq) (maybe_purge_others rq rp).
Proof.
  intros Hp Hs Hm. unfold maybe_purge_others. rewrite Hp; cbn [negb].
  destruct (STATUS_LIMIT <=? rp_status rp) eqn:E; [apply N.leb_le in E; lia|].
  unfold request_uri. destruct (effective_request_uri rq) as [u0 rq1]; cbn [fst].
  apply in_or_app; left. now apply in_purge_by_url.
Qed.

Lemma target_evicted (rq : request) (rp : reply) (m : N) :
  purges_others (rq_method rq) = true -> rp_status rp < STATUS_LIMIT -> In m (cacheable_ids pg_methods) ->
  In (m, request_uri rq) (evicted_keys rq rp).
Proof.
  intros Hp Hs Hm. unfold evicted_keys. apply in_or_app; right.
  replace (request_uri rq) with (request_uri (snd (effective_request_uri rq))) by (unfold request_uri; now rewrite eru_fst_idem).
  apply maybe_purge_target; [now rewrite eru_method| exact Hs| exact Hm].
Qed.

Lemma other_method_target_evicted (rq : request) (rp : reply) (m : N) :
  rq_method rq = pg_METHOD_OTHER -> In m (cacheable_ids pg_methods) -> In (m, request_uri rq) (evicted_keys rq rp).
Proof.
  intros Ho Hm. unfold evicted_keys, process_miss_purge. rewrite Ho, N.eqb_refl.
  apply in_or_app; left. now apply in_purge_by_url.
Qed.

Lemma nothing_evicted_without_purging_method (rq : request) (rp : reply) :
  purges_others (rq_method rq) = false -> (rq_method rq =? pg_METHOD_OTHER) = false -> evicted_keys rq rp = [].
Proof.
  intros Hp Ho. unfold evicted_keys, process_miss_purge, maybe_purge_others. rewrite Ho, eru_method, Hp. reflexivity.
Qed.

Lemma nothing_evicted_on_error_reply (rq : request) (rp : reply) :
  STATUS_LIMIT <= rp_status rp -> (rq_method rq =? pg_METHOD_OTHER) = false -> evicted_keys rq rp = [].
Proof.
  intros Hs Ho. unfold evicted_keys, process_miss_purge, maybe_purge_others. rewrite Ho.
  destruct (negb (purges_others (rq_method (snd (effective_request_uri rq))))); [reflexivity|].
  apply N.leb_le in Hs. now rewrite Hs.
Qed.

(* the user-visible form: after the exchange no lookup finds the target's GET/HEAD entries, whatever the store held *)
Lemma target_not_served (rq : request) (rp : reply) (m : N) (s : store) :
  purges_others (rq_method rq) = true -> rp_status rp < STATUS_LIMIT -> In m (cacheable_ids pg_methods) ->
  store_has (evict_all (evicted_keys rq rp) s) (m, request_uri rq) = false.
Proof. intros Hp Hs Hm. apply evicted_not_in_store. now apply target_evicted. Qed.

Lemma target_not_served_for_invalidating (rq : request) (rp : reply) (s : store) :
  should_invalidate (rq_method rq) = true -> rp_status rp < 400 ->
  store_has (evict_all (evicted_keys rq rp) s) (pg_METHOD_GET, request_uri rq) = false /\
  store_has (evict_all (evicted_keys rq rp) s) (pg_METHOD_HEAD, request_uri rq) = false.
Proof.
  intros Hi Hs. apply should_invalidate_purges in Hi.
  split; apply target_not_served; try assumption; rewrite cacheable_are_get_head; cbn [In]; auto.
Qed.
