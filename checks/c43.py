"""C43: integer-range ACLs match exactly the configured ranges."""
import re
from vlib import std, hbuild

PID = "C43"
META = {
    "text": "Theorems (Properties_C43.v) state for ALL token lists handed to ACLIntRange::parse (tokens free of NUL and "
            "isspace bytes, as ConfigParser delivers them) that the configuration is accepted exactly when every token reads "
            "as N or A-B (C integers, 0 <= A <= B <= 65535, split at the first '-'), that the stored list holds one half-open "
            "range per token in order, and that for every int i below INT_MAX match(i) is true exactly when some token's range "
            "contains i - any order, duplicates and overlaps included; no int operation overflows for any i < INT_MAX "
            "(in particular the 16-bit port space) and i+1 overflows exactly at i = INT_MAX, which the two users "
            "(port, localport: unsigned short values) cannot pass. The model is tied to src/acl/IntRange.cc, src/Parsing.cc "
            "(xatos) and src/ConfigParser.cc by differential runs of the extracted model against those sources compiled "
            "from the working tree under UBSan, exhaustively for all lists of one and two ranges over a small universe.",
    "note": "Full proof; Print Assumptions: closed under the global context. Leniencies of strtoll are part of the statement: "
            "'+7', '0-+5' and '0--0' are accepted as 7, 0..5 and 0..0. Trusted: Coq kernel, extraction, harness/h_intrange.cc "
            "(supplies a throwing self_destruct() in place of the fatal one), TokModel.strtoll10 as the model of glibc strtoll "
            "(validated on the generated cases only). Tokenisation itself (ConfigParser) is exercised but not modelled.",
    "technique": "Coq proof (induction over the token loop and the range list, interval arithmetic with explicit int "
                 "wrap/overflow flags, lia) + extracted-model differential correspondence under UBSan",
}
LINK = ("String.o tests/stub_debug.o tests/stub_fatal.o tests/stub_libmem.o tests/stub_neighbors.o tests/stub_acl.o globals.o "
        "acl/libapi.la ip/libip.la sbuf/libsbuf.la base/libbase.la ../compat/libcompatsquid.la").split()
FRESH = ["src/acl/IntRange.cc", "src/Parsing.cc", "src/ConfigParser.cc"]


def impl():
    return hbuild.build("h_intrange", "h_intrange.cc", fresh=FRESH, link=LINK, sanitize="ubsan")


def prebuild():
    impl()


def hx(b):
    return bytes(b).hex() if len(b) else "-"


def unhx(h):
    return b"" if h == "-" else bytes.fromhex(h)


def case_of(tokens, qs):
    return "intrange %s %s" % (",".join(hx(t.encode("latin-1")) for t in tokens) or "-", ",".join(str(q) for q in qs) or "-")


def tok_of(lo, hi, rng=None):
    if lo == hi and (rng is None or rng.random() < 0.7):
        return str(lo)
    return "%d-%d" % (lo, hi)


# ---------------------------------------------------------------- generator
def exhaustive(universe, tier):
    """every list of one range and every ordered pair of ranges over 0..universe-1, queried on the whole universe +-1"""
    rs = [(lo, hi) for lo in range(universe) for hi in range(lo, universe)]
    qs = list(range(-1, universe + 2))
    out = [case_of([], qs)]
    for r in rs:
        out.append(case_of([tok_of(*r)], qs))
        if r[0] == r[1]:
            out.append(case_of(["%d-%d" % r], qs))
    for r1 in rs:
        for r2 in rs:
            out.append(case_of([tok_of(*r1), tok_of(*r2)], qs))
    return out


BAD = ["-5", "5-1", "65536", "0-65536", "80x", "x80", "1-2-3", "1-", "-", "0x10", "99999999999999999999", "1--2", "1.5", "80,81",
       "1-2x", "a-b", "+", "1-+", "--", "65535-65536", "4294967376", "18446744073709551696", "-0", "1:2", "7-6", "10-9", "1-0"]
ODD = ["+7", "0-+5", "0--0", "007", "0-0", "65535", "0-65535", "00080-0081", "65535-65535", "1-+65535"]


def rand_case(rng):
    k = rng.random()
    n = rng.choice([1, 1, 2, 2, 3, 4, 6, 10])
    toks = []
    pts = set()
    small = k < 0.35
    for _ in range(n):
        if small:
            lo = rng.randrange(0, 16); hi = rng.randrange(lo, 16)
        else:
            lo = rng.choice([0, 1, 79, 80, 443, 1023, 1024, 8080, 32767, 32768, 65534, 65535, rng.randrange(65536)])
            hi = min(65535, lo + rng.choice([0, 0, 1, 2, 10, 1000, 40000, 65535]))
        if rng.random() < 0.08:
            t = rng.choice(ODD)
        else:
            t = tok_of(lo, hi, rng)
        toks.append(t)
        pts.update([lo - 1, lo, lo + 1, hi - 1, hi, hi + 1])
    if rng.random() < 0.42:
        j = rng.randrange(len(toks))
        m = rng.random()
        if m < 0.6:
            toks[j] = rng.choice(BAD)
        else:
            b = bytearray(toks[j].encode())
            p = rng.randrange(len(b))
            c = rng.choice(b"-+x0123456789.,:")
            if rng.random() < 0.5:
                b[p] = c
            else:
                b.insert(p, c)
            toks[j] = b.decode()
    if small:
        qs = list(range(-1, 18))
    else:
        qs = sorted(pts | {-1, 0, 65535, 65536, rng.randrange(65536), rng.randrange(65536)})
        if rng.random() < 0.1:
            qs += [2147483646, -2147483648, 70000]
    return case_of(toks, qs)


def gen_cases(rng, n):
    # the exhaustive part (18 769 cases) is the same on every run; n counts the random part
    return exhaustive(16, None) + [rand_case(rng) for _ in range(n)]


# ---------------------------------------------------------------- oracle (independent statement of the property)
A_RE = re.compile(rb"\+?[0-9]+\Z")
B_RE = re.compile(rb"[+-]?[0-9]+\Z")


def listed(tokens):
    """closed ranges the configuration lists, or None when some token is not a value / range of 16-bit numbers"""
    out = []
    for t in tokens:
        a, dash, b = t.partition(b"-")
        if not A_RE.match(a):
            return None
        lo = int(a)
        if dash:
            if not B_RE.match(b):
                return None
            hi = int(b)
        else:
            hi = lo
        if not (0 <= lo <= hi <= 65535):
            return None
        out.append((lo, hi))
    return out


def oracle(case, out):
    a = case.split()
    tokens = [] if a[1] == "-" else [unhx(h) for h in a[1].split(",")]
    qs = [] if a[2] == "-" else [int(q) for q in a[2].split(",")]
    if out.startswith(("CRASH", "EXC", "ERR", "UB")):
        return ("oracle:intrange-crash", "implementation crashed / UBSan abort / threw: " + out[:200])
    cfg = listed(tokens)
    if out == "destruct":
        return None if cfg is None else ("oracle:intrange-valid-rejected", "a list of valid values/ranges was rejected")
    if cfg is None:
        return ("oracle:intrange-invalid-accepted", "a list with a malformed or out-of-range token was accepted")
    try:
        bits = out.split(" | ")[1]
        bits = "" if bits == "-" else bits
        if len(bits) != len(qs):
            raise ValueError("answer count")
    except Exception as ex:
        return ("oracle:intrange-unparsable", "unparsable implementation output %r (%s)" % (out[:100], ex))
    for q, b in zip(qs, bits):
        want = any(lo <= q <= hi for lo, hi in cfg)
        if (b == "1") != want:
            return ("oracle:intrange-match", "match(%d) = %s but %d is %sin the union of the listed ranges %s"
                    % (q, b, q, "" if want else "not ", cfg[:8]))
    return None


def mutate(rng, case):
    a = case.split()
    toks = [] if a[1] == "-" else a[1].split(",")
    if toks and rng.random() < 0.6:
        j = rng.randrange(len(toks))
        b = bytearray(unhx(toks[j]))
        if b:
            b[rng.randrange(len(b))] = rng.choice(b"-+0123456789")
        toks[j] = hx(b) if b else hx(b"1")
    else:
        toks.append(hx(tok_of(rng.randrange(16), 16 + rng.randrange(16)).encode()))
    a[1] = ",".join(toks)
    return " ".join(a)


def kind(c, o):
    if o == "destruct":
        return "rejected"
    if o.startswith("ok"):
        bits = o.split(" | ")[1]
        return "hit+miss" if ("1" in bits and "0" in bits) else ("all-hit" if "1" in bits else "all-miss")
    return "other"


def run(res, tier):
    res.rule = ("exhaustive: every list of one range and every ordered pair of ranges over 0..15, "
                "each queried on the whole universe +-1; random: lists of 1..10 values/ranges over 0..15 or over the 16-bit port "
                "space (boundaries 0, 65535, range ends +-1 queried), 8% lenient spellings (+7, 0--0), 42% with one token "
                "broken (reversed, > 65535, signs, letters, double dash); a case is non-trivial when the list was accepted "
                "and at least one query hit")
    std.run_standard(res, PID, tier, area="intrange", build_impl=impl, gen_cases=gen_cases, oracle=oracle,
                     corr_name="IntrangeModel vs src/acl/IntRange.cc, src/Parsing.cc, src/ConfigParser.cc, src/base/Range.h",
                     gens=[], n_quick=30000, n_thorough=300000, seed_salt=43, mutate=mutate,
                     kind_fn=kind, nontrivial_fn=lambda c, o: o.startswith("ok") and "1" in o.split(" | ")[1])
