(* runner.ml — line-oriented driver around the extracted models.
   usage: runner   (reads cases on stdin: "<entry> <args...>", one per line)
   Every result is printed as one canonical line. *)
open Model

(* ---------- conversions ---------- *)
let rec pos_of_int (i : int) : positive =
  if i = 1 then XH else if i land 1 = 0 then XO (pos_of_int (i lsr 1)) else XI (pos_of_int (i lsr 1))
let n_of_int (i : int) : n = if i = 0 then N0 else Npos (pos_of_int i)
let rec int_of_pos = function XH -> 1 | XO p -> 2 * int_of_pos p | XI p -> 2 * int_of_pos p + 1
let int_of_n = function N0 -> 0 | Npos p -> int_of_pos p

(* decimal strings <-> positive, any size *)
let dec_double_add (d : int array) (carry0 : int) : int array =
  (* d little-endian decimal digits; returns 2*d + carry0 *)
  let n = Array.length d in
  let out = Array.make (n + 1) 0 in
  let c = ref carry0 in
  for i = 0 to n - 1 do
    let v = 2 * d.(i) + !c in
    out.(i) <- v mod 10; c := v / 10
  done;
  out.(n) <- !c;
  let len = ref (n + 1) in
  while !len > 1 && out.(!len - 1) = 0 do decr len done;
  Array.sub out 0 !len
let rec dec_of_pos = function
  | XH -> [|1|]
  | XO p -> dec_double_add (dec_of_pos p) 0
  | XI p -> dec_double_add (dec_of_pos p) 1
let string_of_dec d =
  let n = Array.length d in String.init n (fun i -> Char.chr (48 + d.(n - 1 - i)))
let string_of_pos p = string_of_dec (dec_of_pos p)
let string_of_n = function N0 -> "0" | Npos p -> string_of_pos p
let string_of_z = function Z0 -> "0" | Zpos p -> string_of_pos p | Zneg p -> "-" ^ string_of_pos p

(* decimal string -> bits by repeated halving *)
let pos_of_string (s : string) : positive option =
  (* returns None for zero *)
  let d = Array.init (String.length s) (fun i -> Char.code s.[i] - 48) in (* big-endian *)
  let is_zero a = Array.for_all (fun x -> x = 0) a in
  let halve a = (* returns remainder; a modified in place *)
    let r = ref 0 in
    for i = 0 to Array.length a - 1 do
      let v = !r * 10 + a.(i) in a.(i) <- v / 2; r := v mod 2
    done; !r in
  let bits = ref [] in
  while not (is_zero d) do bits := halve d :: !bits done;
  (* bits: most significant first *)
  match !bits with
  | [] -> None
  | _ :: rest -> Some (List.fold_left (fun p b -> if b = 1 then XI p else XO p) XH rest)
let n_of_string s = match pos_of_string s with None -> N0 | Some p -> Npos p
let z_of_string s =
  if String.length s > 0 && s.[0] = '-' then
    (match pos_of_string (String.sub s 1 (String.length s - 1)) with None -> Z0 | Some p -> Zneg p)
  else (match pos_of_string s with None -> Z0 | Some p -> Zpos p)

let hexval c = match c with
  | '0'..'9' -> Char.code c - 48 | 'a'..'f' -> Char.code c - 87 | 'A'..'F' -> Char.code c - 55
  | _ -> failwith "hex"
let bytes_of_hex (h : string) : n list =
  if h = "-" then [] else
  let n = String.length h / 2 in
  List.init n (fun i -> n_of_int (hexval h.[2*i] * 16 + hexval h.[2*i+1]))
let hex_of_bytes (l : n list) : string =
  if l = [] then "-" else
  String.concat "" (List.map (fun b -> Printf.sprintf "%02x" (int_of_n b)) l)

(* a character set argument: 64 hex chars = 256 bits, bit c of byte c/8 (LSB first) *)
let storage_of_hex (h : string) : bool list =
  List.init 256 (fun c -> let b = hexval h.[2*(c/8)] * 16 + hexval h.[2*(c/8)+1] in (b lsr (c mod 8)) land 1 = 1)
let hex_of_storage (s : bool list) : string =
  let a = Array.of_list s in
  String.concat "" (List.init 32 (fun i ->
    let b = ref 0 in
    for k = 0 to 7 do if i*8+k < Array.length a && a.(i*8+k) then b := !b lor (1 lsl k) done;
    Printf.sprintf "%02x" !b))
let cset_of_hex h = mem_tbl (storage_of_hex h)

let b2s b = if b then "1" else "0"
let tokres = function
  | None -> "fail"
  | Some (t, r) -> "ok " ^ hex_of_bytes t ^ " " ^ hex_of_bytes r

(* ---------- entries ---------- *)
let handlers : (string, string list -> string) Hashtbl.t = Hashtbl.create 64
let reg name f = Hashtbl.replace handlers name f

let () =
  reg "cs.plus" (fun [a; b] -> hex_of_storage (cs_plus (storage_of_hex a) (storage_of_hex b)));
  reg "cs.minus" (fun [a; b] -> hex_of_storage (cs_minus (storage_of_hex a) (storage_of_hex b)));
  reg "cs.complement" (fun [a] -> hex_of_storage (cs_complement (storage_of_hex a)));
  reg "cs.add" (fun [a; c] -> hex_of_storage (cs_add (storage_of_hex a) (n_of_string c)));
  reg "cs.remove" (fun [a; c] -> hex_of_storage (cs_remove (storage_of_hex a) (n_of_string c)));
  reg "cs.addRange" (fun [a; lo; hi] -> hex_of_storage (cs_addRange (storage_of_hex a) (n_of_string lo) (n_of_string hi)));
  reg "cs.ofString" (fun [s] -> hex_of_storage (cs_of_string (bytes_of_hex s)));
  reg "cs.mem" (fun [a; c] -> b2s (cs_mem (storage_of_hex a) (n_of_string c)));
  reg "tok.prefix" (fun [set; lim; inp] -> tokres (tok_prefix (cset_of_hex set) (n_of_string lim) (bytes_of_hex inp)));
  reg "tok.suffix" (fun [set; lim; inp] -> tokres (tok_suffix (cset_of_hex set) (n_of_string lim) (bytes_of_hex inp)));
  reg "tok.skipAll" (fun [set; inp] -> let (k, r) = tok_skipAll (cset_of_hex set) (bytes_of_hex inp) in
                      string_of_n k ^ " " ^ hex_of_bytes r);
  reg "tok.skipAllTrailing" (fun [set; inp] -> let (k, r) = tok_skipAllTrailing (cset_of_hex set) (bytes_of_hex inp) in
                      string_of_n k ^ " " ^ hex_of_bytes r);
  reg "tok.skipOne" (fun [set; inp] -> let (k, r) = tok_skipOne (cset_of_hex set) (bytes_of_hex inp) in
                      b2s k ^ " " ^ hex_of_bytes r);
  reg "tok.skipOneTrailing" (fun [set; inp] -> let (k, r) = tok_skipOneTrailing (cset_of_hex set) (bytes_of_hex inp) in
                      b2s k ^ " " ^ hex_of_bytes r);
  reg "tok.skipChar" (fun [c; inp] -> let (k, r) = tok_skipChar (n_of_string c) (bytes_of_hex inp) in
                      b2s k ^ " " ^ hex_of_bytes r);
  reg "tok.skip" (fun [t; inp] -> let (k, r) = tok_skip (bytes_of_hex t) (bytes_of_hex inp) in
                      b2s k ^ " " ^ hex_of_bytes r);
  reg "tok.skipSuffix" (fun [t; inp] -> let (k, r) = tok_skipSuffix (bytes_of_hex t) (bytes_of_hex inp) in
                      b2s k ^ " " ^ hex_of_bytes r);
  reg "tok.token" (fun [set; inp] -> tokres (tok_token (cset_of_hex set) (bytes_of_hex inp)));
  reg "tok.int64" (fun [base; sign; lim; inp] ->
      match tok_int64 (z_of_string base) (sign = "1") (n_of_string lim) (bytes_of_hex inp) with
      | None -> "fail"
      | Some (v, k) -> "ok " ^ string_of_z v ^ " " ^ string_of_n k)

let () =
  try
    while true do
      let line = input_line stdin in
      let ws = List.filter (fun s -> s <> "") (String.split_on_char ' ' (String.trim line)) in
      (match ws with
       | [] -> print_string "\n"
       | e :: args ->
         let out =
           (try (match Hashtbl.find_opt handlers e with
                | Some f -> f args
                | None -> "ERR unknown-entry " ^ e)
            with Match_failure _ -> "ERR bad-args" | Failure m -> "ERR " ^ m | Stack_overflow -> "ERR stack") in
         print_string out; print_char '\n')
    done
  with End_of_file -> ()
