(* PagelogProofs.v — lemmas and proofs for C33 (error-page macro expansion) and C34 (access-log quoting). *)
Require Import SquidV.Bytes SquidV.TokModel SquidV.QuoteModel SquidV.QuoteProofs SquidV.PagelogModel.
Require Import SquidV.gen.ByteMaps_gen SquidV.gen.ErrMacros_gen SquidV.gen.LogQuote_gen.
Require Import ZifyBool ZifyN ZifyNat.
Ltac Zify.zify_post_hook ::= Z.div_mod_to_equations.
Local Open Scope N_scope.

(* ====================================================================== *)
(* generic: per-byte table maps without the "every element is a byte" hypothesis *)

Lemma tbl_get_oob {A} (d : A) t : forall c, lenN t <= c -> tbl_get d t c = d.
Proof.
  induction t as [|x r IH]; intros c Hc; cbn [tbl_get]; [reflexivity|].
  cbn [lenN] in Hc. destruct (c =? 0) eqn:E; [lia|]. apply IH. lia.
Qed.

Definition lt256 (c : N) : bool := c <? 256.

Lemma filter_lt256_ok s : bytes_ok (filter lt256 s).
Proof.
  induction s as [|c s IH]; cbn [filter]; [constructor|].
  destruct (lt256 c) eqn:E; [|exact IH]. constructor; [unfold lt256 in E; apply N.ltb_lt in E; exact E|exact IH].
Qed.

Lemma filter_nul_free p s : nul_free s -> nul_free (filter p s).
Proof.
  induction 1 as [|c s Hc Hs IH]; cbn [filter]; [constructor|].
  destruct (p c); [constructor; assumption|assumption].
Qed.

Lemma map_bytes_filter t s : lenN t = 256 -> map_bytes t s = map_bytes t (filter lt256 s).
Proof.
  intros Ht. induction s as [|c s IH]; [reflexivity|].
  cbn [filter]. destruct (lt256 c) eqn:E.
  - rewrite !map_bytes_cons, IH. reflexivity.
  - rewrite map_bytes_cons, IH. unfold tbl_entry. rewrite tbl_get_oob; [reflexivity|]. unfold lt256 in E. apply N.ltb_ge in E. unfold bytes in *. rewrite Ht. exact E.
Qed.

(* a property of all table entries below 256 holds of the whole image, for arbitrary lists of N *)
Lemma forallb_map_bytes_any (p : N -> bool) t s : lenN t = 256 ->
  (forall c, c < 256 -> forallb p (tbl_entry t c) = true) -> forallb p (map_bytes t s) = true.
Proof.
  intros Ht H. rewrite (map_bytes_filter t s Ht). apply forallb_map_bytes; [apply filter_lt256_ok|exact H].
Qed.

Lemma forallb_concat {A} (p : A -> bool) ls : Forall (fun l => forallb p l = true) ls -> forallb p (concat ls) = true.
Proof. induction 1 as [|l ls Hl Hs IH]; [reflexivity|]. cbn [concat]. rewrite forallb_app, Hl, IH. reflexivity. Qed.

(* ====================================================================== *)
(* C33                                                                      *)

(* ---------- what "neutralised" means ---------- *)
Definition no_qmeta (b : bytes) : Prop := forallb (fun c => negb (is_quote_meta c)) b = true.
(* no less-than, greater-than, double or single quote, and every & starts a well-formed entity reference (QuoteProofs.html_item) *)
Definition markup_free (b : bytes) : Prop :=
  no_qmeta b /\ exists items, b = concat items /\ Forall html_item items.

Lemma html_len : lenN bm_html_quote = 256. Proof. vm_compute. reflexivity. Qed.
Lemma part_len : lenN bm_rfc1738_7 = 256. Proof. vm_compute. reflexivity. Qed.
Lemma unres_len : lenN bm_uri_unreserved = 256. Proof. vm_compute. reflexivity. Qed.

(* html_quote of an arbitrary list equals html_quote of its byte-valued part *)
Lemma html_q_filter p : html_q p = html_quote (filter lt256 (cstr p)).
Proof.
  unfold html_q, html_quote.
  rewrite (cstr_nul_free (filter lt256 (cstr p))); [|apply filter_nul_free, cstr_is_nul_free].
  apply map_bytes_filter, html_len.
Qed.

Lemma html_q_markup_free p : markup_free (html_q p).
Proof.
  rewrite html_q_filter. split.
  - apply html_quote_no_angle_or_quote, filter_lt256_ok.
  - apply html_quote_items, filter_lt256_ok.
Qed.

(* rfc1738_escape_part leaves no markup metacharacter at all *)
Definition plain (c : N) : bool := negb (is_html_meta c).
Lemma escape_part_plain p : forallb plain (escape_part p) = true.
Proof.
  unfold escape_part, rfc1738_escape_tbl. apply forallb_map_bytes_any; [apply part_len|].
  apply (forallb_bytes (fun c => forallb plain (tbl_entry bm_rfc1738_7 c))). vm_compute. reflexivity.
Qed.

Lemma plain_markup_free b : forallb plain b = true -> markup_free b.
Proof.
  intros H. split.
  - unfold no_qmeta. rewrite forallb_forall in *. intros c Hc. specialize (H c Hc).
    unfold plain, is_html_meta in H. unfold is_quote_meta.
    destruct (c =? 60), (c =? 62), (c =? 34), (c =? 39); cbn in *; try discriminate; reflexivity.
  - exists (map (fun c => [c]) b). split.
    + induction b as [|c b IH]; [reflexivity|]. cbn [map concat app]. f_equal. apply IH.
      cbn [forallb] in H. apply andb_prop in H. apply H.
    + induction b as [|c b IH]; cbn [map]; [constructor|].
      cbn [forallb] in H. apply andb_prop in H. destruct H as [Hc Hb].
      constructor; [|apply IH, Hb]. left. exists c. split; [reflexivity|].
      unfold plain in Hc. now destruct (is_html_meta c).
Qed.

Lemma markup_free_nil : markup_free [].
Proof. apply plain_markup_free. reflexivity. Qed.

(* Dump(): only unreserved characters, percent triplets and the two literal separators *)
Lemma unreserved_no_qmeta s : no_qmeta (uri_encode_unreserved s).
Proof.
  unfold no_qmeta, uri_encode_unreserved. apply forallb_map_bytes_any; [apply unres_len|].
  apply (forallb_bytes (fun c => forallb (fun x => negb (is_quote_meta x)) (tbl_entry bm_uri_unreserved c))).
  vm_compute. reflexivity.
Qed.

Lemma dump_no_qmeta st : no_qmeta (dump st).
Proof.
  unfold no_qmeta, dump. rewrite !forallb_app.
  rewrite (unreserved_no_qmeta s_cache_error_info), (unreserved_no_qmeta (e_page_name st)),
          (unreserved_no_qmeta (e_dump_body st)). reflexivity.
Qed.

(* ---------- the regenerated macro table against the hand-assigned source classes ---------- *)
Definition dq_kind (l : N) : N :=
  match assocN l em_cases with Some ((dq, _), _) => dq | None => fst em_default end.
Definition nue_kind (l : N) : N :=
  match assocN l em_cases with Some ((_, nue), _) => nue | None => snd em_default end.

Definition letters_of_class (f : srcclass -> bool) : list N :=
  map fst (filter (fun e => f (snd e)) class_table).
Definition is_Client (c : srcclass) : bool := match c with Client => true | _ => false end.
Definition client_letters : list N := letters_of_class is_Client.

Lemma assocN_in {A} (l : list (N * A)) k v : assocN k l = Some v -> In (k, v) l.
Proof.
  induction l as [|[k' v'] r IH]; cbn [assocN]; [discriminate|].
  destruct (k =? k') eqn:E; intros H.
  - apply N.eqb_eq in E. subst k'. injection H as <-. left. reflexivity.
  - right. apply IH, H.
Qed.

Lemma is_client_in l : is_client l = true -> In l client_letters.
Proof.
  unfold is_client, src_class. destruct (assocN l class_table) as [c|] eqn:E; [|discriminate].
  intros H. apply assocN_in in E. unfold client_letters, letters_of_class.
  apply in_map_iff. exists (l, c). split; [reflexivity|]. apply filter_In. split; [exact E|].
  cbn [snd]. destruct c; try discriminate. reflexivity.
Qed.

(* the flags start as the code declares them, the two epilogue statements are in place, and no case of a
   client-controlled letter assigns do_quote *)
Definition table_check : bool :=
  em_init_do_quote && negb em_init_no_urlescape && em_epilogue_html_quote && em_epilogue_urlescape &&
  forallb (fun l => dq_kind l =? 0) client_letters.
Lemma table_ok : table_check = true.
Proof. vm_compute. reflexivity. Qed.

Lemma client_dq l : is_client l = true -> dq_kind l = 0.
Proof.
  intros H. apply is_client_in in H. pose proof table_ok as T. unfold table_check in T.
  apply andb_prop in T. destruct T as [_ T]. rewrite forallb_forall in T. apply N.eqb_eq, T, H.
Qed.

(* every letter the hand-written classes call client-controlled has a case of its own in the switch *)
Lemma client_letters_have_cases : forallb (fun l => match assocN l em_cases with Some _ => true | None => false end)
                                          client_letters = true.
Proof. vm_compute. reflexivity. Qed.

(* ---------- one macro ---------- *)
Definition piece_ok (st : estate) (p : piece) : Prop :=
  match p with
  | PMac l out =>
    (is_client l = true -> markup_free out) /\
    (l = 87 -> no_qmeta out) /\
    (l = 103 -> e_ftp_listing st = None -> markup_free out)
  | _ => True
  end.

Lemma cstr_forallb p s : forallb p s = true -> forallb p (cstr s) = true.
Proof.
  induction s as [|c s IH]; cbn [cstr forallb]; [reflexivity|]. intros H. apply andb_prop in H. destruct H as [Hc Hs].
  destruct (c =? 0); [reflexivity|]. cbn [forallb]. rewrite Hc, (IH Hs). reflexivity.
Qed.

(* the epilogue on a value whose case did not clear do_quote *)
Lemma quoted_out_markup_free (u : bool) v :
  markup_free (let p := cstr v in let p := html_q p in if u then escape_part p else p).
Proof.
  cbv zeta. destruct u; [apply plain_markup_free, escape_part_plain|apply html_q_markup_free].
Qed.

Lemma epilogue_quoted deny l nuek r :
  Forall (fun p => match p with PMac _ out => markup_free out | _ => True end) (epilogue deny l 0 nuek r).
Proof.
  unfold epilogue. cbv [em_init_do_quote em_init_no_urlescape em_epilogue_html_quote em_epilogue_urlescape].
  change (flag_ran 0 (sw_cond r)) with false. cbn [negb andb orb].
  destruct (sw_nested r); constructor; try constructor; apply quoted_out_markup_free.
Qed.

Lemma epilogue_shape (P : piece -> Prop) deny l dqk nuek r :
  (forall inner, sw_nested r = Some inner -> Forall P inner) -> (forall out, P (PMac l out)) ->
  Forall P (epilogue deny l dqk nuek r).
Proof.
  unfold epilogue. cbv zeta. intros Hn Hp. destruct (sw_nested r) as [inner|].
  - match goal with |- Forall P (if ?b then _ else _) => destruct b end;
      [apply Hn; reflexivity|constructor; [apply Hp|constructor]].
  - constructor; [apply Hp|constructor].
Qed.

Lemma epilogue_quoted_l deny l nuek r :
  Forall (fun p => exists out, p = PMac l out /\ markup_free out) (epilogue deny l 0 nuek r).
Proof.
  unfold epilogue. cbv [em_init_do_quote em_init_no_urlescape em_epilogue_html_quote em_epilogue_urlescape].
  change (flag_ran 0 (sw_cond r)) with false. cbn [negb andb orb].
  destruct (sw_nested r); constructor; try constructor; eexists; (split; [reflexivity|apply quoted_out_markup_free]).
Qed.

Lemma legacy_switch_nested rec st deny allowRec insig l two r :
  legacy_switch rec st deny allowRec insig l two = Some r ->
  forall inner, sw_nested r = Some inner -> exists a i t, rec a i t = Some inner.
Proof.
  unfold legacy_switch. destruct (l =? 68).
  { destruct (negb allowRec); [intros H; injection H as <-; discriminate|].
    destruct (e_detail_verbose st) as [raw|]; [|intros H; injection H as <-; discriminate].
    destruct (rec false insig raw) as [inner0|] eqn:E; [|discriminate].
    destruct (is_empty (flatten inner0)); intros H; injection H as <-; cbn [sw_nested svc]; intros inner Hi;
      [discriminate|]. injection Hi as <-. eauto. }
  destruct (l =? 83).
  { destruct deny; [intros H; injection H as <-; discriminate|].
    destruct (negb insig); [|intros H; injection H as <-; discriminate].
    destruct (rec true true (e_sig_template st)) as [inner0|] eqn:E; [|discriminate].
    intros H; injection H as <-. cbn [sw_nested]. intros inner Hi. injection Hi as <-. eauto. }
  destruct (plain_switch st deny l two) as [v c]. intros H; injection H as <-. discriminate.
Qed.

(* what the switch leaves for %W and %g *)
Lemma legacy_switch_W rec st allowRec insig two r :
  legacy_switch rec st false allowRec insig 87 two = Some r -> sw_nested r = None /\ no_qmeta (sw_val r).
Proof.
  unfold legacy_switch. change (87 =? 68) with false. change (87 =? 83) with false. cbv iota.
  cbn [plain_switch]. intros H. injection H as <-. cbn [sw_nested sw_val]. split; [reflexivity|].
  destruct (e_admin_email st); [|reflexivity]. destruct (e_email_err_data st); [apply dump_no_qmeta|reflexivity].
Qed.

Lemma legacy_switch_g rec st deny allowRec insig two r :
  e_ftp_listing st = None ->
  legacy_switch rec st deny allowRec insig 103 two = Some r -> sw_nested r = None /\ sw_cond r = false.
Proof.
  intros Hl. unfold legacy_switch. change (103 =? 68) with false. change (103 =? 83) with false. cbv iota.
  cbn [plain_switch]. rewrite Hl. intros H. injection H as <-. split; reflexivity.
Qed.

Lemma not_client_87 : is_client 87 = false. Proof. reflexivity. Qed.
Lemma not_client_103 : is_client 103 = false. Proof. reflexivity. Qed.
Lemma case_87 : assocN 87 em_cases = Some ((2, 2), (true, false)). Proof. reflexivity. Qed.
Lemma case_103 : assocN 103 em_cases = Some ((1, 0), (true, false)). Proof. reflexivity. Qed.

Lemma markup_free_piece_ok st l out : markup_free out -> piece_ok st (PMac l out).
Proof. intros H. cbn [piece_ok]. repeat split; intros; try exact H; apply H. Qed.

Lemma deny_break_piece_ok st l : Forall (piece_ok st) (epilogue true l 0 0 (sv [])).
Proof.
  eapply Forall_impl; [|apply epilogue_quoted_l]. intros p [out [-> Hm]]. apply markup_free_piece_ok, Hm.
Qed.

Lemma legacy_code_ok rec st deny allowRec insig l two ps :
  (forall a i t ps', rec a i t = Some ps' -> Forall (piece_ok st) ps') ->
  legacy_code rec st deny allowRec insig l two = Some ps -> Forall (piece_ok st) ps.
Proof.
  intros Hrec. unfold legacy_code.
  assert (Hq : forall nuek r, Forall (piece_ok st) (epilogue deny l 0 nuek r)).
  { intros nuek r. eapply Forall_impl; [|apply epilogue_quoted_l]. intros p [out [-> Hm]].
    apply markup_free_piece_ok, Hm. }
  destruct (is_client l) eqn:Hc.
  - (* client-controlled letter: its case never clears do_quote *)
    pose proof (client_dq l Hc) as Hd. unfold dq_kind in Hd.
    destruct (assocN l em_cases) as [[[dqk nuek] [db ft]]|].
    + subst dqk. destruct (deny && db); [intros H; injection H as <-; apply Hq|].
      destruct (legacy_switch rec st deny allowRec insig l two); [|discriminate].
      intros H; injection H as <-. apply Hq.
    + cbn [fst] in Hd. rewrite Hd. intros H; injection H as <-. apply Hq.
  - destruct (l =? 87) eqn:E87; [apply N.eqb_eq in E87; subst l|].
    { (* %W *)
      rewrite case_87. destruct deny; cbn [andb].
      - intros H; injection H as <-. apply Hq.
      - destruct (legacy_switch rec st false allowRec insig 87 two) as [r|] eqn:Es; [|discriminate].
        intros H; injection H as <-. apply legacy_switch_W in Es. destruct Es as [Hn Hv].
        unfold epilogue. rewrite Hn. cbv [em_init_do_quote em_init_no_urlescape em_epilogue_html_quote em_epilogue_urlescape].
        change (flag_ran 2 (sw_cond r)) with true. cbn [negb andb orb]. constructor; [|constructor]. cbn [piece_ok].
        rewrite not_client_87. split; [intros Hx; discriminate Hx|].
        split; [intros _; apply cstr_forallb, Hv|intros Hx; discriminate Hx]. }
    destruct (l =? 103) eqn:E103; [apply N.eqb_eq in E103; subst l|].
    { (* %g *)
      rewrite case_103. destruct deny; cbn [andb].
      - intros H; injection H as <-. apply Hq.
      - destruct (legacy_switch rec st false allowRec insig 103 two) as [r|] eqn:Es; [|discriminate].
        intros H; injection H as <-.
        destruct (e_ftp_listing st) as [lst|] eqn:El.
        + apply epilogue_shape.
          * intros inner Hi. destruct (legacy_switch_nested _ _ _ _ _ _ _ _ Es inner Hi) as [a [i [t Hr]]].
            apply (Hrec _ _ _ _ Hr).
          * intros out. cbn [piece_ok]. rewrite not_client_103. split; [intros Hx; discriminate Hx|].
            split; [intros Hx; discriminate Hx|intros _ Hl; rewrite El in Hl; discriminate Hl].
        + apply (legacy_switch_g _ _ _ _ _ _ _ El) in Es. destruct Es as [Hn Hcnd].
          unfold epilogue. rewrite Hn, Hcnd.
          cbv [em_init_do_quote em_init_no_urlescape em_epilogue_html_quote em_epilogue_urlescape].
          change (flag_ran 1 false) with false. cbn [negb andb orb]. constructor; [|constructor].
          apply markup_free_piece_ok. apply (quoted_out_markup_free false). }
    (* every other letter: nothing is claimed about its own output; recursively compiled text keeps its pieces *)
    assert (Hp : forall out, piece_ok st (PMac l out)).
    { intros out. cbn [piece_ok]. rewrite Hc. split; [intros Hx; discriminate Hx|].
      split; intros ->; discriminate. }
    destruct (assocN l em_cases) as [[[dqk nuek] [db ft]]|].
    + destruct (deny && db).
      * intros H; injection H as <-. apply epilogue_shape; [intros inner Hi; discriminate|exact Hp].
      * destruct (legacy_switch rec st deny allowRec insig l two) as [r|] eqn:Es; [|discriminate].
        intros H; injection H as <-. apply epilogue_shape; [|exact Hp].
        intros inner Hi. destruct (legacy_switch_nested _ _ _ _ _ _ _ _ Es inner Hi) as [a [i [t Hr]]].
        apply (Hrec _ _ _ _ Hr).
    + intros H; injection H as <-. apply epilogue_shape; [intros inner Hi; discriminate|exact Hp].
Qed.
