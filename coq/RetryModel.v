(* RetryModel.v — C07: the FwdState forwarding-attempt machine (src/FwdState.cc) over failure events.

   Transcribed from the code that exists:
     FwdState::checkRetry / checkRetriable / retryOrBail / reforward / complete / fail / reactToZeroSizeObject /
     noteDestination / noteDestinationsEnd / useDestinations / connectStart / noteConnection / syncWithServerConn /
     dispatch / usePinned / exhaustedTries (src/FwdState.cc),
     HappyConnOpener::checkForNewConnection / doneAll / startConnecting / reuseOldConnection /
     handleConnOpenerAnswer / ranOutOfTimeOrAttempts (src/HappyConnOpener.cc; one address family and one peer, so
     there are no "spare" attempts), PconnPool::pop (keepOpen = retriable: a non-retriable request CLOSES the idle
     connection it finds), ResolvedPeers (paths with an availability flag, extractFront, reinstatePath),
     HttpRequest::bodyNibbled (src/HttpRequest.cc), the failure exits of HttpStateData (src/http.cc:
     readReply / continueAfterParsingHeader / wroteLast / httpTimeout / processReplyBody -> serverComplete),
     HttpRequestMethod::isHttpSafe / isIdempotent and Http::IsReforwardableStatus through the generated table.

   The environment (peer selection, the connection pool, the network, the origin, the clock, the client) is the
   EVENT list; the theorems quantify over all event lists. Events that do not apply in the current phase are ignored.
   Executable definitions only; proofs are in RetryProofs.v. *)
Require Import List NArith Bool.
Require Import SquidV.Bytes.
Require Import SquidV.gen.RetryMethods_gen.
Import ListNotations.
Local Open Scope N_scope.

(* ---------- request methods (table regenerated from src/http/RequestMethod.cc) ---------- *)
Fixpoint method_lookup (t : list (N * bytes * (bool * bool))) (id : N) : bool * bool :=
  match t with
  | [] => (false, false)
  | (i, _, a) :: r => if i =? id then a else method_lookup r id
  end.
Definition method_safe (id : N) : bool := fst (method_lookup rm_methods id).
Definition method_idem (id : N) : bool := snd (method_lookup rm_methods id).

(* HttpRequestMethod(SBuf): a known image gives its id, anything else METHOD_OTHER (upper-case images only here) *)
Fixpoint method_of_image (t : list (N * bytes * (bool * bool))) (img : bytes) : N :=
  match t with
  | [] => rm_METHOD_OTHER
  | (i, im, _) :: r => if andb (list_eqb im img) (negb (i =? rm_METHOD_NONE)) then i else method_of_image r img
  end.

Fixpoint memN (x : N) (l : list N) : bool :=
  match l with [] => false | y :: r => if x =? y then true else memN x r end.

(* ---------- static inputs ---------- *)
Record req := mkReq {
  r_method : N;        (* Http::MethodType *)
  r_body : bool        (* request->body_pipe != nullptr *)
}.
Record cfg := mkCfg {
  c_max_tries : N;             (* Config.forward_max_tries *)
  c_pconn_nonretriable : bool; (* server_pconn_for_nonretriable ACL present and answering "allowed" *)
  c_retry_onerror : bool       (* Config.retry.onerror *)
}.

(* Http::IsReforwardableStatus *)
Definition reforwardable (c : cfg) (s : N) : bool :=
  memN s (if c_retry_onerror c then rm_reforwardable_on else rm_reforwardable_off).

Inductive race := RaceImpossible | RacePossible | RaceHappened.
Definition race_eqb (a b : race) : bool :=
  match a, b with
  | RaceImpossible, RaceImpossible | RacePossible, RacePossible | RaceHappened, RaceHappened => true
  | _, _ => false
  end.

Inductive errt := ErrZero | ErrRead | ErrWrite | ErrTimeout | ErrInvalid | ErrTooBig
                | ErrConnectFail | ErrCannotForward | ErrGateway | ErrPinned.

Inductive phase :=
| PhIdle          (* no attempt in progress: waiting for destinations *)
| PhConnecting    (* transportWait: a HappyConnOpener job is running *)
| PhSent (d : N)  (* dispatch()ed on path d; no reply header parsed yet *)
| PhGotHeaders (d : N)   (* reply header parsed and written to the store entry *)
| PhDone.

(* failure exits before/after the reply header *)
Inductive failkind :=
| FZero       (* EOF, nothing read: ERR_ZERO_SIZE_OBJECT *)
| FRead       (* read error (e.g. ECONNRESET): ERR_READ_ERROR *)
| FWrite      (* write error: ERR_WRITE_ERROR *)
| FTimeout    (* httpTimeout: ERR_READ_TIMEOUT *)
| FInvalid    (* EOF inside the header / unparsable header: ERR_INVALID_RESP *)
| FDontRetry  (* header too large, conflicting Content-Length, unsupported TE: fwd->dontRetry(true) + error *)
| FClosed.    (* FwdState::serverClosed() without a preceding fail() *)

Inductive event :=
| EvNewDest                               (* noteDestination(path): one more path, appended *)
| EvDestsEnd                              (* noteDestinationsEnd() *)
| EvStartPinned (ok : bool)               (* noteDestination(nullptr): usePinned(); ok = BorrowPinnedConnection succeeded *)
| EvConn (pconn_idle connect_ok closing : bool)
     (* the opener handles the next available path: is there an idle pconn for it in the pool, does a fresh
        TCP connect succeed, and did the obtained connection get closed while noteConnection() was queued *)
| EvBodyConsumed                          (* the server-side job consumed request body bytes *)
| EvFail (k : failkind)
| EvHeaders (status : N)                  (* reply header parsed without error and stored *)
| EvHdrWaitCleared                        (* StoreEntry::write cleared ENTRY_FWD_HDR_WAIT (read-ahead gap) *)
| EvComplete (premature : bool)           (* serverComplete(): whole reply, or premature EOF in the body *)
| EvAbort                                 (* store entry aborted (client gone): HandleStoreAbort *)
| EvShutdown                              (* shutting_down becomes true *)
| EvTimeUp.                               (* forward_timeout used up: EnoughTimeToReForward() false from now on *)

Inductive out :=
| OSend (d : N) (reused : bool)   (* dispatch(): the request is written on a connection of path d *)
| OClosePconn (d : N)             (* an idle pconn popped for a non-retriable request and closed *)
| OReforward.                     (* complete(): reforward() said yes *)

Record st := mkSt {
  s_phase : phase;
  s_paths : list bool;        (* ResolvedPeers::paths_: availability, in arrival order; a path is its position *)
  s_subscribed : bool;        (* PeerSelectionInitiator::subscribed *)
  s_found : bool;             (* flags.destinationsFound *)
  s_ntries : N;               (* n_tries (shared with the opener job: passed in and synced back) *)
  s_race : race;              (* pconnRace *)
  s_cok : bool;               (* flags.connected_okay *)
  s_dont_retry : bool;        (* flags.dont_retry *)
  s_nibbled : bool;           (* request->bodyNibbled() *)
  s_entry_empty : bool;       (* entry->isEmpty() *)
  s_hdr_wait : bool;          (* ENTRY_FWD_HDR_WAIT *)
  s_status : N;               (* status of the stored reply *)
  s_err : option errt;        (* err *)
  s_receipt : option N;       (* destinationReceipt *)
  s_pinned : bool;            (* request->flags.pinned *)
  s_hc_retriable : bool;      (* HappyConnOpener::retriable_ *)
  s_hc_allow_pconn : bool;    (* HappyConnOpener::allowPconn_ *)
  s_hc_lasterr : option errt; (* HappyConnOpener::lastError *)
  s_shutting : bool;
  s_timeup : bool
}.

Definition init : st :=
  mkSt PhIdle [] true false 0 RaceImpossible false false false true false 0 None None false true true None false false.

(* record updates *)
Definition set_phase (s : st) (p : phase) : st :=
  mkSt p (s_paths s) (s_subscribed s) (s_found s) (s_ntries s) (s_race s) (s_cok s) (s_dont_retry s) (s_nibbled s)
       (s_entry_empty s) (s_hdr_wait s) (s_status s) (s_err s) (s_receipt s) (s_pinned s) (s_hc_retriable s)
       (s_hc_allow_pconn s) (s_hc_lasterr s) (s_shutting s) (s_timeup s).
Definition set_paths (s : st) (p : list bool) : st :=
  mkSt (s_phase s) p (s_subscribed s) (s_found s) (s_ntries s) (s_race s) (s_cok s) (s_dont_retry s) (s_nibbled s)
       (s_entry_empty s) (s_hdr_wait s) (s_status s) (s_err s) (s_receipt s) (s_pinned s) (s_hc_retriable s)
       (s_hc_allow_pconn s) (s_hc_lasterr s) (s_shutting s) (s_timeup s).
Definition set_err (s : st) (e : option errt) : st :=
  mkSt (s_phase s) (s_paths s) (s_subscribed s) (s_found s) (s_ntries s) (s_race s) (s_cok s) (s_dont_retry s) (s_nibbled s)
       (s_entry_empty s) (s_hdr_wait s) (s_status s) e (s_receipt s) (s_pinned s) (s_hc_retriable s)
       (s_hc_allow_pconn s) (s_hc_lasterr s) (s_shutting s) (s_timeup s).
Definition set_race_receipt (s : st) (r : race) (rc : option N) : st :=
  mkSt (s_phase s) (s_paths s) (s_subscribed s) (s_found s) (s_ntries s) r (s_cok s) (s_dont_retry s) (s_nibbled s)
       (s_entry_empty s) (s_hdr_wait s) (s_status s) (s_err s) rc (s_pinned s) (s_hc_retriable s)
       (s_hc_allow_pconn s) (s_hc_lasterr s) (s_shutting s) (s_timeup s).
Definition set_ntries (s : st) (n : N) : st :=
  mkSt (s_phase s) (s_paths s) (s_subscribed s) (s_found s) n (s_race s) (s_cok s) (s_dont_retry s) (s_nibbled s)
       (s_entry_empty s) (s_hdr_wait s) (s_status s) (s_err s) (s_receipt s) (s_pinned s) (s_hc_retriable s)
       (s_hc_allow_pconn s) (s_hc_lasterr s) (s_shutting s) (s_timeup s).
Definition set_dont_retry (s : st) : st :=
  mkSt (s_phase s) (s_paths s) (s_subscribed s) (s_found s) (s_ntries s) (s_race s) (s_cok s) true (s_nibbled s)
       (s_entry_empty s) (s_hdr_wait s) (s_status s) (s_err s) (s_receipt s) (s_pinned s) (s_hc_retriable s)
       (s_hc_allow_pconn s) (s_hc_lasterr s) (s_shutting s) (s_timeup s).
Definition set_hc (s : st) (retriable allow : bool) (le : option errt) : st :=
  mkSt (s_phase s) (s_paths s) (s_subscribed s) (s_found s) (s_ntries s) (s_race s) (s_cok s) (s_dont_retry s) (s_nibbled s)
       (s_entry_empty s) (s_hdr_wait s) (s_status s) (s_err s) (s_receipt s) (s_pinned s) retriable allow le
       (s_shutting s) (s_timeup s).
Definition set_entry (s : st) (empty hdr_wait : bool) (status : N) : st :=
  mkSt (s_phase s) (s_paths s) (s_subscribed s) (s_found s) (s_ntries s) (s_race s) (s_cok s) (s_dont_retry s) (s_nibbled s)
       empty hdr_wait status (s_err s) (s_receipt s) (s_pinned s) (s_hc_retriable s)
       (s_hc_allow_pconn s) (s_hc_lasterr s) (s_shutting s) (s_timeup s).

(* ---------- ResolvedPeers ---------- *)
Fixpoint first_avail (p : list bool) (i : N) : option N :=
  match p with
  | [] => None
  | true :: _ => Some i
  | false :: r => first_avail r (i + 1)
  end.
Definition no_paths (s : st) : bool := match first_avail (s_paths s) 0 with None => true | Some _ => false end.
Fixpoint set_avail (p : list bool) (i : N) (v : bool) : list bool :=
  match p with
  | [] => []
  | b :: r => if i =? 0 then v :: r else b :: set_avail r (i - 1) v
  end.

(* ---------- FwdState predicates ---------- *)
Definition exhausted (c : cfg) (s : st) : bool := c_max_tries c <=? s_ntries s.    (* exhaustedTries() *)

(* FwdState::checkRetriable *)
Definition check_retriable (r : req) : bool :=
  if r_body r then false else orb (method_safe (r_method r)) (method_idem (r_method r)).

(* FwdState::checkRetry. `self` is non-nil and the entry is STORE_PENDING in every non-final phase (an abort ends
   the machine, see EvAbort). *)
Definition check_retry (c : cfg) (r : req) (s : st) : bool :=
  if s_shutting s then false else
  if negb (s_entry_empty s) then false else
  if exhausted c s then false else
  if s_pinned s then false else
  if s_timeup s then false else
  if s_dont_retry s then false else
  if s_nibbled s then false else
  if negb (s_cok s) then true else
  check_retriable r.

(* FwdState::reforward (ENTRY_ABORTED is excluded as above). `err && !checkRetriable()`: the attempt that produced
   this reply has failed after the request was sent, so only retriable requests may be sent again. *)
Definition reforward (c : cfg) (r : req) (s : st) : bool :=
  if s_pinned s then false else
  if negb (s_hdr_wait s) then false else
  if exhausted c s then false else
  if s_nibbled s then false else
  if andb (match s_err s with Some _ => true | None => false end) (negb (check_retriable r)) then false else
  if andb (no_paths s) (negb (s_subscribed s)) then false else
  reforwardable c (s_status s).

(* FwdState::fail + reactToZeroSizeObject *)
Definition fail (s : st) (e : errt) : st :=
  let s1 := set_err s (Some e) in
  let s2 :=
    match e with
    | ErrZero =>
        match s_race s1 with
        | RacePossible =>
            match s_receipt s1 with
            | Some d => set_race_receipt (set_paths s1 (set_avail (s_paths s1) d true)) RaceHappened None
            | None => set_race_receipt s1 RaceHappened None
            end
        | _ => s1
        end
    | _ => s1
    end in
  set_race_receipt s2 (s_race s2) None.

Definition finish (s : st) : st := set_phase s PhDone.

(* HappyConnOpener::ranOutOfTimeOrAttempts *)
Definition hc_ran_out (c : cfg) (s : st) : bool := orb (c_max_tries c <=? s_ntries s) (s_timeup s).

(* FwdState::retryOrBail, useDestinations, connectStart and the opener's checkForNewConnection()/swanSong() are
   mutually dependent; the recursion is cut by the phase: each of them ends in a state that waits for an event. *)

(* noteConnection(answer with error): the opener gave up *)
Definition hc_give_up (c : cfg) (r : req) (s : st) : st :=
  let e := match s_hc_lasterr s with Some e => e | None => ErrGateway end in
  let s1 := fail (set_dont_retry s) e in
  (* retryOrBail(): checkRetry() is false because of dont_retry (or an earlier test) *)
  finish s1.

(* the opener's checkForNewConnection() when no attempt is in progress *)
Definition hc_check (c : cfg) (r : req) (s : st) : st :=
  if hc_ran_out c s then hc_give_up c r s
  else if andb (no_paths s) (negb (s_subscribed s)) then hc_give_up c r s
  else set_phase s PhConnecting.     (* an attempt starts as soon as a path is available: wait for EvConn *)

(* FwdState::connectStart *)
Definition connect_start (c : cfg) (r : req) (s : st) : st :=
  let s1 := set_err s None in
  let retriable := orb (check_retriable r) (c_pconn_nonretriable c) in
  let allow := negb (race_eqb (s_race s1) RaceHappened) in
  hc_check c r (set_hc s1 retriable allow None).

(* FwdState::useDestinations *)
Definition use_destinations (c : cfg) (r : req) (s : st) : st :=
  if negb (no_paths s) then connect_start c r s
  else if s_subscribed s then set_phase s PhIdle
  else finish (match s_err s with None => fail s ErrCannotForward | Some _ => s end).

(* FwdState::retryOrBail *)
Definition retry_or_bail (c : cfg) (r : req) (s : st) : st :=
  if check_retry c r s then use_destinations c r s else finish s.

(* FwdState::dispatch after syncWithServerConn *)
Definition dispatch (s : st) (d : N) (reused : bool) : st * list out :=
  let s1 := set_race_receipt s (if reused then RacePossible else RaceImpossible) (s_receipt s) in
  let s2 := mkSt (PhSent d) (s_paths s1) (s_subscribed s1) (s_found s1) (s_ntries s1) (s_race s1) true (s_dont_retry s1)
                 (s_nibbled s1) (s_entry_empty s1) (s_hdr_wait s1) (s_status s1) (s_err s1) (s_receipt s1) (s_pinned s1)
                 (s_hc_retriable s1) (s_hc_allow_pconn s1) (s_hc_lasterr s1) (s_shutting s1) (s_timeup s1) in
  (s2, [OSend d reused]).

(* noteConnection(answer without error) *)
Definition note_connection (c : cfg) (r : req) (s : st) (d : N) (reused closing : bool) : st * list out :=
  if closing then
    (* "conn was closed while waiting for noteConnection": destinationReceipt is set only for reused connections,
       and fail() clears it again *)
    let s1 := if reused then set_race_receipt s (s_race s) (Some d) else s in
    (retry_or_bail c r (fail s1 ErrCannotForward), [])
  else
    dispatch (set_race_receipt s (s_race s) (Some d)) d reused.

(* one path handled by the opener: HappyConnOpener::startConnecting + handleConnOpenerAnswer *)
Definition hc_attempt (c : cfg) (r : req) (s : st) (pconn_idle connect_ok closing : bool) : st * list out :=
  match first_avail (s_paths s) 0 with
  | None => (s, [])                                   (* no path yet: the opener keeps waiting *)
  | Some d =>
      let s0 := set_paths s (set_avail (s_paths s) d false) in       (* extractFront *)
      let popped := andb (s_hc_allow_pconn s0) pconn_idle in         (* fwdPconnPool->pop(dest, host, retriable_) *)
      if andb popped (s_hc_retriable s0) then
        let s1 := set_ntries s0 (s_ntries s0 + 1) in
        note_connection c r s1 d true closing
      else
        let o := if popped then [OClosePconn d] else [] in
        let s1 := set_ntries s0 (s_ntries s0 + 1) in                 (* handleConnOpenerAnswer: ++n_tries *)
        if connect_ok then
          let (s2, o2) := note_connection c r s1 d false closing in (s2, o ++ o2)
        else
          (hc_check c r (set_hc s1 (s_hc_retriable s1) (s_hc_allow_pconn s1) (Some ErrConnectFail)), o)
  end.

Definition fail_err (k : failkind) : option errt :=
  match k with
  | FZero => Some ErrZero | FRead => Some ErrRead | FWrite => Some ErrWrite | FTimeout => Some ErrTimeout
  | FInvalid => Some ErrInvalid | FDontRetry => Some ErrTooBig | FClosed => None
  end.

Definition step (c : cfg) (r : req) (s : st) (e : event) : st * list out :=
  match s_phase s with
  | PhDone => (s, [])
  | ph =>
    match e with
    | EvAbort => (finish s, [])
    | EvShutdown =>
        (mkSt (s_phase s) (s_paths s) (s_subscribed s) (s_found s) (s_ntries s) (s_race s) (s_cok s) (s_dont_retry s)
              (s_nibbled s) (s_entry_empty s) (s_hdr_wait s) (s_status s) (s_err s) (s_receipt s) (s_pinned s)
              (s_hc_retriable s) (s_hc_allow_pconn s) (s_hc_lasterr s) true (s_timeup s), [])
    | EvTimeUp =>
        (mkSt (s_phase s) (s_paths s) (s_subscribed s) (s_found s) (s_ntries s) (s_race s) (s_cok s) (s_dont_retry s)
              (s_nibbled s) (s_entry_empty s) (s_hdr_wait s) (s_status s) (s_err s) (s_receipt s) (s_pinned s)
              (s_hc_retriable s) (s_hc_allow_pconn s) (s_hc_lasterr s) (s_shutting s) true, [])
    | EvNewDest =>
        if negb (s_subscribed s) then (s, []) else
        let s1 := mkSt (s_phase s) (s_paths s ++ [true]) (s_subscribed s) true (s_ntries s) (s_race s) (s_cok s)
                       (s_dont_retry s) (s_nibbled s) (s_entry_empty s) (s_hdr_wait s) (s_status s) (s_err s)
                       (s_receipt s) (s_pinned s) (s_hc_retriable s) (s_hc_allow_pconn s) (s_hc_lasterr s)
                       (s_shutting s) (s_timeup s) in
        match ph with
        | PhIdle => (use_destinations c r s1, [])
        | _ => (s1, [])       (* transportWait: notifyConnOpener(); transporting(): keep the path for later *)
        end
    | EvDestsEnd =>
        if negb (s_subscribed s) then (s, []) else
        let s1 := mkSt (s_phase s) (s_paths s) false (s_found s) (s_ntries s) (s_race s) (s_cok s)
                       (s_dont_retry s) (s_nibbled s) (s_entry_empty s) (s_hdr_wait s) (s_status s) (s_err s)
                       (s_receipt s) (s_pinned s) (s_hc_retriable s) (s_hc_allow_pconn s) (s_hc_lasterr s)
                       (s_shutting s) (s_timeup s) in
        if negb (s_found s1) then (finish (fail s1 ErrCannotForward), []) else
        match ph with
        | PhConnecting => (hc_check c r s1, [])
        | PhIdle => (finish (match s_err s1 with None => fail s1 ErrCannotForward | Some _ => s1 end), [])
        | _ => (s1, [])
        end
    | EvStartPinned ok =>
        match ph with
        | PhIdle =>
            if orb (s_found s) (negb (s_subscribed s)) then (s, []) else   (* PINNED must be the first destination *)
            let s1 := mkSt (s_phase s) (s_paths s) (s_subscribed s) true (s_ntries s) (s_race s) (s_cok s)
                           (s_dont_retry s) (s_nibbled s) (s_entry_empty s) (s_hdr_wait s) (s_status s) (s_err s)
                           (s_receipt s) (s_pinned s) (s_hc_retriable s) (s_hc_allow_pconn s) (s_hc_lasterr s)
                           (s_shutting s) (s_timeup s) in
            if negb ok then (finish (fail s1 ErrPinned), []) else
            let s2 := mkSt (s_phase s1) (s_paths s1) (s_subscribed s1) (s_found s1) (s_ntries s1 + 1) (s_race s1) (s_cok s1)
                           (s_dont_retry s1) (s_nibbled s1) (s_entry_empty s1) (s_hdr_wait s1) (s_status s1) (s_err s1)
                           (s_receipt s1) true (s_hc_retriable s1) (s_hc_allow_pconn s1) (s_hc_lasterr s1)
                           (s_shutting s1) (s_timeup s1) in
            dispatch s2 0 true
        | _ => (s, [])
        end
    | EvConn pi ok cl =>
        match ph with
        | PhConnecting => hc_attempt c r s pi ok cl
        | _ => (s, [])
        end
    | EvBodyConsumed =>
        match ph with
        | PhSent _ | PhGotHeaders _ =>
            if r_body r then
              (mkSt (s_phase s) (s_paths s) (s_subscribed s) (s_found s) (s_ntries s) (s_race s) (s_cok s) (s_dont_retry s)
                    true (s_entry_empty s) (s_hdr_wait s) (s_status s) (s_err s) (s_receipt s) (s_pinned s)
                    (s_hc_retriable s) (s_hc_allow_pconn s) (s_hc_lasterr s) (s_shutting s) (s_timeup s), [])
            else (s, [])
        | _ => (s, [])
        end
    | EvFail k =>
        match ph with
        | PhSent _ | PhGotHeaders _ =>
            let s1 := match k with FDontRetry => set_dont_retry s | _ => s end in
            let s2 := match fail_err k with
                      | Some er => fail s1 er
                      | None => set_race_receipt s1 (s_race s1) None      (* serverClosed(): destinationReceipt = nullptr *)
                      end in
            (retry_or_bail c r s2, [])
        | _ => (s, [])
        end
    | EvHeaders status =>
        match ph with
        | PhSent d =>
            let s1 := set_entry s false (orb (s_hdr_wait s) (reforwardable c status)) status in
            (set_phase s1 (PhGotHeaders d), [])
        | _ => (s, [])
        end
    | EvHdrWaitCleared =>
        match ph with
        | PhGotHeaders _ => (set_entry s (s_entry_empty s) false (s_status s), [])
        | _ => (s, [])
        end
    | EvComplete premature =>
        match ph with
        | PhGotHeaders _ =>
            let s1 := if premature then fail s ErrRead else s in      (* markPrematureReplyBodyEofFailure *)
            if reforward c r s1 then
              (* complete(): unregister, destinationReceipt = nullptr, entry->reset() (the flag stays), useDestinations() *)
              let s2 := set_race_receipt s1 (s_race s1) None in
              let s3 := set_entry s2 true (s_hdr_wait s2) (s_status s2) in
              (use_destinations c r s3, [OReforward])
            else (finish s1, [])
        | _ => (s, [])
        end
    end
  end.

Fixpoint run (c : cfg) (r : req) (s : st) (evs : list event) : st * list out :=
  match evs with
  | [] => (s, [])
  | e :: t =>
      let (s1, o1) := step c r s e in
      let (s2, o2) := run c r s1 t in
      (s2, o1 ++ o2)
  end.

Definition is_send (o : out) : bool := match o with OSend _ _ => true | _ => false end.
Definition is_reforward (o : out) : bool := match o with OReforward => true | _ => false end.
Definition sends (tr : list out) : N := lenN (filter is_send tr).
Definition reforwards (tr : list out) : N := lenN (filter is_reforward tr).

(* what the client gets when the machine has ended (FwdState::completed) *)
Inductive result :=
| RReply (status : N) (truncated : bool)
| RError (e : errt).
Definition result_of (s : st) : result :=
  if s_entry_empty s then RError (match s_err s with Some e => e | None => ErrRead end)
  else RReply (s_status s) (match s_err s with Some _ => true | None => false end).

(* ---------- closed loop: the machine against a scripted environment (what the lab sets up) ---------- *)
Inductive beh :=
| BAcceptClose       (* connection closed right after accept *)
| BHeadRst           (* request head read, then RST *)
| BFullFin           (* whole request read, then FIN *)
| BFullRst           (* whole request read, then RST *)
| BPartialHead       (* whole request read, truncated reply header, FIN *)
| BReply (status : N) (cut : option bool).   (* reply; cut = Some false: body cut + FIN, Some true: body cut + RST *)

Definition consumed (r : req) : list event := if r_body r then [EvBodyConsumed] else [].
Definition events_of_beh (r : req) (b : beh) : list event :=
  match b with
  | BAcceptClose => [EvFail FRead]
  | BHeadRst => [EvFail FRead]
  | BFullFin => consumed r ++ [EvFail FZero]
  | BFullRst => consumed r ++ [EvFail FRead]
  | BPartialHead => consumed r ++ [EvFail FInvalid]
  | BReply s None => consumed r ++ [EvHeaders s; EvComplete false]
  | BReply s (Some false) => consumed r ++ [EvHeaders s; EvComplete true]
  | BReply s (Some true) => consumed r ++ [EvHeaders s; EvFail FRead]
  end.

Record env := mkEnv {
  e_announce : N;               (* paths still to be announced by peer selection *)
  e_ended : bool;
  e_listen : list bool;         (* per path: does the address accept connections *)
  e_pconn : list bool;          (* per path: an idle persistent connection waits in squid's pool *)
  e_scripts : list (list beh);  (* per path: behaviours of the successive attempts *)
  e_queue : list event          (* events of the attempt in progress *)
}.

Fixpoint nth_default {A} (d : A) (l : list A) (i : N) : A :=
  match l with
  | [] => d
  | x :: r => if i =? 0 then x else nth_default d r (i - 1)
  end.
Fixpoint set_nth {A} (l : list A) (i : N) (v : A) : list A :=
  match l with
  | [] => []
  | x :: r => if i =? 0 then v :: r else x :: set_nth r (i - 1) v
  end.

Definition next_event (en : env) (s : st) : option (event * env) :=
  if 0 <? e_announce en then
    Some (EvNewDest, mkEnv (e_announce en - 1) (e_ended en) (e_listen en) (e_pconn en) (e_scripts en) (e_queue en))
  else if negb (e_ended en) then
    Some (EvDestsEnd, mkEnv 0 true (e_listen en) (e_pconn en) (e_scripts en) (e_queue en))
  else match e_queue en with
  | ev :: q => Some (ev, mkEnv 0 true (e_listen en) (e_pconn en) (e_scripts en) q)
  | [] =>
      match s_phase s with
      | PhConnecting =>
          match first_avail (s_paths s) 0 with
          | Some d => Some (EvConn (nth_default false (e_pconn en) d) (nth_default false (e_listen en) d) false,
                            mkEnv 0 true (e_listen en) (set_nth (e_pconn en) d false) (e_scripts en) [])
          | None => None
          end
      | _ => None
      end
  end.

(* a dispatch consumes the next behaviour of that path's script *)
Fixpoint after_outputs (r : req) (en : env) (o : list out) : env :=
  match o with
  | [] => en
  | OSend d _ :: t =>
      let sc := nth_default [] (e_scripts en) d in
      let b := match sc with b :: _ => b | [] => BReply 200 None end in
      let en1 := mkEnv (e_announce en) (e_ended en) (e_listen en) (e_pconn en)
                       (set_nth (e_scripts en) d (tl sc)) (events_of_beh r b) in
      after_outputs r en1 t
  | _ :: t => after_outputs r en t
  end.

Fixpoint drive (fuel : nat) (c : cfg) (r : req) (en : env) (s : st) : st * list out * list event * bool :=
  match fuel with
  | O => (s, [], [], false)
  | S f =>
      match next_event en s with
      | None => (s, [], [], true)
      | Some (ev, en1) =>
          let (s1, o1) := step c r s ev in
          let '(s2, o2, evs, okf) := drive f c r (after_outputs r en1 o1) s1 in
          (s2, o1 ++ o2, ev :: evs, okf)
      end
  end.
