(* Extract_pagelog.v — extraction of the error-page / access-log quoting models (ExtrOcamlBasic only). *)
Require Import ExtrOcamlBasic.
Require Import SquidV.Bytes SquidV.QuoteModel SquidV.PagelogModel.
Extraction "m_pagelog.ml" build_body build_deny_info_url count_sub flatten compile
  log_quoted_string mime_blob username_quote shell_quote url_quote default_quote quote_field
  assemble log_record count_lf read_quoted read_bracketed read_shell_word unbackslash html_q escape_part.
