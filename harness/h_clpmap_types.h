// The ClpMap instantiation used by harness/h_clpmap.cc and gen/gen_clpmap.cc
// (shared so that the sizeof() constants the model is extracted with are those
// of exactly the map the harness drives).
#ifndef VERIF_H_CLPMAP_TYPES_H
#define VERIF_H_CLPMAP_TYPES_H
#include "squid.h"
#include <functional>
#include <limits>
#include <list>
#include <optional>
#include <unordered_map>
#include <utility>
#include "mem/PoolingAllocator.h"
#include "SquidMath.h"
#include "time/gadgets.h"
#include "sbuf/SBuf.h"
#include "sbuf/Algorithms.h"
// private members (entries_, index_) are read -- never written -- by the harness
#define private public
#include "base/ClpMap.h"
#undef private

/// a value whose accounted size is chosen by the test case
struct HVal {
    uint64_t id;
    uint64_t sz;
};
static uint64_t HValMem(const HVal &v) { return v.sz; }

using HMap = ClpMap<SBuf, HVal, HValMem>;
#endif
