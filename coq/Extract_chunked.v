(* Extraction of the chunked-decoder model (ExtrOcamlBasic only). *)
Require Import ExtrOcamlBasic.
Require Import SquidV.Bytes SquidV.TokModel SquidV.ChunkedModel.
Extraction "m_chunked.ml" lenN takeN dropN run_chunked parse headers_end token_or_qs.
