(* Properties_C40.v — C40: FTP address replies and listings are parsed safely and strictly.
   Statements only; proofs live in FtpProofs.v. `ipf` is the external numeric-host lookup
   (getaddrinfo with AI_NUMERICHOST behind Ip::Address::operator=(const char * )): every statement holds for every ipf. *)
Require Import SquidV.Bytes SquidV.TokModel SquidV.FtpModel SquidV.FtpProofs.
Require Import SquidV.gen.Ftp_gen SquidV.gen.FtpSrc_gen.
Local Open Scope N_scope.

(* --- what "%d" and strtol(,,10) convert: blanks, an optional sign, a non-empty digit string; the value handed
       to the checks below is the mathematical value of the digits, whatever their number --- *)
Theorem C40_number_syntax : forall s v r,
  scan_int s = Some (v, r) ->
  exists ws sg ds,
    s = ws ++ sg ++ ds ++ r /\ forallb is_c_space ws = true /\
    (sg = [] \/ sg = [45] \/ sg = [43]) /\ ds <> [] /\ forallb is_digit ds = true /\
    v = (if list_eqb sg [45] then (- dec_value ds)%Z else dec_value ds) /\
    match r with c :: _ => is_digit c = false | [] => True end.
Proof. exact scan_int_shape. Qed.
Print Assumptions C40_number_syntax.

(* --- PORT / PASV: Ftp::ParseIpPort, with or without forceIp --- *)
(* accepted => six numbers were converted and every WRITTEN number (mathematical value of its digits, of any length)
   is an octet; the port is p1*256+p2 in 1..65535 (>= 1024 under ftp_sanitycheck); without forceIp the address is
   exactly h1.h2.h3.h4 and not 0.0.0.0; with forceIp (PASV replies under ftp_sanitycheck) the host numbers are
   validated all the same and the address is the forced one *)
Theorem C40_port_accepted_components_in_range : forall ipf sanity force buf a port,
  parse_ip_port ipf sanity force buf = Some (a, port) ->
  exists v1 v2 v3 v4 v5 v6,
    scan_commas 6 buf = [v1; v2; v3; v4; v5; v6] /\
    zoctet v1 /\ zoctet v2 /\ zoctet v3 /\ zoctet v4 /\ zoctet v5 /\ zoctet v6 /\
    port = (v5 * 256 + v6)%Z /\ (1 <= port <= 65535)%Z /\ (sanity = true -> 1024 <= port)%Z /\
    match force with
    | None => a = v4mapped v1 v2 v3 v4 /\ ~ (v1 = 0 /\ v2 = 0 /\ v3 = 0 /\ v4 = 0)%Z
    | Some t => a = assign ipf t
    end.
Proof. exact parse_ip_port_sound. Qed.
Print Assumptions C40_port_accepted_components_in_range.

(* "and otherwise are rejected": any written number outside 0..255 -- negative, huge, or beyond the long range, which
   "%ld" stores clamped to LONG_MIN / LONG_MAX (sat64 in the model) -- makes the parser refuse *)
Theorem C40_port_rejects_out_of_range_components : forall ipf sanity force buf,
  ~ Forall zoctet (scan_commas 6 buf) -> parse_ip_port ipf sanity force buf = None.
Proof. exact parse_ip_port_rejects_non_octets. Qed.
Print Assumptions C40_port_rejects_out_of_range_components.

(* --- EPRT: Ftp::ParseProtoIpPort --- *)
(* accepted => the string is <d> net-prt <d> text <d> port '|'...; the WRITTEN net-prt is 1 or 2 and agrees with the
   family of the address; the address is the lookup of exactly the delimited text (shorter than MAX_IPSTRLEN), not a
   wildcard; the MATHEMATICAL value of the port digits is in 1..65535 (>= 1024 under ftp_sanitycheck) and is the
   port returned: nothing is truncated or clamped into the valid range *)
Theorem C40_eprt_accepted_in_range : forall ipf sanity buf a port,
  parse_proto_ip_port ipf sanity buf = EOk a port ->
  exists d s pv s2 ip s3 e3,
    buf = d :: s /\
    scan_int s = Some (pv, d :: s2) /\ (pv = 1 \/ pv = 2)%Z /\
    s2 = ip ++ d :: s3 /\ forallb (fun c => negb (c =? d)) ip = true /\ lenN ip < max_ipstrlen /\
    ipf ip = Some a /\ is_any a = false /\ ((pv = 2)%Z <-> is_v4 a = false) /\
    scan_int s3 = Some (port, e3) /\ head0 e3 = 124 /\
    (1 <= port <= 65535)%Z /\ (sanity = true -> 1024 <= port)%Z.
Proof. exact parse_proto_sound. Qed.
Print Assumptions C40_eprt_accepted_in_range.

(* the parser's only precondition is a non-empty string (it reads buf[1] unconditionally) *)
Theorem C40_eprt_total_on_nonempty : forall ipf sanity buf,
  buf <> [] -> parse_proto_ip_port ipf sanity buf <> EPrecondition.
Proof. exact parse_proto_nonempty. Qed.
Print Assumptions C40_eprt_total_on_nonempty.

(* ... which the callers in src/servers/FtpServer.cc establish (re-read from the program text on every run), as they
   establish the fresh Ip::Address and the 501 answer on refusal; tbuf[] is only written by size-bounded snprintf;
   the token loop guard does not exceed the declared array size *)
Theorem C40_server_handlers_guarded :
  port_handler_guarded = true /\ eprt_handler_guarded = true /\
  tbuf_writes_are_sized_snprintf = true /\ 0 < tbuf_size /\ max_tokens <= tokens_capacity.
Proof. exact handlers_guarded. Qed.
Print Assumptions C40_server_handlers_guarded.

(* --- Ftp::UnescapeDoubleQuoted inverts FTP path quoting --- *)
Theorem C40_unescape_roundtrip : forall s rest,
  match rest with c :: _ => (c =? 34) = false | [] => True end ->
  unescape_dq (34 :: dq_escape s ++ 34 :: rest) = s.
Proof. exact unescape_roundtrip. Qed.
Print Assumptions C40_unescape_roundtrip.

(* --- listing lines: ftpListParseParts --- *)
(* every token is a non-empty blank-free piece of the line lying at its recorded offset between blanks / line ends *)
Theorem C40_listing_tokens_located : forall buf t,
  In t (all_tokens buf) ->
  t_tok t <> [] /\ forallb nonwsp (t_tok t) = true /\
  exists pre post, buf = pre ++ t_tok t ++ post /\ lenN pre = t_pos t /\ ends_blank pre /\ starts_blank post.
Proof. exact all_tokens_ok. Qed.
Print Assumptions C40_listing_tokens_located.

(* the store loop keeps exactly the first MAX_TOKENS tokens and never stores past tokens[] *)
Theorem C40_listing_token_limit : forall buf,
  store_loop max_tokens tokens_capacity (all_tokens buf) [] = Val (takeN max_tokens (all_tokens buf)).
Proof. exact stored_tokens. Qed.
Print Assumptions C40_listing_token_limit.

(* for every line and both flags: no read outside the line and its terminator, no tokens[] access outside
   [0, n_tokens), no write past tbuf[] *)
Theorem C40_listing_in_bounds : forall nlst skipws buf, list_parse nlst skipws buf <> OOB.
Proof. exact list_parse_in_bounds. Qed.
Print Assumptions C40_listing_in_bounds.

(* Unix format: the name, and for links " -> " and the target, are the tail of the line (nothing is invented) *)
Theorem C40_listing_unix_name_is_line_tail : forall skipws buf arr i p,
  unix_body skipws buf arr i = Val (Found p) ->
  exists pre, buf = pre ++ p_name p ++ match p_link p with Some l => arrow ++ l | None => [] end.
Proof. exact unix_name_is_line_tail. Qed.
Print Assumptions C40_listing_unix_name_is_line_tail.

(* --- hypotheses are satisfiable / the functions do accept --- *)
(* "1,2,3,4,5,6" *)
Example C40_ex_port : parse_ip_port (fun _ => None) true None [49;44;50;44;51;44;52;44;53;44;54]
                      = Some (v4mapped 1 2 3 4, 1286%Z).
Proof. vm_compute. reflexivity. Qed.
(* forceIp: "1,2,3,4,5,6" yields the forced address *)
Example C40_ex_portf : parse_ip_port w_ipf true (Some w_ip1234) [49;44;50;44;51;44;52;44;53;44;54]
                       = Some (v4mapped 1 2 3 4, 1286%Z).
Proof. vm_compute. reflexivity. Qed.
(* "|1|1.2.3.4|8080|" *)
Example C40_ex_eprt : parse_proto_ip_port w_ipf true ([124;49;124] ++ w_ip1234 ++ [124;56;48;56;48;124])
                      = EOk (v4mapped 1 2 3 4) 8080%Z.
Proof. vm_compute. reflexivity. Qed.
(* the reproducers of the repaired findings are refused: "1,2,3,4,4294967300,0", "4294967297,2,3,4,5,6",
   "999,2,3,4,5,6" with forceIp, "1,2,3,4,5,<10^30>" (clamped to LONG_MAX), "|4294967297|1.2.3.4|8080|" *)
Example C40_ex_port_wrap_p1 : parse_ip_port (fun _ => None) true None w_port_wrap_p1 = None.
Proof. vm_compute. reflexivity. Qed.
Example C40_ex_port_wrap_h1 : parse_ip_port (fun _ => None) false None w_port_wrap = None.
Proof. vm_compute. reflexivity. Qed.
Example C40_ex_forced_host : forall ipf t, parse_ip_port ipf true (Some t) w_forced = None.
Proof. intros. vm_compute. reflexivity. Qed.
Example C40_ex_port_clamped : parse_ip_port (fun _ => None) false None
  ([49;44;50;44;51;44;52;44;53;44;49] ++ repeat 48 30) = None.
Proof. vm_compute. reflexivity. Qed.
Example C40_ex_eprt_proto_wrap : parse_proto_ip_port w_ipf true w_eprt_wrap = EFail.
Proof. vm_compute. reflexivity. Qed.
(* "|1|1.2.3.4|65616|" (the old F7 reproducer) is refused *)
Example C40_ex_eprt_f7 : parse_proto_ip_port w_ipf false ([124;49;124] ++ w_ip1234 ++ [124;54;53;54;49;54;124]) = EFail.
Proof. vm_compute. reflexivity. Qed.
(* "-rw 1 a b 5 Jan  1  2000 x" *)
Example C40_ex_list :
  list_parse false false [45;114;119;32;49;32;97;32;98;32;53;32;74;97;110;32;32;49;32;32;50;48;48;48;32;120]
  = Val (LParts {| p_type := 45; p_size := 5%Z; p_date := Some [74;97;110;32;32;49;32;32;50;48;48;48];
                   p_name := [120]; p_link := None |}).
Proof. vm_compute. reflexivity. Qed.
Example C40_ex_unq : unescape_dq [34;97;34;34;98;34;32;120] = [97;34;98].
Proof. vm_compute. reflexivity. Qed.
(* the checked primitives do report accesses outside their objects: a guard above the capacity, an offset past the
   terminator, an index at n_tokens, an snprintf size above the array *)
Example C40_ex_oob_store : store_loop 3 2 [{| t_tok := [97]; t_pos := 0 |}; {| t_tok := [98]; t_pos := 2 |}; {| t_tok := [99]; t_pos := 4 |}] [] = OOB.
Proof. vm_compute. reflexivity. Qed.
Example C40_ex_oob_read : cstr_at [97; 98] 3 = OOB /\ cstr_at [97; 98] 2 = Val [].
Proof. vm_compute. split; reflexivity. Qed.
Example C40_ex_oob_index : tok_get [{| t_tok := [97]; t_pos := 0 |}] 1%Z = OOB /\ tok_get [{| t_tok := [97]; t_pos := 0 |}] (-1)%Z = OOB.
Proof. vm_compute. split; reflexivity. Qed.
Example C40_ex_oob_snprintf : snprintf_chk 128 129 [97] = OOB.
Proof. vm_compute. reflexivity. Qed.
