// Table generator for C10: layout constants of the stores a cache hit is read from.
#include <iostream>
#include <sstream>
#include <limits>
#include <cstddef>
#include <string>
#include <vector>
#include <map>
#include <memory>
#include <atomic>
#include <algorithm>
#include "squid.h"
#include "fs/rock/RockDbCell.h"
#define private public
#define protected public
#include "fs/rock/RockSwapDir.h"
#undef private
#undef protected
#include "store/SwapMeta.h"
#include "defines.h"
#include "md5.h"
#include "http/forward.h"
#include "client_side_request.h"

int main() {
    std::cout << "@@FILE Hits_gen.v\n";
    std::cout << "(* generated from /repo by gen/gen_hits.cc -- do not edit *)\n"
              "Require Import SquidV.Bytes.\n";
    // mem_node page and the largest disk read store_client::fileRead asks for
    std::cout << "Definition hits_sm_page_size : N := " << SM_PAGE_SIZE << "%N.\n";
    // rock: slot size (cache_dir default), db header, cell header => payload capacity of one slot
    // Rock::SwapDir::SwapDir() initialises slotSize(HeaderSize): the default slot size is the db header size
    std::cout << "Definition hits_rock_slot_size : N := " << static_cast<long long>(Rock::SwapDir::HeaderSize) << "%N.\n";
    std::cout << "Definition hits_rock_db_header : N := " << static_cast<long long>(Rock::SwapDir::HeaderSize) << "%N.\n";
    std::cout << "Definition hits_rock_cell_header : N := " << sizeof(Rock::DbCellHeader) << "%N.\n";
    // swap metadata framing (store/SwapMeta.h)
    std::cout << "Definition hits_meta_magic : N := " << int(Store::SwapMetaMagic) << "%N.\n";
    std::cout << "Definition hits_meta_prefix : N := " << Store::SwapMetaPrefixSize << "%N.\n";
    std::cout << "Definition hits_meta_type_size : N := " << sizeof(Store::RawSwapMetaType) << "%N.\n";
    std::cout << "Definition hits_meta_len_size : N := " << sizeof(Store::RawSwapMetaLength) << "%N.\n";
    std::cout << "Definition hits_meta_value_max : N := " << Store::SwapMetaFieldValueLengthMax << "%N.\n";
    std::cout << "Definition hits_meta_key_md5 : N := " << int(Store::STORE_META_KEY_MD5) << "%N.\n";
    std::cout << "Definition hits_meta_url : N := " << int(Store::STORE_META_URL) << "%N.\n";
    std::cout << "Definition hits_md5_len : N := " << SQUID_MD5_DIGEST_LENGTH << "%N.\n";
    // the buffer clientReplyContext hands to storeClientCopy for every copy() (HTTP_REQBUF_SZ)
    std::cout << "Definition hits_reqbuf_size : N := " << HTTP_REQBUF_SZ << "%N.\n";
    return 0;
}
