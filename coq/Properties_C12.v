(* Properties_C12.v — C12: stale responses are not served without revalidation.
   Statements only; proofs live in RefreshProofs.v. The model (RefreshModel.v) transcribes hdrExpirationTime,
   timestampsSet, refreshStaleness, refreshCheck, refreshIsCachable and the cacheHit / haveParsedReplyHeaders
   dispatch; reason codes, the implicit default rule and the lm-factor samples come from gen/RefreshConst_gen.v,
   regenerated from src/refresh.cc on every run.  `lmf` (the floating-point last-modified-factor product) is
   universally quantified: the positive theorems hold for every heuristic.

   Vocabulary (RefreshProofs.v): explicit_lifetime rp recv = the lifetime from s-maxage, else max-age, else
   Expires - Date (receipt time when Date is absent; 0 for an unparsable Expires); cc_values_nonneg rp = a recorded
   max-age / s-maxage is >= 0 (HttpHdrCc::parse clears negative ones); honours_expiry cfg = no
   override-expire on the matching rule and offline_mode off; honours_reload cfg = no ignore-reload and
   offline_mode off (the default configuration satisfies both); req_no_max_stale q = the request has no
   max-stale in effect; req_min_fresh q = its min-fresh (0 if none); decide = what cacheHit does
   (AHit = answered from the cache without contacting the origin). *)
Require Import SquidV.Bytes SquidV.RefreshModel SquidV.RefreshProofs.
Require Import SquidV.gen.RefreshConst_gen.
Local Open Scope Z_scope.

(* the default configuration has no override that the theorems exclude *)
Theorem C12_default_rules_have_no_override : honours_expiry default_config /\ honours_reload default_config.
Proof. exact (conj default_honours_expiry default_honours_reload). Qed.
Print Assumptions C12_default_rules_have_no_override.

(* Squid never keeps a response longer than its explicit lifetime counted from the moment of receipt: whatever the
   Date skew, Age or response delay, the stored expiry is <= receipt + lifetime (or <= receipt when the lifetime is
   negative) *)
Theorem C12_stored_expiry_within_explicit_lifetime : forall rp recv rt L,
  0 <= recv -> 0 <= rt ->
  explicit_lifetime rp recv = Some L ->
  e_expires (new_entry rp recv rt) <= Z.max recv (recv + L).
Proof. exact entry_expires_bound. Qed.
Print Assumptions C12_stored_expiry_within_explicit_lifetime.

(* ... and it is never negative, so refreshStaleness never mistakes it for "no explicit expiry" (the -1 range);
   cc_values_nonneg is the parser's invariant that a recorded max-age / s-maxage is >= 0 *)
Theorem C12_stored_expiry_is_nonnegative : forall rp recv rt L,
  0 <= recv -> cc_values_nonneg rp ->
  explicit_lifetime rp recv = Some L ->
  0 <= e_expires (new_entry rp recv rt).
Proof. exact entry_expires_nonneg. Qed.
Print Assumptions C12_stored_expiry_is_nonnegative.

(* claim 1, one decision: once receipt + lifetime has passed, a request without max-stale is not answered from
   the cache (it is revalidated, fetched anew, or refused with 504 under only-if-cached).  What remains in the
   hypotheses is only: the property's own exceptions (request max-stale; override-expire / offline_mode =
   "configured overrides"), the parser invariant cc_values_nonneg, and the range bound now + min-fresh < 2^31
   (refreshStaleness narrows its result to a 32-bit int) *)
Theorem C12_explicit_lifetime_respected : forall cfg lmf rp recv rt q now L,
  honours_expiry cfg ->
  0 <= recv <= now -> 0 <= rt -> cc_values_nonneg rp ->
  explicit_lifetime rp recv = Some L ->
  req_no_max_stale q -> 0 <= req_min_fresh q -> now + req_min_fresh q < 2147483648 ->
  recv + L <= now ->
  decide cfg lmf (Some (set_flags (new_entry rp recv rt))) q now <> AHit.
Proof. exact explicit_lifetime_respected. Qed.
Print Assumptions C12_explicit_lifetime_respected.

(* claim 1 over ALL request histories on one URL (induction over the history; the store invariant is that the
   cached entry is exactly what timestampsSet made of the reply of the latest origin contact): no step whose
   cached response has outlived receipt + lifetime is a cache hit *)
Theorem C12_history_explicit_lifetime_respected : forall cfg lmf steps pre s o e L,
  honours_expiry cfg -> ordered 0 steps ->
  In (pre, s, o) (run_trace cfg lmf None steps) -> pre = Some e ->
  cc_values_nonneg (e_reply e) ->
  explicit_lifetime (e_reply e) (e_recv e) = Some L ->
  req_no_max_stale (s_req s) -> 0 <= req_min_fresh (s_req s) ->
  s_now s + req_min_fresh (s_req s) < 2147483648 ->
  e_recv e + L <= s_now s ->
  forall a, o <> OHit a.
Proof. exact history_explicit_lifetime. Qed.
Print Assumptions C12_history_explicit_lifetime_respected.

(* claim 2: requests with Cache-Control no-cache or max-age=0 are never answered from the cache, whatever is
   cached.  PARTIAL for max-age=0: the cached response must not be Cache-Control: immutable (refreshCheck ignores
   the request's max-age for immutable replies, RFC 8246 - known finding, witness below) *)
Theorem C12_reload_requests_contact_origin_partial : forall cfg lmf st q now,
  honours_reload cfg -> asks_reload q ->
  (q_no_cache q = false -> forall e, st = Some e -> cc_flag (e_reply e) rp_immutable = false) ->
  decide cfg lmf st q now <> AHit.
Proof. exact reload_contacts. Qed.
Print Assumptions C12_reload_requests_contact_origin_partial.

Theorem C12_reload_requests_contact_origin_refuted :
  exists rp recv q now,
    asks_reload q /\ q_max_age q = Some 0 /\ 0 <= recv <= now /\
    decide default_config lm_default (Some (set_flags (new_entry rp recv 0))) q now = AHit.
Proof. exact reload_refuted. Qed.
Print Assumptions C12_reload_requests_contact_origin_refuted.

(* claim 3: a must-revalidate / proxy-revalidate response whose lifetime has passed is never answered from the
   cache - for every configuration with offline_mode off, max-stale or not (same invariant and range bound) *)
Theorem C12_must_revalidate_when_stale : forall cfg lmf rp recv rt q now L,
  c_offline cfg = false ->
  marked_must_revalidate rp ->
  0 <= recv <= now -> 0 <= rt -> cc_values_nonneg rp ->
  explicit_lifetime rp recv = Some L ->
  0 <= req_min_fresh q -> now + req_min_fresh q < 2147483648 ->
  recv + L <= now ->
  decide cfg lmf (Some (set_flags (new_entry rp recv rt))) q now <> AHit.
Proof. exact must_revalidate_stale_contacts. Qed.
Print Assumptions C12_must_revalidate_when_stale.

(* refreshCheck as a whole: a "fresh" answer (code < 200) is only possible in the listed situations *)
Theorem C12_refresh_check_fresh_only_when_allowed : forall cfg lmf e oq now delta,
  (fst (refresh_check cfg lmf e oq now delta) <? 200) = true ->
  fresh_allowed cfg e oq
    (fst (refresh_staleness lmf e (rc_check_time oq now delta) (rc_age e oq now delta) (c_rule cfg)))
    (snd (refresh_staleness lmf e (rc_check_time oq now delta) (rc_age e oq now delta) (c_rule cfg))) = true.
Proof. exact refresh_check_fresh. Qed.
Print Assumptions C12_refresh_check_fresh_only_when_allowed.

(* the other direction (the model does not simply always contact the origin): before the stored expiry a plain
   request is answered from the cache, in every configuration *)
Theorem C12_fresh_response_is_served : forall cfg lmf e q now,
  plain_request q -> e_reval_always e = false ->
  0 <= e_expires e -> now < e_expires e ->
  decide cfg lmf (Some e) q now = AHit.
Proof. exact fresh_is_served. Qed.
Print Assumptions C12_fresh_response_is_served.

(* the model's last-modified factor for the default rule agrees with the compiled code's floating-point product
   on the 600 regenerated samples *)
Theorem C12_default_lm_factor_matches_code :
  forallb (fun p => lm_default (fst p) =? snd p) default_lmfactor_samples = true.
Proof. exact lm_default_matches_code. Qed.
Print Assumptions C12_default_lm_factor_matches_code.

(* ---------- the hypotheses are satisfiable and the stated exceptions are real ---------- *)
Example C12_ex_lifetime_hypotheses_hold :
  honours_expiry default_config /\ explicit_lifetime ok_reply t_recv = Some 100 /\ cc_values_nonneg ok_reply /\
  req_no_max_stale plain_q /\ req_min_fresh plain_q = 0 /\
  decide default_config lm_default (stored ok_reply) plain_q (t_recv + 99) = AHit /\
  decide default_config lm_default (stored ok_reply) plain_q (t_recv + 100) = ARevalidate.
Proof. exact ex_lifetime_hyps. Qed.

(* the two former counterexamples (negative computed expiry; unparsable Expires with a Date older than 24 h) are
   revalidated from the first second on, now that /repo carries the repairs *)
Example C12_ex_former_witnesses_are_revalidated :
  e_expires (new_entry w1_reply t_recv 0) = 0 /\
  decide default_config lm_default (stored w1_reply) plain_q t_recv = ARevalidate /\
  decide default_config lm_default (stored w1_reply) plain_q (t_recv + 3600) = ARevalidate /\
  e_expires (new_entry w2_reply t_recv 0) = t_recv /\
  decide default_config lm_default (stored w2_reply) plain_q t_recv = ARevalidate /\
  decide default_config lm_default (stored w2_reply) plain_q (t_recv + 66602) = ARevalidate.
Proof. exact ex_former_witnesses_revalidated. Qed.

Example C12_ex_max_stale_is_an_exception :
  decide default_config lm_default (stored ok_reply) (q_with None (Some CC_MAX_STALE_ANY)) (t_recv + 5000) = AHit /\
  decide default_config lm_default (stored ok_reply) (q_with None (Some 50)) (t_recv + 149) = AHit /\
  decide default_config lm_default (stored ok_reply) (q_with None (Some 50)) (t_recv + 150) = ARevalidate /\
  decide default_config lm_default (stored ok_reply_mr) (q_with None (Some CC_MAX_STALE_ANY)) (t_recv + 100) = ARevalidate.
Proof. exact ex_max_stale_exception. Qed.

Example C12_ex_override_expire_is_an_exception :
  decide override_config lm_default (stored ok_reply) plain_q (t_recv + 3599) = AHit /\
  decide override_config lm_default (stored ok_reply) plain_q (t_recv + 3600) = ARevalidate.
Proof. exact ex_override_exception. Qed.

Example C12_ex_reload_hypotheses_hold :
  honours_reload default_config /\ asks_reload (q_with (Some 0) None) /\
  cc_flag ok_reply rp_immutable = false /\
  decide default_config lm_default (stored ok_reply) (q_with (Some 0) None) (t_recv + 1) = ARevalidate /\
  decide default_config lm_default (stored ok_reply) (mkReq false true true None None None false false (-1) false false) (t_recv + 1) = AMiss.
Proof. exact ex_reload_hyps. Qed.
