(* IcapProofs.v — proofs about the ICAP transaction model (C60). *)
Require Import SquidV.Bytes SquidV.IcapModel SquidV.gen.IcapConst_gen.
Require Import ZifyBool ZifyN ZifyNat.
Local Open Scope N_scope.

Lemma dispatch_table :
  icap_dispatch 100 = 1 /\ icap_dispatch 200 = 2 /\ icap_dispatch 201 = 2 /\ icap_dispatch 204 = 3 /\ icap_dispatch 206 = 4 /\
  forall s, s <> 100 -> s <> 200 -> s <> 201 -> s <> 204 -> s <> 206 -> icap_dispatch s = 0.
Proof.
  repeat split; try reflexivity. intros s H1 H2 H3 H4 H5. unfold icap_dispatch.
  repeat match goal with |- context[?a =? ?b] => destruct (N.eqb_spec a b); [congruence|] end. reflexivity.
Qed.

Lemma writing_ranks :
  map w_rank [WInit; WConnect; WHeaders; WPreview; WPaused; WPrime; WAlmostDone; WReallyDone] = [0;1;2;3;4;5;6;7] /\
  writing_enum_size = 8.
Proof. split; reflexivity. Qed.

(* ------------------------------------------------------------------ frames
   [fr x y]: y differs from x only in bookkeeping that the delivered message does not depend on *)
Definition fr (x y : xs) : Prop :=
  ad y = ad x /\ out y = out x /\ job y = job x /\ cfg y = cfg x /\
  parsing (st y) = parsing (st x) /\ sending (st y) = sending (st x) /\
  s_off (vs y) = s_off (vs x) /\ vp_data (vs y) = vp_data (vs x) /\ readbuf (io y) = readbuf (io x) /\
  icap_h (io y) = icap_h (io x) /\ icap_b (io y) = icap_b (io x) /\ icap_tr (io y) = icap_tr (io x) /\
  comm_eof (io y) = comm_eof (io x).
Lemma fr_refl x : fr x x.
Proof. unfold fr; repeat split. Qed.
Lemma fr_trans x y z : fr x y -> fr y z -> fr x z.
Proof. unfold fr; intros; intuition congruence. Qed.
Definition frames (f : xs -> res) : Prop := forall x, fr x (st_of (f x)).

Lemma frames_bind f g : frames f -> frames g -> frames (fun x => f x >>= g).
Proof.
  intros Hf Hg x. specialize (Hf x). unfold bind. destruct (f x) as [y|y]; cbn [st_of] in *.
  - eapply fr_trans; [exact Hf| apply Hg].
  - exact Hf.
Qed.
Lemma fr_bind x r g : fr x (st_of r) -> frames g -> fr x (st_of (r >>= g)).
Proof.
  intros H Hg. unfold bind. destruct r as [y|y]; cbn [st_of] in *; [eapply fr_trans; [exact H|apply Hg]|exact H].
Qed.
Lemma frames_must c : frames (fun x => must (c x) x).
Proof. intros x. unfold must. destruct (c x); apply fr_refl. Qed.
Lemma fr_must x (c : bool) : fr x (st_of (must c x)).
Proof. unfold must; destruct c; apply fr_refl. Qed.

Ltac frsolve := unfold fr; cbn; repeat split; reflexivity.
Ltac brk :=
  repeat match goal with
  | |- context[if ?c then _ else _] => destruct c
  | |- context[match ?c with _ => _ end] => destruct c
  end.

Lemma virginConsume_fr : frames virginConsume.
Proof.
  intros x. unfold virginConsume.
  destruct (negb (vp_attached (vs x))); [apply fr_refl|].
  destruct (retriable (fl x)); [apply fr_refl|].
  match goal with |- context[if ?c then Ok x else _] => destruct c; [apply fr_refl|] end.
  unfold must, bind. match goal with |- context[if ?c then Ok x else Throw x] => destruct c; [|apply fr_refl] end.
  match goal with |- context[if ?c then _ else _] => destruct c end; cbn [st_of]; [|apply fr_refl].
  unfold disableBypass, disableRepeats. frsolve.
Qed.

Lemma checkConsuming_fr x : fr x (checkConsuming x).
Proof. unfold checkConsuming. match goal with |- context[if ?c then _ else _] => destruct c end; [apply fr_refl|frsolve]. Qed.

Lemma stopWriting_fr n : frames (stopWriting n).
Proof.
  intros x. unfold stopWriting. destruct (writing (st x)); try apply fr_refl;
  (destruct (writer (io x) && n); cbn [st_of];
   [eapply fr_trans; [|apply checkConsuming_fr]; frsolve|];
   apply fr_bind;
   [ destruct (writer (io x)); destruct (active _);
     first [ eapply fr_trans; [|apply virginConsume_fr]; frsolve | cbn [st_of]; frsolve ]
   | intros y; cbn [st_of]; eapply fr_trans; [|apply checkConsuming_fr]; frsolve ]).
Qed.

Lemma stopBackup_fr : frames stopBackup.
Proof.
  intros x. unfold stopBackup. destruct (active _); [|apply fr_refl].
  eapply fr_trans; [|apply virginConsume_fr]. frsolve.
Qed.

Ltac fr1 :=
  match goal with
  | |- fr ?x ?x => apply fr_refl
  | |- fr ?x (st_of (must _ ?x)) => apply fr_must
  | |- fr _ (st_of (must _ _)) => eapply fr_trans; [| apply fr_must]
  | |- fr _ (st_of (_ >>= _)) => apply fr_bind; [| unfold frames; intros ?]
  | |- fr _ (st_of (if ?c then _ else _)) => destruct c
  | |- fr _ (st_of (match ?c with _ => _ end)) => destruct c
  | |- fr _ (st_of (Ok _)) => cbn [st_of]
  | |- fr _ (st_of (Throw _)) => cbn [st_of]
  | |- fr _ (st_of (virginConsume _)) => eapply fr_trans; [| apply virginConsume_fr]
  | |- fr _ (st_of (stopWriting _ _)) => eapply fr_trans; [| apply stopWriting_fr]
  | |- fr _ (st_of (stopBackup _)) => eapply fr_trans; [| apply stopBackup_fr]
  | |- fr _ (checkConsuming _) => eapply fr_trans; [| apply checkConsuming_fr]
  | |- fr _ (if ?c then _ else _) => destruct c
  | |- fr _ _ => frsolve
  end.
Ltac frauto := cbv zeta; repeat fr1.

Lemma writeSomeBody_fr n : frames (writeSomeBody n).
Proof. intros x. unfold writeSomeBody. frauto. Qed.

Lemma decideWritingAfterPreview_fr : frames decideWritingAfterPreview.
Proof. intros x. unfold decideWritingAfterPreview. frauto. Qed.

Lemma writePreviewBody_fr : frames writePreviewBody.
Proof.
  intros x. unfold writePreviewBody. apply fr_bind; [apply fr_must|]. intros y.
  apply fr_bind; [apply writeSomeBody_fr|]. intros z. destruct (pv_done z); [apply decideWritingAfterPreview_fr|apply fr_refl].
Qed.

Lemma writePrimeBody_fr : frames writePrimeBody.
Proof.
  intros x. unfold writePrimeBody. apply fr_bind; [apply fr_must|]. intros y.
  apply fr_bind; [apply writeSomeBody_fr|]. intros z. destruct (end_reached_w z); [apply stopWriting_fr|apply fr_refl].
Qed.

Lemma writeMore_fr : frames writeMore.
Proof.
  intros x. unfold writeMore. destruct (writer (io x)); [apply fr_refl|].
  destruct (writing (st x)); try apply fr_refl.
  - apply writePreviewBody_fr. - apply writePrimeBody_fr. - apply stopWriting_fr.
Qed.

Lemma handleCommWroteHeaders_fr : frames handleCommWroteHeaders.
Proof.
  intros x. unfold handleCommWroteHeaders. destruct (pv_enabled x).
  - apply fr_bind; [|apply writeMore_fr]. destruct (pv_done x); [apply decideWritingAfterPreview_fr|cbn [st_of]; frsolve].
  - destruct (vb_expected (cfg x)); [|apply stopWriting_fr].
    eapply fr_trans; [|apply writeMore_fr]. frsolve.
Qed.

Lemma noteCommWrote_fr : frames noteCommWrote.
Proof.
  intros x. unfold noteCommWrote. cbv zeta.
  destruct (ignore_lw (io (with_writer false x))); [cbn [st_of]; frsolve|].
  assert (H : fr x (with_writer false x)) by frsolve.
  destruct (writing (st (with_writer false x)));
    (eapply fr_trans; [exact H|]); first [apply writeMore_fr | apply handleCommWroteHeaders_fr].
Qed.

(* ------------------------------------------------------------------ list facts *)
Lemma takeN_0 {A} (l : list A) : takeN 0 l = [].
Proof. destruct l; reflexivity. Qed.
Lemma dropN_0 {A} (l : list A) : dropN 0 l = l.
Proof. destruct l; reflexivity. Qed.
Lemma takeN_add {A} a b (l : list A) : takeN (a + b) l = takeN a l ++ takeN b (dropN a l).
Proof.
  revert a; induction l as [|h l IH]; intros a; [reflexivity|].
  destruct (N.eqb_spec a 0) as [->|Ha].
  - rewrite N.add_0_l, takeN_0, dropN_0. reflexivity.
  - cbn [takeN dropN]. destruct (N.eqb_spec (a + b) 0) as [E|E]; [lia|].
    destruct (N.eqb_spec a 0) as [E2|_]; [lia|].
    cbn [app]. f_equal. replace (N.pred (a + b)) with (N.pred a + b) by lia. apply IH.
Qed.
Lemma takeN_app_le {A} a (l m : list A) : a <= lenN l -> takeN a (l ++ m) = takeN a l.
Proof.
  revert a; induction l as [|h l IH]; intros a Ha; cbn [lenN] in Ha.
  - assert (a = 0) by lia; subst. destruct m; reflexivity.
  - cbn [app takeN]. destruct (N.eqb_spec a 0); [reflexivity|]. f_equal. apply IH. lia.
Qed.

(* ------------------------------------------------------------------ the invariant *)
(* what is on the adapted body pipe agrees with the head it belongs to *)
Definition body_ok (x : xs) : Prop :=
  match ad_header (ad x) with
  | None => o_body (out x) = [] /\ ad_in (ad x) = [] /\ s_off (vs x) = 0
  | Some SrcVirgin => o_body (out x) = takeN (s_off (vs x)) (vp_data (vs x)) /\ ad_in (ad x) = [] /\
                      s_off (vs x) <= lenN (vp_data (vs x))
  | Some SrcAdapted => o_body (out x) = ad_in (ad x) /\ s_off (vs x) = 0
  end.
Definition answer_ok (x : xs) : Prop := forall s, o_answer (out x) = Some (Fwd s) -> ad_header (ad x) = Some s.
Definition p1 (x : xs) : Prop := sending (st x) = SVirgin -> ad_header (ad x) = Some SrcVirgin.
Definition p2 (x : xs) : Prop := parsing (st x) = PsBody -> ad_header (ad x) = Some SrcAdapted.
Definition p4 (x : xs) : Prop := parsing (st x) = PsHttpHeader -> icap_h (io x) <> HNone.
Definition p5 (x : xs) : Prop := ad_header (ad x) = Some SrcVirgin -> parsing (st x) = PsDone.
(* holds at every point, also in the state an exception leaves behind *)
Definition InvW (x : xs) : Prop := body_ok x /\ answer_ok x /\ p1 x /\ p2 x.
(* holds between asynchronous calls *)
Definition Inv (x : xs) : Prop := InvW x /\ p4 x /\ p5 x.

Lemma fr_InvW x y : fr x y -> InvW x -> InvW y.
Proof.
  unfold fr, InvW, body_ok, answer_ok, p1, p2. intros (Ha & Ho & Hj & Hc & Hp & Hs & Hso & Hv & _) H.
  rewrite Ha, Ho, Hp, Hs, Hso, Hv. exact H.
Qed.
Lemma fr_Inv x y : fr x y -> Inv x -> Inv y.
Proof.
  intros F (HW & H4 & H5). split; [eapply fr_InvW; eauto|].
  unfold fr in F. destruct F as (Ha & Ho & Hj & Hc & Hp & Hs & Hso & Hv & Hr & Hh & _).
  unfold p4, p5. rewrite Ha, Hp, Hh. auto.
Qed.

(* Hoare-style specification of a model function: P before; Q after a normal return, QT after a throw *)
Definition spec (P : xs -> Prop) (f : xs -> res) (Q QT : xs -> Prop) : Prop :=
  forall x, P x -> match f x with Ok y => Q y | Throw y => QT y end.

Lemma spec_bind (P : xs -> Prop) f (Q QT : xs -> Prop) g (R : xs -> Prop) :
  spec P f Q QT -> spec Q g R QT -> spec P (fun x => f x >>= g) R QT.
Proof.
  intros Hf Hg x Hx. specialize (Hf x Hx). unfold bind. destruct (f x) as [y|y]; [apply Hg, Hf|exact Hf].
Qed.
Lemma spec_frames (P : xs -> Prop) f : frames f -> (forall x y, fr x y -> P x -> P y) -> spec P f P P.
Proof. intros Hf HP x Hx. specialize (Hf x). destruct (f x); cbn [st_of] in Hf; eapply HP; eauto. Qed.
Lemma spec_weaken (P P' : xs -> Prop) f (Q Q' QT QT' : xs -> Prop) :
  spec P f Q QT -> (forall x, P' x -> P x) -> (forall x, Q x -> Q' x) -> (forall x, QT x -> QT' x) -> spec P' f Q' QT'.
Proof. intros H HP HQ HT x Hx. specialize (H x (HP x Hx)). destruct (f x); auto. Qed.

Lemma Inv_InvW x : Inv x -> InvW x.
Proof. intros [H _]; exact H. Qed.

(* stopSending only ends the body: no byte, no head changes *)
Lemma stopSending_InvW n x : InvW x -> InvW (st_of (stopSending n x)).
Proof.
  intros H. unfold stopSending. destruct (sending (st x)) eqn:Es; cbn [st_of]; try exact H.
  - unfold must, bind. destruct (negb (ad_pipe (ad x))); cbn [st_of]; [|exact H].
    eapply fr_InvW; [apply checkConsuming_fr|].
    destruct H as (Hb & Ha & H1 & H2). repeat split; auto. unfold p1; cbn; discriminate.
  - eapply fr_InvW; [apply checkConsuming_fr|].
    destruct H as (Hb & Ha & H1 & H2).
    destruct (ad_pipe (ad x)); (repeat split; [exact Hb|exact Ha|unfold p1; cbn; discriminate|exact H2]).
  - eapply fr_InvW; [apply checkConsuming_fr|].
    destruct H as (Hb & Ha & H1 & H2).
    destruct (ad_pipe (ad x)); (repeat split; [exact Hb|exact Ha|unfold p1; cbn; discriminate|exact H2]).
Qed.
Lemma stopSending_facts n x :
  let y := st_of (stopSending n x) in
  ad_header (ad y) = ad_header (ad x) /\ parsing (st y) = parsing (st x) /\ icap_h (io y) = icap_h (io x) /\
  (sending (st y) = SDone \/ y = x).
Proof.
  cbv zeta. unfold stopSending. destruct (sending (st x)) eqn:Es; cbn [st_of]; auto.
  - unfold must, bind. destruct (negb (ad_pipe (ad x))); cbn [st_of]; auto.
    pose proof (checkConsuming_fr (with_sending SDone x)) as F. unfold fr in F. cbn in F.
    destruct F as (Fa & _ & _ & _ & Fp & Fs & _ & _ & _ & Fh & _). rewrite Fa, Fp, Fh, Fs. auto.
  - match goal with |- context[checkConsuming ?z] => pose proof (checkConsuming_fr z) as F end.
    unfold fr in F. destruct F as (Fa & _ & _ & _ & Fp & Fs & _ & _ & _ & Fh & _). rewrite Fa, Fp, Fh, Fs.
    destruct (ad_pipe (ad x)); cbn; auto.
  - match goal with |- context[checkConsuming ?z] => pose proof (checkConsuming_fr z) as F end.
    unfold fr in F. destruct F as (Fa & _ & _ & _ & Fp & Fs & _ & _ & _ & Fh & _). rewrite Fa, Fp, Fh, Fs.
    destruct (ad_pipe (ad x)); cbn; auto.
Qed.

Lemma stopParsing_InvW c x : InvW x -> InvW (st_of (stopParsing c x)).
Proof.
  intros H. unfold stopParsing. destruct (parsing (st x)) eqn:E; cbn [st_of]; try exact H;
  (unfold must, bind; match goal with |- context[if ?b then Ok x else Throw x] => destruct b end; cbn [st_of]; [|exact H];
   destruct H as (Hb & Ha & H1 & H2); repeat split; auto; unfold p2; cbn; discriminate).
Qed.
Lemma stopParsing_facts c x :
  let y := st_of (stopParsing c x) in
  ad y = ad x /\ out y = out x /\ sending (st y) = sending (st x) /\ vs y = vs x /\
  match stopParsing c x with Ok z => parsing (st z) = PsDone | Throw z => z = x end.
Proof.
  cbv zeta. unfold stopParsing. destruct (parsing (st x)) eqn:E; cbn [st_of]; auto;
  (unfold must, bind; match goal with |- context[if ?b then Ok x else Throw x] => destruct b end; cbn; auto).
Qed.

(* echoMore appends virgin bytes only, and only to a virgin-clone message *)
Lemma echoMore_spec : spec InvW echoMore InvW InvW.
Proof.
  intros x H. unfold echoMore.
  unfold must at 1. destruct (is_sending SVirgin x) eqn:Es; [|exact H]. cbn [bind].
  unfold must at 1. destruct (ad_pipe (ad x)); [|exact H]. cbn [bind].
  unfold must at 1. destruct (active (s_st (vs x))); [|exact H]. cbn [bind].
  unfold must at 1. destruct ((vp_consumed (vs x) <=? s_off (vs x)) && (s_off (vs x) <=? vend x)) eqn:Eb; [|exact H]. cbn [bind].
  assert (Hv : ad_header (ad x) = Some SrcVirgin).
  { destruct H as (_ & _ & H1 & _). apply H1. unfold is_sending in Es. destruct (sending (st x)); try discriminate; reflexivity. }
  set (r := if 0 <? vend x - s_off (vs x) then _ else Ok x).
  assert (Hr : InvW (st_of r)).
  { subst r. destruct (0 <? vend x - s_off (vs x)); [|exact H].
    eapply fr_InvW; [apply virginConsume_fr|].
    destruct H as (Hb & Ha & H1 & H2). unfold body_ok in Hb. rewrite Hv in Hb. destruct Hb as (Hb1 & Hb2 & Hb3).
    refine (conj _ (conj Ha (conj H1 H2))).
    unfold body_ok, disableBypass, disableRepeats. cbn. rewrite Hv.
    repeat split; [|exact Hb2|].
    - rewrite takeN_add, Hb1. reflexivity.
    - unfold vend in *. match goal with |- _ + N.min ?a ?b <= _ => assert (a <= lenN (vp_data (vs x)) - s_off (vs x)) by (destruct (ad_size (ad x)); lia) end. lia. }
  destruct r as [y|y]; cbn [bind st_of] in *; [|exact Hr].
  destruct (end_reached_s y); [|exact Hr].
  pose proof (stopSending_InvW true y Hr). destruct (stopSending true y); exact H0.
Qed.

Lemma startSending_spec : spec InvW startSending InvW InvW.
Proof.
  intros x H. unfold startSending. cbv zeta.
  assert (H' : InvW (disableBypass true (disableRepeats x))) by (eapply fr_InvW; [|exact H]; frsolve).
  set (x' := disableBypass true (disableRepeats x)) in *.
  destruct (ad_header (ad x')) as [s|] eqn:Eh; [|exact H'].
  assert (H'' : InvW (sendAnswer (Fwd s) x')).
  { unfold sendAnswer. destruct (initiator (job x')); [|exact H'].
    destruct H' as (Hb & Ha & H1 & H2). repeat split; auto.
    unfold answer_ok. cbn. intros s0 E. injection E as <-. exact Eh. }
  destruct (is_sending SVirgin (sendAnswer (Fwd s) x')); [apply echoMore_spec, H''|exact H''].
Qed.

Lemma makeAdaptedBodyPipe_InvW x : InvW x -> InvW (st_of (makeAdaptedBodyPipe x)).
Proof.
  intros H. unfold makeAdaptedBodyPipe, must, bind. match goal with |- context[if ?b then Ok x else Throw x] => destruct b end; cbn [st_of]; [|exact H].
  destruct H as (Hb & Ha & H1 & H2). repeat split; auto.
Qed.

(* prepEchoing turns a transaction without an adapted head into a virgin-clone message, or throws *)
Lemma prepEchoing_spec :
  spec InvW prepEchoing (fun y => InvW y /\ ad_header (ad y) = Some SrcVirgin) InvW.
Proof.
  intros x H. unfold prepEchoing. cbv zeta.
  assert (H' : InvW (disableBypass true (disableRepeats x))) by (eapply fr_InvW; [|exact H]; frsolve).
  set (x' := disableBypass true (disableRepeats x)) in *. clearbody x'. clear H.
  unfold must at 1. destruct (ad_header (ad x')) eqn:Eh; [exact H'|]. cbn [bind].
  set (x2 := with_ad_isreply _ (with_ad_header (Some SrcVirgin) x')).
  assert (H2 : InvW x2 /\ ad_header (ad x2) = Some SrcVirgin).
  { split; [|reflexivity]. destruct H' as (Hb & Ha & H1 & H2). unfold body_ok in Hb. rewrite Eh in Hb. destruct Hb as (Hb1 & Hb2 & Hb3).
    unfold InvW, body_ok, answer_ok, p1, p2. cbn. repeat split; auto.
    - rewrite Hb1, Hb3, takeN_0. reflexivity.
    - rewrite Hb3. lia.
    - intros s E. apply Ha in E. congruence.
    - intros E. apply H2 in E. congruence. }
  destruct (vb_expected (cfg x2)).
  - set (r := if active (s_st (vs x2)) then Ok x2 else _).
    assert (Hr : InvW (st_of r) /\ ad_header (ad (st_of r)) = Some SrcVirgin).
    { subst r. destruct (active (s_st (vs x2))); [exact H2|]. unfold must, bind.
      match goal with |- context[if ?b then Ok x2 else Throw x2] => destruct b end; cbn [st_of]; [|exact H2].
      destruct H2 as ((Hb & Ha & H1 & H2') & Hh). split; [|exact Hh]. exact (conj Hb (conj Ha (conj H1 H2'))). }
    destruct r as [y|y]; cbn [bind st_of] in *; [|apply Hr].
    destruct Hr as (Hy & Hyh).
    assert (Hz : InvW (checkConsuming (with_sending SVirgin y)) /\ ad_header (ad (checkConsuming (with_sending SVirgin y))) = Some SrcVirgin).
    { pose proof (checkConsuming_fr (with_sending SVirgin y)) as F. split.
      - eapply fr_InvW; [exact F|]. destruct Hy as (Hb & Ha & H1 & H2'). repeat split; auto. unfold p1. cbn. intros _. exact Hyh.
      - destruct F as (Fa & _). rewrite Fa. exact Hyh. }
    destruct Hz as (Hz & Hzh).
    pose proof (makeAdaptedBodyPipe_InvW _ Hz) as Hm.
    assert (Hmh : ad_header (ad (st_of (makeAdaptedBodyPipe (checkConsuming (with_sending SVirgin y))))) = Some SrcVirgin).
    { unfold makeAdaptedBodyPipe, must, bind. match goal with |- context[if ?b then Ok ?z else Throw ?z] => destruct b end; cbn; exact Hzh. }
    destruct (makeAdaptedBodyPipe (checkConsuming (with_sending SVirgin y))) as [w|w]; cbn [bind st_of] in *; [|exact Hm].
    destruct (vb_known (cfg w)); [|split; assumption].
    split; [|exact Hmh]. destruct Hm as (Hb & Ha & H1 & H2'). exact (conj Hb (conj Ha (conj H1 H2'))).
  - destruct H2 as (H2 & H2h).
    pose proof (stopSending_InvW true x2 H2) as Hs. pose proof (stopSending_facts true x2) as (Fh & _).
    destruct (stopSending true x2); cbn [st_of] in *; [split; [exact Hs|congruence]|exact Hs].
Qed.

(* ------------------------------------------------------------------ parsing path *)
Lemma fr_InvW_res x r : InvW x -> fr x (st_of r) -> match r with Ok y => InvW y | Throw y => InvW y end.
Proof. intros H F. destruct r; cbn [st_of] in F; eapply fr_InvW; eauto. Qed.

Definition NoVirgin (x : xs) : Prop := ad_header (ad x) <> Some SrcVirgin.
Definition InvN (x : xs) : Prop := InvW x /\ NoVirgin x.
Lemma fr_InvN x y : fr x y -> InvN x -> InvN y.
Proof. intros F (H & N). split; [eapply fr_InvW; eauto|]. unfold NoVirgin. destruct F as (Fa & _). rewrite Fa. exact N. Qed.
Lemma InvN_Inv x : InvN x -> p4 x -> Inv x.
Proof. intros (H & N) H4. split; [exact H|split; [exact H4|]]. intros E. contradiction. Qed.

(* decideOnParsingBody, entered with an adapted head *)
Lemma decideOnParsingBody_spec :
  spec (fun x => InvW x /\ ad_header (ad x) = Some SrcAdapted) decideOnParsingBody
       (fun y => InvN y /\ parsing (st y) <> PsHttpHeader) InvW.
Proof.
  intros x (H & Hh). unfold decideOnParsingBody. destruct (icap_b (io x)).
  - assert (H' : InvW (with_parsing PsBody x)).
    { destruct H as (Hb & Ha & H1 & H2). refine (conj Hb (conj Ha (conj H1 _))). intros _. exact Hh. }
    pose proof (makeAdaptedBodyPipe_InvW _ H') as Hm.
    assert (Hf : ad_header (ad (st_of (makeAdaptedBodyPipe (with_parsing PsBody x)))) = Some SrcAdapted /\
                 parsing (st (st_of (makeAdaptedBodyPipe (with_parsing PsBody x)))) = PsBody).
    { unfold makeAdaptedBodyPipe, must, bind. match goal with |- context[if ?b then Ok ?z else Throw ?z] => destruct b end; cbn; auto. }
    destruct (makeAdaptedBodyPipe (with_parsing PsBody x)) as [y|y]; cbn [bind st_of] in *; [|exact Hm].
    unfold must. destruct (is_sending SAdapted y); [|exact Hm].
    destruct Hf as (Hf1 & Hf2). split; [split; [exact Hm|unfold NoVirgin; congruence]|congruence].
  - set (r := if icap_tr (io x) then _ else _).
    assert (Hr : InvW (st_of r) /\ ad_header (ad (st_of r)) = Some SrcAdapted /\
                 match r with Ok z => parsing (st z) <> PsHttpHeader | Throw _ => True end).
    { subst r. destruct (icap_tr (io x)); cbn [st_of].
      - split; [|split; [exact Hh|cbn; discriminate]].
        destruct H as (Hb & Ha & H1 & H2). refine (conj Hb (conj Ha (conj H1 _))). unfold p2; cbn; discriminate.
      - pose proof (stopParsing_InvW true x H) as Hs. pose proof (stopParsing_facts true x) as (Fa & _ & _ & _ & Fp).
        split; [exact Hs|split; [rewrite Fa; exact Hh|]]. destruct (stopParsing true x); [rewrite Fp; discriminate|exact I]. }
    destruct r as [y|y]; cbn [bind st_of] in *; [|apply Hr].
    destruct Hr as (Hy & Hyh & Hyp).
    pose proof (stopSending_InvW true y Hy) as Hs. pose proof (stopSending_facts true y) as (Fh & Fp & _).
    destruct (stopSending true y) as [z|z]; cbn [st_of] in *; [|exact Hs].
    split; [split; [exact Hs|unfold NoVirgin; congruence]|congruence].
Qed.

Lemma need_more_same x : match need_more x with Ok y => y = x | Throw y => y = x end.
Proof. unfold need_more. destruct (comm_eof (io x)); reflexivity. Qed.

(* maybeAllocateHttpMsg *)
Lemma alloc_spec b x :
  Inv x -> parsing (st x) = PsHttpHeader ->
  let x' := match ad_header (ad x) with Some _ => x | None => with_ad_isreply b (with_ad_header (Some SrcAdapted) x) end in
  InvW x' /\ ad_header (ad x') = Some SrcAdapted /\ parsing (st x') = PsHttpHeader /\ icap_h (io x') = icap_h (io x).
Proof.
  intros (H & H4 & H5) Hp. cbv zeta.
  assert (Hnv : ad_header (ad x) <> Some SrcVirgin) by (intros E; apply H5 in E; congruence).
  destruct (ad_header (ad x)) as [[|]|] eqn:E; [congruence|auto|].
  split; [|cbn; auto].
  destruct H as (Hb & Ha & H1 & H2). unfold body_ok in Hb. rewrite E in Hb. destruct Hb as (Hb1 & Hb2 & Hb3).
  unfold InvW, body_ok, answer_ok, p1, p2. cbn. repeat split; auto; try congruence.
  - intros s Es. apply Ha in Es. congruence.
  - intros Es. apply H1 in Es. congruence.
Qed.

Lemma httpTail_spec x' :
  InvW x' -> ad_header (ad x') = Some SrcAdapted -> parsing (st x') = PsHttpHeader -> icap_h (io x') <> HNone ->
  match (match front (readbuf (io x')) with
         | FEmpty | FPartial => need_more x'
         | FTok THttpHead rest => decideOnParsingBody (with_readbuf rest x')
         | FTok _ _ => Throw x'
         end) with Ok y => InvN y /\ p4 y | Throw y => InvW y end.
Proof.
  intros Hw Hh Hpp Hih.
  assert (Hnm : match need_more x' with Ok y => InvN y /\ p4 y | Throw y => InvW y end).
  { pose proof (need_more_same x') as E. destruct (need_more x'); subst; [|exact Hw].
    split; [split; [exact Hw|unfold NoVirgin; congruence]|]. unfold p4. intros _. exact Hih. }
  destruct (front (readbuf (io x'))) as [| |t rest]; [exact Hnm|exact Hnm|].
  destruct t; try exact Hw.
  assert (Hz : InvW (with_readbuf rest x') /\ ad_header (ad (with_readbuf rest x')) = Some SrcAdapted).
  { split; [|exact Hh]. destruct Hw as (Hb & Ha & H1 & H2). exact (conj Hb (conj Ha (conj H1 H2))). }
  pose proof (decideOnParsingBody_spec _ Hz) as D. destruct (decideOnParsingBody (with_readbuf rest x')); [|exact D].
  destruct D as (D1 & D2). split; [exact D1|]. intros E; contradiction.
Qed.

(* parseHttpHead: entered between calls with parsing = psHttpHeader *)
Lemma parseHttpHead_spec :
  spec (fun x => Inv x /\ parsing (st x) = PsHttpHeader) parseHttpHead (fun y => InvN y /\ p4 y) InvW.
Proof.
  intros x (HI & Hp). unfold parseHttpHead.
  assert (Hn : icap_h (io x) <> HNone) by (destruct HI as (_ & H4 & _); apply H4, Hp).
  destruct (icap_h (io x)) eqn:Eih; [congruence| |]; cbv zeta.
  - pose proof (alloc_spec false x HI Hp) as A. cbv zeta in A. destruct A as (A1 & A2 & A3 & A4).
    apply httpTail_spec; auto. congruence.
  - pose proof (alloc_spec true x HI Hp) as A. cbv zeta in A. destruct A as (A1 & A2 & A3 & A4).
    apply httpTail_spec; auto. congruence.
Qed.

Lemma prepEchoing_parsing x :
  parsing (st (st_of (prepEchoing x))) = parsing (st x) /\ icap_h (io (st_of (prepEchoing x))) = icap_h (io x).
Proof.
  unfold prepEchoing, makeAdaptedBodyPipe, stopSending, checkConsuming, must, bind, disableBypass, disableRepeats.
  cbv zeta. brk; cbn; auto.
Qed.

Lemma handle204_spec :
  spec InvW handle204NoContent Inv InvW.
Proof.
  intros x H. unfold handle204NoContent.
  pose proof (stopParsing_InvW true x H) as Hs. pose proof (stopParsing_facts true x) as (_ & _ & _ & _ & Fp).
  destruct (stopParsing true x) as [y|y]; cbn [bind st_of] in *; [|exact Hs].
  pose proof (prepEchoing_spec y Hs) as P. pose proof (prepEchoing_parsing y) as (Pp & _).
  destruct (prepEchoing y) as [z|z]; cbn [st_of] in *; [|exact P].
  destruct P as (P1 & P2). split; [exact P1|split].
  - intros E. congruence.
  - intros _. congruence.
Qed.

Lemma InvN_set_parsing_hdr x : InvN x -> InvN (with_parsing PsIcapHeader x).
Proof.
  intros ((Hb & Ha & H1 & H2) & N). split; [|exact N]. refine (conj Hb (conj Ha (conj H1 _))). unfold p2; cbn; discriminate.
Qed.

Lemma handle100_spec :
  spec InvN handle100Continue (fun y => InvN y /\ parsing (st y) = PsIcapHeader) InvW.
Proof.
  intros x H. unfold handle100Continue.
  unfold must at 1. destruct (is_writing WPaused x); [|apply H]. cbn [bind].
  unfold must at 1. destruct (pv_enabled x && pv_done x && negb (pv_ieof x)); [|apply H]. cbn [bind].
  set (r := if negb (allow204post (fl x)) then stopBackup x else Ok x).
  assert (Hr : InvN (st_of r)).
  { subst r. destruct (negb (allow204post (fl x))); [|exact H]. eapply fr_InvN; [apply stopBackup_fr|exact H]. }
  destruct r as [y|y]; cbn [bind st_of] in *; [|apply Hr].
  pose proof (InvN_set_parsing_hdr y Hr) as Hy.
  assert (Hy' : InvN (with_writing WPrime (with_parsing PsIcapHeader y))) by (eapply fr_InvN; [|exact Hy]; frsolve).
  pose proof (writeMore_fr (with_writing WPrime (with_parsing PsIcapHeader y))) as F.
  destruct (writeMore (with_writing WPrime (with_parsing PsIcapHeader y))) as [z|z]; cbn [st_of] in F.
  - split; [eapply fr_InvN; eauto|]. destruct F as (_ & _ & _ & _ & Fp & _). rewrite Fp. reflexivity.
  - apply (fr_InvN _ _ F Hy').
Qed.

Lemma handle200_spec :
  spec (fun x => InvN x /\ icap_h (io x) <> HNone) handle200Ok (fun y => InvN y /\ p4 y) InvW.
Proof.
  intros x (H & Hh). unfold handle200Ok.
  set (x' := with_sending SAdapted (with_parsing PsHttpHeader x)).
  assert (Hx' : InvN x' /\ icap_h (io x') <> HNone).
  { split; [|exact Hh]. destruct H as ((Hb & Ha & H1 & H2) & N). split; [|exact N].
    refine (conj Hb (conj Ha (conj _ _))); [unfold p1|unfold p2]; cbn; discriminate. }
  clearbody x'. destruct Hx' as (Hx' & Hh').
  pose proof (stopBackup_fr x') as F.
  destruct (stopBackup x') as [y|y]; cbn [bind st_of] in *; [|apply (fr_InvN _ _ F Hx')].
  pose proof (checkConsuming_fr y) as F2. pose proof (fr_trans _ _ _ F F2) as F3.
  split; [eapply fr_InvN; eauto|]. intros _. destruct F3 as (_ & _ & _ & _ & _ & _ & _ & _ & _ & Fh & _). congruence.
Qed.

Lemma handleUnknown_spec : spec InvW handleUnknownScode (fun _ => False) InvW.
Proof.
  intros x H. unfold handleUnknownScode.
  pose proof (stopParsing_InvW false x H) as Hs.
  destruct (stopParsing false x) as [y|y]; cbn [bind st_of] in *; [|exact Hs].
  destruct (can_bypass (fl y)); cbn [bind]; [exact Hs|].
  pose proof (stopBackup_fr y) as F. destruct (stopBackup y) as [z|z]; cbn [bind st_of] in *; eapply fr_InvW; eauto.
Qed.

Lemma validate200_hdr x : validate200Ok x = true -> icap_h (io x) <> HNone.
Proof. unfold validate200Ok. destruct (c_reqmod (cfg x)), (icap_h (io x)); congruence. Qed.

(* parseIcapHead: entered between calls with parsing = psIcapHeader *)
Lemma parseIcapHead_spec :
  spec (fun x => Inv x /\ parsing (st x) = PsIcapHeader) parseIcapHead Inv InvW.
Proof.
  intros x (HI & Hp). unfold parseIcapHead.
  assert (HN : InvN x).
  { destruct HI as (H & _ & H5). split; [exact H|]. intros E. apply H5 in E. congruence. }
  unfold must at 1. destruct (is_sending SUndecided x); [|apply HN]. cbn [bind].
  assert (Hnm : match need_more x with Ok y => Inv y | Throw y => InvW y end).
  { pose proof (need_more_same x) as E. destruct (need_more x); subst; [exact HI|apply HN]. }
  destruct (front (readbuf (io x))) as [| |t rest]; [exact Hnm|exact Hnm|].
  destruct t as [stc h b tr| | | | | |]; try apply HN.
  set (x' := with_icap_tr tr (with_icap_b b (with_icap_h h (with_readbuf rest x)))).
  assert (Hx' : InvN x' /\ parsing (st x') = PsIcapHeader /\ icap_h (io x') = h).
  { split; [|split; [exact Hp|reflexivity]]. destruct HN as ((Hb & Ha & H1 & H2) & N). split; [|exact N]. exact (conj Hb (conj Ha (conj H1 H2))). }
  clearbody x'. destruct Hx' as (Hx' & Hp' & Hh').
  cbv zeta.
  set (r := if icap_dispatch stc =? 1 then _ else _).
  assert (Hr : match r with Ok y => Inv y | Throw y => InvW y end).
  { subst r. destruct (icap_dispatch stc =? 1).
    { pose proof (handle100_spec x' Hx') as S. destruct (handle100Continue x'); [|exact S].
      destruct S as (S1 & S2). apply InvN_Inv; [exact S1|]. intros E. congruence. }
    destruct (icap_dispatch stc =? 2).
    { unfold must. destruct (validate200Ok x') eqn:Ev; [|apply Hx']. cbn [bind].
      pose proof (handle200_spec x' (conj Hx' (validate200_hdr _ Ev))) as S. destruct (handle200Ok x'); [|exact S].
      destruct S as (S1 & S2). apply InvN_Inv; assumption. }
    destruct (icap_dispatch stc =? 3); [apply handle204_spec, Hx'|].
    destruct (icap_dispatch stc =? 4); [apply Hx'|].
    pose proof (handleUnknown_spec x' (proj1 Hx')) as S. destruct (handleUnknownScode x'); [contradiction|exact S]. }
  destruct r as [y|y]; cbn [bind]; [|exact Hr].
  destruct (is_writing WPaused y); [|exact Hr].
  pose proof (stopWriting_fr true y) as F. destruct (stopWriting true y); cbn [st_of] in F;
    [eapply fr_Inv; eauto|eapply fr_InvW; [exact F|apply Hr]].
Qed.

(* functions that leave the head, the parsing stage and the reply's section list alone *)
Definition keeps (x y : xs) : Prop :=
  ad_header (ad y) = ad_header (ad x) /\ parsing (st y) = parsing (st x) /\ icap_h (io y) = icap_h (io x).
Lemma fr_keeps x y : fr x y -> keeps x y.
Proof. intros (Fa & _ & _ & _ & Fp & _ & _ & _ & _ & Fh & _). unfold keeps. rewrite Fa. auto. Qed.
Lemma keeps_trans x y z : keeps x y -> keeps y z -> keeps x z.
Proof. unfold keeps; intuition congruence. Qed.
Lemma keeps_Inv x y : keeps x y -> Inv x -> InvW y -> Inv y.
Proof. intros (K1 & K2 & K3) (_ & H4 & H5) Hw. split; [exact Hw|]. unfold p4, p5. rewrite K1, K2, K3. auto. Qed.

Lemma echoMore_keeps x : keeps x (st_of (echoMore x)).
Proof.
  unfold echoMore.
  unfold must at 1. destruct (is_sending SVirgin x); [|repeat split]. cbn [bind].
  unfold must at 1. destruct (ad_pipe (ad x)); [|repeat split]. cbn [bind].
  unfold must at 1. destruct (active (s_st (vs x))); [|repeat split]. cbn [bind].
  unfold must at 1. match goal with |- context[if ?b then Ok x else Throw x] => destruct b end; [|repeat split]. cbn [bind].
  set (r := if 0 <? vend x - s_off (vs x) then _ else Ok x).
  assert (Hr : keeps x (st_of r)).
  { subst r. destruct (0 <? vend x - s_off (vs x)); [|repeat split].
    eapply keeps_trans; [|apply fr_keeps, virginConsume_fr]. repeat split. }
  destruct r as [y|y]; cbn [bind st_of] in *; [|exact Hr].
  destruct (end_reached_s y); [|exact Hr].
  eapply keeps_trans; [exact Hr|]. pose proof (stopSending_facts true y) as (F1 & F2 & F3 & _). repeat split; assumption.
Qed.

Lemma startSending_keeps x : keeps x (st_of (startSending x)).
Proof.
  unfold startSending. cbv zeta.
  set (x' := disableBypass true (disableRepeats x)).
  assert (K : keeps x x') by (apply fr_keeps; frsolve). clearbody x'.
  destruct (ad_header (ad x')) as [s|]; [|exact K].
  assert (K2 : keeps x (sendAnswer (Fwd s) x')).
  { eapply keeps_trans; [exact K|]. unfold sendAnswer. destruct (initiator (job x')); repeat split. }
  destruct (is_sending SVirgin (sendAnswer (Fwd s) x')); [|exact K2].
  eapply keeps_trans; [exact K2|apply echoMore_keeps].
Qed.

Lemma parseHeaders_spec : spec Inv parseHeaders Inv InvW.
Proof.
  intros x HI. unfold parseHeaders.
  set (r1 := match parsing (st x) with PsIcapHeader => parseIcapHead x | _ => Ok x end).
  assert (H1 : match r1 with Ok y => Inv y | Throw y => InvW y end).
  { subst r1. destruct (parsing (st x)) eqn:E; try exact HI. apply parseIcapHead_spec. auto. }
  destruct r1 as [y|y]; cbn [bind]; [|exact H1].
  set (r2 := match parsing (st y) with PsHttpHeader => parseHttpHead y | _ => Ok y end).
  assert (H2 : match r2 with Ok z => Inv z | Throw z => InvW z end).
  { subst r2. destruct (parsing (st y)) eqn:E; try exact H1.
    pose proof (parseHttpHead_spec y (conj H1 E)) as S. destruct (parseHttpHead y); [|exact S].
    destruct S. apply InvN_Inv; assumption. }
  destruct r2 as [z|z]; cbn [bind]; [|exact H2].
  destruct (parsingHeaders z).
  - unfold must. destruct (negb (comm_eof (io z))); [exact H2|apply H2].
  - pose proof (startSending_spec z (Inv_InvW _ H2)) as S. pose proof (startSending_keeps z) as K.
    destruct (startSending z); cbn [st_of] in K; [|exact S]. eapply keeps_Inv; eauto.
Qed.

Lemma readMore_fr x : fr x (readMore x).
Proof. unfold readMore. brk; try apply fr_refl; frsolve. Qed.

(* parseBody appends adapted bytes only, and only to a message whose head came from the ICAP reply *)
Lemma parseBody_spec :
  spec (fun x => Inv x /\ parsing (st x) = PsBody) parseBody Inv InvW.
Proof.
  intros x (HI & Hp). unfold parseBody.
  assert (Hh : ad_header (ad x) = Some SrcAdapted) by (destruct HI as ((_ & _ & _ & H2) & _); apply H2, Hp).
  unfold must at 1. destruct (ad_pipe (ad x)); [|apply HI]. cbn [bind].
  destruct (parseChunks (readbuf (io x)) (ad_space x)) as [[d rb] s].
  destruct (s =? 3); [apply HI|]. cbv zeta.
  match goal with |- context[if 0 <? ad_buf (ad ?z) then _ else ?z] => set (x1 := z) end.
  assert (H1 : Inv x1 /\ parsing (st x1) = PsBody /\ ad_header (ad x1) = Some SrcAdapted).
  { split; [|split; [exact Hp|exact Hh]].
    destruct HI as ((Hb & Ha & H1 & H2) & H4 & H5). unfold body_ok in Hb. rewrite Hh in Hb. destruct Hb as (Hb1 & Hb2).
    split; [|split; [exact H4|exact H5]].
    refine (conj _ (conj Ha (conj H1 H2))). unfold body_ok. cbn. rewrite Hh. split; [rewrite Hb1; reflexivity|exact Hb2]. }
  clearbody x1.
  set (x2 := if 0 <? ad_buf (ad x1) then disableBypass true (disableRepeats x1) else x1).
  assert (H2 : Inv x2 /\ parsing (st x2) = PsBody /\ ad_header (ad x2) = Some SrcAdapted).
  { subst x2. destruct (0 <? ad_buf (ad x1)); [|exact H1]. destruct H1 as (A & B & C).
    split; [eapply fr_Inv; [|exact A]; frsolve|split; [exact B|exact C]]. }
  clearbody x2. destruct H2 as (H2 & H2p & H2h).
  destruct (s =? 1).
  - pose proof (stopSending_InvW true x2 (Inv_InvW _ H2)) as Hs. pose proof (stopSending_facts true x2) as (F1 & F2 & F3 & _).
    destruct (stopSending true x2) as [y|y]; cbn [bind st_of] in *; [|exact Hs].
    assert (HyN : InvN y) by (split; [exact Hs|unfold NoVirgin; congruence]).
    destruct (icap_tr (io y)).
    + apply InvN_Inv; [|unfold p4; cbn; discriminate].
      destruct HyN as ((Hb & Ha & H1' & H2') & N). split; [|exact N]. refine (conj Hb (conj Ha (conj H1' _))). unfold p2; cbn; discriminate.
    + pose proof (stopParsing_InvW true y Hs) as Hs2. pose proof (stopParsing_facts true y) as (Ga & _ & _ & _ & Gp).
      destruct (stopParsing true y) as [z|z]; cbn [st_of] in *; [|exact Hs2].
      apply InvN_Inv; [split; [exact Hs2|unfold NoVirgin; rewrite Ga; congruence]|]. unfold p4. rewrite Gp. discriminate.
  - unfold must. destruct (negb (comm_eof (io x2))); cbn [bind]; [|apply H2].
    eapply fr_Inv; [apply readMore_fr|exact H2].
Qed.

Lemma parseIcapTrailer_spec : spec Inv parseIcapTrailer Inv InvW.
Proof.
  intros x HI. unfold parseIcapTrailer.
  assert (Hnm : match need_more x with Ok y => Inv y | Throw y => InvW y end).
  { pose proof (need_more_same x) as E. destruct (need_more x); subst; [exact HI|apply HI]. }
  destruct (front (readbuf (io x))) as [| |t r]; [exact Hnm|exact Hnm|].
  destruct t; try apply HI.
  assert (H' : Inv (with_readbuf r x)).
  { destruct HI as ((Hb & Ha & H1 & H2) & H4 & H5). exact (conj (conj Hb (conj Ha (conj H1 H2))) (conj H4 H5)). }
  pose proof (stopParsing_InvW true _ (Inv_InvW _ H')) as Hs. pose proof (stopParsing_facts true (with_readbuf r x)) as (Ga & _ & _ & _ & Gp).
  destruct (stopParsing true (with_readbuf r x)) as [z|z]; cbn [st_of] in *; [|exact Hs].
  split; [exact Hs|split].
  - unfold p4. rewrite Gp. discriminate.
  - intros _. exact Gp.
Qed.

Lemma parseMore_spec : spec Inv parseMore Inv InvW.
Proof.
  intros x HI. unfold parseMore.
  set (r1 := if parsingHeaders x then parseHeaders x else Ok x).
  assert (H1 : match r1 with Ok y => Inv y | Throw y => InvW y end).
  { subst r1. destruct (parsingHeaders x); [apply parseHeaders_spec, HI|exact HI]. }
  destruct r1 as [y|y]; cbn [bind]; [|exact H1].
  set (r2 := match parsing (st y) with PsBody => parseBody y | _ => Ok y end).
  assert (H2 : match r2 with Ok z => Inv z | Throw z => InvW z end).
  { subst r2. destruct (parsing (st y)) eqn:E; try exact H1. apply parseBody_spec. auto. }
  destruct r2 as [z|z]; cbn [bind]; [|exact H2].
  destruct (parsing (st z)); try exact H2. apply parseIcapTrailer_spec, H2.
Qed.

Lemma handleCommRead_spec : spec Inv handleCommRead Inv InvW.
Proof.
  intros x HI. unfold handleCommRead. unfold must at 1. destruct (negb (doneParsing x)); cbn [bind]; [|apply HI].
  pose proof (parseMore_spec x HI) as S. destruct (parseMore x) as [y|y]; cbn [bind]; [|exact S].
  eapply fr_Inv; [apply readMore_fr|exact S].
Qed.

(* ------------------------------------------------------------------ the invariant depends on few fields *)
Definition same_core (x y : xs) : Prop :=
  ad_header (ad y) = ad_header (ad x) /\ ad_in (ad y) = ad_in (ad x) /\ o_body (out y) = o_body (out x) /\
  o_answer (out y) = o_answer (out x) /\ s_off (vs y) = s_off (vs x) /\ vp_data (vs y) = vp_data (vs x) /\
  parsing (st y) = parsing (st x) /\ sending (st y) = sending (st x) /\ icap_h (io y) = icap_h (io x).
Lemma InvW_ext x y : same_core x y -> InvW x -> InvW y.
Proof.
  unfold same_core, InvW, body_ok, answer_ok, p1, p2. intros (E1 & E2 & E3 & E4 & E5 & E6 & E7 & E8 & E9).
  rewrite E1, E2, E3, E4, E5, E6, E7, E8. auto.
Qed.
Lemma Inv_ext x y : same_core x y -> Inv x -> Inv y.
Proof.
  intros C (H & H4 & H5). split; [eapply InvW_ext; eauto|].
  destruct C as (E1 & _ & _ & _ & _ & _ & E7 & _ & E9). unfold p4, p5. rewrite E1, E7, E9. auto.
Qed.
Ltac core := unfold same_core; cbn; repeat split; reflexivity.

Lemma bypassFailure_spec : spec InvW bypassFailure Inv InvW.
Proof.
  intros x H. unfold bypassFailure. cbv zeta.
  assert (H0 : InvW (disableBypass false x)) by (eapply InvW_ext; [|exact H]; core).
  set (x0 := disableBypass false x) in *. clearbody x0.
  unfold must at 1. destruct (negb (retriable (fl x0))); cbn [bind]; [|exact H0].
  pose proof (prepEchoing_spec x0 H0) as P. destruct (prepEchoing x0) as [y|y]; cbn [bind]; [|exact P].
  destruct P as (Py & Pyh).
  pose proof (startSending_spec y Py) as S. pose proof (startSending_keeps y) as K.
  destruct (startSending y) as [z|z]; cbn [bind st_of] in *; [|exact S].
  pose proof (stopParsing_InvW false z S) as Q. pose proof (stopParsing_facts false z) as (Qa & _ & _ & _ & Qp).
  destruct (stopParsing false z) as [w|w]; cbn [bind st_of] in *; [|exact Q].
  pose proof (stopWriting_fr true w) as F.
  assert (Hw : Inv w).
  { split; [exact Q|split]; [unfold p4; rewrite Qp; discriminate|intros _; exact Qp]. }
  destruct (stopWriting true w) as [v|v]; cbn [bind st_of] in *; [|eapply fr_InvW; [exact F|exact Q]].
  assert (Hv : Inv v) by (eapply fr_Inv; eauto).
  destruct (conn (io v)); [|exact Hv]. eapply Inv_ext; [|exact Hv]. core.
Qed.

Lemma callException_spec x : InvW x -> InvW (callException x) /\ (stop_req (job (callException x)) = true \/ Inv (callException x)).
Proof.
  intros H. unfold callException.
  destruct (negb (can_bypass (fl x)) || retriable (fl x)).
  - split; [eapply InvW_ext; [|exact H]; core|left; reflexivity].
  - pose proof (bypassFailure_spec x H) as B. destruct (bypassFailure x) as [y|y].
    + split; [apply B|right; exact B].
    + split; [eapply InvW_ext; [|exact B]; core|left; reflexivity].
Qed.

Lemma swanSong_InvW x : InvW x -> InvW (swanSong x) /\ stopped (job (swanSong x)) = true.
Proof.
  intros H. unfold swanSong. cbv zeta.
  pose proof (stopWriting_fr false x) as F. set (x1 := st_of (stopWriting false x)) in *.
  assert (H1 : InvW x1) by (eapply fr_InvW; eauto). clearbody x1.
  pose proof (stopSending_InvW false x1 H1) as H2. set (x2 := st_of (stopSending false x1)) in *. clearbody x2.
  split; [|destruct (initiator _); reflexivity].
  set (x3 := with_readbuf [] (with_writer false (with_reader false (with_conn false x2)))).
  assert (H3 : InvW x3) by (eapply InvW_ext; [|exact H2]; core). clearbody x3.
  destruct (initiator (job x3)).
  - destruct H3 as (Hb & Ha & H1' & H2'). refine (conj Hb (conj _ (conj H1' H2'))).
    unfold answer_ok. cbn. intros s E. discriminate.
  - eapply InvW_ext; [|exact H3]. core.
Qed.

(* the invariant between asynchronous calls; a finished job keeps only the part about the delivered message *)
Definition B (x : xs) : Prop := InvW x /\ (stopped (job x) = true \/ (p4 x /\ p5 x)).
Lemma B_of_Inv x : Inv x -> B x.
Proof. intros (H & H45). split; [exact H|right; exact H45]. Qed.

Lemma finish_B x : InvW x -> (stop_req (job x) = true \/ Inv x) -> B (finish x).
Proof.
  intros H HS. unfold finish. cbv zeta.
  match goal with |- B (if _ then swanSong ?z else ?z) => set (x1 := z) end.
  assert (H1 : InvW x1 /\ (stop_req (job x1) = true \/ Inv x1)).
  { subst x1. match goal with |- context[if ?c then _ else _] => destruct c end; [|auto].
    split; [eapply InvW_ext; [|exact H]; core|]. destruct HS as [HS|HS]; [left; exact HS|right; eapply Inv_ext; [|exact HS]; core]. }
  clearbody x1. destruct H1 as (H1 & HS1).
  destruct (stop_req (job x1) || doneAll x1) eqn:E.
  - pose proof (swanSong_InvW x1 H1) as (S1 & S2). split; [exact S1|left; exact S2].
  - destruct HS1 as [HS1|HS1]; [rewrite HS1 in E; discriminate|apply B_of_Inv, HS1].
Qed.

(* ------------------------------------------------------------------ every asynchronous call *)
Lemma spec_of_frames f x : frames f -> Inv x -> match f x with Ok y => Inv y | Throw y => InvW y end.
Proof. intros Hf HI. specialize (Hf x). destruct (f x); cbn [st_of] in Hf; [eapply fr_Inv; eauto|eapply fr_InvW; [exact Hf|apply HI]]. Qed.

Lemma start_fr : frames start.
Proof. intros x. unfold start. cbv zeta. cbn [st_of]. unfold checkConsuming. brk; frsolve. Qed.
Lemma startShoveling_fr : frames startShoveling.
Proof.
  intros x. unfold startShoveling.
  pose proof (readMore_fr x) as F1. generalize dependent (readMore x). intros x1 F1. cbv zeta.
  set (x2 := if pv_enabled x1 && negb (vb_expected (cfg x1)) then with_pv_st PvIeof x1 else x1).
  assert (F2 : fr x1 x2) by (subst x2; destruct (pv_enabled x1 && negb (vb_expected (cfg x1))); [frsolve|apply fr_refl]).
  clearbody x2.
  set (x3 := with_allow204post (canBackupEverything x2) x2). assert (F3 : fr x2 x3) by frsolve. clearbody x3.
  eapply fr_trans; [exact F1|]. eapply fr_trans; [exact F2|]. eapply fr_trans; [exact F3|].
  frauto.
Qed.

Lemma vput_Inv bs x : Inv x -> Inv (vput bs x).
Proof.
  intros ((Hb & Ha & H1 & H2) & H4 & H5). unfold vput. cbv zeta.
  split; [|exact (conj H4 H5)]. refine (conj _ (conj Ha (conj H1 H2))).
  unfold body_ok in *. cbn. destruct (ad_header (ad x)) as [[|]|]; auto.
  destruct Hb as (Hb1 & Hb2 & Hb3). repeat split; auto.
  - rewrite takeN_app_le; assumption.
  - rewrite lenN_app. lia.
Qed.

Lemma noteVirgin_spec : spec Inv noteVirgin Inv InvW.
Proof.
  intros x HI. unfold noteVirgin.
  pose proof (spec_of_frames writeMore x writeMore_fr HI) as W. destruct (writeMore x) as [y|y]; cbn [bind]; [|exact W].
  destruct (is_sending SVirgin y); [|exact W].
  pose proof (echoMore_spec y (Inv_InvW _ W)) as E. pose proof (echoMore_keeps y) as K.
  destruct (echoMore y); cbn [st_of] in K; [eapply keeps_Inv; eauto|exact E].
Qed.

Lemma handler_spec e : spec Inv (handler e) Inv InvW.
Proof.
  intros x HI. destruct e; cbn [handler].
  - destruct (is_writing WInit x); [apply spec_of_frames; [apply start_fr|exact HI]|exact HI].
  - destruct (is_writing WConnect x && negb (conn (io x))); [|exact HI].
    apply spec_of_frames; [apply startShoveling_fr|]. eapply Inv_ext; [|exact HI]. core.
  - destruct (is_writing WConnect x && negb (conn (io x))); [apply HI|exact HI].
  - destruct (writer (io x)); [apply spec_of_frames; [apply noteCommWrote_fr|exact HI]|exact HI].
  - destruct (writer (io x)); [|exact HI]. cbv zeta.
    destruct (ignore_lw (io (with_writer false x))); [eapply Inv_ext; [|exact HI]; core|eapply InvW_ext; [|apply HI]; core].
  - destruct (vb_expected (cfg x) && producing x); [|exact HI]. cbv zeta.
    pose proof (vput_Inv bs x HI) as V. destruct (vp_attached (vs (vput bs x))); [apply noteVirgin_spec, V|exact V].
  - destruct (vb_expected (cfg x) && producing x); [|exact HI]. cbv zeta.
    assert (V : Inv (with_vp_prod Ended x)) by (eapply Inv_ext; [|exact HI]; core).
    destruct (vp_attached (vs (with_vp_prod Ended x))); [apply noteVirgin_spec, V|exact V].
  - destruct (vb_expected (cfg x) && producing x); [|exact HI]. cbv zeta.
    assert (V : Inv (with_vp_prod Aborted x)) by (eapply Inv_ext; [|exact HI]; core).
    destruct (vp_attached (vs (with_vp_prod Aborted x))); [apply noteVirgin_spec, V|exact V].
  - destruct (reader (io x)); [|exact HI]. apply handleCommRead_spec. eapply Inv_ext; [|exact HI]. core.
  - destruct (reader (io x)); [|exact HI]. apply handleCommRead_spec. eapply Inv_ext; [|exact HI]. core.
  - destruct (conn (io x)); [|exact HI]. eapply Inv_ext; [|exact HI]. core.
  - destruct (conn (io x) && (reader (io x) || writer (io x))); [|exact HI]. eapply InvW_ext; [|apply HI]. core.
  - destruct (ad_pipe (ad x)); [|exact HI]. cbv zeta.
    set (x' := with_ad_buf _ x). assert (H' : Inv x') by (eapply Inv_ext; [|exact HI]; core). clearbody x'.
    destruct (sending (st x')); [exact H'| | |apply H'].
    + pose proof (echoMore_spec x' (Inv_InvW _ H')) as E. pose proof (echoMore_keeps x') as K.
      destruct (echoMore x'); cbn [st_of] in K; [eapply keeps_Inv; eauto|exact E].
    + apply parseMore_spec, H'.
  - destruct (ad_pipe (ad x)); [|exact HI]. eapply Inv_ext; [|exact HI]. core.
  - destruct (initiator (job x)); [|exact HI]. eapply Inv_ext; [|exact HI]. core.
Qed.

Lemma init_B c : B (init c).
Proof.
  apply B_of_Inv. unfold Inv, InvW, body_ok, answer_ok, p1, p2, p4, p5. cbn.
  repeat split; try discriminate; try reflexivity.
Qed.

Lemma step_B x e : B x -> B (step x e).
Proof.
  intros (H & HS). unfold step. destruct (stopped (job x)) eqn:Es; [split; [exact H|left; exact Es]|].
  assert (HI : Inv x) by (destruct HS as [HS|HS]; [congruence|exact (conj H HS)]).
  pose proof (handler_spec e x HI) as S. destruct (handler e x) as [y|y].
  - apply finish_B; [apply S|right; exact S].
  - pose proof (callException_spec y S) as (C1 & C2). apply finish_B; assumption.
Qed.

Lemma run_B x evs : B x -> B (run x evs).
Proof. revert x; induction evs as [|e evs IH]; intros x H; cbn [run fold_left]; [exact H|]. apply IH, step_B, H. Qed.

(* ------------------------------------------------------------------ the theorems *)
Theorem no_mixture c evs :
  let x := run (init c) evs in
  match ad_header (ad x) with
  | None => o_body (out x) = []
  | Some SrcVirgin => o_body (out x) = takeN (s_off (vs x)) (vp_data (vs x)) /\ ad_in (ad x) = []
  | Some SrcAdapted => o_body (out x) = ad_in (ad x)
  end /\
  (forall s, o_answer (out x) = Some (Fwd s) -> ad_header (ad x) = Some s).
Proof.
  cbv zeta. pose proof (run_B (init c) evs (init_B c)) as ((Hb & Ha & _) & _). split; [|exact Ha].
  unfold body_ok in Hb. destruct (ad_header _) as [[|]|]; intuition.
Qed.

Theorem virgin_answer_pure c evs :
  let x := run (init c) evs in
  o_answer (out x) = Some (Fwd SrcVirgin) ->
  ad_in (ad x) = [] /\ o_body (out x) = takeN (s_off (vs x)) (vp_data (vs x)).
Proof.
  cbv zeta. intros E. pose proof (no_mixture c evs) as (Hb & Ha). cbv zeta in *. apply Ha in E. rewrite E in Hb. intuition.
Qed.

Theorem adapted_answer_pure c evs :
  let x := run (init c) evs in
  o_answer (out x) = Some (Fwd SrcAdapted) ->
  o_body (out x) = ad_in (ad x) /\ s_off (vs x) = 0.
Proof.
  cbv zeta. intros E. pose proof (run_B (init c) evs (init_B c)) as ((Hb & Ha & _) & _).
  apply Ha in E. unfold body_ok in Hb. rewrite E in Hb. exact Hb.
Qed.

(* what reaches the HTTP side (Iterator + ClientHttpRequest / Client) *)
Theorem deliver_trichotomy c evs :
  let x := run (init c) evs in
  match deliver x with
  | DMessage SrcVirgin _ body _ => body = takeN (s_off (vs x)) (vp_data (vs x)) /\ ad_in (ad x) = []
  | DMessage SrcAdapted _ body _ => body = ad_in (ad x) /\ s_off (vs x) = 0
  | DVirginUntouched =>
    c_reqmod (cfg x) = true /\ c_bypass (cfg x) = true /\ (vb_expected (cfg x) = false \/ vp_consumed (vs x) = 0) /\
    (forall s, o_answer (out x) <> Some (Fwd s))
  | DError => forall s, o_answer (out x) <> Some (Fwd s)
  end.
Proof.
  cbv zeta. set (x := run (init c) evs).
  pose proof (virgin_answer_pure c evs) as HV. pose proof (adapted_answer_pure c evs) as HA. cbv zeta in HV, HA. fold x in HV, HA.
  unfold deliver. destruct (o_answer (out x)) as [[[|]|]|] eqn:E.
  - destruct (HV eq_refl). split; auto.
  - apply HA; reflexivity.
  - destruct (c_reqmod (cfg x)); [|intros s; discriminate].
    destruct (c_bypass (cfg x)); cbn [andb]; [|intros s; discriminate].
    destruct (vb_expected (cfg x)); cbn [negb orb andb].
    + destruct (N.eqb_spec (vp_consumed (vs x)) 0) as [Z|Z]; cbn [andb negb].
      * rewrite Z. cbn. repeat split; auto; intros s; discriminate.
      * intros s; discriminate.
    + repeat split; auto; intros s; discriminate.
  - destruct (c_reqmod (cfg x)); [|intros s; discriminate].
    destruct (c_bypass (cfg x)); cbn [andb]; [|intros s; discriminate].
    destruct (vb_expected (cfg x)); cbn [negb orb andb].
    + destruct (N.eqb_spec (vp_consumed (vs x)) 0) as [Z|Z]; cbn [andb negb].
      * rewrite Z. cbn. repeat split; auto; intros s; discriminate.
      * intros s; discriminate.
    + repeat split; auto; intros s; discriminate.
Qed.

(* ------------------------------------------------------------------ the bypass clause *)
Definition cfg_demo (bp : bool) : cfg_t := mk_cfg bp false (Some 4) true true 10.
Definition vbody_demo : bytes := [1;2;3;4;5;6;7;8;9;10].
(* preview written, then the server's decisive reply *)
Definition evs_demo (reply : list event) : list event :=
  [EvStart; EvVData vbody_demo; EvVEnd; EvConnected; EvWrote; EvWrote] ++ reply.

(* refuted: bypass=1, the ICAP server answers 200 and closes inside the encapsulated HTTP head: no adapted head was
   ever completed or forwarded, no adapted byte accepted, and the client gets an error *)
Lemma bypass_refuted :
  exists c evs, c_bypass c = true /\
    let x := run (init c) evs in
    o_body (out x) = [] /\ ad_in (ad x) = [] /\ stopped (job x) = true /\
    o_answer (out x) = Some AnsError /\ deliver x = DError.
Proof.
  exists (cfg_demo true), (evs_demo [EvRead [TIcapHead 200 HRes true false; TPartial]; EvEof]).
  split; [reflexivity|]. vm_compute. repeat split.
Qed.

(* an ICAP error status inside the preview is bypassed (as repaired by /repo 0ccad7c; former finding) *)
Lemma bypass_status_example :
  let x := run (init (cfg_demo true)) (evs_demo [EvRead [TIcapHead 500 HNone false false]]) in
  deliver x = DMessage SrcVirgin true vbody_demo true.
Proof. vm_compute. reflexivity. Qed.
Lemma nobypass_status_example :
  let x := run (init (cfg_demo false)) (evs_demo [EvRead [TIcapHead 500 HNone false false]]) in deliver x = DError.
Proof. vm_compute. reflexivity. Qed.

(* the same failure as a closed connection IS bypassed, and without bypass it is an error *)
Lemma bypass_close_example :
  let x := run (init (cfg_demo true)) (evs_demo [EvEof]) in
  deliver x = DMessage SrcVirgin true vbody_demo true.
Proof. vm_compute. reflexivity. Qed.
Lemma nobypass_close_example :
  let x := run (init (cfg_demo false)) (evs_demo [EvEof]) in deliver x = DError.
Proof. vm_compute. reflexivity. Qed.
Lemma adapted_example :
  let x := run (init (cfg_demo false))
               (evs_demo [EvRead [TIcapHead 200 HRes true false; THttpHead; TChunk [65;66]]; EvRead [TChunk [67]; TLast]]) in
  deliver x = DMessage SrcAdapted true [65;66;67] true.
Proof. vm_compute. reflexivity. Qed.
Lemma preview204_example :
  let x := run (init (cfg_demo false)) (evs_demo [EvRead [TIcapHead 204 HNone false false]]) in
  deliver x = DMessage SrcVirgin true vbody_demo true.
Proof. vm_compute. reflexivity. Qed.

(* ------------------------------------------------------------------ bypass, the provable part *)
Definition akeep (x y : xs) : Prop := o_answer (out y) = o_answer (out x) /\ initiator (job y) = initiator (job x).
Lemma fr_akeep x y : fr x y -> akeep x y.
Proof. intros (_ & Fo & Fj & _). unfold akeep. rewrite Fo, Fj. auto. Qed.
Lemma akeep_trans x y z : akeep x y -> akeep y z -> akeep x z.
Proof. unfold akeep; intuition congruence. Qed.
Lemma stopSending_akeep n x : akeep x (st_of (stopSending n x)).
Proof. unfold stopSending, checkConsuming, must, bind, akeep. brk; cbn; auto. Qed.
Lemma echoMore_akeep x : akeep x (st_of (echoMore x)).
Proof.
  unfold echoMore.
  unfold must at 1. destruct (is_sending SVirgin x); [|split; reflexivity]. cbn [bind].
  unfold must at 1. destruct (ad_pipe (ad x)); [|split; reflexivity]. cbn [bind].
  unfold must at 1. destruct (active (s_st (vs x))); [|split; reflexivity]. cbn [bind].
  unfold must at 1. match goal with |- context[if ?b then Ok x else Throw x] => destruct b end; [|split; reflexivity]. cbn [bind].
  set (r := if 0 <? vend x - s_off (vs x) then _ else Ok x).
  assert (Hr : akeep x (st_of r)).
  { subst r. destruct (0 <? vend x - s_off (vs x)); [|split; reflexivity].
    eapply akeep_trans; [|apply fr_akeep, virginConsume_fr]. split; reflexivity. }
  destruct r as [y|y]; cbn [bind st_of] in *; [|exact Hr].
  destruct (end_reached_s y); [|exact Hr].
  eapply akeep_trans; [exact Hr|apply stopSending_akeep].
Qed.

Lemma makeAdaptedBodyPipe_ok z :
  ad_pipe (ad z) = false -> o_end (out z) = None -> makeAdaptedBodyPipe z = Ok (with_ad_pipe true z).
Proof. intros A B. unfold makeAdaptedBodyPipe, must, bind. rewrite A, B. reflexivity. Qed.

Lemma prepEchoing_ok x :
  ad_header (ad x) = None -> ad_pipe (ad x) = false ->
  (vb_expected (cfg x) = true ->
     (active (s_st (vs x)) = true \/ (is_disabled (s_st (vs x)) = false /\ s_off (vs x) = 0)) /\ o_end (out x) = None) ->
  exists y, prepEchoing x = Ok y /\ akeep x y /\ ad_header (ad y) = Some SrcVirgin.
Proof.
  intros Hh Hp Hb. unfold prepEchoing. cbv zeta.
  set (x1 := disableBypass true (disableRepeats x)).
  assert (E1 : ad_header (ad x1) = None) by exact Hh.
  unfold must at 1. rewrite E1. cbn [bind].
  set (x2 := with_ad_isreply _ (with_ad_header (Some SrcVirgin) x1)).
  assert (K2 : akeep x x2) by (split; reflexivity).
  assert (P2 : ad_pipe (ad x2) = false) by exact Hp.
  assert (H2 : ad_header (ad x2) = Some SrcVirgin) by reflexivity.
  change (vb_expected (cfg x2)) with (vb_expected (cfg x)).
  destruct (vb_expected (cfg x)) eqn:Ev.
  - destruct (Hb eq_refl) as (Hs & He).
    assert (E2 : o_end (out x2) = None) by exact He.
    set (r := if active (s_st (vs x2)) then Ok x2 else _).
    assert (Hr : exists x3, r = Ok x3 /\ akeep x x3 /\ ad_pipe (ad x3) = false /\ o_end (out x3) = None /\ ad_header (ad x3) = Some SrcVirgin).
    { subst r. change (s_st (vs x2)) with (s_st (vs x)). change (s_off (vs x2)) with (s_off (vs x)).
      destruct (active (s_st (vs x))) eqn:Ea; [exists x2; auto|].
      destruct Hs as [Hs|(Hs1 & Hs2)]; [congruence|]. rewrite Hs1, Hs2. cbn [negb andb N.eqb must bind].
      eexists; split; [reflexivity|]. repeat split; auto. }
    destruct Hr as (x3 & -> & K3 & P3 & E3 & H3). cbn [bind].
    set (z := checkConsuming (with_sending SVirgin x3)).
    pose proof (checkConsuming_fr (with_sending SVirgin x3)) as F. fold z in F.
    destruct F as (Fa & Fo & Fj & _).
    rewrite (makeAdaptedBodyPipe_ok z); [|rewrite Fa; exact P3|rewrite Fo; exact E3]. cbn [bind].
    assert (Kz : akeep x z) by (unfold akeep in *; rewrite Fo, Fj; exact K3).
    assert (Hz : ad_header (ad z) = Some SrcVirgin) by (rewrite Fa; exact H3).
    destruct (vb_known (cfg (with_ad_pipe true z))); eexists; (split; [reflexivity|split; [exact Kz|exact Hz]]).
  - pose proof (stopSending_akeep true x2) as KS. pose proof (stopSending_facts true x2) as (FH & _).
    assert (OK : exists y, stopSending true x2 = Ok y).
    { unfold stopSending. destruct (sending (st x2)); try (eexists; reflexivity).
      unfold must, bind. rewrite P2. cbn [negb]. eexists; reflexivity. }
    destruct OK as (y & Ey). rewrite Ey in *. cbn [st_of] in *. exists y. split; [reflexivity|split].
    + eapply akeep_trans; [exact K2|exact KS].
    + rewrite FH. exact H2.
Qed.

(* With bypass enabled, an exception thrown while the virgin body backup is still usable and no adapted head exists
   makes the transaction forward the virgin message. *)
Theorem bypass_partial x :
  can_bypass (fl x) = true -> retriable (fl x) = false ->
  ad_header (ad x) = None -> ad_pipe (ad x) = false -> initiator (job x) = true ->
  (vb_expected (cfg x) = true ->
     (active (s_st (vs x)) = true \/ (is_disabled (s_st (vs x)) = false /\ s_off (vs x) = 0)) /\ o_end (out x) = None) ->
  o_answer (out (callException x)) = Some (Fwd SrcVirgin).
Proof.
  intros Hc Hr Hh Hp Hi Hb. unfold callException. rewrite Hc, Hr. cbn [negb orb].
  unfold bypassFailure. cbv zeta.
  set (x0 := disableBypass false x).
  assert (E0 : retriable (fl x0) = false) by exact Hr.
  unfold must at 1. rewrite E0. cbn [negb bind].
  destruct (prepEchoing_ok x0) as (y & Ey & Ky & Hyh); [exact Hh|exact Hp|exact Hb|].
  rewrite Ey. cbn [bind].
  assert (Hyi : initiator (job y) = true) by (destruct Ky as (_ & Ki); rewrite Ki; exact Hi).
  (* startSending sends the answer, the rest keeps it *)
  unfold startSending at 1. cbv zeta.
  change (ad_header (ad (disableBypass true (disableRepeats y)))) with (ad_header (ad y)). rewrite Hyh.
  unfold sendAnswer. change (initiator (job (disableBypass true (disableRepeats y)))) with (initiator (job y)). rewrite Hyi.
  set (z := with_initiator false (with_o_answer (Some (Fwd SrcVirgin)) (disableBypass true (disableRepeats y)))).
  assert (Hz : o_answer (out z) = Some (Fwd SrcVirgin)) by reflexivity.
  set (r := if is_sending SVirgin z then echoMore z else Ok z).
  assert (Hrr : o_answer (out (st_of r)) = Some (Fwd SrcVirgin)).
  { subst r. destruct (is_sending SVirgin z); [|exact Hz]. destruct (echoMore_akeep z) as (A & _). rewrite A. exact Hz. }
  clearbody r. destruct r as [w|w]; cbn [bind st_of] in *; [|exact Hrr].
  pose proof (stopParsing_facts false w) as (_ & So & _).
  destruct (stopParsing false w) as [v|v]; cbn [bind st_of] in *; [|cbn; rewrite So; exact Hrr].
  pose proof (stopWriting_fr true v) as (_ & Fo & _).
  destruct (stopWriting true v) as [u|u]; cbn [bind st_of] in *.
  - destruct (conn (io u)); cbn; rewrite Fo, So; exact Hrr.
  - cbn. rewrite Fo, So. exact Hrr.
Qed.
