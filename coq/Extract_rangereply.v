(* Extract_rangereply.v — extraction of the Range reply model (C15) (ExtrOcamlBasic only). *)
Require Import ExtrOcamlBasic.
Require Import SquidV.Bytes SquidV.RangeModel SquidV.RangereplyModel.
Extraction "m_rangereply.ml" reply_run range_run is_complex lowest_offset first_offset offset_limit_exceeded
  cont_range_value if_range_tag_match.
