// Harness: EventScheduler (src/event.cc) + the dispatch step of EventLoop (AsyncCallQueue::fire)
// from /repo's working tree.
// stdin : "ev.run <t0> <op> <op> ..."   (times are integers in ticks of 1/1024 s, exactly representable)
//   s:<f>:<a>:<w>:<wt>:<cb>  schedule(name(id), F<f>, arg<a> (0 = nullptr), when = w/1024 s, weight, cbdata)
//   c:<f>:<a>                cancel(F<f>, arg<a>)
//   t:<T>                    current_dtime = T/1024
//   k                        checkEvents(0)          (events -> AsyncCalls)
//   d                        AsyncCallQueue::fire()  (AsyncCalls -> handlers), as EventLoop::dispatchCalls()
//   r                        timeRemaining()
//   i:<a>                    arg<a> stops being valid cbdata
//   f:<f>:<a>                find(F<f>, arg<a>)
//   l                        EventLoop::runOnce() with the scheduler as secondary engine and an idle primary
//                            engine; prints return value / loop_delay : handlers run
// stdout: one token per op, each followed by the ids still queued, e.g. "s0[0] k=0:0[] d=1.2[]"
#include "squid.h"
#include <map>
#include <set>
#include <sstream>
#include <vector>
#include <string>
#include <iostream>
#define private public
#include "event.h"
#include "EventLoop.h"
#undef private
#include "base/AsyncCallQueue.h"
#include "cbdata.h"
#include "time/gadgets.h"
#include "hcommon.h"
#include <map>
#include <set>
#include <cstring>
#include <stdexcept>

// ---- controlled replacements for tests/stub_cbdata.cc and tests/stub_tools.cc (only what event.cc uses)
static char argCells[64];                 // arg<k> = &argCells[k], k >= 1
static std::set<const void *> invalidArgs;
static std::map<const void *, long> lockCount;
static bool badLocks = false;
static int traps = 0;
void *cbdataInternalAlloc(cbdata_type) { return nullptr; }
void *cbdataInternalFree(void *) { return nullptr; }
void cbdataInternalLock(const void *p) { if (p) ++lockCount[p]; }
void cbdataInternalUnlock(const void *p) { if (p) { if (--lockCount[p] < 0) badLocks = true; } }
int cbdataInternalReferenceDoneValid(void **pp, void **tp)
{
    void *p = *pp; *pp = nullptr;
    if (p) cbdataInternalUnlock(p);
    const bool v = p && !invalidArgs.count(p);
    *tp = v ? p : nullptr;
    return v;
}
int cbdataReferenceValid(const void *p) { return !p || !invalidArgs.count(p); }
cbdata_type cbdataInternalAddType(cbdata_type t, const char *, int) { return t; }
void debug_trap(const char *) { ++traps; }
void fatal(const char *m) { throw std::runtime_error(std::string("fatal: ") + m); }
void fatal_dump(const char *m) { throw std::runtime_error(std::string("fatal_dump: ") + m); }
class IdleEngine: public AsyncEngine { public: int checkEvents(int) override { return EVENT_IDLE; } };

// ---- handlers
static std::ostringstream *firedLog = nullptr;
static bool firstFired = true;
template <int F> static void Handler(void *arg)
{
    const long a = arg ? static_cast<char *>(arg) - argCells : 0;
    if (firedLog) { *firedLog << (firstFired ? "" : ",") << F << "." << a; firstFired = false; }
}
static EVH *const Funcs[] = { Handler<0>, Handler<1>, Handler<2>, Handler<3>, Handler<4>, Handler<5>, Handler<6>, Handler<7> };
static EVH *func(const std::string &s) { return Funcs[std::stoul(s) % 8]; }
static void *argp(const std::string &s) { unsigned long k = std::stoul(s) % 64; return k ? &argCells[k] : nullptr; }

static char names[4096][8];
static std::vector<std::string> splitc(const std::string &s)
{
    std::vector<std::string> v; std::string cur;
    for (char c : s) { if (c == ':') { v.push_back(cur); cur.clear(); } else cur.push_back(c); }
    v.push_back(cur); return v;
}
static std::vector<long> queueIds(EventScheduler &es)
{
    std::vector<long> v;
    for (ev_entry *e = es.tasks; e; e = e->next) v.push_back(std::atol(e->name + 1));
    return v;
}
static void dumpQueue(std::ostream &o, EventScheduler &es)
{
    o << "[";
    bool first = true;
    double prev = 0;
    bool sorted = true;
    for (ev_entry *e = es.tasks; e; e = e->next) {
        o << (first ? "" : ",") << std::atol(e->name + 1);
        if (!first && e->when < prev) sorted = false;
        prev = e->when; first = false;
    }
    o << "]";
    if (!sorted) o << "BAD-UNSORTED";
}

int main()
{
    for (int i = 0; i < 4096; ++i) snprintf(names[i], sizeof(names[i]), "e%d", i);
    std::string line;
    while (std::getline(std::cin, line)) {
        auto a = splitws(line);
        if (a.empty()) { std::cout << "\n"; continue; }
        std::ostringstream o;
        try {
            if (a[0] != "ev.run") { std::cout << "ERR unknown-entry " << a[0] << "\n" << std::flush; continue; }
            invalidArgs.clear(); lockCount.clear(); badLocks = false; traps = 0;
            current_dtime = static_cast<double>(std::stoll(a[1])) / 1024.0;
            {
                EventScheduler es;
                long nextId = 0;
                for (size_t k = 2; k < a.size(); ++k) {
                    auto f = splitc(a[k]);
                    const std::string &op = f[0];
                    if (k > 2) o << " ";
                    if (op == "s") {
                        const long id = nextId++;
                        es.schedule(names[id % 4096], func(f[1]), argp(f[2]), static_cast<double>(std::stoll(f[3])) / 1024.0,
                                    std::stoi(f[4]), f[5] == "1");
                        o << "s" << id;
                    } else if (op == "c") {
                        const int before = traps;
                        es.cancel(func(f[1]), argp(f[2]));
                        o << (traps != before ? "cT" : "c");
                    } else if (op == "t") {
                        current_dtime = static_cast<double>(std::stoll(f[1])) / 1024.0;
                        o << "t";
                    } else if (op == "k") {
                        auto before = queueIds(es);
                        const int r = es.checkEvents(0);
                        auto after = queueIds(es);
                        o << "k=" << r << ":";
                        // the dequeued events must be a prefix of the queue
                        const size_t n = before.size() - after.size();
                        bool prefix = before.size() >= after.size();
                        for (size_t j = 0; prefix && j < after.size(); ++j) if (before[n + j] != after[j]) prefix = false;
                        if (!prefix) o << "BAD-NOT-A-PREFIX";
                        else for (size_t j = 0; j < n; ++j) o << (j ? "," : "") << before[j];
                    } else if (op == "d") {
                        std::ostringstream log; firedLog = &log; firstFired = true;
                        AsyncCallQueue::Instance().fire();
                        firedLog = nullptr;
                        o << "d=" << log.str();
                    } else if (op == "l") {
                        std::ostringstream log; firedLog = &log; firstFired = true;
                        IdleEngine idle;
                        EventLoop loop;
                        loop.registerEngine(&es);
                        loop.registerEngine(&idle);
                        const bool r = loop.runOnce();
                        firedLog = nullptr;
                        o << "l=" << (r ? 1 : 0) << "/" << loop.loop_delay << ":" << log.str();
                    } else if (op == "r") {
                        o << "r=" << es.timeRemaining();
                    } else if (op == "i") {
                        if (void *p = argp(f[1])) invalidArgs.insert(p);
                        o << "i";
                    } else if (op == "f") {
                        o << "f=" << (es.find(func(f[1]), argp(f[2])) ? 1 : 0);
                    } else o << "ERR-op";
                    dumpQueue(o, es);
                }
                // drain: nothing may stay behind for the next case
                firedLog = nullptr;
                AsyncCallQueue::Instance().fire();
            }
            for (auto &kv : lockCount) if (kv.second != 0) badLocks = true;
            if (badLocks) o << " BAD-CBDATA-LOCKS";
        } catch (const std::exception &e) { o << " EXC " << e.what(); }
        catch (...) { o << " EXC"; }
        std::cout << o.str() << "\n" << std::flush;
    }
    return 0;
}
