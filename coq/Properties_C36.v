(* Properties_C36.v — C36: base64 coding round-trips and decodes Basic credentials safely.
   Statements only; proofs live in B64Proofs.v.  Model: B64Model.v (lib/base64.cc,
   src/auth/basic/Config.cc); tables: gen/Base64_gen.v (regenerated from the code on every run). *)
Require Import SquidV.Bytes SquidV.B64Model SquidV.B64Proofs.
Require Import SquidV.gen.Base64_gen.
Local Open Scope N_scope.

(* --- "Decoding the base64 encoding of any byte string returns it exactly" --- *)
Theorem C36_decode_encode_roundtrip : forall x, all_bytes_ok x ->
  b64_decode (b64_encode x) = Some x.
Proof. exact decode_encode_roundtrip. Qed.

Theorem C36_decode_encode_raw_roundtrip : forall x, all_bytes_ok x ->
  b64_decode (encode_raw x) = Some x.
Proof. exact decode_encode_raw_roundtrip. Qed.

(* the encoder output is the RFC 4648 encoding however the input is cut into update() calls *)
Theorem C36_encode_is_rfc4648_any_segmentation : forall chunks, all_bytes_ok (concat chunks) ->
  encode_chunks ectx_init chunks = enc_spec (concat chunks).
Proof. exact encode_chunks_spec. Qed.

Theorem C36_encode_raw_is_rfc4648 : forall x, all_bytes_ok x -> encode_raw x = enc_spec x.
Proof. exact encode_raw_spec. Qed.

Theorem C36_encode_update_within_promised_length : forall ctx src, evalid ctx -> all_bytes_ok src ->
  lenN (fst (encode_update ctx src)) <= BASE64_ENCODE_LENGTH (lenN src).
Proof. exact encode_update_length. Qed.

(* --- "without writing beyond the output size the API promises" --- *)
Theorem C36_decode_update_write_bound : forall ctx src, dvalid ctx ->
  let '(ctx', u) := decode_update ctx src in
  dvalid ctx' /\ (forall w, u <> UAbort w) /\ lenN (uwritten u) <= BASE64_DECODE_LENGTH (lenN src).
Proof. exact decode_update_bounded. Qed.

Example C36_dvalid_init : dvalid dctx_init.
Proof. exact dvalid_init. Qed.
Example C36_roundtrip_example : b64_decode (b64_encode [65; 108; 97; 100; 0; 255; 58]) = Some [65; 108; 97; 100; 0; 255; 58].
Proof. vm_compute. reflexivity. Qed.
Example C36_bytes_ok_example : all_bytes_ok [65; 108; 97; 100; 0; 255; 58].
Proof. vm_compute. reflexivity. Qed.

Print Assumptions C36_decode_encode_roundtrip.
Print Assumptions C36_decode_encode_raw_roundtrip.
Print Assumptions C36_encode_is_rfc4648_any_segmentation.
Print Assumptions C36_encode_raw_is_rfc4648.
Print Assumptions C36_encode_update_within_promised_length.
Print Assumptions C36_decode_update_write_bound.
