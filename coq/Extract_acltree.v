(* Extract_acltree.v — extraction of the ACL checklist model (C44) to OCaml.
   Only ExtrOcamlBasic is used; N, Z, positive and nat stay extracted Coq datatypes. *)
Require Import ExtrOcamlBasic.
Require Import SquidV.Bytes SquidV.AcltreeModel.
Extraction "m_acltree.ml" run_check final_answer action mkScript mkTree.
