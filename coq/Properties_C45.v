(* Properties_C45.v — C45: http_access decisions are enforced end to end.  Statements only. *)
Require Import SquidV.Bytes SquidV.AccessModel SquidV.AccessProofs.
Local Open Scope N_scope.

Theorem C45_method_prefix_witness_run :
  access_run wit_cfg (mkEnv [] []) [wit_req b_GE; wit_req b_GET] = Some [OForward; ODeny403].
Proof. exact wit_run. Qed.
Print Assumptions C45_method_prefix_witness_run.
