(* PagestackModel.v — src/ipc/mem/PageStack.{h,cc}: Ipc::Mem::PageStack and its
   lock-free "tree of counters" Ipc::Mem::IdSet.

   Executable definitions only. Shared state = the atomic `size_` and the atomic
   words of `ids_.nodes_` (the perfect binary tree flattened into an array:
   inner node = (left,right) available-ID counters packed into one 64-bit word,
   leaf = 64-bit set of available IDs). Every process (any number of them) is a
   program counter, the list of page numbers it holds, and the script of calls
   it still wants to make. ONE transition per atomic operation (std::atomic
   default = sequentially consistent): load, compare_exchange_weak (a failed CAS
   reloads `oldValue`; spurious failures are not modelled: they are
   indistinguishable from a schedule in which the operation is retried),
   fetch_add, fetch_or, ++size_, --size_. The assert()s of the file are active in
   this build and are modelled: a failed assert() ends the process in [Crashed].

   Machine integers. Node words are uint64_t, counters/IDs/`size_` are uint32_t:
   every arithmetic result that the code truncates is truncated here
   (mod 2^64 / mod 2^32); the proofs show that no wrap ever happens for
   capacities that fit the tree.

   Clients. A process follows the documented protocol: it push()es only page
   numbers that it holds (obtained from pop(), or handed to it at start when the
   stack is created empty). Between two calls a process makes a "between calls"
   step ([Ready]): it picks its next script operation (a push with nothing held
   is skipped) and makes the call up to the first atomic operation. *)
Require Import SquidV.Bytes.
Local Open Scope N_scope.

Definition BitsPerLeaf : N := 64.
Definition two32 : N := 4294967296.
Definition two64 : N := 18446744073709551616.
Definition ones64 : N := 18446744073709551615.   (* std::numeric_limits<Node>::max() *)

(* ---------- IdSetPosition / navigation ---------- *)
Record pos := mkPos { level : N; offset : N }.
Inductive dir := DLeft | DRight.                 (* dirNone / dirEnd are control flow below *)

Definition root : pos := mkPos 0 0.
Definition at_root (p : pos) : bool := (level p =? 0) && (offset p =? 0).
(* ascendDirection(): (offset % 2 == 0) ? dirLeft : dirRight *)
Definition ascend_direction (p : pos) : dir := if offset p mod 2 =? 0 then DLeft else DRight.
(* ascend(): --level; offset /= 2   (its assert(level > 0) is checked by the callers below) *)
Definition ascend (p : pos) : pos := mkPos (level p - 1) (offset p / 2).
Definition dbit (d : dir) : N := match d with DLeft => 0 | DRight => 1 end.
(* descend(): ++level; offset *= 2; if (dirRight) ++offset *)
Definition descend (p : pos) (d : dir) : pos := mkPos (level p + 1) (offset p * 2 + dbit d).

(* ---------- IdSetMeasurements ---------- *)
Record cfg := mkCfg {
  cap : N;    (* capacity *)
  ilc : N     (* innerLevelCount = treeHeight - 1 = level of the leaves *)
}.
Definition tree_height (c : cfg) : N := ilc c + 1.
Definition leaf_count (c : cfg) : N := 2 ^ ilc c.
Definition node_count (c : cfg) : N := leaf_count c * 2 - 1.
(* requestedLeafNodeCount = (capacity + (BitsPerLeaf-1))/BitsPerLeaf, in uint32_t arithmetic *)
Definition requested_leaves (capacity : N) : N := ((capacity + (BitsPerLeaf - 1)) mod two32) / BitsPerLeaf.

(* treeHeight = 2; leafNodeCount = 2; while (leafNodeCount < requested) { leafNodeCount *= 2; ++treeHeight; } *)
Fixpoint grow (fuel : nat) (leafNodeCount treeHeight requested : N) : N :=
  match fuel with
  | O => treeHeight
  | S f => if leafNodeCount <? requested then grow f (leafNodeCount * 2) (treeHeight + 1) requested else treeHeight
  end.
Definition measure (capacity : N) : cfg :=
  mkCfg capacity (grow 32 2 2 (requested_leaves capacity) - 1).

(* ---------- nodeAt(): index into nodes_, with its three assert()s ---------- *)
Definition nodes_before (p : pos) : N := (2 ^ level p - 1) + offset p.
Definition node_ok (c : cfg) (p : pos) : bool :=
  (level p <? tree_height c) &&
  ((offset p <? (2 ^ level p - 1) * 2) || (at_root p && (2 ^ level p - 1 =? 0))) &&
  (nodes_before p <? node_count c).

(* ---------- IdSetInnerNode ---------- *)
Definition pack (l r : N) : N := l * two32 + r.            (* (Packed(left) << 32) | right *)
Definition unpack_left (w : N) : N := w / two32.           (* packed >> 32 *)
Definition unpack_right (w : N) : N := w mod two32.        (* static_cast<uint32_t>(packed) *)

(* the body of innerPop()'s loop: the direction and the new packed value, or None for dirEnd *)
Definition inner_pop_choice (old : N) : option (dir * N) :=
  let l := unpack_left old in
  let r := unpack_right old in
  if 0 <? l then Some (DLeft, pack (l - 1) r)
  else if 0 <? r then Some (DRight, pack l (r - 1))
  else None.

(* innerPush(): IdSetInnerNode(dir == dirLeft, dir == dirRight).pack() *)
Definition push_increment (d : dir) : N := match d with DLeft => pack 1 0 | DRight => pack 0 1 end.

(* trailingZeros(): if (!x) return 64; for (mask = 1; !(x & mask); mask <<= 1) ++count;
   `x & (1 << count)` is non-zero iff bit `count` of x is set *)
Fixpoint tz_loop (fuel : nat) (x count : N) : N :=
  match fuel with
  | O => count
  | S f => if N.testbit x count then count else tz_loop f x (count + 1)
  end.
Definition trailing_zeros (x : N) : N := if x =? 0 then 64 else tz_loop 64 x 0.

(* ---------- memory: the nodes_ array ---------- *)
Definition getw (m : list N) (j : N) : N := match nthN j m with Some v => v | None => 0 end.
Fixpoint setw (m : list N) (j : N) (v : N) : list N :=
  match m with
  | [] => []
  | y :: r => if j =? 0 then v :: r else y :: setw r (N.pred j) v
  end.

Record shared := mkShared {
  sz : N;              (* std::atomic<PageCount> size_ *)
  nodes : list N       (* ids_.nodes_[0 .. nodeCount) *)
}.

(* ---------- clients ---------- *)
Inductive op :=
| OpPop          (* pop(page) *)
| OpPushFirst    (* push(the page held longest) *)
| OpPushLast.    (* push(the page obtained last) *)

(* program counter = the atomic operation the process performs next.
   IDs inside the IdSet are page indexes (page.number - 1). *)
Inductive pc :=
| Ready                        (* between two calls *)
| Done                         (* script exhausted *)
| Crashed                      (* an assert() failed *)
| PopLoad (p : pos)            (* innerPop(p): oldValue = node.load() *)
| PopCas (p : pos) (old : N)   (* innerPop(p): node.compare_exchange_weak(oldValue, newValue.pack()) *)
| LeafLoad (p : pos)           (* leafPop(p): oldValue = node.load() *)
| LeafCas (p : pos) (old : N)  (* leafPop(p): node.compare_exchange_weak(oldValue, newValue) *)
| PopSize (id : N)             (* PageStack::pop(): --size_ *)
| PushSize (id : N)            (* PageStack::push(): ++size_ *)
| PushLeaf (id : N)            (* leafPush(): fetch_or(mask) *)
| PushInner (p : pos) (d : dir) (id : N).   (* innerPush(p, d): fetch_add(increment) *)

(* what a step makes visible; page numbers, as the callers of PageStack see them *)
Inductive event :=
| EvCallPop
| EvCallPush (num : N)
| EvRetPop (r : option N)      (* pop() returned true with page.number = n / returned false *)
| EvRetPush (num : N)
| EvFin
| EvCrash.

Record thread := mkT { tpc : pc; theld : list N; tscr : list op }.

(* the next script operation a client can perform: a push needs a held page *)
Fixpoint fetch (held : list N) (scr : list op) : option (op * list op) :=
  match scr with
  | [] => None
  | OpPop :: r => Some (OpPop, r)
  | o :: r => match held with [] => fetch held r | _ :: _ => Some (o, r) end
  end.

(* what innerPop(p) does with a value it has just read (by load() or by a failed CAS) *)
Definition after_inner_read (p : pos) (old : N) : pc * list event :=
  match inner_pop_choice old with
  | Some _ => (PopCas p old, [])
  | None =>
      (* dirEnd: IdSet::pop() returns false for the root call; for a deeper call
         descend(pos, dirEnd) fails assert(direction == dirLeft) *)
      if level p =? 0 then (Ready, [EvRetPop None]) else (Crashed, [EvCrash])
  end.

(* the do { direction = pos.ascendDirection(); pos = ascend(pos); innerPush(pos, direction); } step of IdSet::push() *)
Definition next_inner_push (p : pos) (id : N) : pc * list event :=
  if 0 <? level p then (PushInner (ascend p) (ascend_direction p) id, [])
  else (Crashed, [EvCrash]).                     (* ascend(): assert(pos.level > 0) *)

Definition crash (s : shared) (held : list N) (scr : list op) : shared * pc * list N * list op * list event :=
  (s, Crashed, held, scr, [EvCrash]).

(* one atomic operation of a process at pc p *)
Definition pstep (c : cfg) (s : shared) (p : pc) (held : list N) (scr : list op)
  : shared * pc * list N * list op * list event :=
  match p with
  | Ready =>
      match fetch held scr with
      | None => (s, Done, held, [], [EvFin])
      | Some (OpPop, r) =>
          (* PageStack::pop(): if (!config_.capacity) return false;  then ids_.pop(): innerPop(rootPos) *)
          if cap c =? 0 then (s, Ready, held, r, [EvCallPop; EvRetPop None])
          else (s, PopLoad root, held, r, [EvCallPop])
      | Some (o, r) =>
          let num := match o with OpPushFirst => hd 0 held | _ => last held 0 end in
          let held' := match o with OpPushFirst => tl held | _ => removelast held end in
          (* PageStack::push(): assert(page); assert(pageIdIsValid(page)); *)
          if (0 <? num) && (num <=? cap c) then (s, PushSize (num - 1), held', r, [EvCallPush num])
          else (s, Crashed, held', r, [EvCallPush num; EvCrash])
      end
  | Done => (s, Done, held, scr, [])
  | Crashed => (s, Crashed, held, scr, [])
  (* NavigationDirection innerPop(pos) *)
  | PopLoad q =>
      if node_ok c q then
        let '(p', ev) := after_inner_read q (getw (nodes s) (nodes_before q)) in (s, p', held, scr, ev)
      else crash s held scr
  | PopCas q old =>
      let cur := getw (nodes s) (nodes_before q) in
      if cur =? old then
        match inner_pop_choice old with
        | Some (d, new) =>
            let s' := mkShared (sz s) (setw (nodes s) (nodes_before q) new) in
            (* IdSet::pop(): pos = descend(pos, direction): assert(pos.level < treeHeight);
               then innerPop(pos) while level < innerLevelCount, else leafPop(pos) *)
            if level q <? tree_height c then
              let q' := descend q d in
              (s', (if level q' <? ilc c then PopLoad q' else LeafLoad q'), held, scr, [])
            else crash s' held scr
        | None => crash s held scr               (* not reachable: PopCas carries a non-empty value *)
        end
      else
        let '(p', ev) := after_inner_read q cur in (s, p', held, scr, ev)
  (* size_type leafPop(pos) *)
  | LeafLoad q =>
      if node_ok c q then
        let cur := getw (nodes s) (nodes_before q) in
        if cur =? 0 then crash s held scr        (* assert(oldValue > 0) *)
        else (s, LeafCas q cur, held, scr, [])
      else crash s held scr
  | LeafCas q old =>
      let cur := getw (nodes s) (nodes_before q) in
      if cur =? old then
        (* mask = oldValue - 1; newValue = oldValue & mask;  return pos.offset*BitsPerLeaf + trailingZeros(oldValue) *)
        let s' := mkShared (sz s) (setw (nodes s) (nodes_before q) (N.land old (old - 1))) in
        (s', PopSize ((offset q * BitsPerLeaf + trailing_zeros old) mod two32), held, scr, [])
      else if cur =? 0 then crash s held scr     (* assert(oldValue > 0) on the reloaded value *)
      else (s, LeafCas q cur, held, scr, [])
  (* PageStack::pop(): newSize = --size_; assert(newSize < capacity); page.number = pageIndex + 1; assert(pageIdIsValid(page)) *)
  | PopSize id =>
      let newSize := (sz s + two32 - 1) mod two32 in
      let s' := mkShared newSize (nodes s) in
      let num := (id + 1) mod two32 in
      if (newSize <? cap c) && (0 <? num) && (num <=? cap c)
      then (s', Ready, held ++ [num], scr, [EvRetPop (Some num)])
      else crash s' held scr
  (* PageStack::push(): newSize = ++size_; assert(newSize <= capacity); ids_.push(page.number - 1) *)
  | PushSize id =>
      let newSize := (sz s + 1) mod two32 in
      let s' := mkShared newSize (nodes s) in
      if newSize <=? cap c then (s', PushLeaf id, held, scr, []) else crash s' held scr
  (* IdSet::push(): pos = Position(innerLevelCount, id/BitsPerLeaf); leafPush(pos, id) *)
  | PushLeaf id =>
      let q := mkPos (ilc c) (id / BitsPerLeaf) in
      if node_ok c q then
        let mask := 2 ^ (id mod BitsPerLeaf) in
        let old := getw (nodes s) (nodes_before q) in
        let s' := mkShared (sz s) (setw (nodes s) (nodes_before q) (N.lor old mask)) in
        if N.land old mask =? 0 then                (* assert((oldValue & mask) == 0) *)
          let '(p', ev) := next_inner_push q id in (s', p', held, scr, ev)
        else crash s' held scr
      else crash s held scr
  (* void innerPush(pos, dir) *)
  | PushInner q d id =>
      if node_ok c q then
        let inc := push_increment d in
        let old := getw (nodes s) (nodes_before q) in
        let s' := mkShared (sz s) (setw (nodes s) (nodes_before q) ((old + inc) mod two64)) in
        if old <=? ones64 - inc then                (* assert(previousValue <= max - increment) *)
          if at_root q then (s', Ready, held, scr, [EvRetPush (id + 1)])     (* while (!pos.atRoot()) *)
          else let '(p', ev) := next_inner_push q id in (s', p', held, scr, ev)
        else crash s' held scr
      else crash s held scr
  end.

(* ---------- global state: shared words + one thread per process ---------- *)
Record state := mkState { sh : shared; ths : list thread }.

Fixpoint updN {A} (n : N) (x : A) (l : list A) : list A :=
  match l with
  | [] => []
  | y :: r => if n =? 0 then x :: r else y :: updN (N.pred n) x r
  end.

Definition terminal (p : pc) : bool :=
  match p with Done | Crashed => true | _ => false end.

(* thread t performs its next step; a schedule entry naming no thread or a finished one is skipped *)
Definition step (c : cfg) (st : state) (t : N) : state * list (N * event) * bool :=
  match nthN t (ths st) with
  | None => (st, [], false)
  | Some th =>
      if terminal (tpc th) then (st, [], false)
      else
        let '(s', p', held', scr', evs) := pstep c (sh st) (tpc th) (theld th) (tscr th) in
        (mkState s' (updN t (mkT p' held' scr') (ths st)), map (fun e => (t, e)) evs, true)
  end.

Fixpoint exec (c : cfg) (st : state) (sched : list N) : state * list (N * event) * N :=
  match sched with
  | [] => (st, [], 0)
  | t :: r =>
      let '(st1, e1, b) := step c st t in
      let '(st2, e2, n) := exec c st1 r in
      (st2, e1 ++ e2, if b then N.succ n else n)
  end.

Definition all_terminal (st : state) : bool := forallb (fun th => terminal (tpc th)) (ths st).

Fixpoint tids_from (k : N) (l : list thread) : list N :=
  match l with [] => [] | _ :: r => k :: tids_from (N.succ k) r end.
Definition tids (st : state) : list N := tids_from 0 (ths st).

(* past the end of the schedule: round-robin until every process ended; None = out of fuel *)
Fixpoint run_rr (fuel : nat) (c : cfg) (st : state) : option (state * list (N * event) * N) :=
  if all_terminal st then Some (st, [], 0)
  else match fuel with
       | O => None
       | S f =>
           let '(st1, e1, n1) := exec c st (tids st) in
           match run_rr f c st1 with
           | Some (st2, e2, n2) => Some (st2, e1 ++ e2, n1 + n2)
           | None => None
           end
       end.

(* ---------- construction ---------- *)
(* std::fill_n(valueAddress(pos), count, v) *)
Fixpoint fill_from (m : list N) (k start count v : N) : list N :=
  match m with
  | [] => []
  | y :: r => (if (start <=? k) && (k <? start + count) then v else y) :: fill_from r (N.succ k) start count v
  end.
Definition fill_n (m : list N) (start count v : N) : list N := fill_from m 0 start count v.

Fixpoint zeros (n : nat) : list N := match n with O => [] | S k => 0 :: zeros k end.

(* fillAllNodes(): the inner levels, from the bottom of the tree *)
Fixpoint fill_inner (fuel : nat) (p : pos) (nodesAtLevel pagesBelow : N) (m : list N) : list N :=
  match fuel with
  | O => m
  | S f =>
      let p' := ascend p in
      let m' := fill_n m (nodes_before p') nodesAtLevel (pack pagesBelow pagesBelow) in
      if at_root p' then m' else fill_inner f p' (nodesAtLevel / 2) ((pagesBelow * 2) mod two32) m'
  end.
Definition fill_all (c : cfg) (m : list N) : list N :=
  let p := mkPos (tree_height c - 1) 0 in
  let m1 := fill_n m (nodes_before p) (leaf_count c) ones64 in
  fill_inner 40 p (leaf_count c / 2) BitsPerLeaf m1.

(* innerTruncate(pos, dir, toSubtract): new packed value and the amount to subtract from the parent; None = assert *)
Definition inner_truncate (w : N) (d : dir) (toSubtract : N) : option (N * N) :=
  let l := unpack_left w in
  let r := unpack_right w in
  match d with
  | DLeft => if toSubtract <=? l then Some (pack (l - toSubtract) 0, (toSubtract + r) mod two32) else None
  | DRight => if toSubtract <=? r then Some (pack l (r - toSubtract), toSubtract) else None
  end.
Fixpoint truncate_up (fuel : nat) (p : pos) (toSubtract : N) (m : list N) : option (list N) :=
  match fuel with
  | O => Some m
  | S f =>
      let d := ascend_direction p in
      let p' := ascend p in
      match inner_truncate (getw m (nodes_before p')) d toSubtract with
      | None => None
      | Some (w, next) =>
          let m' := setw m (nodes_before p') w in
          if at_root p' then Some m' else truncate_up f p' next m'
      end
  end.

(* truncateExtras(); leafTruncate(pos, idsToKeep): node = idsToKeep ? (node >> (BitsPerLeaf - idsToKeep)) : 0.
   None = one of its assert()s failed *)
Definition truncate_extras (c : cfg) (m : list N) : option (list N) :=
  let p := mkPos (tree_height c - 1) (cap c / BitsPerLeaf) in
  let keep := cap c mod BitsPerLeaf in
  let node := getw m (nodes_before p) in
  if node =? ones64 then                                        (* leafTruncate: assert(node == max) *)
    let node' := if keep =? 0 then 0 else node / 2 ^ (BitsPerLeaf - keep) in
    let m1 := setw m (nodes_before p) node' in
    let rightLeaves := leaf_count c - requested_leaves (cap c) in
    (* zeroes the leaves to the right of pos except the last one, which keeps its 1s (the counters make it unreachable) *)
    let m2 := if 1 <? rightLeaves then fill_n m1 (nodes_before p + 1) (rightLeaves - 1) 0 else m1 in
    truncate_up 40 p (BitsPerLeaf - keep) m2
  else None.

(* PageStack(config): zero-filled shared memory; createFull: makeFullBeforeSharing(), size_ = capacity *)
Definition construct (c : cfg) (full : bool) : option shared :=
  let m0 := zeros (N.to_nat (node_count c)) in
  if full then
    let m1 := fill_all c m0 in
    if cap c =? leaf_count c * BitsPerLeaf then Some (mkShared (cap c) m1)
    else match truncate_extras c m1 with
         | Some m2 => Some (mkShared (cap c) m2)
         | None => None
         end
  else Some (mkShared 0 m0).

(* createFull = false: page number i+1 (i < capacity) starts in the hands of client i mod n *)
Fixpoint deal (k : nat) (capacity n t : N) : list N :=
  match k with
  | O => []
  | S k' => let i := capacity - N.of_nat k in
            if i mod n =? t then (i + 1) :: deal k' capacity n t else deal k' capacity n t
  end.

(* one client per script, initially between calls, holding the pages of the matching entry of hs (none if hs is shorter) *)
Fixpoint mk_threads (hs : list (list N)) (scripts : list (list op)) : list thread :=
  match scripts with
  | [] => []
  | scr :: r => mkT Ready (hd [] hs) scr :: mk_threads (tl hs) r
  end.

Fixpoint deal_all (k : nat) (capacity n t : N) : list (list N) :=
  match k with
  | O => []
  | S k' => deal (N.to_nat capacity) capacity n t :: deal_all k' capacity n (N.succ t)
  end.

Definition init_threads (capacity : N) (full : bool) (scripts : list (list op)) : list thread :=
  mk_threads (if full then [] else deal_all (length scripts) capacity (lenN scripts) 0) scripts.

(* generous bound on the number of round-robin rounds (not proved sufficient: "FUEL" would show up as a
   model/implementation disagreement) *)
Definition rr_fuel (c : cfg) (thl : list thread) : nat :=
  let ops := fold_right (fun th a => length (tscr th) + a)%nat 1%nat thl in
  (ops * (2 * N.to_nat (ilc c) + 8) * (length thl + 1))%nat.

(* drain: a fresh process calls pop() until it fails *)
Fixpoint solo (fuel : nat) (c : cfg) (s : shared) (p : pc) (held : list N) (scr : list op)
  : option (shared * pc * list N * list op * list event) :=
  match fuel with
  | O => None
  | S f =>
      let '(s', p', held', scr', ev) := pstep c s p held scr in
      match p' with
      | Ready | Done | Crashed => Some (s', p', held', scr', ev)
      | _ => match solo f c s' p' held' scr' with
             | Some (s2, p2, h2, scr2, ev2) => Some (s2, p2, h2, scr2, ev ++ ev2)
             | None => None
             end
      end
  end.

Inductive drained := DrainOk (l : list N) | DrainCrash (l : list N) | DrainFuel.
Fixpoint drain (k : nat) (c : cfg) (s : shared) (acc : list N) : drained :=
  match k with
  | O => DrainOk acc
  | S k' =>
      match solo (10 + 4 * N.to_nat (ilc c)) c s Ready [] [OpPop] with
      | None => DrainFuel
      | Some (s', p', held', _, _) =>
          match p' with
          | Crashed => DrainCrash acc
          | _ => match held' with
                 | [] => DrainOk acc
                 | num :: _ => drain k' c s' (acc ++ [num])
                 end
          end
      end
  end.

Inductive outcome :=
| OutCtorCrash
| OutFuel
| OutRun (st : state) (evs : list (N * event)) (steps : N) (d : drained).

Definition run_case (capacity : N) (full : bool) (scripts : list (list op)) (sched : list N) : outcome :=
  let c := measure capacity in
  match construct c full with
  | None => OutCtorCrash
  | Some s0 =>
      let st0 := mkState s0 (init_threads capacity full scripts) in
      let '(st1, e1, n1) := exec c st0 sched in
      match run_rr (rr_fuel c (ths st1)) c st1 with
      | None => OutFuel
      | Some (st2, e2, n2) =>
          OutRun st2 (e1 ++ e2) (n1 + n2) (drain (N.to_nat capacity + 3) c (sh st2) [])
      end
  end.
