(* Properties_C49.v — C49: in-memory object data (mem_hdr, src/stmem.cc) returns exactly what was written.
   Statements only; proofs live in MemhdrProofs.v (over SplayProofs.v).

   Vocabulary (MemhdrProofs.v): [cont h z] = the byte the header h stores at offset z (None = missing);
   [spec_write m off data] = the partial map m with data put at off..; [read_spec m off n] = the stored bytes
   from off on, at most n, up to the first missing one; [Inv h] = stored nodes sorted by offset, pairwise
   disjoint, 1..SM_PAGE_SIZE bytes each with an exact length field, Splay::elements = number of nodes,
   inmem_hi = end of the last node; [spec_step m o r m'] = what the partial-map specification allows operation o
   to answer (r) and to leave behind (m') on the map m; [spec_trace] = the same for a whole history, which ends
   at the first failed assert() / fatal_dump(). *)
Require Import SquidV.Bytes SquidV.SplayModel SquidV.SplayProofs SquidV.MemhdrModel SquidV.MemhdrProofs.
Require Import SquidV.gen.Memhdr_gen.
Local Open Scope Z_scope.

(* --- NodeCompare ("overlap => equal") is a monotone comparator on what mem_hdr stores, so the splay theorems apply --- *)
Theorem C49_nodecompare_monotone_on_stored_nodes : forall qs qe lo l,
  wf_from lo l -> mono (node_compare qs qe) l.
Proof. exact wf_mono. Qed.
Print Assumptions C49_nodecompare_monotone_on_stored_nodes.

(* --- constants regenerated from the code --- *)
Theorem C49_page_fits_data_array : (0 < sm_page_size)%N /\ (sm_page_size <= mem_node_data_capacity)%N.
Proof. exact (conj page_size_positive data_capacity_ok). Qed.
Print Assumptions C49_page_fits_data_array.

(* --- a fresh mem_hdr is the empty map --- *)
Theorem C49_fresh_header_is_empty_map : Inv mh_empty /\ forall z, cont mh_empty z = None.
Proof. exact (conj inv_empty cont_empty). Qed.
Print Assumptions C49_fresh_header_is_empty_map.

(* --- write: fatal_dump exactly when a byte of the range is already stored (assert exactly when the offset is
       negative); otherwise exactly the written bytes are added, at arbitrary (sparse) offsets --- *)
Theorem C49_write_adds_exactly_the_written_bytes : forall h off data, Inv h ->
  match mh_write h off data with
  | AssertFail => off < 0
  | FatalDump => 0 <= off /\ exists z, off <= z < off + Z.of_N (lenN data) /\ cont h z <> None
  | Ok h' => 0 <= off /\ (forall z, off <= z < off + Z.of_N (lenN data) -> cont h z = None) /\
             Inv h' /\ forall z, cont h' z = spec_write (cont h) off data z
  | Stuck => False
  end.
Proof. exact mh_write_spec. Qed.
Print Assumptions C49_write_adds_exactly_the_written_bytes.

(* --- copy: exactly the stored bytes from the offset up to the first missing byte (at most the requested
       number); fatal_dump exactly when the first byte is missing; the content is unchanged --- *)
Theorem C49_copy_returns_written_bytes_up_to_first_hole : forall h off len, Inv h ->
  match mh_copy h off len with
  | AssertFail => len = 0%N \/ inorder (h_nodes h) = [] \/ off < 0
  | FatalDump => (0 < len)%N /\ 0 <= off /\ inorder (h_nodes h) <> [] /\ cont h off = None
  | Ok (h', got) => (0 < len)%N /\ cont h off <> None /\
                    got = read_spec (cont h) off (N.to_nat len) /\
                    Inv h' /\ forall z, cont h' z = cont h z
  | Stuck => False
  end.
Proof. exact mh_copy_spec. Qed.
Print Assumptions C49_copy_returns_written_bytes_up_to_first_hole.

(* --- contiguity queries agree with the written ranges --- *)
Theorem C49_contiguity_agrees_with_written_ranges : forall h a b, Inv h ->
  match mh_hasContig h a b with
  | AssertFail => a < 0 /\ inorder (h_nodes h) <> []
  | Ok (h', r) => (0 <= a \/ inorder (h_nodes h) = []) /\
                  (r = true <-> forall z, a <= z < b -> cont h z <> None) /\
                  Inv h' /\ forall z, cont h' z = cont h z
  | FatalDump => False
  | Stuck => False
  end.
Proof. exact mh_hasContig_spec. Qed.
Print Assumptions C49_contiguity_agrees_with_written_ranges.

(* --- releasing never removes or changes a byte at or above the release offset, never alters what remains,
       removes only whole leading nodes ending at or below the target, keeps the last node and inmem_hi, and
       answers the lowest stored offset --- *)
Theorem C49_release_keeps_everything_at_or_above_target : forall h target, Inv h ->
  match mh_free h target with
  | Ok (h', lo) =>
      Inv h' /\
      (forall z, target <= z -> cont h' z = cont h z) /\
      (forall z b, cont h' z = Some b -> cont h z = Some b) /\
      (exists d, inorder (h_nodes h) = d ++ inorder (h_nodes h') /\ forall n, In n d -> n_end n <= target) /\
      (inorder (h_nodes h) <> [] -> inorder (h_nodes h') <> []) /\
      h_hi h' = h_hi h /\
      (forall z, z < lo -> cont h' z = None) /\
      (inorder (h_nodes h) <> [] -> cont h' lo <> None) /\
      (inorder (h_nodes h) = [] -> lo = 0)
  | AssertFail => False
  | FatalDump => False
  | Stuck => False
  end.
Proof. exact mh_free_spec. Qed.
Print Assumptions C49_release_keeps_everything_at_or_above_target.

(* --- endOffset: one past the highest stored byte; its assert (result == inmem_hi) never fires --- *)
Theorem C49_endOffset_is_one_past_highest_byte : forall h, Inv h ->
  exists e, mh_endOffset h = Ok e /\
    (forall z, e <= z -> cont h z = None) /\
    (inorder (h_nodes h) <> [] -> cont h (e - 1) <> None) /\
    (inorder (h_nodes h) = [] -> e = 0).
Proof. exact mh_endOffset_spec. Qed.
Print Assumptions C49_endOffset_is_one_past_highest_byte.

(* --- one operation, any operation: the invariant is kept and answer + effect are what the partial-map
       specification allows --- *)
Theorem C49_every_operation_refines_the_map : forall h o, Inv h ->
  Inv (fst (mh_step h o)) /\ spec_step (cont h) o (snd (mh_step h o)) (cont (fst (mh_step h o))).
Proof. exact step_refines. Qed.
Print Assumptions C49_every_operation_refines_the_map.

(* --- ALL histories on a fresh mem_hdr (writes at any offsets incl. sparse ones, releases, reads, contiguity
       queries, in any order; the history ends at the first failed assert / fatal_dump, which happen exactly where
       spec_step says): the answers are a trace of the partial-map specification started from the empty map, the
       invariant holds at the end, and no loop bound / uncovered pointer situation is ever met --- *)
Theorem C49_all_histories_refine_partial_map : forall ops,
  Inv (snd (mh_run mh_empty ops)) /\
  spec_trace (fun _ => None) ops (fst (mh_run mh_empty ops)) (cont (snd (mh_run mh_empty ops))) /\
  ~ In RStuck (fst (mh_run mh_empty ops)).
Proof. exact histories_refine. Qed.
Print Assumptions C49_all_histories_refine_partial_map.

(* --- every node of every reachable header fits the data[] array and has an exact length field --- *)
Theorem C49_reachable_nodes_fit_data_array : forall ops n,
  In n (inorder (h_nodes (snd (mh_run mh_empty ops)))) ->
  n_length n = lenN (n_data n) /\ (0 < n_length n <= mem_node_data_capacity)%N /\ 0 <= n_off n.
Proof. exact reachable_nodes_fit. Qed.
Print Assumptions C49_reachable_nodes_fit_data_array.

(* --- the hypotheses are satisfiable / the statements are not vacuous: a concrete sparse history --- *)
Example C49_example_history :
  fst (mh_run mh_empty
         [OWrite 100 [65%N]; OWrite 10 [66%N; 67%N]; OWrite 12 [68%N]; OCopy 10 5%N; OHas 10 13; OHas 10 101;
          OFree 50; OLow; OEnd; OCopy 100 1%N]) =
  [RWrite; RWrite; RWrite; RCopy [66%N; 67%N; 68%N]; RHas true; RHas false; RFree 100; RLow 100; REnd 101; RCopy [65%N]].
Proof. vm_compute. reflexivity. Qed.

Example C49_example_overlap_is_fatal :
  fst (mh_run mh_empty [OWrite 5 [1%N; 2%N]; OWrite 6 [3%N]; OEnd]) = [RWrite; RFatal].
Proof. vm_compute. reflexivity. Qed.

Example C49_example_invariant_nontrivial :
  Inv (snd (mh_run mh_empty [OWrite 100 [65%N]; OWrite 10 [66%N; 67%N]])) /\
  inorder (h_nodes (snd (mh_run mh_empty [OWrite 100 [65%N]; OWrite 10 [66%N; 67%N]]))) =
    [mkNode 10 2%N [66%N; 67%N]; mkNode 100 1%N [65%N]].
Proof. split; [exact (proj1 (histories_refine _))| vm_compute; reflexivity]. Qed.

Example C49_example_wf_premise : wf_from 0 [mkNode 10 2%N [66%N; 67%N]; mkNode 100 1%N [65%N]].
Proof. cbn [wf_from]. unfold node_ok, n_end, n_len, PAGE. cbn [n_off n_length n_data lenN]. vm_compute. intuition discriminate. Qed.
