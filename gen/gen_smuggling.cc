// Table generator for C03 (request framing / smuggling): the request-method ids and status codes that
// HttpRequest::checkEntityFraming, ConnStateData::parseHttpRequest and Http1::Server::buildHttpRequest
// compare against or answer with, and the request body pipe capacity, as the code defines them *now*.
#include "squid.h"
#include <iostream>
#include "http/StatusCode.h"
#include "http/MethodType.h"
#include "BodyPipe.h"

static void dumpN(const char *name, unsigned long long v) {
    std::cout << "Definition " << name << " : N := " << v << "%N.\n";
}

int main() {
    std::cout << "@@FILE Smuggling_gen.v\n";
    std::cout << "(* generated from /repo by gen/gen_smuggling.cc -- do not edit *)\n"
              "Require Import SquidV.Bytes.\n";
    dumpN("sm_m_get", Http::METHOD_GET);
    dumpN("sm_m_post", Http::METHOD_POST);
    dumpN("sm_m_put", Http::METHOD_PUT);
    dumpN("sm_m_head", Http::METHOD_HEAD);
    dumpN("sm_m_connect", Http::METHOD_CONNECT);
    dumpN("sm_m_trace", Http::METHOD_TRACE);
    dumpN("sm_m_options", Http::METHOD_OPTIONS);
    dumpN("sm_m_delete", Http::METHOD_DELETE);
    dumpN("sm_m_link", Http::METHOD_LINK);
    dumpN("sm_m_unlink", Http::METHOD_UNLINK);
    dumpN("sm_m_pri", Http::METHOD_PRI);
    dumpN("sm_sc_bad_request", Http::scBadRequest);
    dumpN("sm_sc_method_not_allowed", Http::scMethodNotAllowed);
    dumpN("sm_sc_length_required", Http::scLengthRequired);
    dumpN("sm_sc_expectation_failed", Http::scExpectationFailed);
    dumpN("sm_sc_not_implemented", Http::scNotImplemented);
    dumpN("sm_sc_version_not_supported", Http::scHttpVersionNotSupported);
    dumpN("sm_body_pipe_capacity", BodyPipe::MaxCapacity);
    return 0;
}
