"""Correspondence: run the implementation harness and the extracted model on
the same case lines and diff their canonical output lines."""
import os, subprocess
from .common import sh, BUILD


def run_lines(exe, lines, timeout=600, env=None, args=()):
    """Feed lines to a line-oriented process; survives crashes (sanitizer
    aborts, assertions): the case being processed when the process died gets
    the result 'CRASH <reason>' and the rest is re-fed to a new process."""
    results = []
    i = 0
    n = len(lines)
    e = dict(os.environ)
    e.setdefault("UBSAN_OPTIONS", "print_stacktrace=0:halt_on_error=1")
    e.setdefault("ASAN_OPTIONS", "detect_leaks=0:abort_on_error=0")
    if env:
        e.update(env)
    crashes = 0
    while i < n:
        data = "\n".join(lines[i:]) + "\n"
        try:
            p = subprocess.run([exe] + list(args), input=data, stdout=subprocess.PIPE, stderr=subprocess.PIPE,
                               text=True, timeout=timeout, env=e, errors="replace")
            out, err, rc = p.stdout, p.stderr, p.returncode
        except subprocess.TimeoutExpired as ex:
            out = ex.stdout or ""
            if isinstance(out, bytes):
                out = out.decode("utf-8", "replace")
            err, rc = "timeout", 124
        got = out.split("\n")
        if got and got[-1] == "":
            got.pop()
        complete = got[: n - i]
        results.extend(complete)
        i += len(complete)
        if i < n:
            reason = "rc=%s " % rc + " ".join(err.strip().split("\n")[:3])[:300]
            results.append("CRASH " + reason)
            i += 1
            crashes += 1
            if crashes > 200:
                results.extend(["CRASH too-many"] * (n - i))
                break
    return results


def diff(cases, impl, model):
    """yield (index, case, impl_line, model_line) for disagreements"""
    out = []
    for k, (c, a, b) in enumerate(zip(cases, impl, model)):
        if a != b:
            out.append((k, c, a, b))
    return out
