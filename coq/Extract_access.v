(* Extract_access.v — extraction of the http_access end-to-end model (C45) to OCaml.
   Only ExtrOcamlBasic is used; N, Z, positive and nat stay extracted Coq datatypes. *)
Require Import ExtrOcamlBasic.
Require Import SquidV.Bytes SquidV.AccessModel.
Extraction "m_access.ml" access_run meth_parse_cfg meth_parse_req meth_eq mkReq mkEnv.
