(* ReuseProofs.v — proofs for C11 (store / reuse decision). *)
Require Import SquidV.Bytes SquidV.HopModel SquidV.HopProofs SquidV.ReuseModel.
Require Import SquidV.gen.Reuse_gen SquidV.gen.ReuseCfg_gen.
Require Import ZifyBool ZifyN ZifyNat.
Local Open Scope N_scope.

(* ================================================================ specification vocabulary *)
(* an element of a Cache-Control list "is the directive d": it is d, or d followed by '=' (letter case ignored) *)
Definition is_directive (d item : bytes) : bool := ci_eqb item d || ci_prefix item (d ++ [61]).
Definition no_eq (d : bytes) : bool := forallb (fun c => negb (c =? 61)) d.

Definition d_no_store : bytes := [110;111;45;115;116;111;114;101].
Definition d_private : bytes := [112;114;105;118;97;116;101].
Definition d_public : bytes := [112;117;98;108;105;99].
Definition d_must_revalidate : bytes := [109;117;115;116;45;114;101;118;97;108;105;100;97;116;101].
Definition d_s_maxage : bytes := [115;45;109;97;120;97;103;101].
Definition d_no_cache : bytes := [110;111;45;99;97;99;104;101].

(* ================================================================ directive names *)
Lemma to_lower_61 c : (to_lower c =? to_lower 61) = (c =? 61).
Proof. unfold to_lower. destruct ((65 <=? c) && (c <=? 90)) eqn:E; cbn; lia. Qed.

Lemma ci_eqb_refl a : ci_eqb a a = true.
Proof. induction a as [|x a IH]; cbn [ci_eqb]; [reflexivity|]. rewrite N.eqb_refl, IH. reflexivity. Qed.

Lemma ci_eqb_sym a : forall b, ci_eqb a b = ci_eqb b a.
Proof.
  induction a as [|x a IH]; intros [|y b]; cbn [ci_eqb]; try reflexivity.
  rewrite (N.eqb_sym (to_lower x)), IH. reflexivity.
Qed.

Lemma find_eq_shift l : forall i, find_eq l i = match find_eq l 0 with Some k => Some (k + i) | None => None end.
Proof.
  induction l as [|c r IH]; intros i; cbn [find_eq]; [reflexivity|].
  destruct (c =? 61); [f_equal; lia|].
  rewrite (IH (i + 1)), (IH (0 + 1)). destruct (find_eq r 0); [f_equal; lia|reflexivity].
Qed.

(* the name part of an item that is the directive d (d without '=') matches d *)
Lemma directive_name_matches d : no_eq d = true -> forall item,
  is_directive d item = true -> ci_eqb (takeN (item_nlen item) item) d = true.
Proof.
  unfold is_directive, item_nlen.
  induction d as [|y d IH]; intros Hd item H.
  - destruct item as [|x item]; [reflexivity|].
    cbn [ci_eqb ci_prefix app orb] in H. cbn [find_eq].
    rewrite to_lower_61 in H. apply andb_prop in H. destruct H as [H _]. rewrite H. reflexivity.
  - cbn [no_eq forallb] in Hd. apply andb_prop in Hd. destruct Hd as [Hy Hd].
    destruct item as [|x item]; [cbn in H; discriminate|].
    cbn [ci_eqb ci_prefix app] in H.
    assert (Hx : (to_lower x =? to_lower y) = true /\ (ci_eqb item d || ci_prefix item (d ++ [61])) = true).
    { destruct (to_lower x =? to_lower y); cbn in H; [split; [reflexivity|exact H]|discriminate]. }
    destruct Hx as [Hxy Hrest].
    assert (Hx61 : (x =? 61) = false).
    { destruct (x =? 61) eqn:E; [|reflexivity]. apply N.eqb_eq in E. subst x.
      rewrite N.eqb_sym, to_lower_61 in Hxy. rewrite Hxy in Hy. discriminate. }
    cbn [find_eq]. rewrite Hx61. rewrite (find_eq_shift item (0 + 1)).
    specialize (IH Hd item Hrest).
    destruct (find_eq item 0) as [k|] eqn:Ek.
    + cbn [takeN]. replace (k + (0 + 1) =? 0) with false by lia.
      replace (N.pred (k + (0 + 1))) with k by lia. cbn [ci_eqb]. rewrite Hxy, IH. reflexivity.
    + cbn [takeN lenN]. replace (N.succ (lenN item) =? 0) with false by lia.
      rewrite N.pred_succ. cbn [ci_eqb]. rewrite Hxy, IH. reflexivity.
Qed.

Lemma cc_lookup_ci tbl a b : ci_eqb a b = true -> cc_lookup tbl a = cc_lookup tbl b.
Proof.
  intros H. induction tbl as [|[nm id] r IH]; cbn [cc_lookup]; [reflexivity|].
  rewrite (ci_eqb_trans_l a b nm H). now rewrite IH.
Qed.

Lemma directive_type d : no_eq d = true -> forall item,
  is_directive d item = true -> item_type item = cc_type_by_name d.
Proof.
  intros Hd item H. unfold item_type, cc_type_by_name. apply cc_lookup_ci.
  now apply directive_name_matches.
Qed.

(* conversely: an item whose type is that of a table name d is the directive d *)
Lemma takeN_prefix_directive d : forall item,
  ci_eqb (takeN (item_nlen item) item) d = true -> is_directive d item = true.
Proof.
  unfold is_directive, item_nlen.
  induction d as [|y d IH]; intros item H.
  - destruct item as [|x item]; [reflexivity|].
    cbn [find_eq] in H. cbn [ci_eqb ci_prefix app orb]. rewrite to_lower_61.
    destruct (x =? 61) eqn:E; [reflexivity|].
    rewrite (find_eq_shift item (0 + 1)) in H.
    destruct (find_eq item 0) as [k|].
    + cbn [takeN] in H. replace (k + (0 + 1) =? 0) with false in H by lia. cbn in H. discriminate.
    + cbn [takeN lenN] in H. replace (N.succ (lenN item) =? 0) with false in H by lia. cbn in H. discriminate.
  - destruct item as [|x item]; [cbn in H; discriminate|].
    cbn [find_eq] in H.
    destruct (x =? 61) eqn:E.
    { cbn [takeN] in H. cbn in H. discriminate. }
    rewrite (find_eq_shift item (0 + 1)) in H.
    cbn [ci_eqb ci_prefix app].
    assert (G : (to_lower x =? to_lower y) = true /\
                ci_eqb (takeN (match find_eq item 0 with Some i => i | None => lenN item end) item) d = true).
    { destruct (find_eq item 0) as [k|].
      - cbn [takeN] in H. replace (k + (0 + 1) =? 0) with false in H by lia.
        replace (N.pred (k + (0 + 1))) with k in H by lia. cbn [ci_eqb] in H. now apply andb_prop in H.
      - cbn [takeN lenN] in H. replace (N.succ (lenN item) =? 0) with false in H by lia.
        rewrite N.pred_succ in H. cbn [ci_eqb] in H. now apply andb_prop in H. }
    destruct G as [G1 G2]. rewrite G1. cbn [andb]. exact (IH item G2).
Qed.

Lemma cc_lookup_found tbl name id : cc_lookup tbl name = id -> id <> CC_OTHER ->
  exists nm, In (nm, id) tbl /\ ci_eqb name nm = true.
Proof.
  induction tbl as [|[nm i] r IH]; cbn [cc_lookup]; intros H Hne; [congruence|].
  destruct (ci_eqb name nm) eqn:E.
  - subst i. exists nm. split; [now left|exact E].
  - destruct (IH H Hne) as [nm' [Hin He]]. exists nm'. split; [now right|exact He].
Qed.

(* the regenerated table maps exactly these names to these ids *)
Lemma tbl_no_store : cc_type_by_name d_no_store = CC_NO_STORE. Proof. vm_compute. reflexivity. Qed.
Lemma tbl_private : cc_type_by_name d_private = CC_PRIVATE. Proof. vm_compute. reflexivity. Qed.
Lemma tbl_public : cc_type_by_name d_public = CC_PUBLIC. Proof. vm_compute. reflexivity. Qed.
Lemma tbl_must_revalidate : cc_type_by_name d_must_revalidate = CC_MUST_REVALIDATE. Proof. vm_compute. reflexivity. Qed.
Lemma tbl_s_maxage : cc_type_by_name d_s_maxage = CC_S_MAXAGE. Proof. vm_compute. reflexivity. Qed.
Lemma tbl_no_cache : cc_type_by_name d_no_cache = CC_NO_CACHE. Proof. vm_compute. reflexivity. Qed.

(* each id has exactly one name in the regenerated table (needed for the converse direction) *)
Definition names_of (id : N) : list bytes := map fst (filter (fun p : bytes * N => snd p =? id) cc_attrs).
Lemma only_name_public : names_of CC_PUBLIC = [d_public]. Proof. vm_compute. reflexivity. Qed.
Lemma only_name_must_revalidate : names_of CC_MUST_REVALIDATE = [d_must_revalidate]. Proof. vm_compute. reflexivity. Qed.
Lemma only_name_s_maxage : names_of CC_S_MAXAGE = [d_s_maxage]. Proof. vm_compute. reflexivity. Qed.

Lemma type_is_directive item id d : item_type item = id -> id <> CC_OTHER -> names_of id = [d] ->
  is_directive d item = true.
Proof.
  intros Ht Hne Hn. unfold item_type, cc_type_by_name in Ht.
  destruct (cc_lookup_found _ _ _ Ht Hne) as [nm [Hin He]].
  assert (Hnm : In nm (names_of id)).
  { unfold names_of. apply in_map_iff. exists (nm, id). split; [reflexivity|].
    apply filter_In. split; [exact Hin|cbn; apply N.eqb_refl]. }
  rewrite Hn in Hnm. destruct Hnm as [Hd|[]]. subst nm. now apply takeN_prefix_directive.
Qed.
