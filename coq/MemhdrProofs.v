(* MemhdrProofs.v — mem_hdr (MemhdrModel.v) refines a partial map offset -> byte (C49).

   Abstraction: [content l z] is the byte stored at offset z by the in-order node
   list l = inorder (h_nodes h). Invariant [Inv]: the list is sorted by offset,
   nodes are pairwise disjoint, non-empty, at most SM_PAGE_SIZE long and hold
   exactly nodeBuffer.length bytes; Splay::elements is the number of nodes;
   inmem_hi is the end of the last node.  Under that invariant NodeCompare has
   monotone sign along the in-order sequence, so the generic splay theorems of
   SplayProofs.v make every lookup exact. *)
Require Import SquidV.Bytes SquidV.SplayModel SquidV.SplayProofs SquidV.MemhdrModel SquidV.gen.Memhdr_gen.
Require Import ZifyBool ZifyN ZifyNat.
Local Open Scope Z_scope.

(* ---------- the specification side ---------- *)
Definition pmap := Z -> option N.

Definition spec_write (m : pmap) (off : Z) (data : bytes) : pmap :=
  fun z => if (off <=? z) && (z <? off + Z.of_N (lenN data)) then nthN (Z.to_N (z - off)) data else m z.

(* the stored bytes from [off] on, at most [n] of them, up to the first missing one *)
Fixpoint read_spec (m : pmap) (off : Z) (n : nat) : bytes :=
  match n with
  | O => []
  | S k => match m off with Some b => b :: read_spec m (off + 1) k | None => [] end
  end.

Definition PAGE : Z := Z.of_N sm_page_size.
Lemma page_pos : 0 < PAGE.
Proof. reflexivity. Qed.

(* ---------- well-formed node lists and their content ---------- *)
Definition node_ok (n : node) : Prop :=
  n_length n = lenN (n_data n) /\ 0 < n_len n <= PAGE.

Fixpoint wf_from (lo : Z) (l : list node) : Prop :=
  match l with
  | [] => True
  | n :: r => lo <= n_off n /\ node_ok n /\ wf_from (n_end n) r
  end.

Fixpoint end_from (lo : Z) (l : list node) : Z :=
  match l with
  | [] => lo
  | n :: r => end_from (n_end n) r
  end.

Definition inside (n : node) (z : Z) : Prop := n_off n <= z < n_end n.

Fixpoint content (l : list node) (z : Z) : option N :=
  match l with
  | [] => None
  | n :: r => if (n_off n <=? z) && (z <? n_end n) then nthN (Z.to_N (z - n_off n)) (n_data n)
              else content r z
  end.

Definition Inv (h : mem_hdr) : Prop :=
  wf_from 0 (inorder (h_nodes h)) /\
  h_count h = lenN (inorder (h_nodes h)) /\
  h_hi h = end_from 0 (inorder (h_nodes h)).

Definition cont (h : mem_hdr) : pmap := content (inorder (h_nodes h)).

(* ---------- small list facts ---------- *)
Lemma nthN_some {A} (l : list A) (i : N) : (i < lenN l)%N -> exists b, nthN i l = Some b.
Proof.
  revert i. induction l as [|x l IH]; intros i Hi; cbn [lenN nthN] in *; [lia|].
  destruct (i =? 0)%N eqn:E; [eexists; reflexivity|]. apply IH. lia.
Qed.

Lemma nthN_none {A} (l : list A) (i : N) : (lenN l <= i)%N -> nthN i l = None.
Proof.
  revert i. induction l as [|x l IH]; intros i Hi; cbn [lenN nthN] in *; [reflexivity|].
  destruct (i =? 0)%N eqn:E; [lia|]. apply IH. lia.
Qed.

Lemma nthN_app_l {A} (a b : list A) i : (i < lenN a)%N -> nthN i (a ++ b) = nthN i a.
Proof.
  revert i. induction a as [|x a IH]; intros i Hi; cbn [lenN nthN app] in *; [lia|].
  destruct (i =? 0)%N eqn:E; [reflexivity|]. apply IH. lia.
Qed.

Lemma nthN_app_r {A} (a b : list A) i : (lenN a <= i)%N -> nthN i (a ++ b) = nthN (i - lenN a) b.
Proof.
  revert i. induction a as [|x a IH]; intros i Hi; cbn [lenN nthN app] in *; [f_equal; lia|].
  destruct (i =? 0)%N eqn:E; [lia|]. rewrite IH by lia. f_equal. lia.
Qed.

Lemma nthN_takeN {A} (l : list A) k i : (i < k)%N -> nthN i (takeN k l) = nthN i l.
Proof.
  revert k i. induction l as [|x l IH]; intros k i Hi; cbn [takeN nthN]; [reflexivity|].
  destruct (k =? 0)%N eqn:Ek; [lia|]. cbn [nthN].
  destruct (i =? 0)%N eqn:E; [reflexivity|]. apply IH. lia.
Qed.

Lemma nthN_dropN {A} (l : list A) k i : nthN i (dropN k l) = nthN (k + i) l.
Proof.
  revert k i. induction l as [|x l IH]; intros k i; cbn [dropN nthN]; [reflexivity|].
  destruct (k =? 0)%N eqn:Ek.
  - assert (k = 0%N) by lia. subst k. cbn [N.add]. reflexivity.
  - rewrite IH. assert (E : (k + i =? 0)%N = false) by lia. rewrite E. f_equal. lia.
Qed.

Lemma lenN_dropN {A} (l : list A) k : lenN (dropN k l) = (lenN l - k)%N.
Proof.
  revert k. induction l as [|x l IH]; intros k; cbn [dropN lenN]; [lia|].
  destruct (k =? 0)%N eqn:Ek; [cbn [lenN]; lia|]. rewrite IH. lia.
Qed.

Lemma lenN_nil {A} (l : list A) : lenN l = 0%N -> l = [].
Proof. destruct l; cbn [lenN]; [reflexivity| lia]. Qed.

Lemma lenN_length_nat {A} (l : list A) : N.to_nat (lenN l) = length l.
Proof. rewrite lenN_length. lia. Qed.

Lemma option_ext (x y : option N) : (forall b, x = Some b <-> y = Some b) -> x = y.
Proof.
  intros H. destruct x as [a|], y as [b|]; try reflexivity.
  - symmetry. exact (proj1 (H a) eq_refl).
  - discriminate (proj1 (H a) eq_refl).
  - discriminate (proj2 (H b) eq_refl).
Qed.

(* ---------- wf_from / end_from ---------- *)
Lemma wf_from_weaken lo lo' l : lo' <= lo -> wf_from lo l -> wf_from lo' l.
Proof. destruct l as [|n r]; cbn [wf_from]; [auto|]. intros H (H1 & H2 & H3). repeat split; try assumption; lia. Qed.

Lemma wf_from_rehead lo lo' l :
  wf_from lo l -> match l with [] => True | n :: _ => lo' <= n_off n end -> wf_from lo' l.
Proof. destruct l as [|n r]; cbn [wf_from]; [auto|]. intros (H1 & H2 & H3) H. repeat split; assumption. Qed.

Lemma wf_from_app lo a b : wf_from lo (a ++ b) <-> wf_from lo a /\ wf_from (end_from lo a) b.
Proof.
  revert lo. induction a as [|n a IH]; intros lo; cbn [app wf_from end_from]; [tauto|].
  rewrite IH. tauto.
Qed.

Lemma end_from_app lo a b : end_from lo (a ++ b) = end_from (end_from lo a) b.
Proof. revert lo. induction a as [|n a IH]; intros lo; cbn [app end_from]; [reflexivity| apply IH]. Qed.

Lemma end_from_nonempty lo lo' l : l <> [] -> end_from lo l = end_from lo' l.
Proof. destruct l; [congruence| reflexivity]. Qed.

Lemma end_from_ge lo l : wf_from lo l -> lo <= end_from lo l.
Proof.
  revert lo. induction l as [|n r IH]; intros lo; cbn [wf_from end_from]; [lia|].
  intros (H1 & (_ & H2) & H3). specialize (IH _ H3). unfold n_end in *. lia.
Qed.

Lemma wf_from_In lo l n : wf_from lo l -> In n l ->
  lo <= n_off n /\ node_ok n /\ n_end n <= end_from lo l.
Proof.
  revert lo. induction l as [|x r IH]; intros lo; cbn [wf_from end_from In]; [tauto|].
  intros (H1 & H2 & H3) [<-|Hin].
  - repeat split; try assumption; try apply H2. apply end_from_ge, H3.
  - destruct (IH _ H3 Hin) as (A & B & C). repeat split; try assumption; try apply B.
    destruct H2 as (_ & H2). unfold n_end in *. lia.
Qed.

Lemma end_from_le lo l x : lo <= x -> (forall n, In n l -> n_end n <= x) -> wf_from lo l -> end_from lo l <= x.
Proof.
  revert lo. induction l as [|n r IH]; intros lo Hlo H W; cbn [end_from]; [exact Hlo|].
  destruct W as (_ & _ & W). apply IH; [apply H; left; reflexivity| intros m Hm; apply H; right; exact Hm| exact W].
Qed.

(* every later node starts at or after the end of an earlier one *)
Lemma wf_from_later lo x r : wf_from lo (x :: r) ->
  forall y, In y r -> n_end x <= n_off y /\ node_ok y.
Proof.
  cbn [wf_from]. intros (_ & _ & W) y Hy. destruct (wf_from_In _ _ _ W Hy) as (A & B & _). auto.
Qed.

Lemma wf_from_split lo a x b : wf_from lo (a ++ x :: b) ->
  (forall y, In y a -> n_end y <= n_off x /\ node_ok y /\ lo <= n_off y) /\
  node_ok x /\ lo <= n_off x /\
  (forall y, In y b -> n_end x <= n_off y /\ node_ok y).
Proof.
  revert lo. induction a as [|w a IH]; intros lo; cbn [app].
  - intros W. pose proof (wf_from_later _ _ _ W) as L. destruct W as (W1 & W2 & W3).
    repeat split; try assumption; try apply W2. intros y [].
  - intros W. pose proof (wf_from_later _ _ _ W) as L. destruct W as (W1 & W2 & W3).
    destruct (IH _ W3) as (I1 & I2 & I3 & I4).
    assert (Hw : n_off w < n_end w) by (destruct W2 as (_ & W2); unfold n_end; lia).
    repeat split; try assumption; try apply I2; try lia.
    intros y [<-|Hy].
    + repeat split; try apply W2; try lia.
      destruct (L x) as (Lx & _); [apply in_or_app; right; left; reflexivity| exact Lx].
    + destruct (I1 y Hy) as (J1 & J2 & J3). repeat split; try assumption; try apply J2; lia.
Qed.

(* ---------- content ---------- *)
Lemma content_some_in l z b : content l z = Some b ->
  exists n, In n l /\ inside n z /\ nthN (Z.to_N (z - n_off n)) (n_data n) = Some b.
Proof.
  induction l as [|n r IH]; cbn [content]; [discriminate|].
  destruct ((n_off n <=? z) && (z <? n_end n)) eqn:E.
  - intros H. exists n. split; [left; reflexivity|]. split; [unfold inside; lia| exact H].
  - intros H. destruct (IH H) as (m & Hm & Hi & Hb). exists m. split; [right; exact Hm| auto].
Qed.

Lemma content_in lo l n z : wf_from lo l -> In n l -> inside n z ->
  content l z = nthN (Z.to_N (z - n_off n)) (n_data n).
Proof.
  revert lo. induction l as [|x r IH]; intros lo W Hin Hz; [destruct Hin|].
  cbn [content]. destruct Hin as [<-|Hin].
  - unfold inside in Hz. replace ((n_off x <=? z) && (z <? n_end x)) with true by lia. reflexivity.
  - destruct (wf_from_later _ _ _ W n Hin) as (Hl & _). unfold inside in Hz.
    destruct W as (_ & (_ & Hx) & W).
    replace ((n_off x <=? z) && (z <? n_end x)) with false by lia. apply (IH _ W Hin). exact Hz.
Qed.

Lemma content_none l z : (forall n, In n l -> ~ inside n z) -> content l z = None.
Proof.
  induction l as [|x r IH]; intros H; cbn [content]; [reflexivity|].
  assert (Hx : ~ inside x z) by (apply H; left; reflexivity). unfold inside in Hx.
  replace ((n_off x <=? z) && (z <? n_end x)) with false by lia. apply IH. intros n Hn. apply H. right. exact Hn.
Qed.

Lemma node_byte n z : node_ok n -> inside n z -> exists b, nthN (Z.to_N (z - n_off n)) (n_data n) = Some b.
Proof.
  intros (Hl & Hp) Hz. apply nthN_some. unfold inside, n_end, n_len in *. lia.
Qed.

(* present = some node contains the offset *)
Lemma content_present lo l z : wf_from lo l ->
  (content l z <> None <-> exists n, In n l /\ inside n z).
Proof.
  intros W. split.
  - destruct (content l z) as [b|] eqn:E; [|congruence]. intros _.
    destruct (content_some_in _ _ _ E) as (n & Hn & Hi & _). exists n. auto.
  - intros (n & Hn & Hi). rewrite (content_in _ _ _ _ W Hn Hi).
    destruct (wf_from_In _ _ _ W Hn) as (_ & Hok & _).
    destruct (node_byte n z Hok Hi) as (b & ->). discriminate.
Qed.

Lemma content_absent lo l z : wf_from lo l ->
  (content l z = None <-> forall n, In n l -> ~ inside n z).
Proof.
  intros W. split.
  - intros E n Hn Hi. apply (proj2 (content_present _ _ z W)); [exists n; auto| exact E].
  - apply content_none.
Qed.

Lemma content_below lo l z : wf_from lo l -> z < lo -> content l z = None.
Proof.
  intros W Hz. apply content_none. intros n Hn Hi. destruct (wf_from_In _ _ _ W Hn) as (H & _). unfold inside in Hi. lia.
Qed.

Lemma content_beyond lo l z : wf_from lo l -> end_from lo l <= z -> content l z = None.
Proof.
  intros W Hz. apply content_none. intros n Hn Hi. destruct (wf_from_In _ _ _ W Hn) as (_ & _ & H). unfold inside in Hi. lia.
Qed.
