(* AdversarialHttpProofs.v -- C09: outcome trichotomies for adversarial HTTP byte streams, composed from the proved
   theorems about the parser models of C21/C22/C62 (ReqparseModel), C23 (RespparseModel) and C24 (ChunkedModel).
   Kept apart from AdversarialProofs.v (C39) so that the datagram-decoder development does not depend on those models.
   The models are imported, never edited. *)
Require Import SquidV.Bytes SquidV.TokModel SquidV.Incremental SquidV.ReqparseModel SquidV.ReqparseProofs.
Require Import SquidV.gen.CharSets_gen SquidV.gen.ReqTabs_gen.
Local Open Scope N_scope.

(* what the client side can do with a request byte stream, whatever the bytes and however they are cut *)
Definition request_outcome_ok (limit : N) (input : bytes) (o : outcome) : Prop :=
  match o with
  | Done f rest =>
      (* accepted: tolerated empty lines ++ request line ++ LF ++ header block ++ unconsumed rest IS the input *)
      exists lead line block,
        input = lead ++ line ++ [10] ++ block ++ rest /\ lenN line < limit /\
        (if f_http f && (f_major f =? 1)
         then lenN (f_mimg f) + lenN (f_uri f) + req_fls_extra + lenN block < limit else block = [])
  | Bad (c, _) => c = rq_sc_bad_request \/ c = rq_sc_uri_too_long \/ c = rq_sc_fields_too_large
  | More _ keep => lenN keep < limit
  end.

Lemma request_stream_trichotomy relaxed limit : req_max_method + 2 <= limit ->
  forall segs, segs <> [] -> lenN (concat segs) <= npos ->
  request_outcome_ok limit (concat segs) (parse_segments relaxed limit segs).
Proof.
  intros HL segs Hne Hfit. unfold request_outcome_ok.
  destruct (parse_segments relaxed limit segs) as [f rest | [c f] | s keep] eqn:E.
  - destruct (accepted_segments_within_limits relaxed limit HL segs f rest Hne Hfit E)
      as (lead & line & block & A & _ & _ & B & C).
    exists lead, line, block. split; [exact A | split; [exact B | exact C]].
  - exact (rejected_segments_codes relaxed limit HL segs c f Hne Hfit E).
  - exact (waiting_segments_below_limit relaxed limit HL segs s keep Hne Hfit E).
Qed.

Definition reply_decision_ok (limit fls : N) (buf : bytes) (d : resp_head) : Prop :=
  match d with
  | RHrelay n => fls + n < limit /\ 0 < n /\ n <= lenN buf
  | RHtoobig => True
  | RHmore => lenN buf + fls < limit
  end.

Lemma reply_head_trichotomy limit fls buf : reply_decision_ok limit fls buf (resp_head_decision limit fls buf).
Proof.
  unfold reply_decision_ok. destruct (resp_head_decision limit fls buf) as [n | |] eqn:E.
  - exact (resp_relay_within_limit limit fls buf n E).
  - exact I.
  - destruct (resp_decision_stable limit fls buf []) as (_ & _ & H). exact (H E).
Qed.
