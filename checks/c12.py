"""C12: stale responses are not served without revalidation (end to end through the real squid, scripted clock)."""
import base64, calendar, json, os, random, struct, time
from vlib import std, lab, common, hbuild, recipes, corr

PID = "C12"
META = {
    "text": "Theorems (Properties_C12.v, 11, closed under the global context) about the transcribed decision code "
            "(hdrExpirationTime, timestampsSet, refreshStaleness, refreshCheck, refreshIsCachable, the cacheHit and "
            "haveParsedReplyHeaders dispatch), for ALL replies, times, requests, response delays and ALL heuristic factors: "
            "the stored expiry never exceeds receipt + explicit lifetime (s-maxage, else max-age, else Expires-Date; 0 for an "
            "unparsable Expires) and is never negative; once that instant has passed a request without max-stale is never answered "
            "from the cache under any configuration without override-expire/offline_mode (per decision and, by induction with "
            "the store invariant, at every step of every request history on a URL); stale must-revalidate / proxy-revalidate "
            "responses are never served, max-stale or not; Cache-Control no-cache / max-age=0 requests always reach the origin "
            "(PARTIAL for max-age=0: not when the cached reply is immutable - REFUTED at full strength, known finding, deliberate "
            "per RFC 8246); refreshCheck answers 'fresh' only in an explicit list of situations; conversely a plain request before "
            "the stored expiry is a hit. Remaining hypotheses of the positive theorems: the property's own exceptions (max-stale, "
            "override/offline configuration), the parser invariant that a recorded max-age is >= 0, and now + min-fresh < 2^31. "
            "Two earlier counterexamples (negative computed expiry read as 'no expiry'; unparsable Expires with a Date older than "
            "24 h) are repaired in /repo and are now regression cases. Tie: reason codes, the implicit default rule and 600 "
            "lm-factor products regenerated from refresh.cc; the default directive values read back from the running proxy's "
            "cache manager; Squid's reply parser + hdrExpirationTime compiled from the working tree (harness) against the model; "
            "the extracted model diffed against the real squid (built from the working tree) on generated request histories "
            "under a clock scripted to the exact second, also under two override configurations.",
    "note": "partial: the theorems are about the transcribed functions (RefreshModel.v); that the event-driven proxy applies exactly "
            "these decisions (store lookup, cacheHit, processExpired, timestampsSet on every fetch, replacement of the cached entry "
            "on each origin contact) rests on the end-to-end correspondence (forward-proxy GET, 200 replies, memory cache, default "
            "refresh rules). Not modelled: Vary, negative caching, collapsed forwarding, stale-if-error, 304 replies to revalidation, "
            "request no-store, ICP/HTCP. Header parsing of Cache-Control/Date/Expires is outside (C27/C29): scenarios send well-formed "
            "values. refreshStaleness' narrowing of time_t differences to int is modelled; theorems assume now + min-fresh < 2^31. "
            "Trusted: Coq kernel, extraction, gen/gen_refresh.cc, lab/shim_ftime.c (frozen LD_PRELOAD clock), vlib/lab.py stubs.",
    "technique": "Coq proof (one case analysis of the transcribed refreshCheck tree characterising every 'fresh' answer, linear integer "
                 "arithmetic over Z for timestampsSet/hdrExpirationTime, induction over request histories for the store invariant, "
                 "vm_compute witnesses) + constants regenerated from refresh.cc + end-to-end differential correspondence of the "
                 "extracted model against the running squid under a scripted clock + independent oracle",
}

T_BASE = 1790000000          # scenario start times are spread above this (2026-09-21)
ANY = 2147483647

# proxy configurations: squid.conf lines, and the same configuration as ml/run_refresh.ml's 17 integers
#   min,max,rule max-stale, refresh-ims,store-stale,override-expire,override-lastmod,reload-into-ims,ignore-reload,
#   ignore-no-store,ignore-private, max_stale,minimum_expiry_time,refresh_all_ims,reload_into_ims,offline_mode,nocache-hack
# "default" is the subject of the property; B and C exercise the configured-override branches of refreshCheck in the
# correspondence only (the oracle does not apply to them: they are the property's "configured overrides" exception).
CONFIGS = {
    "default": ("", "default"),
    "B": ("refresh_pattern . 2 20% 4320 override-expire override-lastmod ignore-reload max-stale=500\n",
          "120,259200,500,0,0,1,1,0,1,0,0,604800,60,0,0,0,1"),
    "C": ("refresh_pattern . 1 20% 60 reload-into-ims\nminimum_expiry_time 10 seconds\nmax_stale 300 seconds\n",
          "60,3600,-1,0,0,0,0,1,0,0,0,300,10,0,0,0,1"),
}


# ------------------------------------------------------------------ scripted clock
class FrozenClock:
    """squid's gettimeofday/time/clock_gettime(CLOCK_REALTIME) return exactly the value written here (lab/shim_ftime.c)"""

    def __init__(self, L):
        self.path = os.path.join(L.dir, "fclock")
        with open(self.path, "wb") as f:
            f.write(struct.pack("q", 0))
        os.chmod(self.path, 0o644)
        self.so = L.shim("ftime")
        self.t = 0

    def env(self):
        return {"LD_PRELOAD": self.so, "VERIF_TIME_FILE": self.path}

    def set(self, t):
        self.t = int(t)
        with open(self.path, "r+b") as f:
            f.write(struct.pack("q", self.t))


def http_date(t):
    return time.strftime("%a, %d %b %Y %H:%M:%S GMT", time.gmtime(t))


def parse_date(v):
    try:
        return calendar.timegm(time.strptime(v, "%a, %d %b %Y %H:%M:%S GMT"))
    except ValueError:
        return None


# ------------------------------------------------------------------ reply recipes
# A recipe describes the origin's 200 reply relative to the arrival time `now`:
#   date:    None (no Date header) | skew (Date = now + skew)
#   smaxage, maxage: None | N
#   expires: None | ["rel", E] (Expires = (Date sent, else now) + E) | ["abs", epoch seconds] | ["bad", text]
#   age:     None | N  (Age header)
#   lm:      None | ["rel", M] (Last-Modified = now - M) | ["abs", epoch seconds]
#   cc:      list of valueless reply directives (must-revalidate proxy-revalidate no-cache private no-store immutable public)
#            or 'no-cache="set-cookie"'
#   pragma:  bool (Pragma: no-cache);  etag: None | "strong" | "weak";  body: text
def reply_headers(rep, now):
    hs = []
    date_sent = None
    if rep.get("date") is not None:
        date_sent = now + rep["date"]
        hs.append(["Date", http_date(date_sent)])
    cc = []
    if rep.get("smaxage") is not None: cc.append("s-maxage=%d" % rep["smaxage"])
    if rep.get("maxage") is not None: cc.append("max-age=%d" % rep["maxage"])
    cc += rep.get("cc", [])
    if cc:
        hs.append(["Cache-Control", ", ".join(cc)])
    ex = rep.get("expires")
    if ex:
        if ex[0] == "rel": hs.append(["Expires", http_date((date_sent if date_sent is not None else now) + ex[1])])
        elif ex[0] == "abs": hs.append(["Expires", http_date(ex[1])])
        else: hs.append(["Expires", ex[1]])
    if rep.get("age") is not None: hs.append(["Age", str(rep["age"])])
    lm = rep.get("lm")
    if lm:
        hs.append(["Last-Modified", http_date(now - lm[1] if lm[0] == "rel" else lm[1])])
    if rep.get("pragma"): hs.append(["Pragma", "no-cache"])
    if rep.get("etag"): hs.append(["ETag", ('"v1"' if rep["etag"] == "strong" else 'W/"v1"')])
    return hs


def reply_parsed(rep, now):
    """the 18 integers of ml/run_refresh.ml's REPLY: what Squid's header readers make of reply_headers(rep, now)"""
    date_sent = now + rep["date"] if rep.get("date") is not None else None
    cc = rep.get("cc", [])
    has_cc = bool(cc) or rep.get("smaxage") is not None or rep.get("maxage") is not None
    ex = rep.get("expires")
    if not ex: has_exp, exph = 0, -1
    elif ex[0] == "rel": has_exp, exph = 1, (date_sent if date_sent is not None else now) + ex[1]
    elif ex[0] == "abs": has_exp, exph = 1, ex[1]
    else: has_exp, exph = 1, -1
    lm = rep.get("lm")
    lmv = -1 if not lm else (now - lm[1] if lm[0] == "rel" else lm[1])
    f = lambda name: 1 if name in cc else 0
    return [date_sent if date_sent is not None else -1, int(has_cc),
            rep["smaxage"] if rep.get("smaxage") is not None else -1,
            rep["maxage"] if rep.get("maxage") is not None else -1,
            has_exp, exph, rep["age"] if rep.get("age") is not None else -1, lmv,
            f("must-revalidate"), f("proxy-revalidate"), f("no-cache"), f('no-cache="set-cookie"'), f("private"),
            f("no-store"), f("immutable"), int(bool(rep.get("pragma"))), int(rep.get("etag") == "strong"),
            len(rep.get("body", "body"))]


# A request step: dt (seconds after the scenario's t0), rep (index of the recipe the origin uses if contacted),
#   cc: list of request directives ("no-cache", "max-age=N", "max-stale", "max-stale=N", "min-fresh=N", "only-if-cached"),
#   pragma: bool
def request_headers(st):
    hs = []
    if st.get("cc"): hs.append(("Cache-Control", ", ".join(st["cc"])))
    if st.get("pragma"): hs.append(("Pragma", "no-cache"))
    return hs


def cc_value(cc, name):
    for d in cc:
        if d == name: return True
        if d.startswith(name + "="): return int(d.split("=", 1)[1])
    return None


def request_parsed(st):
    cc = st.get("cc", [])
    ma, ms, mf = cc_value(cc, "max-age"), cc_value(cc, "max-stale"), cc_value(cc, "min-fresh")
    return [0, int(bool(cc)), int("no-cache" in cc), -1 if ma is None else ma,
            -1 if ms is None else (ANY if ms is True else ms), -1 if mf is None else mf,
            int("only-if-cached" in cc), int(bool(st.get("pragma"))), -1, 0, 0]


def response_head(rep, now):
    body = rep.get("body", "body")
    h = "HTTP/1.1 200 OK\r\n" + "".join("%s: %s\r\n" % (n, v) for n, v in reply_headers(rep, now))
    return (h + "Content-Length: %d\r\n\r\n" % len(body)).encode("latin1")


def to_case(s):
    if s.get("kind") == "config":
        return "refresh.config"
    if s.get("kind") == "parse":
        return "refresh.parse %d %s %s" % (s["now"], response_head(s["rep"], s["now"]).hex(),
                                           ",".join(str(x) for x in reply_parsed(s["rep"], s["now"])))
    toks = []
    for st in s["steps"]:
        now = s["t0"] + st["dt"]
        toks.append(",".join(str(x) for x in [now, 0] + request_parsed(st) + reply_parsed(s["reps"][st["rep"]], now)))
    return "refresh.hist %s %s" % (CONFIGS[s.get("cfg", "default")][1], " ".join(toks))


# ------------------------------------------------------------------ generation
LIFE = [0, 1, 2, 30, 59, 60, 61, 100, 300, 3600, 86400]
SKEW = [1, -1, 2, -2, 5, -5, 60, -60, 3600, -3600, -86399, -86400, -86401, -100000, 100000]


def gen_reply(rng):
    rep = {"date": 0}
    k = rng.random()
    L = rng.choice(LIFE) if rng.random() < 0.7 else rng.randrange(0, 100000)
    src = rng.choice(["maxage", "maxage", "smaxage", "expires", "expires", "maxage+expires", "smaxage+maxage", "none", "none-lm",
                      "expires-epoch", "expires-bad"])
    if src == "maxage": rep["maxage"] = L
    elif src == "smaxage": rep["smaxage"] = L
    elif src == "expires": rep["expires"] = ["rel", L if rng.random() < 0.9 else -L]
    elif src == "maxage+expires":
        rep["maxage"] = L; rep["expires"] = ["rel", rng.choice(LIFE)]
    elif src == "smaxage+maxage":
        rep["smaxage"] = L; rep["maxage"] = rng.choice(LIFE)
    elif src == "expires-epoch": rep["expires"] = ["abs", rng.choice([0, 1, 2, 10, 86400])]
    elif src == "expires-bad": rep["expires"] = ["bad", rng.choice(["0", "-1", "now"])]
    r = rng.random()
    if r < 0.12: rep["date"] = None
    elif r < 0.45: rep["date"] = rng.choice(SKEW)
    if rng.random() < 0.2:
        rep["age"] = rng.choice([0, 1, 5, 60, max(L - 1, 0), L, L + 1, 100000])
    if src == "none-lm" or rng.random() < 0.35:
        rep["lm"] = ["rel", rng.choice([1, 10, 100, 10000, 1000000, 100000000])]
    cc = []
    for name, p in (("must-revalidate", 0.15), ("proxy-revalidate", 0.05), ("no-cache", 0.04), ("private", 0.03),
                    ("no-store", 0.03), ("immutable", 0.07), ("public", 0.1), ('no-cache="set-cookie"', 0.02)):
        if rng.random() < p and not (name.startswith("no-cache") and any(c.startswith("no-cache") for c in cc)):
            cc.append(name)
    if cc: rep["cc"] = cc
    if not cc and "maxage" not in rep and "smaxage" not in rep and rng.random() < 0.05: rep["pragma"] = True
    if rng.random() < 0.3: rep["etag"] = rng.choice(["strong", "strong", "weak"])
    rep["body"] = "" if rng.random() < 0.05 else "body"
    return rep, L


def gen_request(rng, L, elapsed):
    st = {}
    if rng.random() < 0.5:
        return st
    near = lambda v: max(0, v + rng.choice([-2, -1, 0, 0, 1, 2]))
    cc = []
    for _ in range(rng.choice([1, 1, 1, 2])):
        k = rng.random()
        if k < 0.16: d = "max-age=0"
        elif k < 0.28: d = "no-cache"
        elif k < 0.44: d = "max-age=%d" % near(elapsed)
        elif k < 0.54: d = "max-stale"
        elif k < 0.72: d = "max-stale=%d" % near(max(elapsed - L, 0))
        elif k < 0.86: d = "min-fresh=%d" % near(max(L - elapsed, 0))
        elif k < 0.92: d = "only-if-cached"
        else: d = None
        if d and not any(c.split("=")[0] == d.split("=")[0] for c in cc):
            cc.append(d)
    if cc: st["cc"] = cc
    elif rng.random() < 0.6: st["pragma"] = True
    return st


def gen_one(rng, k):
    cfg = "default" if k % 5 < 3 else ("B" if k % 5 == 3 else "C")
    rep, L = gen_reply(rng)
    if cfg != "default" and rng.random() < 0.5:
        L = rng.choice([0, 30, 59, 60, 61, 100, 119, 120, 121])
        for key in ("maxage", "smaxage"):
            if key in rep: rep[key] = L
        if rep.get("expires") and rep["expires"][0] == "rel": rep["expires"] = ["rel", L]
    reps = [rep]
    if rng.random() < 0.12:
        reps.append(gen_reply(rng)[0])
    steps = [{"dt": 0, "rep": 0}]
    t = 0
    last_contact = 0
    for _ in range(rng.choice([1, 2, 2, 3, 3, 4])):
        # effective expiry of what is (probably) cached, relative to the last contact
        X = L
        if rep.get("date") is not None and -86400 <= rep["date"] < 0: X = L + rep["date"]
        if rep.get("age") is not None: X = min(X, L - rep["age"])
        X = max(X, 0)
        cand = [X - 2, X - 1, X - 1, X, X, X + 1, X + 2, X // 2, 2 * X + 10, X + 61, 0, 1]
        if cfg == "B": cand += [119, 120, 121, X + 499, X + 500, X + 501]
        if cfg == "C": cand += [59, 60, 61, X + 299, X + 300, X + 301]
        target = last_contact + rng.choice(cand)
        t = max(t, target) if rng.random() < 0.9 else t + rng.randrange(0, 3)
        st = gen_request(rng, X, t - last_contact)
        st["dt"] = t
        st["rep"] = rng.randrange(len(reps))
        steps.append(st)
        if t - last_contact >= X or "no-cache" in st.get("cc", []) or "max-age=0" in st.get("cc", []):
            last_contact = t
    out = {"t0": T_BASE + 200000 * k + rng.randrange(0, 100000), "reps": reps, "steps": steps}
    if cfg != "default": out["cfg"] = cfg
    return out


def gen_scenarios(rng, n):
    hist = [gen_one(rng, k) for k in range(n)]
    # unit level: the same reply recipes through Squid's own reply parser + HttpReply::hdrExpirationTime (harness/h_refresh.cc)
    parse = [{"kind": "parse", "now": T_BASE + rng.randrange(0, 10 ** 8), "rep": gen_reply(rng)[0]} for _ in range(2 * n)]
    return [{"kind": "config"}] + hist + parse


# ------------------------------------------------------------------ implementation side
_state = {}


def _squid(L, cfg):
    if "ck" not in _state:
        ck = FrozenClock(L)
        ck.set(T_BASE)
        _state["ck"] = ck

        def hook(rec, spec):
            cur = _state.get("cur")
            if not cur or rec["rid"] != cur[0]:
                return {"status": 500, "body": "unexpected"}
            rep = cur[1]
            return {"headers": reply_headers(rep, ck.t), "nodate": True, "body": rep.get("body", "body")}

        _state["org"] = L.origin(hook=hook)
        _state["sq"] = {}
        _state["n"] = 0
    sq = _state["sq"].get(cfg)
    if sq is None or not sq.alive():
        # "cachemgr_passwd none config" only opens the cache manager's config report
        sq = L.squid(env=_state["ck"].env(), extra_conf="cachemgr_passwd none config\n" + CONFIGS[cfg][0])
        _state["sq"][cfg] = sq
    return sq


def mgr_config(sq):
    """the directive values the running proxy reports (cache manager 'config' action)"""
    r, raw = lab.get(sq.port, "http://verif.test:%d/squid-internal-mgr/config" % sq.port)
    if r is None or r.status != 200:
        return "config unavailable status=%s" % (r.status if r else None)
    vals = {"refresh_pattern_lines": 0}
    for line in r.body.decode("latin1").splitlines():
        w = line.split()
        if not w: continue
        if w[0] == "refresh_pattern": vals["refresh_pattern_lines"] += 1
        elif w[0] in ("max_stale", "minimum_expiry_time", "negative_ttl") and len(w) >= 2:
            vals[w[0]] = w[1]
        elif w[0] in ("refresh_all_ims", "reload_into_ims", "offline_mode", "vary_ignore_expire", "collapsed_forwarding") and len(w) >= 2:
            vals[w[0]] = {"on": "1", "off": "0"}.get(w[1], w[1])
    return "config " + " ".join("%s=%s" % (k, vals.get(k, "?")) for k in
                                ("max_stale", "minimum_expiry_time", "refresh_all_ims", "reload_into_ims", "offline_mode",
                                 "negative_ttl", "vary_ignore_expire", "collapsed_forwarding", "refresh_pattern_lines"))


def run_one(L, s):
    sq = _squid(L, s.get("cfg", "default"))
    org, ck = _state["org"], _state["ck"]
    if s.get("kind") == "config":
        return mgr_config(sq)
    _state["n"] += 1
    rid = "h%d" % _state["n"]
    url = org.url({}, rid)
    out = []
    for st in s["steps"]:
        ck.set(s["t0"] + st["dt"])
        _state["cur"] = (rid, s["reps"][st["rep"]])
        before = len(org.arrivals(rid))
        r, raw = lab.get(sq.port, url, headers=request_headers(st))
        arr = org.arrivals(rid)[before:]
        if r is None:
            out.append("noreply")
        elif len(arr) > 1:
            out.append("multi:%d" % len(arr))
        elif len(arr) == 1:
            h = {n.lower(): v for n, v in arr[0]["headers"]}
            if "if-modified-since" in h or "if-none-match" in h:
                ims = parse_date(h.get("if-modified-since", ""))
                out.append("reval:%s:%d" % ("?" if ims is None else ims, 1 if "if-none-match" in h else 0))
            else:
                out.append("miss")
            if r.status != 200:
                out[-1] += "!%d" % r.status
        elif r.status == 200:
            out.append("hit:%s" % (r.get("Age") if r.get("Age") is not None else "-"))
        elif r.status == 504:
            out.append("oic")
        else:
            out.append("status:%d" % r.status)
    _state["cur"] = None
    return " ".join(out)


HLINK = [x for x in recipes.HTTPREPLY if x not in ("SquidConfig.o", "tests/stub_libtime.o", "tests/stub_ETag.o")] + \
        ["ETag.o", "time/libtime.la"]
HFLAGS = ["-O1", "-g", "-fsanitize=undefined", "-fno-sanitize=vptr", "-fno-sanitize-recover=all"]


def harness():
    return hbuild.build("h_refresh", "h_refresh.cc", fresh=["src/HttpReply.cc", "src/HttpHdrCc.cc"], link=HLINK, sanitize=None,
                        flags=HFLAGS, syslibs=["-fsanitize=undefined"] + hbuild.SYSLIBS)


def prebuild():
    from vlib import tables, coq
    tables.regenerate(["refresh"])
    coq.build_runner("refresh")
    harness()


def run_impl(L, scenarios):
    obs = [None] * len(scenarios)
    unit = [i for i, s in enumerate(scenarios) if s.get("kind") == "parse"]
    if unit:
        try:
            out = corr.run_lines(harness(), [to_case(scenarios[i]) for i in unit])
        except hbuild.BuildError as ex:
            out = ["harness-build-failed " + " ".join(str(ex).split())[-300:]] * len(unit)
        for i, o in zip(unit, out):
            obs[i] = o
    scenarios = [None if s.get("kind") == "parse" else s for s in scenarios]
    return _run_lab_part(L, scenarios, obs)


def _run_lab_part(L, scenarios, obs):
    order = sorted((i for i in range(len(scenarios)) if scenarios[i] is not None), key=lambda i: scenarios[i].get("t0", 0))
    for i in order:     # sequential: all scenarios share the scripted clock
        obs[i] = run_one(L, scenarios[i])
    return obs


# ------------------------------------------------------------------ the property, on what squid did
def explicit_lifetime(rep, recv):
    """the reply's explicit freshness lifetime in seconds (s-maxage, else max-age, else Expires - Date), or None"""
    if rep.get("smaxage") is not None: return rep["smaxage"]
    if rep.get("maxage") is not None: return rep["maxage"]
    ex = rep.get("expires")
    if not ex: return None
    date = recv + rep["date"] if rep.get("date") is not None else recv     # no Date: the time of receipt stands in
    if ex[0] == "rel": return ex[1] if rep.get("date") is not None else (recv + ex[1]) - date
    if ex[0] == "abs": return ex[1] - date
    return 0                                                                 # unparsable Expires = already expired


def defect_tag(rep):
    """names two formerly known ways a reply's explicit lifetime got lost (both repaired in /repo; a reappearance is a
    violation): an Expires date in the first days of the epoch together with a Date ahead of the proxy's clock or an Age
    header (the computed expiry went negative), and an unparsable Expires together with a Date more than 24 h old"""
    ex = rep.get("expires")
    if ex and rep.get("smaxage") is None and rep.get("maxage") is None:
        if ex[0] == "bad" and rep.get("date") is not None and rep["date"] < -86400:
            return "unparsable-expires-old-date"
        if ex[0] == "abs" and ex[1] < 86400 * 2 and ((rep.get("date") or 0) > 0 or rep.get("age") is not None):
            return "negative-expiry"
    return "other"


def oracle(s, obs):
    """With default refresh rules: (1) once the explicit lifetime of the response Squid last obtained has passed (counted
    from the moment Squid received it, the most lenient reading), a request without max-stale is never answered from the
    cache without contacting the origin; (2) a request with Cache-Control max-age=0 or no-cache always reaches the origin
    (or gets 504 under only-if-cached); (3) a response marked must-revalidate/proxy-revalidate whose lifetime has passed is
    never served without contact, max-stale or not."""
    if s.get("kind") == "config":
        if obs.startswith("config max_stale=") and obs.endswith("refresh_pattern_lines=0"):
            return None
        return ("oracle:not-default-config", "the proxy does not run with default refresh rules: " + obs)
    if s.get("kind") == "parse":
        # the expiry Squid derives from the header equals Date + explicit lifetime whenever both are expressible
        if not obs.startswith("parsed "):
            return ("oracle:reply-not-parsed", "Squid's reply parser failed on a well-formed reply: " + obs)
        rep, now = s["rep"], s["now"]
        got = int(obs.split()[2])
        L = explicit_lifetime(rep, now)
        ex = rep.get("expires")
        if L is not None and rep.get("date") is not None and not (ex and ex[0] == "bad" and rep.get("smaxage") is None
                                                                  and rep.get("maxage") is None):
            if got != now + rep["date"] + L:
                return ("oracle:header-expiry", "hdrExpirationTime gives %d for %s at %d; Date + lifetime = %d"
                        % (got, json.dumps(rep), now, now + rep["date"] + L))
        if ex and ex[0] == "bad" and rep.get("smaxage") is None and rep.get("maxage") is None:
            want = now + rep["date"] if rep.get("date") is not None else now
            if got != want:
                return ("oracle:header-expiry:unparsable-expires", "hdrExpirationTime gives %d for the unparsable Expires of %s at %d; "
                        "'expires immediately' means %d" % (got, json.dumps(rep), now, want))
        if L is None and got != -1:
            return ("oracle:header-expiry", "hdrExpirationTime gives %d for a reply without explicit lifetime %s" % (got, json.dumps(rep)))
        return None
    if s.get("cfg", "default") != "default":
        return None     # configured overrides: outside the property, correspondence only
    toks = obs.split()
    if len(toks) != len(s["steps"]) or any(t.split(":")[0] not in ("hit", "reval", "miss", "oic") or "!" in t for t in toks):
        return ("oracle:no-transaction", "a transaction did not complete as scripted: " + obs)
    # (recipe, time received) of the responses Squid may hold: the one obtained last, plus earlier ones whose Date is
    # later than that of the response obtained last - RFC 9111 section 4 makes the most recent response by Date the
    # one to use, and Squid ignores a validation reply that is older than the stored response (handleIMSReply).
    held = []

    def date_of(h):
        return h[1] + (h[0]["date"] if h[0].get("date") is not None else 0)

    for st, t in zip(s["steps"], toks):
        now = s["t0"] + st["dt"]
        kind = t.split(":")[0]
        cc = st.get("cc", [])
        if kind == "hit":
            if "no-cache" in cc or cc_value(cc, "max-age") == 0:
                imm = bool(held) and all("immutable" in h[0].get("cc", []) for h in held) and "no-cache" not in cc
                return ("oracle:reload-served-from-cache" + (":immutable" if imm else ":other"),
                        "request with Cache-Control: %s at t0+%d was answered from the cache without contacting the origin"
                        % (", ".join(cc), st["dt"]))
            verdicts = []
            for rep, recv in held:
                L = explicit_lifetime(rep, recv)
                v = None
                if L is not None and now >= recv + L:
                    rcc = rep.get("cc", [])
                    if "must-revalidate" in rcc or "proxy-revalidate" in rcc:
                        v = ("oracle:must-revalidate-stale-hit:" + defect_tag(rep),
                             "a must-revalidate response (%s) received at t0+%d with lifetime %d s was served at t0+%d without contact"
                             % (json.dumps(rep), recv - s["t0"], L, st["dt"]))
                    elif cc_value(cc, "max-stale") is None:
                        v = ("oracle:stale-hit:" + defect_tag(rep),
                             "response received at t0+%d with explicit lifetime %d s (%s) was served from the cache at t0+%d "
                             "(%d s after receipt) without contacting the origin and without max-stale"
                             % (recv - s["t0"], L, json.dumps(rep), st["dt"], now - recv))
                verdicts.append(v)
            if verdicts and all(v is not None for v in verdicts):     # stale whichever held response was used
                return verdicts[-1]
        elif kind in ("reval", "miss"):
            new = (s["reps"][st["rep"]], now)
            held = [h for h in held if date_of(h) > date_of(new)] + [new]
    return None


def kind_fn(s, o):
    if s.get("kind") == "config":
        return "config"
    if s.get("kind") == "parse":
        return "unit: reply parsing + hdrExpirationTime"
    if s.get("cfg"):
        return "override configuration " + s["cfg"]
    later = sorted(set(t.split(":")[0].split("!")[0] for t in o.split()[1:]))
    return "later requests: " + ("+".join(later) if later else "none")


def nontrivial_fn(s, o):
    if s.get("kind") == "parse":
        return explicit_lifetime(s["rep"], s["now"]) is not None
    return "hit" in o and ("reval" in o or o.count("miss") > 1)


def run(res, tier):
    res.rule = ("request histories against one URL: a reply recipe (explicit lifetime from s-maxage / max-age / Expires-Date, "
                "lifetimes 0..100000 s with 59/60/61 and 0/1/2 boundaries, Date skews +-1 s .. +-100000 s incl. the 24 h clamp "
                "boundary, missing Date, Age values around the lifetime, Last-Modified, must-/proxy-revalidate, no-cache, private, "
                "no-store, immutable, epoch and unparsable Expires, empty bodies), a storing request and 1-4 later requests at "
                "instants -2..+2 s around the computed expiry (and far from it) carrying none or some of max-age=0, no-cache, "
                "max-age=N, max-stale[=N], min-fresh=N, only-if-cached, Pragma: no-cache; driven through the real squid "
                "(default refresh rules) whose clock is scripted to the exact second; observed: per request whether the origin "
                "was contacted, whether conditionally and with which If-Modified-Since, and the Age of cache hits. "
                "non-trivial = at least one cache hit and one later origin contact in the history")
    res.trusted.append("lab/shim_ftime.c (LD_PRELOAD) makes squid's clock the scripted value; vlib/lab.py stubs; checks/c12.py "
                       "reply_parsed/request_parsed encode what Squid's header parsers read from the well-formed headers sent")
    try:
        std.run_lab(res, PID, tier, area="refresh", gens=["refresh"], gen_scenarios=gen_scenarios, run_impl=run_impl,
                    to_case=to_case, oracle=oracle, corr_name="RefreshModel (run_history) vs the running squid",
                    n_quick=220, n_thorough=6000, seed_salt=12, kind_fn=kind_fn, nontrivial_fn=nontrivial_fn)
    finally:
        for sq in _state.get("sq", {}).values():
            try:
                sq.kill()      # the frozen clock never reaches shutdown_lifetime
            except Exception:
                pass
        _state.clear()


def replay(d):
    """./verif replay evidence/replay/C12-*.json: runs the recorded scenario again (model prediction, real squid, oracle)"""
    from vlib import coq
    s = d.get("replay", {}).get("scenario")
    if not s:
        print(json.dumps(d, indent=1)[:4000])
        return 0
    print("scenario:", json.dumps(s))
    model = corr.run_lines(coq.build_runner("refresh"), [to_case(s)])[0]
    print("model   :", model)
    try:
        with lab.Lab(PID) as L:
            L.build()
            obs = run_impl(L, [s])[0]
    finally:
        for sq in _state.get("sq", {}).values():
            try:
                sq.kill()
            except Exception:
                pass
        _state.clear()
    print("squid   :", obs)
    v = oracle(s, obs)
    print("oracle  :", v if v else "property holds on this observation")
    return 1 if (v or obs != model) else 0
