"""C59: timed events fire in order and never after cancellation (src/event.cc, src/EventLoop.cc)."""
from vlib import std, hbuild

PID = "C59"
META = {
    "text": "Theorems (Properties_C59.v, closed under the global context) state for ALL histories of "
            "schedule / cancel / clock changes (forwards and backwards) / checkEvents / AsyncCall dispatch / "
            "EventLoop::runOnce / cbdata invalidation, over a line-by-line model of EventScheduler (sorted singly "
            "linked list, insert after the last entry with the same or an earlier time, the pointer-to-pointer "
            "cancel loop, timeRemaining with its round-up, the checkEvents do/while loop that stops after a heavy "
            "event) and of the checkEngine/dispatchCalls loop of EventLoop::runOnce: the queue is always ordered by "
            "(due time, scheduling sequence number); checkEvents dequeues only events whose due time has been "
            "reached, always a prefix of that order, the longest due prefix up to and including the first heavy "
            "event; every dequeued event is one created by an earlier schedule() with due time now+when (0 for "
            "when<=0); schedule() changes nothing but inserting the new event behind all events with the same or an "
            "earlier time; cancel(func,nullptr) removes exactly the queued events of func, cancel(func,arg) exactly "
            "the first queued match, every other event keeps its place; an event removed by cancel is never "
            "dequeued by any later operation; timeRemaining() is 0 iff the head is due, EVENT_IDLE iff the queue is "
            "empty and otherwise the remaining time rounded up to whole milliseconds (never less than the real "
            "distance); runOnce never needs more than len+2 rounds and never trips assert(event). The model is tied "
            "to the code by differential runs of the extracted model against src/event.cc and src/EventLoop.cc "
            "compiled from the working tree (UBSan), comparing after every operation its result, the dequeued "
            "events, the handlers run and the whole queue.",
    "note": "Trusted: Coq kernel, extraction, gen/gen_event.cc (EVENT_IDLE, EVENT_LOOP_TIMEOUT, INT_MAX), "
            "harness/h_event.cc (which supplies cbdataReferenceValid/lock counting, debug_trap and fatal instead of "
            "tests/stub_cbdata.o and stub_tools.o, and stores the sequence number in ev_entry::name). Times are "
            "integers in ticks of 1/1024 s, a grid on which the double arithmetic of event.cc is exact; rounding of "
            "other doubles is not modelled. The hand-written EventModel.v is validated against the code only on the "
            "generated histories. Known finding (by design, documented in event.h as 'cancel a scheduled but not "
            "dispatched event'): an event that checkEvents() has already turned into a queued AsyncCall still runs "
            "if it is cancelled before AsyncCallQueue::fire() reaches it (C59_cancelled_never_fires_refuted; the "
            "restriction to events still queued is C59_cancelled_never_fires_partial). Observation outside C59: an "
            "event due more than INT_MAX ms (24.8 days) ahead makes timeRemaining() convert an out-of-range double to "
            "int (undefined; 1 ms on x86-64, i.e. the loop polls every millisecond); the model marks it UNDEF and the "
            "generator stays below it.",
    "technique": "Coq proof (inductive invariant over all histories, per-operation refinement to filter / "
                 "first-match / sorted-insert specifications) + extracted-model differential correspondence",
}
FRESH = ["src/event.cc", "src/EventLoop.cc"]
LINK = ("tests/stub_SBuf.o tests/stub_cache_manager.o tests/stub_debug.o tests/stub_libmem.o tests/stub_libtime.o "
        "base/libbase.la ../compat/libcompatsquid.la").split()
IDLE = -1
LOOP_TIMEOUT = 1000


def impl(sanitize="ubsan"):
    return hbuild.build("h_event", "h_event.cc", fresh=FRESH, link=LINK, sanitize=sanitize)


def prebuild():
    impl()


# ---------------------------------------------------------------- generator
def gen_case(rng):
    t0 = rng.choice([0, 0, 5, 1000, 1024 * 1000, 1700000000 * 1024])
    now = t0
    nf = rng.choice([1, 2, 2, 3, 4])
    na = rng.choice([1, 2, 3, 4])
    whens = [0, 0, 1024, rng.choice([1, 2, 1023, 1025, 2048, 3000]), rng.randrange(0, 5000)]
    due = []       # due times of events scheduled so far (to aim the clock)
    ops = []
    n = rng.choice([2, 4, 6, 8, 12, 16, 24, 32, 48])
    sched = []     # (f, a) pairs scheduled so far
    while len(ops) < n:
        r = rng.random()
        if r < 0.36 or not sched:
            f = rng.randrange(nf)
            a = rng.choice([0] + list(range(1, na + 1)) * 3)
            q = rng.random()
            if q < 0.75:
                w = rng.choice(whens)
            elif q < 0.85:
                w = rng.choice([-1, -1024, -5])
            elif q < 0.95 and due:
                w = max(rng.choice(due) - now + rng.choice([-1, 0, 0, 1]), -3)     # tie with an existing event
            else:
                w = rng.choice([2000000000, 1999999999, 1 << 20])
            wt = rng.choice([0, 0, 0, 0, 1, 1, 2, -1])
            cb = rng.choice([0, 0, 1])
            ops.append("s:%d:%d:%d:%d:%d" % (f, a, w, wt, cb))
            sched.append((f, a))
            due.append(now + w if w > 0 else 0)
        elif r < 0.52:
            q = rng.random()
            if q < 0.55:
                f, a = rng.choice(sched)
            elif q < 0.85:
                f = rng.choice(sched)[0]; a = 0
            else:
                f = rng.randrange(nf + 1); a = rng.randrange(0, na + 2)
            ops.append("c:%d:%d" % (f, a))
        elif r < 0.66:
            q = rng.random()
            if q < 0.55 and due:
                now = max(rng.choice(due) + rng.choice([-1, 0, 0, 0, 1, 2]), 0)
                if now < t0 - 100000:
                    now = t0
            elif q < 0.85:
                now = now + rng.choice([1, 2, 512, 1024, 1024, 2048, 5000, 100000])
            else:
                now = max(now - rng.choice([1, 2, 1024, 5000]), 0)
            # stay where ceil(1000*diff) fits an int (the conversion is undefined beyond; see META note)
            now = max(now, max(due + [0]) - 2100000000)
            ops.append("t:%d" % now)
        elif r < 0.76:
            ops.append("k")
            if rng.random() < 0.8:
                ops.append("d")
        elif r < 0.79:
            ops.append("d")
        elif r < 0.90:
            ops.append("l")
        elif r < 0.94:
            ops.append("r")
        elif r < 0.97:
            ops.append("i:%d" % rng.randrange(0, na + 1))
        else:
            f, a = rng.choice(sched)
            ops.append("f:%d:%d" % (f, rng.choice([a, a, 0, rng.randrange(0, na + 1)])))
    if rng.random() < 0.7:
        ops += rng.choice([["l"], ["k", "d"], ["t:%d" % (now + 4000), "l", "l"]])
    return "ev.run %d %s" % (t0, " ".join(ops))


def gen_cases(rng, n):
    return [gen_case(rng) for _ in range(n)]


# ---------------------------------------------------------------- oracle
def ceil_ms(ticks):
    return -((-1000 * ticks) // 1024)


class Ref:
    """C59 stated without the linked list: a bag of live events keyed by sequence number; 'due order' is
    sorting by (due time, sequence number)."""

    def __init__(self, now):
        self.now = now
        self.live = {}      # id -> dict
        self.pend = []      # dequeued, not yet dispatched
        self.inv = set()
        self.n = 0

    def order(self):
        return sorted(self.live.values(), key=lambda e: (e["when"], e["id"]))

    def valid(self, a):
        return a == 0 or a not in self.inv

    def callable(self, e):
        return (not e["cb"]) or self.valid(e["a"])

    def heavy(self, e):
        return e["wt"] != 0 and self.callable(e)

    def remaining(self):
        o = self.order()
        if not o:
            return IDLE
        if o[0]["when"] <= self.now:
            return 0
        return max(1, ceil_ms(o[0]["when"] - self.now))

    def check(self):
        deq = []
        while True:
            o = self.order()
            if not o or o[0]["when"] > self.now:
                break
            e = o[0]
            del self.live[e["id"]]
            deq.append(e)
            if self.heavy(e):
                break
        self.pend += deq
        return self.remaining(), deq

    def dispatch(self):
        out = [e for e in self.pend if self.callable(e)]
        self.pend = []
        return out


def fmt_fired(es):
    return ",".join("%d.%d" % (e["f"], e["a"]) for e in es)


def oracle(case, out):
    if out.startswith("CRASH") or "EXC" in out or "ERR" in out or "BAD-" in out or "UNDEF" in out:
        return ("oracle:crash", "implementation crashed / threw / broke its own list: " + out[-200:])
    a = case.split()
    ops = a[2:]
    toks = out.split()
    if len(toks) != len(ops):
        return ("oracle:unparsable", "%d operations but %d answers" % (len(ops), len(toks)))
    R = Ref(int(a[1]))
    for n, (o, t) in enumerate(zip(ops, toks)):
        where = "op #%d `%s`" % (n + 1, o)
        try:
            res, _, qd = t.partition("[")
            queue = [int(x) for x in qd.rstrip("]").split(",") if x]
        except ValueError:
            return ("oracle:unparsable", where + ": unparsable answer " + t)
        f = o.split(":")
        sig = None
        if f[0] == "s":
            e = {"id": R.n, "f": int(f[1]), "a": int(f[2]), "wt": int(f[4]), "cb": f[5] == "1",
                 "when": R.now + int(f[3]) if int(f[3]) > 0 else 0}
            R.live[R.n] = e
            R.n += 1
            exp = "s%d" % e["id"]
        elif f[0] == "c":
            fn, arg = int(f[1]), int(f[2])
            if arg == 0:
                hit = [e for e in R.order() if e["f"] == fn]
                exp = "c"
            else:
                hit = [e for e in R.order() if e["f"] == fn and e["a"] == arg][:1]
                exp = "c" if hit else "cT"
            for e in hit:
                del R.live[e["id"]]
            # an event already dequeued (an AsyncCall now) cannot be cancelled any more: remember that the
            # caller asked for it
            for e in R.pend:
                if e["f"] == fn and (arg == 0 or (e["a"] == arg and not hit)):
                    e["cancelled_late"] = True
            sig = "cancel"
        elif f[0] == "t":
            R.now = int(f[1]); exp = "t"
        elif f[0] == "k":
            before = set(R.live)
            r, deq = R.check()
            exp = "k=%d:%s" % (r, ",".join(str(e["id"]) for e in deq))
            if res != exp:
                # name the broken clause of the property
                try:
                    got = [int(x) for x in res.split(":")[1].split(",") if x]
                except (ValueError, IndexError):
                    return ("oracle:unparsable", where + ": unparsable answer " + t)
                allev = dict((e["id"], e) for e in deq); allev.update(R.live)
                for i in got:
                    if i not in before:
                        return ("oracle:cancelled-or-unknown-fired", "%s: event %d was dequeued although it is not scheduled (cancelled or already fired)" % (where, i))
                    if allev[i]["when"] > R.now:
                        return ("oracle:early", "%s: event %d dequeued at %d before its due time %d" % (where, i, R.now, allev[i]["when"]))
                sig = "check-order"
        elif f[0] == "d":
            fired = R.dispatch()
            exp = "d=" + fmt_fired(fired)
            late = [e for e in fired if e.get("cancelled_late")]
            if late and res == exp:
                return ("oracle:cancel-after-dequeue",
                        "%s: handler %d.%d ran although cancel() was called for it after checkEvents() had dequeued it"
                        % (where, late[0]["f"], late[0]["a"]))
            sig = "dispatch"
        elif f[0] == "l":
            idle, delay, fired = True, LOOP_TIMEOUT, []
            for _ in range(len(R.live) + 3):
                r, deq = R.check()
                if r >= 0:
                    idle = False
                    delay = min(delay, r)
                if not R.pend:
                    break
                idle = False
                fired += R.dispatch()
            exp = "l=%d/%d:%s" % (1 if idle else 0, delay, fmt_fired(fired))
            sig = "loop"
        elif f[0] == "r":
            exp = "r=%d" % R.remaining(); sig = "remaining"
        elif f[0] == "i":
            R.inv.add(int(f[1])); exp = "i"
        elif f[0] == "f":
            exp = "f=%d" % (1 if any(e["f"] == int(f[1]) and e["a"] == int(f[2]) for e in R.live.values()) else 0)
            sig = "find"
        else:
            return ("oracle:unparsable", "unknown op " + o)
        if res != exp:
            return ("oracle:" + (sig or f[0]), "%s: answered `%s`, the property requires `%s`" % (where, res, exp))
        want = [e["id"] for e in R.order()]
        if queue != want:
            lost = [i for i in want if i not in queue]
            extra = [i for i in queue if i not in want]
            if extra:
                return ("oracle:queue-keeps-cancelled-or-fired", "%s: events %s are still queued but must be gone (queue %s, required %s)" % (where, extra, queue, want))
            if lost:
                return ("oracle:queue-lost-event", "%s: events %s disappeared from the queue (queue %s, required %s)" % (where, lost, queue, want))
            return ("oracle:queue-order", "%s: queue %s is not in (due time, scheduling order) order %s" % (where, queue, want))
    return None


def mutate(rng, case):
    a = case.split()
    ops = a[2:]
    if not ops:
        return case
    k = rng.randrange(len(ops))
    q = rng.random()
    if q < 0.3 and len(ops) > 1:
        del ops[k]
    elif q < 0.6:
        ops.insert(k, rng.choice(["k", "d", "l", "r", "c:0:0", "c:1:0", "c:0:1", "c:1:1"]))
    else:
        f = ops[k].split(":")
        if f[0] == "s":
            f[3] = str(rng.choice([0, 1, 1024, int(f[3]) + 1, max(int(f[3]) - 1, -1)]))
        elif f[0] == "c":
            f[2] = str(rng.choice([0, 1, 2]))
        elif f[0] == "t":
            f[1] = str(max(int(f[1]) + rng.choice([-1, 1, 1024]), 0))
        ops[k] = ":".join(f)
    return " ".join(a[:2] + ops)


def kind(case, out):
    ops = case.split()[2:]
    nfired = sum(len([x for x in t.split("[")[0].split(":")[1].split(",") if x]) for t in out.split()
                 if t.startswith(("k=", "l=")) and ":" in t)
    return "%s/%s/fired%s" % ("cancel-all" if any(o.startswith("c:") and o.endswith(":0") for o in ops)
                               else "cancel-one" if any(o.startswith("c:") for o in ops) else "no-cancel",
                               "cT" if "cT" in out else "ok", "0" if nfired == 0 else "1-2" if nfired < 3 else "3+")


def nontrivial(case, out):
    return case.count(" s:") >= 2 and any(t.startswith(("k=", "l=")) and t.split("[")[0].split(":")[1:] not in ([], [""])
                                          for t in out.split())


def run(res, tier):
    res.rule = ("random histories of 2..50 operations over 1-4 handler functions and 0-4 arguments (0 = nullptr): schedule "
                "(when in {<=0, equal to an existing due time, +-1 tick around it, random, 2e9 ticks}, weight 0 / non-zero, "
                "cbdata on/off), cancel (existing pair, func with nullptr, absent pair), clock moves aimed at due times +-1 "
                "tick, forwards and backwards, checkEvents with and without the following dispatch, EventLoop::runOnce, "
                "timeRemaining, cbdata invalidation, find; a case is non-trivial when at least two events were scheduled and "
                "at least one was dequeued")
    std.run_standard(res, PID, tier, area="event", build_impl=impl, gen_cases=gen_cases, oracle=oracle,
                     corr_name="EventModel vs src/event.cc, src/EventLoop.cc",
                     gens=["event"], n_quick=20000, n_thorough=400000, seed_salt=59, mutate=mutate,
                     # tests/stub_libmem.cc allocates 64 KB per pooled object: keep glibc from growing/trimming the heap each time
                     impl_env={"MALLOC_TRIM_THRESHOLD_": "268435456", "MALLOC_TOP_PAD_": "67108864"},
                     kind_fn=kind, nontrivial_fn=nontrivial)
