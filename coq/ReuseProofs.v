(* ReuseProofs.v — proofs for C11 (store / reuse decision). *)
Require Import SquidV.Bytes SquidV.HopModel SquidV.HopProofs SquidV.ReuseModel.
Require Import SquidV.gen.Reuse_gen SquidV.gen.ReuseCfg_gen.
Require Import ZifyBool ZifyN ZifyNat.
Local Open Scope N_scope.

(* ================================================================ specification vocabulary *)
(* an element of a Cache-Control list "is the directive d": it is d, or d followed by '=' (letter case ignored) *)
Definition is_directive (d item : bytes) : bool := ci_eqb item d || ci_prefix item (d ++ [61]).
Definition no_eq (d : bytes) : bool := forallb (fun c => negb (c =? 61)) d.

Definition d_no_store : bytes := [110;111;45;115;116;111;114;101].
Definition d_private : bytes := [112;114;105;118;97;116;101].
Definition d_public : bytes := [112;117;98;108;105;99].
Definition d_must_revalidate : bytes := [109;117;115;116;45;114;101;118;97;108;105;100;97;116;101].
Definition d_s_maxage : bytes := [115;45;109;97;120;97;103;101].
Definition d_no_cache : bytes := [110;111;45;99;97;99;104;101].

(* ================================================================ directive names *)
Lemma to_lower_61 c : (to_lower c =? to_lower 61) = (c =? 61).
Proof. unfold to_lower. destruct ((65 <=? c) && (c <=? 90)) eqn:E; cbn; lia. Qed.

Lemma ci_eqb_refl a : ci_eqb a a = true.
Proof. induction a as [|x a IH]; cbn [ci_eqb]; [reflexivity|]. rewrite N.eqb_refl, IH. reflexivity. Qed.

Lemma ci_eqb_sym a : forall b, ci_eqb a b = ci_eqb b a.
Proof.
  induction a as [|x a IH]; intros [|y b]; cbn [ci_eqb]; try reflexivity.
  rewrite (N.eqb_sym (to_lower x)), IH. reflexivity.
Qed.

Lemma ci_prefix_nil l : ci_prefix l [] = true.
Proof. destruct l; reflexivity. Qed.

Lemma find_eq_shift l : forall i, find_eq l i = match find_eq l 0 with Some k => Some (k + i) | None => None end.
Proof.
  induction l as [|c r IH]; intros i; cbn [find_eq]; [reflexivity|].
  destruct (c =? 61); [f_equal; lia|].
  rewrite (IH (i + 1)), (IH (0 + 1)). destruct (find_eq r 0); [f_equal; lia|reflexivity].
Qed.

(* the name part of an item that is the directive d (d without '=') matches d *)
Lemma directive_name_matches d : no_eq d = true -> forall item,
  is_directive d item = true -> ci_eqb (takeN (item_nlen item) item) d = true.
Proof.
  unfold is_directive, item_nlen.
  induction d as [|y d IH]; intros Hd item H.
  - destruct item as [|x item]; [reflexivity|].
    cbn [ci_eqb ci_prefix app orb] in H. cbn [find_eq].
    rewrite to_lower_61 in H. apply andb_prop in H. destruct H as [H _]. rewrite H. reflexivity.
  - cbn [no_eq forallb] in Hd. apply andb_prop in Hd. destruct Hd as [Hy Hd].
    destruct item as [|x item]; [cbn in H; discriminate|].
    cbn [ci_eqb ci_prefix app] in H.
    assert (Hx : (to_lower x =? to_lower y) = true /\ (ci_eqb item d || ci_prefix item (d ++ [61])) = true).
    { destruct (to_lower x =? to_lower y); cbn in H; [split; [reflexivity|exact H]|discriminate]. }
    destruct Hx as [Hxy Hrest].
    assert (Hx61 : (x =? 61) = false).
    { destruct (x =? 61) eqn:E; [|reflexivity]. apply N.eqb_eq in E. subst x.
      rewrite N.eqb_sym, to_lower_61 in Hxy. rewrite Hxy in Hy. discriminate. }
    cbn [find_eq]. rewrite Hx61. rewrite (find_eq_shift item (0 + 1)).
    specialize (IH Hd item Hrest).
    destruct (find_eq item 0) as [k|] eqn:Ek.
    + cbn [takeN]. replace (k + (0 + 1) =? 0) with false by lia.
      replace (N.pred (k + (0 + 1))) with k by lia. cbn [ci_eqb]. rewrite Hxy, IH. reflexivity.
    + cbn [takeN lenN]. replace (N.succ (lenN item) =? 0) with false by lia.
      rewrite N.pred_succ. cbn [ci_eqb]. rewrite Hxy, IH. reflexivity.
Qed.

Lemma cc_lookup_ci tbl a b : ci_eqb a b = true -> cc_lookup tbl a = cc_lookup tbl b.
Proof.
  intros H. induction tbl as [|[nm id] r IH]; cbn [cc_lookup]; [reflexivity|].
  rewrite (ci_eqb_trans_l a b nm H). now rewrite IH.
Qed.

Lemma directive_type d : no_eq d = true -> forall item,
  is_directive d item = true -> item_type item = cc_type_by_name d.
Proof.
  intros Hd item H. unfold item_type, cc_type_by_name. apply cc_lookup_ci.
  now apply directive_name_matches.
Qed.

(* conversely: an item whose type is that of a table name d is the directive d *)
Lemma takeN_prefix_directive d : forall item,
  ci_eqb (takeN (item_nlen item) item) d = true -> is_directive d item = true.
Proof.
  unfold is_directive, item_nlen.
  induction d as [|y d IH]; intros item H.
  - destruct item as [|x item]; [reflexivity|].
    cbn [find_eq] in H. cbn [ci_eqb ci_prefix app orb]. rewrite to_lower_61.
    destruct (x =? 61) eqn:E; [now rewrite ci_prefix_nil|].
    rewrite (find_eq_shift item (0 + 1)) in H.
    destruct (find_eq item 0) as [k|].
    + cbn [takeN] in H. replace (k + (0 + 1) =? 0) with false in H by lia. cbn in H. discriminate.
    + cbn [takeN lenN] in H. replace (N.succ (lenN item) =? 0) with false in H by lia. cbn in H. discriminate.
  - destruct item as [|x item]; [cbn in H; discriminate|].
    cbn [find_eq] in H.
    destruct (x =? 61) eqn:E.
    { cbn [takeN] in H. cbn in H. discriminate. }
    rewrite (find_eq_shift item (0 + 1)) in H.
    cbn [ci_eqb ci_prefix app].
    assert (G : (to_lower x =? to_lower y) = true /\
                ci_eqb (takeN (match find_eq item 0 with Some i => i | None => lenN item end) item) d = true).
    { destruct (find_eq item 0) as [k|].
      - cbn [takeN] in H. replace (k + (0 + 1) =? 0) with false in H by lia.
        replace (N.pred (k + (0 + 1))) with k in H by lia. cbn [ci_eqb] in H. now apply andb_prop in H.
      - cbn [takeN lenN] in H. replace (N.succ (lenN item) =? 0) with false in H by lia.
        rewrite N.pred_succ in H. cbn [ci_eqb] in H. now apply andb_prop in H. }
    destruct G as [G1 G2]. rewrite G1. cbn [andb]. exact (IH item G2).
Qed.

Lemma cc_lookup_found tbl name id : cc_lookup tbl name = id -> id <> CC_OTHER ->
  exists nm, In (nm, id) tbl /\ ci_eqb name nm = true.
Proof.
  induction tbl as [|[nm i] r IH]; cbn [cc_lookup]; intros H Hne; [congruence|].
  destruct (ci_eqb name nm) eqn:E.
  - subst i. exists nm. split; [now left|exact E].
  - destruct (IH H Hne) as [nm' [Hin He]]. exists nm'. split; [now right|exact He].
Qed.

(* the regenerated table maps exactly these names to these ids *)
Lemma tbl_no_store : cc_type_by_name d_no_store = CC_NO_STORE. Proof. vm_compute. reflexivity. Qed.
Lemma tbl_private : cc_type_by_name d_private = CC_PRIVATE. Proof. vm_compute. reflexivity. Qed.
Lemma tbl_public : cc_type_by_name d_public = CC_PUBLIC. Proof. vm_compute. reflexivity. Qed.
Lemma tbl_must_revalidate : cc_type_by_name d_must_revalidate = CC_MUST_REVALIDATE. Proof. vm_compute. reflexivity. Qed.
Lemma tbl_s_maxage : cc_type_by_name d_s_maxage = CC_S_MAXAGE. Proof. vm_compute. reflexivity. Qed.
Lemma tbl_no_cache : cc_type_by_name d_no_cache = CC_NO_CACHE. Proof. vm_compute. reflexivity. Qed.

(* each id has exactly one name in the regenerated table (needed for the converse direction) *)
Definition names_of (id : N) : list bytes := map fst (filter (fun p : bytes * N => snd p =? id) cc_attrs).
Lemma only_name_public : names_of CC_PUBLIC = [d_public]. Proof. vm_compute. reflexivity. Qed.
Lemma only_name_must_revalidate : names_of CC_MUST_REVALIDATE = [d_must_revalidate]. Proof. vm_compute. reflexivity. Qed.
Lemma only_name_s_maxage : names_of CC_S_MAXAGE = [d_s_maxage]. Proof. vm_compute. reflexivity. Qed.

Lemma type_is_directive item id d : item_type item = id -> id <> CC_OTHER -> names_of id = [d] ->
  is_directive d item = true.
Proof.
  intros Ht Hne Hn. unfold item_type, cc_type_by_name in Ht.
  destruct (cc_lookup_found _ _ _ Ht Hne) as [nm [Hin He]].
  assert (Hnm : In nm (names_of id)).
  { unfold names_of. apply in_map_iff. exists (nm, id). split; [reflexivity|].
    apply filter_In. split; [exact Hin|cbn; apply N.eqb_refl]. }
  rewrite Hn in Hnm. destruct Hnm as [Hd|[]]. subst nm. now apply takeN_prefix_directive.
Qed.

(* ================================================================ one iteration of HttpHdrCc::parse *)
Lemma isset_no_store c : cc_isset c CC_NO_STORE = m_no_store c. Proof. reflexivity. Qed.
Lemma isset_private c : cc_isset c CC_PRIVATE = m_private c. Proof. reflexivity. Qed.
Lemma isset_public c : cc_isset c CC_PUBLIC = m_public c. Proof. reflexivity. Qed.
Lemma isset_must_revalidate c : cc_isset c CC_MUST_REVALIDATE = m_must_revalidate c. Proof. reflexivity. Qed.
Lemma isset_s_maxage c : cc_isset c CC_S_MAXAGE = is_some (v_s_maxage c). Proof. reflexivity. Qed.

Ltac cc_consts :=
  unfold CC_PUBLIC, CC_PRIVATE, CC_NO_CACHE, CC_NO_STORE, CC_NO_TRANSFORM, CC_MUST_REVALIDATE, CC_PROXY_REVALIDATE,
         CC_MAX_AGE, CC_S_MAXAGE, CC_MAX_STALE, CC_MIN_FRESH, CC_ONLY_IF_CACHED, CC_STALE_IF_ERROR, CC_IMMUTABLE,
         CC_OTHER, CC_ENUM_END in *.

(* case analysis following the if-cascade of cc_step *)
Ltac cc_cascade t :=
  destruct (cc_isset _ t && negb (t =? CC_OTHER)) eqn:Edup;
  [| destruct (t =? CC_MAX_AGE) eqn:E1;
     [| destruct (t =? CC_S_MAXAGE) eqn:E2;
        [| destruct (t =? CC_MAX_STALE) eqn:E3;
           [| destruct (t =? CC_MIN_FRESH) eqn:E4;
              [| destruct (t =? CC_STALE_IF_ERROR) eqn:E5;
                 [| destruct (t =? CC_PRIVATE) eqn:E6;
                    [| destruct (t =? CC_NO_CACHE) eqn:E7 ]]]]]]].

Lemma step_no_store c itc :
  m_no_store (cc_step c itc) = m_no_store c || (item_type (fst itc) =? CC_NO_STORE).
Proof.
  destruct itc as [it ctx]. cbn [fst]. unfold cc_step. set (t := item_type it). clearbody t.
  destruct (t =? CC_NO_STORE) eqn:Ens.
  - apply N.eqb_eq in Ens. subst t. rewrite isset_no_store.
    destruct (m_no_store c) eqn:Em; cbn -[cc_isset parse_quoted int_arg]; [exact Em|reflexivity].
  - rewrite orb_false_r. cc_cascade t; cbn [m_no_store]; try reflexivity; try (rewrite Ens; apply orb_false_r).
Qed.

Lemma step_private c itc :
  m_private (cc_step c itc) = m_private c || (item_type (fst itc) =? CC_PRIVATE).
Proof.
  destruct itc as [it ctx]. cbn [fst]. unfold cc_step. set (t := item_type it). clearbody t.
  destruct (t =? CC_PRIVATE) eqn:Ens.
  - apply N.eqb_eq in Ens. subst t. rewrite isset_private.
    destruct (m_private c) eqn:Em; cbn -[cc_isset parse_quoted int_arg]; [exact Em|reflexivity].
  - rewrite orb_false_r. cc_cascade t; cbn [m_private]; try reflexivity; discriminate.
Qed.

Lemma step_public c itc :
  m_public (cc_step c itc) = m_public c || (item_type (fst itc) =? CC_PUBLIC).
Proof.
  destruct itc as [it ctx]. cbn [fst]. unfold cc_step. set (t := item_type it). clearbody t.
  destruct (t =? CC_PUBLIC) eqn:Ens.
  - apply N.eqb_eq in Ens. subst t. rewrite isset_public.
    destruct (m_public c) eqn:Em; cbn -[cc_isset parse_quoted int_arg]; [exact Em|reflexivity].
  - rewrite orb_false_r. cc_cascade t; cbn [m_public]; try reflexivity; try (rewrite Ens; apply orb_false_r).
Qed.

Lemma step_must_revalidate c itc :
  m_must_revalidate (cc_step c itc) = m_must_revalidate c || (item_type (fst itc) =? CC_MUST_REVALIDATE).
Proof.
  destruct itc as [it ctx]. cbn [fst]. unfold cc_step. set (t := item_type it). clearbody t.
  destruct (t =? CC_MUST_REVALIDATE) eqn:Ens.
  - apply N.eqb_eq in Ens. subst t. rewrite isset_must_revalidate.
    destruct (m_must_revalidate c) eqn:Em; cbn -[cc_isset parse_quoted int_arg]; [exact Em|reflexivity].
  - rewrite orb_false_r. cc_cascade t; cbn [m_must_revalidate]; try reflexivity; try (rewrite Ens; apply orb_false_r).
Qed.

(* s-maxage: the bit can only come from an s-maxage item (a malformed one leaves it clear) *)
Lemma step_s_maxage_sound c itc :
  is_some (v_s_maxage (cc_step c itc)) = true ->
  is_some (v_s_maxage c) = true \/ item_type (fst itc) = CC_S_MAXAGE.
Proof.
  destruct itc as [it ctx]. cbn [fst]. unfold cc_step. set (t := item_type it). clearbody t.
  cc_cascade t; cbn [v_s_maxage]; intros H; try (left; exact H).
  right. now apply N.eqb_eq.
Qed.

(* ================================================================ the whole list *)
Definition has_type (id : N) (l : list (bytes * bytes)) : bool := existsb (fun itc => item_type (fst itc) =? id) l.

Lemma fold_no_store l : forall c, m_no_store (fold_left cc_step l c) = m_no_store c || has_type CC_NO_STORE l.
Proof.
  induction l as [|x l IH]; intros c; cbn [fold_left has_type existsb]; [now rewrite orb_false_r|].
  rewrite IH, step_no_store. unfold has_type. now rewrite orb_assoc.
Qed.
Lemma fold_private l : forall c, m_private (fold_left cc_step l c) = m_private c || has_type CC_PRIVATE l.
Proof.
  induction l as [|x l IH]; intros c; cbn [fold_left has_type existsb]; [now rewrite orb_false_r|].
  rewrite IH, step_private. unfold has_type. now rewrite orb_assoc.
Qed.
Lemma fold_public l : forall c, m_public (fold_left cc_step l c) = m_public c || has_type CC_PUBLIC l.
Proof.
  induction l as [|x l IH]; intros c; cbn [fold_left has_type existsb]; [now rewrite orb_false_r|].
  rewrite IH, step_public. unfold has_type. now rewrite orb_assoc.
Qed.
Lemma fold_must_revalidate l : forall c,
  m_must_revalidate (fold_left cc_step l c) = m_must_revalidate c || has_type CC_MUST_REVALIDATE l.
Proof.
  induction l as [|x l IH]; intros c; cbn [fold_left has_type existsb]; [now rewrite orb_false_r|].
  rewrite IH, step_must_revalidate. unfold has_type. now rewrite orb_assoc.
Qed.
Lemma fold_s_maxage_sound l : forall c, is_some (v_s_maxage (fold_left cc_step l c)) = true ->
  is_some (v_s_maxage c) = true \/ has_type CC_S_MAXAGE l = true.
Proof.
  induction l as [|x l IH]; intros c H; cbn [fold_left] in H; [now left|].
  destruct (IH _ H) as [H1|H1].
  - destruct (step_s_maxage_sound _ _ H1) as [H2|H2]; [now left|right].
    cbn [has_type existsb]. rewrite H2, N.eqb_refl. reflexivity.
  - right. cbn [has_type existsb]. fold (has_type CC_S_MAXAGE l). rewrite H1. apply orb_true_r.
Qed.

(* has_type in terms of the items and the directive vocabulary *)
Lemma has_type_directive d id s : no_eq d = true -> cc_type_by_name d = id ->
  (exists item, In item (cc_items s) /\ is_directive d item = true) -> has_type id (ritems s) = true.
Proof.
  intros Hd Hid [item [Hin Hdir]]. unfold has_type. apply existsb_exists.
  unfold cc_items in Hin. apply in_map_iff in Hin. destruct Hin as [itc [Hf Hin]].
  exists itc. split; [exact Hin|]. rewrite Hf, (directive_type d Hd item Hdir), Hid. apply N.eqb_refl.
Qed.
Lemma has_type_directive_conv d id s : id <> CC_OTHER -> names_of id = [d] ->
  has_type id (ritems s) = true -> exists item, In item (cc_items s) /\ is_directive d item = true.
Proof.
  intros Hne Hn H. unfold has_type in H. apply existsb_exists in H. destruct H as [itc [Hin Ht]].
  apply N.eqb_eq in Ht. exists (fst itc). split.
  - unfold cc_items. apply in_map. exact Hin.
  - exact (type_is_directive _ _ _ Ht Hne Hn).
Qed.

(* ---------- completeness: a no-store / private element is always seen ---------- *)
Theorem parse_sees_no_store s :
  (exists item, In item (cc_items s) /\ is_directive d_no_store item = true) ->
  exists c, cc_parse s = Some c /\ m_no_store c = true.
Proof.
  intros H. pose proof (has_type_directive d_no_store CC_NO_STORE s eq_refl tbl_no_store H) as Ht.
  assert (Hb : m_no_store (cc_fold s) = true) by (unfold cc_fold; rewrite fold_no_store, Ht; apply orb_true_r).
  exists (cc_fold s). split; [|exact Hb]. unfold cc_parse, cc_mask_nonzero. rewrite Hb.
  now rewrite !orb_true_r.
Qed.
Theorem parse_sees_private s :
  (exists item, In item (cc_items s) /\ is_directive d_private item = true) ->
  exists c, cc_parse s = Some c /\ m_private c = true.
Proof.
  intros H. pose proof (has_type_directive d_private CC_PRIVATE s eq_refl tbl_private H) as Ht.
  assert (Hb : m_private (cc_fold s) = true) by (unfold cc_fold; rewrite fold_private, Ht; apply orb_true_r).
  exists (cc_fold s). split; [|exact Hb]. unfold cc_parse, cc_mask_nonzero. rewrite Hb.
  now rewrite !orb_true_r.
Qed.

(* ---------- soundness: public / must-revalidate / s-maxage bits come from such an element ---------- *)
Theorem parse_permission_sound s c : cc_parse s = Some c ->
  (m_public c || m_must_revalidate c || is_some (v_s_maxage c)) = true ->
  exists item, In item (cc_items s) /\
    (is_directive d_public item || is_directive d_must_revalidate item || is_directive d_s_maxage item) = true.
Proof.
  unfold cc_parse. destruct (cc_mask_nonzero (cc_fold s)); [|discriminate]. intros Hc H. injection Hc as <-.
  unfold cc_fold in H.
  destruct (m_public _) eqn:E1.
  { rewrite fold_public in E1. cbn [cc_empty m_public orb] in E1.
    destruct (has_type_directive_conv d_public CC_PUBLIC s ltac:(discriminate) only_name_public E1) as [it [Hi Hd]].
    exists it. split; [exact Hi|]. now rewrite Hd. }
  destruct (m_must_revalidate _) eqn:E2.
  { rewrite fold_must_revalidate in E2. cbn [cc_empty m_must_revalidate orb] in E2.
    destruct (has_type_directive_conv d_must_revalidate CC_MUST_REVALIDATE s ltac:(discriminate) only_name_must_revalidate E2)
      as [it [Hi Hd]].
    exists it. split; [exact Hi|]. rewrite Hd. now rewrite orb_true_r. }
  cbn [orb] in H. destruct (fold_s_maxage_sound _ _ H) as [H1|H1]; [cbn in H1; discriminate|].
  destruct (has_type_directive_conv d_s_maxage CC_S_MAXAGE s ltac:(discriminate) only_name_s_maxage H1) as [it [Hi Hd]].
  exists it. split; [exact Hi|]. rewrite Hd. now rewrite !orb_true_r.
Qed.

(* ================================================================ the decision *)
Local Open Scope Z_scope.

Definition cached (d : decision) : bool :=
  match d with CachePositively | CacheNegatively => true | _ => false end.

(* what HttpStateData::reusableReply requires before it answers cachePositively / cacheNegatively *)
Lemma reusable_reply_cached cf h q p e now :
  cached (reusable_reply cf h q p e now) = true ->
  released_earlier h = false /\ q_cachable q = true /\ saw_date_go_back h = false /\ surrogate_no_store h = false /\
  (ignore_cache_control h = false ->
     occ (q_cc q) m_no_store false = false /\ occ (p_cc p) has_no_cache_with_params false = false /\
     occ (p_cc p) m_no_store false = false /\ occ (p_cc p) m_private false = false) /\
  (q_flag_auth q = true ->
     ignore_cache_control h = false /\
     exists c, p_cc p = Some c /\
       (m_public c || m_must_revalidate c || (use_http_violations && has_no_cache_without_params c)
        || is_some (v_s_maxage c)) = true).
Proof.
  unfold reusable_reply, refresh_override. cbn [negb]. rewrite !andb_true_r.
  destruct (released_earlier h) eqn:E0; [cbn; discriminate|]. cbn [orb].
  destruct (q_cachable q) eqn:E1; [|cbn; discriminate]. cbn [negb].
  destruct (saw_date_go_back h) eqn:E2; [cbn; discriminate|].
  destruct (surrogate_no_store h) eqn:E3; [cbn; discriminate|].
  destruct (negb (ignore_cache_control h) && occ (q_cc q) m_no_store false) eqn:E4; [cbn; discriminate|].
  destruct (negb (ignore_cache_control h) && occ (p_cc p) has_no_cache_with_params false) eqn:E5; [cbn; discriminate|].
  destruct (negb (ignore_cache_control h) && occ (p_cc p) m_no_store false) eqn:E6; [cbn; discriminate|].
  destruct (negb (ignore_cache_control h) && occ (p_cc p) m_private false) eqn:E7; [cbn; discriminate|].
  intros H.
  split; [reflexivity|]. split; [reflexivity|]. split; [reflexivity|]. split; [reflexivity|]. split.
  - intros Hi. rewrite Hi in *. cbn [negb andb] in *. repeat split; assumption.
  - intros Ha. rewrite Ha in H.
    destruct (p_cc p) as [c|]; [|cbn in H; discriminate].
    destruct (ignore_cache_control h); [cbn in H; discriminate|].
    split; [reflexivity|]. exists c. split; [reflexivity|].
    destruct (m_public c); [reflexivity|].
    destruct (m_must_revalidate c); [reflexivity|].
    destruct (use_http_violations && has_no_cache_without_params c); [reflexivity|].
    destruct (is_some (v_s_maxage c)); [reflexivity|]. cbn in H. discriminate.
Qed.

Lemma status_decision_negative cf p e now :
  status_decision cf p e now = CacheNegatively -> 0 < negative_ttl cf.
Proof.
  unfold status_decision. cbv zeta.
  repeat match goal with
         | |- (if ?b then _ else _) = CacheNegatively -> _ =>
             let E := fresh "E" in destruct b eqn:E; [try (intros X; discriminate X)|try (intros X; discriminate X)]
         end.
  all: intros _; apply andb_prop in E3 || apply andb_prop in E2; lia.
Qed.

Lemma reusable_reply_negative cf h q p e now :
  reusable_reply cf h q p e now = CacheNegatively -> 0 < negative_ttl cf.
Proof.
  unfold reusable_reply. cbv zeta.
  repeat match goal with
         | |- (if ?b then ReuseNot else _) = CacheNegatively -> _ => destruct b; [intros X; discriminate X|]
         | |- (if ?b then DoNotCacheButShare else _) = CacheNegatively -> _ => destruct b; [intros X; discriminate X|]
         end.
  apply status_decision_negative.
Qed.

Lemma first_entry_public cf h q p now :
  e_public (first_entry cf h q p now) = true ->
  exists e0, cached (reusable_reply cf h q p e0 now) = true.
Proof.
  unfold first_entry. destruct (timestamps p now) as [ts exp]. cbn [e_public].
  match goal with |- context [reusable_reply cf h q p ?e now] => exists e end.
  destruct (reusable_reply _ _ _ _ _ _); [discriminate|reflexivity|reflexivity|discriminate].
Qed.

Lemma first_entry_negcached cf h q p now :
  negative_ttl cf <= 0 -> e_negcached (first_entry cf h q p now) = false.
Proof.
  intros Hn. unfold first_entry. destruct (timestamps p now) as [ts exp]. cbn [e_negcached].
  match goal with |- context [reusable_reply cf h q p ?e now] => destruct (reusable_reply cf h q p e now) eqn:E end;
    try reflexivity.
  apply reusable_reply_negative in E. lia.
Qed.

Lemma first_entry_always cf h q p now c :
  ignore_cache_control h = false -> p_cc p = Some c ->
  e_revalidate_always (first_entry cf h q p now) = has_no_cache_without_params c || m_private c.
Proof.
  intros Hi Hc. unfold first_entry. destruct (timestamps p now) as [ts exp]. cbn [e_revalidate_always].
  rewrite Hi, Hc. reflexivity.
Qed.

Lemma offline_off : cfg_offline_mode = false. Proof. reflexivity. Qed.

(* the second request: an entry that is not public is never found *)
Lemma second_not_public cf e q now2 :
  e_public e = false -> second_request cf e q now2 = (if q_only_if_cached q then Refused else Miss).
Proof.
  intros H. unfold second_request. rewrite H. cbn [negb]. destruct (q_flag_no_cache q); reflexivity.
Qed.

(* ENTRY_REVALIDATE_ALWAYS forces refreshCheck to answer STALE_MUST_REVALIDATE *)
Lemma refresh_check_always cf e rq now delta :
  e_revalidate_always e = true -> refresh_check cf e rq now delta = STALE_MUST_REVALIDATE.
Proof.
  intros H. unfold refresh_check.
  match goal with |- context [refresh_staleness ?a ?b ?c ?d] => destruct (refresh_staleness a b c d) as [st sf] end.
  rewrite H. reflexivity.
Qed.

Lemma second_revalidate_always cf e q now2 :
  e_revalidate_always e = true -> e_negcached e = false -> second_request cf e q now2 <> Hit.
Proof.
  intros Ha Hn. unfold second_request. rewrite Hn, (refresh_check_always cf e (Some q) now2 0 Ha), offline_off.
  cbn [andb negb reason_is_fresh].
  destruct (q_flag_no_cache q); destruct (q_only_if_cached q); destruct (negb (e_public e));
    destruct (e_last_modified e <? 0); discriminate.
Qed.

(* ================================================================ C11 *)
Definition has_directive (d : bytes) (vals : list bytes) : Prop :=
  exists item, In item (cc_items (join_values vals)) /\ is_directive d item = true.

Lemma join_nil_items : cc_items (join_values []) = []. Proof. reflexivity. Qed.

Lemma cc_of_values_no_store vals : has_directive d_no_store vals ->
  exists c, cc_of_values vals = Some c /\ m_no_store c = true.
Proof.
  intros H. unfold cc_of_values. destruct vals as [|v r].
  - destruct H as [it [Hin _]]. rewrite join_nil_items in Hin. destruct Hin.
  - exact (parse_sees_no_store _ H).
Qed.
Lemma cc_of_values_private vals : has_directive d_private vals ->
  exists c, cc_of_values vals = Some c /\ m_private c = true.
Proof.
  intros H. unfold cc_of_values. destruct vals as [|v r].
  - destruct H as [it [Hin _]]. rewrite join_nil_items in Hin. destruct Hin.
  - exact (parse_sees_private _ H).
Qed.

(* not stored -> the second request goes to the origin unconditionally (or the first one was never forwarded) *)
Lemma not_cached_outcome cf h q p now gap :
  (forall e0, cached (reusable_reply cf h q p e0 now) = false) ->
  two_requests cf h q p now gap = (if q_only_if_cached q then NotForwarded else Miss).
Proof.
  intros H. unfold two_requests. destruct (q_only_if_cached q) eqn:Eo; [reflexivity|].
  rewrite second_not_public, Eo; [reflexivity|].
  destruct (e_public (first_entry cf h q p now)) eqn:E; [|reflexivity].
  destruct (first_entry_public _ _ _ _ _ E) as [e0 He0]. rewrite H in He0. discriminate.
Qed.

Theorem response_no_store_never_reused cf h q p now gap :
  ignore_cache_control h = false -> has_directive d_no_store (p_cc_vals p) ->
  two_requests cf h q p now gap = (if q_only_if_cached q then NotForwarded else Miss).
Proof.
  intros Hi Hd. apply not_cached_outcome. intros e0.
  destruct (cached (reusable_reply cf h q p e0 now)) eqn:E; [|reflexivity].
  destruct (reusable_reply_cached _ _ _ _ _ _ E) as (_ & _ & _ & _ & Hcc & _).
  destruct (Hcc Hi) as (_ & _ & Hns & _).
  destruct (cc_of_values_no_store _ Hd) as [c [Hc Hb]]. unfold p_cc in Hns. rewrite Hc in Hns. cbn [occ] in Hns.
  congruence.
Qed.

Theorem response_private_never_reused cf h q p now gap :
  ignore_cache_control h = false -> has_directive d_private (p_cc_vals p) ->
  two_requests cf h q p now gap = (if q_only_if_cached q then NotForwarded else Miss).
Proof.
  intros Hi Hd. apply not_cached_outcome. intros e0.
  destruct (cached (reusable_reply cf h q p e0 now)) eqn:E; [|reflexivity].
  destruct (reusable_reply_cached _ _ _ _ _ _ E) as (_ & _ & _ & _ & Hcc & _).
  destruct (Hcc Hi) as (_ & _ & _ & Hpr).
  destruct (cc_of_values_private _ Hd) as [c [Hc Hb]]. unfold p_cc in Hpr. rewrite Hc in Hpr. cbn [occ] in Hpr.
  congruence.
Qed.

(* request no-store: flags.cachable is vetoed, the entry is created with RELEASE_REQUEST; no hypothesis on hstate *)
Theorem request_no_store_never_reused cf h q p now gap :
  has_directive d_no_store (q_cc_vals q) ->
  two_requests cf h q p now gap = (if q_only_if_cached q then NotForwarded else Miss).
Proof.
  intros Hd. apply not_cached_outcome. intros e0.
  destruct (cached (reusable_reply cf h q p e0 now)) eqn:E; [|reflexivity].
  destruct (reusable_reply_cached _ _ _ _ _ _ E) as (_ & Hq & _).
  destruct (cc_of_values_no_store _ Hd) as [c [Hc Hb]].
  unfold q_cachable, q_cc in Hq. rewrite Hc in Hq. cbn [occ] in Hq. rewrite Hb in Hq.
  rewrite andb_false_r in Hq. discriminate.
Qed.

(* Authorization: a hit needs public, must-revalidate or s-maxage in the response (default negative_ttl = 0) *)
Theorem authorization_hit_needs_permission cf h q p now gap :
  negative_ttl cf <= 0 -> q_has_authorization q = true ->
  two_requests cf h q p now gap = Hit ->
  has_directive d_public (p_cc_vals p) \/ has_directive d_must_revalidate (p_cc_vals p)
  \/ has_directive d_s_maxage (p_cc_vals p).
Proof.
  intros Hneg Hauth Hhit. unfold two_requests in Hhit.
  destruct (q_only_if_cached q) eqn:Eo; [discriminate|].
  destruct (e_public (first_entry cf h q p now)) eqn:Ep.
  2:{ rewrite second_not_public, Eo in Hhit by exact Ep. discriminate. }
  destruct (first_entry_public _ _ _ _ _ Ep) as [e0 He0].
  destruct (reusable_reply_cached _ _ _ _ _ _ He0) as (_ & _ & _ & _ & _ & Ha).
  assert (Hfa : q_flag_auth q = true) by (unfold q_flag_auth; rewrite Hauth; reflexivity).
  destruct (Ha Hfa) as (Hi & c & Hc & Hperm).
  destruct (m_public c || m_must_revalidate c || is_some (v_s_maxage c)) eqn:Eperm.
  - (* the permission is in the text *)
    unfold p_cc, cc_of_values in Hc. destruct (p_cc_vals p) as [|v r] eqn:Ev; [discriminate|].
    destruct (parse_permission_sound _ _ Hc Eperm) as [it [Hin Hd]].
    destruct (is_directive d_public it) eqn:D1; [left; exists it; now split|].
    destruct (is_directive d_must_revalidate it) eqn:D2; [right; left; exists it; now split|].
    right; right. exists it. split; [exact Hin|exact Hd].
  - (* only the USE_HTTP_VIOLATIONS no-cache exemption: stored with ENTRY_REVALIDATE_ALWAYS, never a hit *)
    exfalso.
    assert (Hnc : has_no_cache_without_params c = true).
    { destruct (m_public c); [discriminate|]. destruct (m_must_revalidate c); [discriminate|].
      cbn [orb] in *. rewrite Eperm in Hperm. rewrite orb_false_r in Hperm. now apply andb_prop in Hperm. }
    apply (second_revalidate_always cf (first_entry cf h q p now) q (now + gap)); [| |exact Hhit].
    + rewrite (first_entry_always cf h q p now c Hi Hc), Hnc. reflexivity.
    + now apply first_entry_negcached.
Qed.

(* ... and the hypothesis on negative_ttl is needed: with negative caching configured, an authenticated 404 carrying only
   no-cache is served as a negative hit (checkNegativeHit precedes refreshCheck). Not the default configuration. *)
Definition wit_cf : config :=
  {| negative_ttl := 300; minimum_expiry_time := 60; conf_max_stale := 604800; r_min := 0; r_pct_ppm := 200000;
     r_max := 259200; r_max_stale := -1 |}.
Definition wit_q : request :=
  {| q_method := [71;69;84]%N; q_cc_vals := []; q_pragma_vals := []; q_has_authorization := true; q_has_userinfo := false;
     q_ims := false |}.
Definition wit_p (status : N) (ccv : list bytes) : reply :=
  {| p_status := status; p_cc_vals := ccv; p_pragma_vals := []; p_date := Some 1700000000; p_expires := ExpAbsent;
     p_last_modified := None; p_content_type := None; p_content_length := 5 |}.
Theorem authorization_negative_ttl_witness :
  two_requests wit_cf plain_hstate wit_q (wit_p 404 [d_no_cache]) 1700000000 1 = Hit.
Proof. vm_compute. reflexivity. Qed.

(* ================================================================ list reading *)
Local Open Scope N_scope.

Lemma delim3_simple c : simple_char c = true -> is_delim3 c = is_delim2 44 c.
Proof. unfold simple_char, is_delim3, is_delim2, is_xspace. intros H. lia. Qed.

Lemma ritems_fuel_simple f : forall l, simple l = true -> map fst (ritems_fuel f l) = items_fuel f 44 l.
Proof.
  induction f as [|f IH]; intros l Hs; [reflexivity|].
  cbn [ritems_fuel items_fuel].
  assert (Hd : drop_while is_delim3 l = drop_while (is_delim2 44) l).
  { apply drop_while_ext. intros c Hin. apply delim3_simple.
    unfold simple in Hs. rewrite forallb_forall in Hs. now apply Hs. }
  rewrite Hd.
  pose proof (simple_drop (is_delim2 44) l Hs) as Hs1.
  set (l1 := drop_while (is_delim2 44) l) in *. clearbody l1.
  pose proof (scan_simple l1 [] Hs1) as Hsc.
  destruct (scan_item 44 false l1 []) as [item rest].
  injection Hsc as Hitem Hrest.
  assert (Hsr : simple rest = true) by (rewrite Hrest; now apply simple_span_snd).
  destruct (rtrim item) as [|i0 it]; [reflexivity|].
  cbn [map fst]. now rewrite IH.
Qed.

(* for list text without DQUOTE / NUL / line breaks, the reader sees the comma-split, OWS-trimmed, non-empty elements *)
Theorem cc_items_is_ref l : simple l = true -> cc_items l = ref_items l.
Proof.
  intros H. unfold cc_items, ritems. rewrite (ritems_fuel_simple _ _ (eq_ind_r (fun x => simple x = true) H (c_str_simple l H))).
  rewrite <- (list_items_is_ref l H). reflexivity.
Qed.

(* ---------- the loop bound of ritems is never the reason the list ends ---------- *)
Lemma drop_while_length (p : N -> bool) l : (length (drop_while p l) <= length l)%nat.
Proof. induction l as [|c r IH]; cbn [drop_while length]; [lia|]. destruct (p c); cbn [length]; lia. Qed.

Lemma scan_item_length del : forall n l, (length l <= n)%nat -> forall q acc,
  (length (fst (scan_item del q l acc)) + length (snd (scan_item del q l acc)) = length acc + length l)%nat.
Proof.
  induction n as [|n IH]; intros l Hl q acc.
  - destruct l; [|cbn in Hl; lia]. cbn [scan_item fst snd length]. rewrite rev_length. lia.
  - destruct l as [|c r]; [cbn [scan_item fst snd length]; rewrite rev_length; lia|].
    cbn [length] in Hl. cbn [scan_item].
    destruct q.
    + destruct (c =? 34); [rewrite IH by lia; cbn [length]; lia|].
      destruct (c =? 92).
      * destruct r as [|d r']; [cbn [fst snd length]; rewrite rev_length; cbn [length]; lia|].
        cbn [length] in Hl. rewrite IH by lia. cbn [length]. lia.
      * rewrite IH by lia; cbn [length]; lia.
    + destruct (c =? 34); [rewrite IH by lia; cbn [length]; lia|].
      destruct ((c =? del) || (c =? 44)); [cbn [fst snd length]; rewrite rev_length; lia|].
      rewrite IH by lia; cbn [length]; lia.
Qed.

Lemma rtrim_nil_item l : rtrim l <> [] -> l <> [].
Proof. intros H E. subst l. apply H. reflexivity. Qed.

Lemma ritems_fuel_enough : forall f l k, (length l < f)%nat -> ritems_fuel (f + k) l = ritems_fuel f l.
Proof.
  induction f as [|f IH]; intros l k Hl; [lia|].
  cbn [Nat.add ritems_fuel].
  pose proof (drop_while_length is_delim3 l) as Hd.
  set (l1 := drop_while is_delim3 l) in *. clearbody l1.
  pose proof (scan_item_length 44 (length l1) l1 (le_n _) false []) as Hlen.
  destruct (scan_item 44 false l1 []) as [item rest]. cbn [fst snd length] in Hlen.
  destruct (rtrim item) as [|i0 it] eqn:Er; [reflexivity|].
  assert (Hne : item <> []) by (apply rtrim_nil_item; rewrite Er; discriminate).
  f_equal. apply IH. destruct item; [congruence|]. cbn [length] in Hlen. lia.
Qed.

(* more fuel never yields more items: the bound S (length l) of `ritems` is not what ends the list *)
Theorem ritems_fuel_sufficient l k : ritems_fuel (S (length (c_str l)) + k) (c_str l) = ritems l.
Proof.
  unfold ritems.
  assert (Hc : (length (c_str l) <= length l)%nat).
  { unfold c_str. pose proof (span_parts (fun c => negb (c =? 0)) l) as Hp.
    apply (f_equal (@length N)) in Hp. rewrite app_length in Hp. lia. }
  rewrite (ritems_fuel_enough (S (length (c_str l))) (c_str l) k) by lia.
  replace (S (length l)) with (S (length (c_str l)) + (length l - length (c_str l)))%nat by lia.
  now rewrite ritems_fuel_enough by lia.
Qed.

Local Open Scope N_scope.
(* ================================================================ httpHeaderParseQuotedString terminates within its fuel *)
Lemma nthN_beyond {A} (l : list A) : forall i, lenN l <= i -> nthN i l = None.
Proof.
  induction l as [|x l IH]; intros i H; cbn [nthN]; [reflexivity|].
  cbn [lenN] in H. destruct (i =? 0) eqn:E; [lia|]. apply IH. lia.
Qed.
Lemma byte_at_beyond p i : lenN p <= i -> byte_at p i = 0.
Proof. intros H. unfold byte_at. now rewrite nthN_beyond. Qed.

Definition run_cond (p : bytes) (len e : N) : bool :=
  let c := byte_at p e in (e <? len) && negb (c =? 92) && negb (c =? 34) && ((31 <? c) || (c =? 9)) && negb (c =? 127).
Lemma run_end_unfold f p len e :
  qs_run_end (S f) p len e = if run_cond p len e then qs_run_end f p len (e + 1) else e.
Proof. reflexivity. Qed.
Lemma run_end_ge f : forall p len e, e <= qs_run_end f p len e.
Proof.
  induction f as [|f IH]; intros p len e; [cbn [qs_run_end]; lia|].
  rewrite run_end_unfold. destruct (run_cond p len e); [specialize (IH p len (e + 1)); lia|lia].
Qed.
Lemma run_end_stay f p len e : run_cond p len e = false -> qs_run_end f p len e = e.
Proof. intros H. destruct f as [|f]; [reflexivity|]. rewrite run_end_unfold, H. reflexivity. Qed.
Lemma run_end_advance f p len e : run_cond p len e = true -> e < qs_run_end (S f) p len e.
Proof. intros H. rewrite run_end_unfold, H. pose proof (run_end_ge f p len (e + 1)). lia. Qed.

Lemma lenN_pos_length (p : bytes) : 0 < lenN p -> exists f, length p = S f.
Proof. destruct p as [|x p]; cbn [lenN length]; [lia|]. intros _. now exists (length p). Qed.

Lemma qs_loop_fuel : forall fuel p len pos val,
  (N.to_nat (lenN p) + 1 - N.to_nat pos < fuel)%nat -> qs_loop fuel p len pos val <> QsFuel.
Proof.
  induction fuel as [|f IH]; intros p len pos val Hm; [lia|].
  cbn [qs_loop].
  destruct (negb (byte_at p pos =? 34) && (pos <? len)) eqn:Eloop.
  2:{ destruct (byte_at p pos =? 34); discriminate. }
  apply andb_prop in Eloop. destruct Eloop as [E34 Elen].
  destruct (lenN p <=? pos) eqn:Eb.
  { (* reading the terminating NUL: a CTL octet *)
    assert (Hb : byte_at p pos = 0) by (apply byte_at_beyond; lia).
    repeat (rewrite !Hb; repeat match goal with |- context [0 =? ?k] => change (0 =? k) with false end; cbv iota).
    rewrite run_end_stay by (unfold run_cond; rewrite Hb; lia).
    rewrite Hb. cbn. discriminate. }
  assert (Hlt : pos < lenN p) by lia.
  destruct (byte_at p pos =? 13) eqn:E13.
  { destruct ((len <? pos + 1) || negb (byte_at p (pos + 1) =? 10)) eqn:Ec; [discriminate|].
    apply orb_false_elim in Ec. destruct Ec as [_ Ec]. apply negb_false_iff in Ec. rewrite Ec.
    destruct ((len <? pos + 1 + 1) || _); [discriminate|]. apply IH. lia. }
  destruct (byte_at p pos =? 10) eqn:E10.
  { destruct ((len <? pos + 1) || _); [discriminate|]. apply IH. lia. }
  destruct (byte_at p pos =? 92) eqn:E92.
  { match goal with |- context [if ?b then None else Some (pos + 1)] => destruct b; [discriminate|] end.
    match goal with |- context [qs_run_end ?a ?b ?c ?d] => pose proof (run_end_ge a b c d) as Hge; set (e := qs_run_end a b c d) in * end.
    destruct (_ || (byte_at p e =? 127)); [discriminate|]. apply IH. lia. }
  (* ordinary octet at pos *)
  destruct (run_cond p len pos) eqn:Erc.
  - destruct (lenN_pos_length p ltac:(lia)) as [f' Hf']. rewrite Hf'.
    pose proof (run_end_advance f' p len pos Erc) as Hadv.
    set (e := qs_run_end (S f') p len pos) in *.
    destruct (_ || (byte_at p e =? 127)); [discriminate|]. apply IH. lia.
  - rewrite run_end_stay by exact Erc.
    unfold run_cond in Erc. cbv zeta in Erc. rewrite Elen, E92 in Erc. apply negb_true_iff in E34. rewrite E34 in Erc.
    cbn [negb andb] in Erc.
    assert (Hctl : ((byte_at p pos <=? 31) && negb (byte_at p pos =? 13) && negb (byte_at p pos =? 10)
                    && negb (byte_at p pos =? 9) || (byte_at p pos =? 127)) = true) by lia.
    rewrite Hctl. discriminate.
Qed.

Theorem parse_quoted_never_out_of_fuel p len : parse_quoted p len <> QsFuel.
Proof.
  unfold parse_quoted. destruct (negb (byte_at p 0 =? 34)); [discriminate|].
  apply qs_loop_fuel. rewrite lenN_length. lia.
Qed.

(* the recorded fuel_out flag is therefore never set *)
Lemma cc_step_fuel c itc : fuel_out c = false -> fuel_out (cc_step c itc) = false.
Proof.
  intros H. destruct itc as [it ctx]. unfold cc_step. set (t := item_type it). clearbody t.
  cc_cascade t; cbn [fuel_out]; try exact H; rewrite H; cbn [orb];
    (destruct (find_eq it 0) as [i|]; [|reflexivity]);
    match goal with |- context [parse_quoted ?a ?b] => pose proof (parse_quoted_never_out_of_fuel a b) as Hq; destruct (parse_quoted a b) end;
    try reflexivity; congruence.
Qed.
Lemma cc_fold_fuel l : forall c, fuel_out c = false -> fuel_out (fold_left cc_step l c) = false.
Proof. induction l as [|x l IH]; intros c H; cbn [fold_left]; [exact H|]. apply IH. now apply cc_step_fuel. Qed.
Theorem cc_parse_total s c : cc_parse s = Some c -> fuel_out c = false.
Proof.
  unfold cc_parse. destruct (cc_mask_nonzero (cc_fold s)); [|discriminate]. intros H. injection H as <-.
  unfold cc_fold. now apply cc_fold_fuel.
Qed.

(* ================================================================ text-level statement *)
Local Open Scope Z_scope.
(* "sent with directive d": some comma-separated, OWS-trimmed, non-empty element of the combined field value is d or d=... *)
Definition sent_with (d : bytes) (vals : list bytes) : Prop :=
  exists item, In item (ref_items (join_values vals)) /\ is_directive d item = true.

Lemma sent_with_has d vals : simple (join_values vals) = true -> sent_with d vals -> has_directive d vals.
Proof. intros Hs [it [Hin Hd]]. exists it. split; [now rewrite cc_items_is_ref|exact Hd]. Qed.
Lemma has_sent_with d vals : simple (join_values vals) = true -> has_directive d vals -> sent_with d vals.
Proof. intros Hs [it [Hin Hd]]. exists it. split; [now rewrite <- cc_items_is_ref|exact Hd]. Qed.

Theorem forbidden_never_hit cf h q p now gap :
  ignore_cache_control h = false ->
  simple (join_values (p_cc_vals p)) = true -> simple (join_values (q_cc_vals q)) = true ->
  sent_with d_no_store (p_cc_vals p) \/ sent_with d_private (p_cc_vals p) \/ sent_with d_no_store (q_cc_vals q) ->
  two_requests cf h q p now gap <> Hit /\
  (q_only_if_cached q = false -> two_requests cf h q p now gap = Miss).
Proof.
  intros Hi Hsp Hsq H.
  assert (E : two_requests cf h q p now gap = (if q_only_if_cached q then NotForwarded else Miss)).
  { destruct H as [H|[H|H]].
    - apply response_no_store_never_reused; [exact Hi|now apply sent_with_has].
    - apply response_private_never_reused; [exact Hi|now apply sent_with_has].
    - apply request_no_store_never_reused. now apply sent_with_has. }
  rewrite E. split; [destruct (q_only_if_cached q); discriminate|]. intros Ho. now rewrite Ho.
Qed.

Lemma second_request_cases cf e q now2 : q_only_if_cached q = false ->
  second_request cf e q now2 = Hit \/ second_request cf e q now2 = Miss \/ second_request cf e q now2 = Revalidate.
Proof.
  intros Ho. unfold second_request. rewrite Ho.
  destruct (q_flag_no_cache q); [right; left; reflexivity|].
  destruct (negb (e_public e)); [right; left; reflexivity|].
  destruct (e_negcached e && (e_expires e <=? now2)%Z); [right; left; reflexivity|].
  destruct (e_negcached e && (now2 <? e_expires e)%Z && negb (q_nocache_hack q)); [left; reflexivity|].
  set (r := refresh_check cf e (Some q) now2 0). clearbody r.
  destruct (negb cfg_offline_mode && negb (reason_is_fresh r)); [|left; reflexivity].
  destruct (e_last_modified e <? 0)%Z; [right; left; reflexivity|right; right; reflexivity].
Qed.

Theorem authorization_never_hit_without_permission cf h q p now gap :
  negative_ttl cf <= 0 -> q_has_authorization q = true ->
  simple (join_values (p_cc_vals p)) = true ->
  ~ sent_with d_public (p_cc_vals p) -> ~ sent_with d_must_revalidate (p_cc_vals p) -> ~ sent_with d_s_maxage (p_cc_vals p) ->
  two_requests cf h q p now gap <> Hit /\
  (q_only_if_cached q = false ->
   two_requests cf h q p now gap = Miss \/ two_requests cf h q p now gap = Revalidate).
Proof.
  intros Hn Ha Hs N1 N2 N3.
  assert (Hnh : two_requests cf h q p now gap <> Hit).
  { intros Hh. destruct (authorization_hit_needs_permission cf h q p now gap Hn Ha Hh) as [H|[H|H]];
      [apply N1|apply N2|apply N3]; now apply has_sent_with. }
  split; [exact Hnh|]. intros Ho.
  unfold two_requests in *. rewrite Ho in *.
  destruct (second_request_cases cf (first_entry cf h q p now) q (now + gap) Ho) as [H|[H|H]];
    [congruence|now left|now right].
Qed.

(* the default settings the model hard-wires, re-read from src/cf.data.pre and RefreshPattern.h on every run *)
Lemma defaults_assumed :
  cfg_no_refresh_pattern = true /\ refresh_default_flags_clear = true /\ cfg_reload_into_ims = false /\
  cfg_refresh_all_ims = false /\ cfg_offline_mode = false /\ cfg_vary_ignore_expire = false /\
  cfg_no_store_miss = true /\ cfg_no_send_hit = true /\ cfg_no_cache_acl = true /\
  (negative_ttl default_config <= 0)%Z /\ use_http_violations = true.
Proof. repeat split; try reflexivity; vm_compute; discriminate. Qed.

(* ================================================================ non-vacuity *)
Local Open Scope N_scope.
Definition ex_q (auth : bool) (ccv : list bytes) : request :=
  {| q_method := [71;69;84]; q_cc_vals := ccv; q_pragma_vals := []; q_has_authorization := auth; q_has_userinfo := false;
     q_ims := false |}.
Definition ex_p (ccv : list bytes) : reply := wit_p 200 ccv.
Definition t_max_age_3600 : bytes := [109;97;120;45;97;103;101;61;51;54;48;48].                  (* max-age=3600 *)
Definition t_max_age_no_store : bytes := t_max_age_3600 ++ [44;32;78;111;45;83;116;111;114;101]. (* max-age=3600, No-Store *)
Definition t_private_arg : bytes := [80;82;73;86;65;84;69;61;34;120;34].                         (* PRIVATE="x" *)
Definition run (q : request) (p : reply) : outcome := two_requests default_config plain_hstate q p 1700000000%Z 1%Z.

Lemma ex_plain_hit : run (ex_q false []) (ex_p [t_max_age_3600]) = Hit. Proof. vm_compute. reflexivity. Qed.
Lemma ex_no_store_miss : run (ex_q false []) (ex_p [t_max_age_no_store]) = Miss. Proof. vm_compute. reflexivity. Qed.
Lemma ex_private_miss : run (ex_q false []) (ex_p [t_max_age_3600; t_private_arg]) = Miss. Proof. vm_compute. reflexivity. Qed.
Lemma ex_req_no_store_miss : run (ex_q false [d_no_store]) (ex_p [t_max_age_3600]) = Miss. Proof. vm_compute. reflexivity. Qed.
Lemma ex_auth_miss : run (ex_q true []) (ex_p [t_max_age_3600]) = Miss. Proof. vm_compute. reflexivity. Qed.
Lemma ex_auth_public_hit : run (ex_q true []) (ex_p [t_max_age_3600; d_public]) = Hit. Proof. vm_compute. reflexivity. Qed.
Lemma ex_auth_no_cache_revalidate : run (ex_q true []) (ex_p [t_max_age_3600; d_no_cache]) = Revalidate.
Proof. vm_compute. reflexivity. Qed.
Lemma ex_sent_with : sent_with d_no_store [t_max_age_no_store] /\ simple (join_values [t_max_age_no_store]) = true.
Proof.
  split; [|reflexivity]. exists [78;111;45;83;116;111;114;101]. split; [vm_compute; right; left; reflexivity|reflexivity].
Qed.
Lemma ex_sent_with_private : sent_with d_private [t_max_age_3600; t_private_arg].
Proof. exists t_private_arg. split; [vm_compute; right; left; reflexivity|reflexivity]. Qed.
Lemma ex_no_permission :
  ~ sent_with d_public [t_max_age_3600] /\ ~ sent_with d_must_revalidate [t_max_age_3600] /\
  ~ sent_with d_s_maxage [t_max_age_3600] /\ simple (join_values [t_max_age_3600]) = true /\
  (negative_ttl default_config <= 0)%Z.
Proof.
  repeat split; try (intros [it [Hin Hd]]; vm_compute in Hin; destruct Hin as [<-|[]]; vm_compute in Hd; discriminate).
  vm_compute. discriminate.
Qed.
