"""C49: in-memory object data (mem_hdr, src/stmem.cc) returns exactly what was written."""
import random, re
from vlib import std, hbuild

PID = "C49"
META = {
    "text": "Theorems (Properties_C49.v, closed under the global context) state for ALL histories of write / "
            "freeDataUpto / copy / hasContigousContentRange / endOffset / lowestOffset calls on a fresh mem_hdr (any "
            "offsets, any data, sparse writes, any order) that a line-by-line model of src/stmem.cc + src/mem_node.cc "
            "over the proved model of include/splay.h refines the specification 'partial map offset -> byte': the "
            "stored nodes stay sorted, disjoint, non-empty and at most SM_PAGE_SIZE long (so NodeCompare is a "
            "monotone comparator and splay lookups are exact); write() ends in fatal_dump exactly when a byte of the "
            "range is already present and otherwise adds exactly the written bytes; copy() returns exactly the present "
            "bytes from the offset up to the first missing byte (fatal exactly when the first byte is missing); "
            "hasContigousContentRange() is true exactly when every byte of the range is present; freeDataUpto() never "
            "changes or removes a byte at or above the target, never alters a remaining byte, keeps the last node and "
            "returns the lowest present offset; endOffset() is one past the highest present byte and its assert never "
            "fires; no loop runs out of fuel. The model is tied to the code by differential runs of the extracted model "
            "against the real mem_hdr compiled from the working tree (ASan+UBSan), comparing every answer, the final "
            "node list, inmem_hi, the element count and the exact shape of the splay tree.",
    "note": "Trusted: Coq kernel, extraction, gen/gen_memhdr.cc (SM_PAGE_SIZE), harness/h_memhdr.cc (xassert/fatal_dump "
            "replaced by throwing definitions; a history ends there). mem_node pointers are modelled by the node's offset "
            "(proved unique among stored nodes). Not modelled: write_pending/NodeGet (unlink of a write-pending node), "
            "int64/size_t wrap-around (offsets unbounded Z in the model; generated offsets stay below 2^41), debugs() "
            "arguments. The hand-written MemhdrModel.v is validated against the code only on the generated histories.",
    "technique": "Coq proof (refinement to a partial map via an inductive invariant on the in-order node list, reusing "
                 "the generic splay theorems; lifted to all histories by induction) + extracted-model differential "
                 "correspondence",
}
FRESH = ["src/stmem.cc", "src/mem_node.cc"]      # include/splay.h is a header: compiled into stmem.cc and the harness
# test-suite/mem_hdr_test's recipe (make -n -C /repo/test-suite mem_hdr_test) with the real memory pools, except that
# debug/libdebug.la and stub_fatal.o are replaced by tests/stub_debug.o and the harness' own throwing xassert/fatal*
LINK = ("tests/stub_debug.o tests/stub_cbdata.o tests/stub_MemBuf.o tests/stub_SBuf.o tests/stub_tools.o "
        "tests/stub_libtime.o mem/libmem.la comm/libminimal.la base/libbase.la ../lib/libmiscutil.la "
        "../compat/libcompatsquid.la").split()
PAGE = 4096
MAXREL = 5 * PAGE


def impl(sanitize="asan"):
    return hbuild.build("h_memhdr", "h_memhdr.cc", fresh=FRESH, link=LINK, sanitize=sanitize)


def prebuild():
    impl()


# ---------------------------------------------------------------- case syntax
def op_data(f):
    """bytes written by a w:/W: token"""
    if f[0] == "w":
        return b"" if f[2] == "-" else bytes.fromhex(f[2])
    n, seed = int(f[2]), int(f[3])
    return bytes((seed + i) % 251 for i in range(n))


# ---------------------------------------------------------------- generator
SIZES_SMALL = [1, 1, 2, 3, 5, 8, 13, 40]
SIZES_MED = [100, 500, 1000, 2000, 3000]
SIZES_PAGE = [PAGE - 1, PAGE, PAGE + 1, 2 * PAGE, 2 * PAGE + 1, 5000, PAGE - 10]


_RUNS = re.compile(b"\\x00+|\\x01+|\\x02+")


def runs(st, limit):
    """maximal runs (start, end, state) of the generator's shadow below `limit`"""
    return [(m.start(), m.end(), st[m.start()]) for m in _RUNS.finditer(bytes(st[:limit]))]


def gen_case(rng):
    base = rng.choice([0, 0, 0, 0, 0, 7, 4096, 2 ** 31 - 100, 2 ** 32 - 5, 2 ** 40])
    # generator-side shadow: 0 absent, 1 present, 2 unknown (below an earlier free target)
    st = bytearray(MAXREL + 3 * PAGE)
    style = rng.random()
    sparse_p = 0.05 if style < 0.35 else (0.35 if style < 0.8 else 0.7)
    big_p = rng.choice([0.0, 0.1, 0.3, 0.6])
    end = 0                       # one past the highest byte written (relative)
    ops = []
    nops = rng.choice([1, 2, 3, 5, 8, 8, 12, 12, 16, 24, 32])
    bad_budget = 1 if rng.random() < 0.30 else 0     # histories meant to end in fatal/assert

    def size():
        r = rng.random()
        if r < big_p:
            return rng.choice(SIZES_PAGE)
        if r < big_p + 0.2:
            return rng.choice(SIZES_MED)
        return rng.choice(SIZES_SMALL)

    def holes():
        return [(a, b) for a, b, s in runs(st, MAXREL) if s == 0]

    def stored():
        return [(a, b) for a, b, s in runs(st, end) if s == 1]

    def pick_present():
        """an offset known to be stored, mostly at the edges of a run or of a page"""
        rs = stored()
        if not rs:
            return None
        a, b = rng.choice(rs)
        q = rng.random()
        if q < 0.4:
            return a
        if q < 0.55:
            return b - 1
        if q < 0.75:
            cands = [x for x in (a - a % PAGE + PAGE - 1, a - a % PAGE + PAGE, a - a % PAGE + PAGE + 1) if a <= x < b]
            if cands:
                return rng.choice(cands)
        return rng.randrange(a, b)

    def emit_write(rel, n):
        if n <= 48 and rng.random() < 0.8:
            data = bytes(rng.choice([0, 65, 66, 255, rng.randrange(256)]) for _ in range(n))
            ops.append("w:%d:%s" % (base + rel, data.hex() if n else "-"))
        else:
            ops.append("W:%d:%d:%d" % (base + rel, n, rng.randrange(251)))

    def boundaries():
        out = {0, end}
        for a, b, s in runs(st, end):
            out.add(a); out.add(b)
        return sorted(out)

    for k in range(nops):
        r = rng.random()
        last = (k == nops - 1)
        if bad_budget and (last or rng.random() < 0.08):
            bad_budget = 0
            q = rng.random()
            p = pick_present()
            if q < 0.45 and p is not None:      # overlapping write
                n = size()
                rel = max(0, p - rng.choice([0, 0, 1, n - 1, n // 2, rng.randrange(0, n)]))
                emit_write(rel, max(n, p - rel + 1))
            elif q < 0.75:                      # read starting at a missing byte / from nothing
                hs = holes()
                a, b = rng.choice(hs) if hs else (MAXREL, MAXREL + 1)
                ops.append("c:%d:%d" % (base + rng.choice([a, b - 1, (a + b) // 2]), rng.choice([1, 10, 5000])))
            elif q < 0.85:
                ops.append("c:%d:0" % (base + (p or 0)))
            elif q < 0.93 and base == 0:
                ops.append(rng.choice(["w:-1:41", "w:-5:-", "c:-1:4", "h:-1:3"]))
            else:
                ops.append("w:%d:%s" % (base + (p or 0), "41"))
            continue
        if r < 0.42 or end == 0:
            n = size()
            if rng.random() < 0.03:
                n = 0
            hs = holes() if end and rng.random() < sparse_p else []
            if hs:
                a, b = rng.choice(hs)
                q = rng.random()
                if q < 0.3:
                    rel = a                                    # right after existing data / at hole start
                elif q < 0.55:
                    n = min(n, b - a); rel = b - n             # ends exactly where the next data starts
                elif q < 0.7:
                    n = b - a if b - a <= 3 * PAGE else n; rel = a     # fills the hole exactly
                else:
                    rel = rng.randrange(a, b)
                n = max(0, min(n, b - rel))
            else:
                rel = end if end else rng.choice([0, 0, 0, 1, 10, 100, PAGE - 1, PAGE, PAGE + 1, 6000])
                if rng.random() < 0.1:
                    rel = min(rel + rng.choice([1, 2, 50, PAGE, PAGE + 1]), MAXREL - 1)   # leave a gap
                n = max(0, min(n, MAXREL - rel))
            if st[rel:rel + n].strip(b"\x00"):
                continue                                       # touches a stored / unknown byte: skip
            emit_write(rel, n)
            st[rel:rel + n] = b"\x01" * n
            end = max(end, rel + n)
        elif r < 0.66:
            p = pick_present()
            if p is None:
                continue
            j = p
            while j < end and st[j] == 1:
                j += 1
            n = rng.choice([1, 2, 10, j - p, j - p, max(1, j - p - 1), j - p + 1, j - p + 50, min(j - p, 64), min(j - p, 64), size()])
            if rng.random() < 0.05:
                n = 3 * PAGE
            ops.append("c:%d:%d" % (base + p, max(1, min(n, 20000))))
        elif r < 0.84:
            q = rng.random()
            bounds = boundaries()
            a = rng.choice(bounds) + rng.choice([0, 0, 0, 1, -1]) if q < 0.8 else rng.randrange(0, end + 2)
            b = rng.choice(bounds) + rng.choice([0, 0, 0, 1, -1]) if q < 0.9 else rng.randrange(0, end + 2)
            if rng.random() < 0.85 and a > b:
                a, b = b, a
            a = max(a, 0) if base == 0 else a
            ops.append("h:%d:%d" % (base + a, base + b))
        elif r < 0.94:
            bounds = sorted(set(boundaries() + list(range(PAGE, end, PAGE))))
            t = rng.choice(bounds) + rng.choice([0, 0, 0, 1, -1, 2, 100, -100])
            if rng.random() < 0.1:
                t = rng.choice([0, end + 1000, end // 2])
            t = max(t, 0)
            ops.append("f:%d" % (base + t))
            # the last byte is kept; anything below the target becomes unknown to the generator
            lim = min(t, end - 1 if end else 0)
            if lim > 0:
                st[0:lim] = bytes(st[0:lim]).replace(b"\x01", b"\x02")
        else:
            ops.append(rng.choice(["e", "l"]))
    if not ops:
        ops.append("e")
    if rng.random() < 0.7:
        ops.append(rng.choice(["e", "l", "e"]))
    return "seq " + " ".join(ops)


def gen_cases(rng, n):
    return ["const"] + [gen_case(rng) for _ in range(n)]


# ---------------------------------------------------------------- oracle
ABSENT, PRESENT, MAYBE = 0, 1, 2


def oracle(case, out):
    """C49 stated independently of the Coq model and evaluated on the IMPLEMENTATION's answers: a byte-array
    shadow with a per-byte state (absent / present / maybe = was present and lies below an earlier release offset)
    is driven by the same history. Returns None or (signature, description)."""
    a = case.split()
    if a[0] == "const":
        return None if out == "page=%d data=%d" % (PAGE, PAGE) else \
            ("oracle:const", "SM_PAGE_SIZE / sizeof(mem_node::data) are %s, the check assumes %d" % (out, PAGE))
    if out.startswith(("CRASH", "EXC", "ERR")) or "BAD-" in out or "w=false" in out:
        return ("oracle:crash", "implementation crashed / memory error / broke its own accounting: " + out[:300])
    try:
        head, _, tail = out.partition(" | ")
        toks = head.split()
        ops = [t.split(":") for t in a[1:]]
        # window of offsets the shadow covers
        offs = []
        for f in ops:
            if f[0] in ("w", "W"):
                offs += [int(f[1]), int(f[1]) + len(op_data(f))]
            elif f[0] == "c":
                offs += [int(f[1]), int(f[1]) + int(f[2])]
            elif f[0] == "h":
                offs += [int(f[1]), int(f[2])]
            elif f[0] == "f":
                offs += [int(f[1])]
        lo = max(0, min(offs)) if offs else 0
        size = max(max(offs) - lo + 2, 2) if offs else 2
        if size > 4000000:
            return None
        st = bytearray(size)
        val = bytearray(size)
        anything = False
        if len(toks) > len(ops):
            return ("oracle:unparsable", "more answers than operations")
        for n, (f, t) in enumerate(zip(ops, toks)):
            where = "op #%d `%s`" % (n + 1, ":".join(f)[:60])
            dead = t in ("ASSERT", "FATAL")
            if dead and n != len(toks) - 1:
                return ("oracle:unparsable", "answers after a fatal end")
            if f[0] in ("w", "W"):
                off = int(f[1]); data = op_data(f); r0 = off - lo
                if t == "ASSERT":
                    if off >= 0:
                        return ("oracle:write-assert", "%s: an assertion failed inside write() at a non-negative offset" % where)
                    continue
                if off < 0:
                    return ("oracle:write-negative", "%s: write at a negative offset answered %s" % (where, t))
                seg = st[r0:r0 + len(data)]
                if t == "FATAL":
                    if PRESENT not in seg and MAYBE not in seg:
                        return ("oracle:write-rejected", "%s: a write touching no stored byte was rejected as an overwrite" % where)
                    continue
                if t != "w":
                    return ("oracle:unparsable", "%s answered %s" % (where, t))
                if PRESENT in seg:
                    return ("oracle:overwrite-accepted", "%s: a write overlapping stored data was accepted" % where)
                st[r0:r0 + len(data)] = bytes([PRESENT]) * len(data)
                val[r0:r0 + len(data)] = data
                anything = anything or len(data) > 0
            elif f[0] == "c":
                off = int(f[1]); ln = int(f[2]); r0 = off - lo
                if t == "ASSERT":
                    if ln > 0 and anything and off >= 0:
                        return ("oracle:copy-assert", "%s: an assertion failed inside copy() of a non-empty range from a non-empty object" % where)
                    continue
                if t == "FATAL":
                    if off >= 0 and st[r0] == PRESENT:
                        return ("oracle:copy-missing", "%s: copy() did not find a byte that was written and not released" % where)
                    continue
                if not t.startswith("c="):
                    return ("oracle:unparsable", "%s answered %s" % (where, t))
                cnt, _, hx = t[2:].partition(":")
                got = b"" if hx == "-" else bytes.fromhex(hx)
                if int(cnt) != len(got) or len(got) > ln or ln == 0 or off < 0:
                    return ("oracle:copy-count", "%s: inconsistent count %s" % (where, t[:60]))
                if len(got) == 0:
                    return ("oracle:copy-empty", "%s: copy() returned no byte although it found the first one" % where)
                for i, b in enumerate(got):
                    if st[r0 + i] == ABSENT:
                        return ("oracle:copy-invented", "%s: byte %d of the answer (offset %d) was never written or was answered absent before" % (where, i, off + i))
                    if val[r0 + i] != b:
                        return ("oracle:copy-wrong-byte", "%s: byte %d of the answer (offset %d) is %02x, written was %02x" % (where, i, off + i, b, val[r0 + i]))
                    st[r0 + i] = PRESENT
                if len(got) < ln:
                    if st[r0 + len(got)] == PRESENT:
                        return ("oracle:copy-short", "%s: copy() stopped after %d bytes although the next byte (offset %d) is stored" % (where, len(got), off + len(got)))
                    st[r0 + len(got)] = ABSENT
            elif f[0] == "h":
                s, e = int(f[1]), int(f[2])
                if t == "ASSERT":
                    if s >= 0:
                        return ("oracle:contig-assert", "%s: assertion failed" % where)
                    continue
                if t not in ("h=0", "h=1"):
                    return ("oracle:unparsable", "%s answered %s" % (where, t))
                if s < 0:
                    if anything or (t == "h=1") != (e <= s):
                        return ("oracle:contig-negative", "%s answered %s" % (where, t))
                    continue
                seg = st[s - lo:max(e, s) - lo]
                if t == "h=1":
                    if ABSENT in seg:
                        return ("oracle:contig-true", "%s: answered contiguous although offset %d is missing" % (where, s + seg.index(ABSENT)))
                    st[s - lo:max(e, s) - lo] = bytes([PRESENT]) * len(seg)
                else:
                    if len(seg) == 0 or (ABSENT not in seg and MAYBE not in seg):
                        return ("oracle:contig-false", "%s: answered not contiguous although every byte of the range is stored" % where)
            elif f[0] == "f":
                tgt = int(f[1])
                if not t.startswith("f="):
                    return ("oracle:unparsable", "%s answered %s" % (where, t))
                low = int(t[2:])
                # bytes below the target may or may not be released (node granularity); nothing at or above it may be touched
                for i in range(0, max(0, min(tgt - lo, size))):
                    if st[i] == PRESENT:
                        st[i] = MAYBE
                first_present = st.find(bytes([PRESENT]))
                if not anything:
                    if low != 0:
                        return ("oracle:free-lowest", "%s: lowest offset %d of an empty object" % (where, low))
                    continue
                r = low - lo
                if r < 0 or r >= size or st[r] == ABSENT:
                    return ("oracle:free-lowest", "%s: returned lowest offset %d, which is not a stored byte" % (where, low))
                if first_present >= 0 and first_present < r:
                    return ("oracle:free-lost", "%s: released offset %d, which is at or above the release offset %d (lowest is now %d)" % (where, first_present + lo, tgt, low))
                if MAYBE not in st[r:] and PRESENT not in st[r:]:
                    return ("oracle:free-lost", "%s: everything was released" % where)
                st[0:r] = bytes(r)
                st[r] = PRESENT
            elif f[0] in ("e", "l"):
                if t == "ASSERT":
                    return ("oracle:end-assert", "%s: the internal consistency assertion of endOffset() failed" % where)
                v = int(t[2:])
                if f[0] == "e":
                    hi = max(st.rfind(bytes([PRESENT])), st.rfind(bytes([MAYBE])))
                    exp = hi + 1 + lo if hi >= 0 else 0
                    if v != exp:
                        return ("oracle:end", "%s: endOffset() is %d, the highest written byte is at %d" % (where, v, exp - 1))
                else:
                    if not anything:
                        if v != 0:
                            return ("oracle:lowest", "%s: lowestOffset() %d of an empty object" % (where, v))
                        continue
                    r = v - lo
                    fp = st.find(bytes([PRESENT]))
                    if r < 0 or r >= size or st[r] == ABSENT or (fp >= 0 and fp < r):
                        return ("oracle:lowest", "%s: lowestOffset() is %d" % (where, v))
                    st[0:r] = bytes(r)
                    st[r] = PRESENT
        # final dump: node list must cover exactly the stored bytes
        if tail and tail != "dead":
            w = tail.split()
            nodes = [] if w[0].startswith("hi=") else [tuple(int(x) for x in nd.split("+")) for nd in w[0].split(",")]
            prev = 0
            cover = bytearray(size)
            for off, ln in nodes:
                if ln < 1 or ln > PAGE or off < prev:
                    return ("oracle:nodes", "stored nodes are not sorted / disjoint / 1..%d bytes long: %s" % (PAGE, w[0][:200]))
                prev = off + ln
                if off - lo < 0 or off - lo + ln > size:
                    return ("oracle:nodes", "a stored node lies outside everything ever written: %s" % w[0][:200])
                cover[off - lo:off - lo + ln] = bytes([1]) * ln
            for i in range(size):
                if cover[i] and st[i] == ABSENT:
                    return ("oracle:nodes", "the stored nodes contain offset %d, which is not a written byte" % (i + lo))
                if not cover[i] and st[i] == PRESENT:
                    return ("oracle:nodes", "offset %d was written and not released but no stored node contains it" % (i + lo))
    except Exception as ex:
        return ("oracle:unparsable", "unparsable implementation output %r (%s: %s)" % (out[:120], type(ex).__name__, ex))
    return None


def mutate(rng, case):
    """a neighbouring history: drop an operation, or move one number by a little"""
    a = case.split()
    if len(a) < 2:
        return case
    k = rng.randrange(1, len(a))
    if rng.random() < 0.3 and len(a) > 2:
        del a[k]
        return " ".join(a)
    f = a[k].split(":")
    nums = [i for i in range(1, len(f)) if f[i].lstrip("-").isdigit() and not (f[0] == "w" and i == 2)]
    if nums:
        i = rng.choice(nums)
        f[i] = str(max(0, int(f[i]) + rng.choice([-1, 1, -2, 2, PAGE, -PAGE])))
        a[k] = ":".join(f)
    return " ".join(a)


def kind(c, o):
    if c == "const":
        return "const"
    head = o.partition(" | ")[0].split()
    last = head[-1] if head else "?"
    end = last if last in ("ASSERT", "FATAL") else "completed"
    sparse = "sparse" if "," in o.partition(" | ")[2].split(" hi=")[0] else "contiguous"
    return end + ("" if end != "completed" else ":" + sparse)


def nontrivial(c, o):
    return " c=" in " " + o or " h=" in " " + o or " f=" in " " + o


def run(res, tier):
    res.rule = ("random histories of 1..33 operations on a fresh mem_hdr: appends and sparse writes aimed at hole starts / "
                "ends / exact fills, sizes {0,1,..,40,100..3000,4095,4096,4097,5000,8192,8193}, base offsets {0,7,4096,"
                "2^31-100,2^32-5,2^40}; reads starting at stored bytes with lengths up to / across the next hole; "
                "contiguity queries and releases at range boundaries +-1 and page multiples; 30% of the histories end in "
                "an overlapping write, a read of a missing byte, an empty read or a negative offset; a case is "
                "non-trivial when it contains at least one answered read, contiguity query or release")
    std.run_standard(res, PID, tier, area="memhdr", build_impl=impl, gen_cases=gen_cases, oracle=oracle,
                     corr_name="MemhdrModel (over SplayModel) vs src/stmem.cc, src/mem_node.cc, include/splay.h",
                     gens=["memhdr"], n_quick=3000, n_thorough=40000, seed_salt=49, mutate=mutate,
                     kind_fn=kind, nontrivial_fn=nontrivial)
