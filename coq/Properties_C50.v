(* Properties_C50.v — C50: character sets and tokenizers follow set semantics.
   Statements only; proofs live in CharSetProofs.v / TokProofs.v. *)
Require Import SquidV.Bytes SquidV.CharSetModel SquidV.CharSetProofs SquidV.TokModel SquidV.TokProofs.
Require Import SquidV.gen.CharSets_gen.
Local Open Scope N_scope.

(* --- set operations are the operations on sets of byte values --- *)
Theorem C50_union_is_union : forall d s c, lenN d = lenN s ->
  cs_mem (cs_plus d s) c = cs_mem d c || cs_mem s c.
Proof. exact mem_plus. Qed.

Theorem C50_difference_is_difference : forall d s c, lenN d = lenN s ->
  cs_mem (cs_minus d s) c = cs_mem d c && negb (cs_mem s c).
Proof. exact mem_minus. Qed.

Theorem C50_complement_is_complement : forall s c, c < lenN s ->
  cs_mem (cs_complement s) c = negb (cs_mem s c).
Proof. exact mem_complement. Qed.

Theorem C50_add_remove_membership : forall s c v d, c < lenN s ->
  cs_mem (cs_set s c v) d = if d =? c then v else cs_mem s d.
Proof. exact mem_set. Qed.

Theorem C50_addRange_is_interval : forall s low high d,
  lenN s = 256 -> low < 256 -> high < 256 ->
  cs_mem (cs_addRange s low high) d = cs_mem s d || ((low <=? d) && (d <=? high)) || (d =? high).
Proof. exact mem_addRange. Qed.

(* --- tokenizer operations consume exactly the maximal/limited runs --- *)
Theorem C50_prefix_maximal_or_limited : forall set limit buf t r,
  tok_prefix set limit buf = Some (t, r) ->
  t ++ r = buf /\ t <> [] /\ forallb set t = true /\ lenN t <= limit /\
  (lenN t = limit \/ match r with [] => True | y :: _ => set y = false end).
Proof. exact tok_prefix_sound. Qed.

Theorem C50_prefix_fails_only_without_run : forall set limit buf,
  tok_prefix set limit buf = None ->
  buf = [] \/ limit = 0 \/ match buf with y :: _ => set y = false | [] => True end.
Proof. exact tok_prefix_none. Qed.

Theorem C50_skipAll_is_maximal_run : forall set buf,
  tok_skipAll set buf = (lenN (fst (span set buf)), snd (span set buf)).
Proof. exact tok_skipAll_spec. Qed.

Theorem C50_skipAllTrailing_is_maximal_tail : forall set buf,
  tok_skipAllTrailing set buf = (lenN (tail_run set buf), tail_rest set buf).
Proof. exact tok_skipAllTrailing_spec. Qed.

Theorem C50_suffix_limited_tail_run : forall set limit buf t r,
  tok_suffix set limit buf = Some (t, r) ->
  r ++ t = buf /\ t <> [] /\ forallb set t = true /\ lenN t <= limit.
Proof. exact tok_suffix_sound. Qed.

Theorem C50_suffix_unlimited_is_maximal : forall set limit buf, lenN buf <= limit ->
  tok_suffix set limit buf =
  match tail_run set buf with [] => None | _ :: _ => Some (tail_run set buf, tail_rest set buf) end.
Proof. exact tok_suffix_spec_nolimit. Qed.

Theorem C50_token_between_delimiters : forall delims buf t r,
  tok_token delims buf = Some (t, r) ->
  exists d1 d2, buf = d1 ++ t ++ d2 ++ r /\
    forallb delims d1 = true /\ forallb delims d2 = true /\ d2 <> [] /\
    forallb (fun c => negb (delims c)) t = true /\ t <> [] /\
    match r with [] => True | y :: _ => delims y = false end.
Proof. exact tok_token_sound. Qed.

(* --- the named sets, regenerated from the code, are their RFC 5234 / 9110 definitions --- *)
Definition in_range (lo hi c : N) : bool := (lo <=? c) && (c <=? hi).
Definition C50_named_check (c : N) : bool :=
    Bool.eqb (cs_DIGIT c) (in_range 48 57 c) &&
    Bool.eqb (cs_ALPHA c) (in_range 65 90 c || in_range 97 122 c) &&
    Bool.eqb (cs_HEXDIG c) (in_range 48 57 c || in_range 65 70 c || in_range 97 102 c) &&
    Bool.eqb (cs_VCHAR c) (in_range 33 126 c) &&
    Bool.eqb (cs_WSP c) ((c =? 32) || (c =? 9)) &&
    Bool.eqb (cs_CTL c) (in_range 1 31 c || (c =? 127)) &&
    Bool.eqb (cs_OBSTEXT c) (in_range 128 255 c) &&
    Bool.eqb (cs_TCHAR c) (cs_ALPHA c || cs_DIGIT c ||
                existsb (N.eqb c) [33;35;36;37;38;39;42;43;45;46;94;95;96;124;126]) &&
    Bool.eqb (cs_QDTEXT c) ((c =? 9) || (c =? 32) || (c =? 33) || in_range 35 91 c || in_range 93 126 c || in_range 128 255 c).
Theorem C50_named_sets_match_rfc : forall c, c < 256 ->
  cs_DIGIT c = in_range 48 57 c /\
  cs_ALPHA c = (in_range 65 90 c || in_range 97 122 c) /\
  cs_HEXDIG c = (in_range 48 57 c || in_range 65 70 c || in_range 97 102 c) /\
  cs_VCHAR c = in_range 33 126 c /\
  cs_WSP c = ((c =? 32) || (c =? 9)) /\
  cs_CTL c = (in_range 1 31 c || (c =? 127)) /\
  cs_OBSTEXT c = in_range 128 255 c /\
  cs_TCHAR c = (cs_ALPHA c || cs_DIGIT c ||
                existsb (N.eqb c) [33;35;36;37;38;39;42;43;45;46;94;95;96;124;126]) /\
  cs_QDTEXT c = ((c =? 9) || (c =? 32) || (c =? 33) || in_range 35 91 c || in_range 93 126 c || in_range 128 255 c).
Proof.
  intros c Hc.
  pose proof (forallb_bytes C50_named_check ltac:(vm_compute; reflexivity) c Hc) as H.
  unfold C50_named_check in H.
  repeat (apply andb_prop in H; let H' := fresh "H" in destruct H as [H H']).
  repeat match goal with E : Bool.eqb _ _ = true |- _ => apply Bool.eqb_prop in E end.
  repeat split; assumption.
Qed.

(* non-vacuity: concrete instances of the hypotheses *)
Example C50_prefix_example :
  tok_prefix cs_DIGIT 2 [49; 50; 51; 120] = Some ([49; 50], [51; 120]).
Proof. vm_compute. reflexivity. Qed.
Example C50_token_example :
  tok_token cs_WSP [32; 97; 98; 9; 32; 99] = Some ([97; 98], [99]).
Proof. vm_compute. reflexivity. Qed.

Print Assumptions C50_union_is_union.
Print Assumptions C50_difference_is_difference.
Print Assumptions C50_complement_is_complement.
Print Assumptions C50_add_remove_membership.
Print Assumptions C50_addRange_is_interval.
Print Assumptions C50_prefix_maximal_or_limited.
Print Assumptions C50_prefix_fails_only_without_run.
Print Assumptions C50_skipAll_is_maximal_run.
Print Assumptions C50_skipAllTrailing_is_maximal_tail.
Print Assumptions C50_suffix_limited_tail_run.
Print Assumptions C50_suffix_unlimited_is_maximal.
Print Assumptions C50_token_between_delimiters.
Print Assumptions C50_named_sets_match_rfc.
