// Table generator for C13 (Vary): what the vary-mark code depends on, as the tree defines it now.
//   vary_esc_tbl         per-byte image of rfc1738_escape_part(), the macro src/http.cc:assembleVaryKey applies to
//                        every nominated request-header value (entry 0 = [], the C string terminator)
//   vary_esc_flags       the flag word behind that macro (RFC1738_ESCAPE_ALL)
//   x_accelerator_vary   whether the X_ACCELERATOR_VARY code paths are compiled in
// Prints Coq source; "@@FILE <name>" starts a file.
#include "squid.h"
#include "rfc1738.h"

#include <iostream>
#include <string>

int main()
{
    std::cout << "@@FILE Vary_gen.v\n";
    std::cout << "(* generated from /repo by gen/gen_varyesc.cc -- do not edit *)\n"
              "Require Import SquidV.Bytes.\nLocal Open Scope N_scope.\n";
    std::cout << "Definition vary_esc_tbl : list bytes := [";
    for (int c = 0; c < 256; ++c) {
        std::string out;
        if (c) {
            const char in[2] = {static_cast<char>(c), 0};
            out = rfc1738_escape_part(in);
        }
        std::cout << (c ? ";" : "") << (c % 16 == 0 ? "\n " : "") << "[";
        for (size_t i = 0; i < out.size(); ++i)
            std::cout << (i ? ";" : "") << static_cast<unsigned>(static_cast<unsigned char>(out[i]));
        std::cout << "]";
    }
    std::cout << "].\n";
    // context check: the escape must be per-byte (no state carried between bytes); two probes, more in the correspondence
    {
        const std::string a = rfc1738_escape_part("a\"%\xe9 b,=");
        std::string b;
        for (const char ch : std::string("a\"%\xe9 b,=")) {
            const char in[2] = {ch, 0};
            b += rfc1738_escape_part(in);
        }
        std::cout << "Definition vary_esc_contextfree_probe : bool := " << (a == b ? "true" : "false") << ".\n";
    }
    std::cout << "Definition vary_esc_flags : N := " << static_cast<unsigned>(RFC1738_ESCAPE_ALL) << ".\n";
#if X_ACCELERATOR_VARY
    std::cout << "Definition x_accelerator_vary : bool := true.\n";
#else
    std::cout << "Definition x_accelerator_vary : bool := false.\n";
#endif
    return 0;
}
