"""C54: the shared read/write lock (src/ipc/ReadWriteLock.cc) provides mutual exclusion."""
import itertools, random
from vlib import std, hbuild

PID = "C54"
META = {
    "text": "Theorems (Properties_C54.v, closed under the global context) hold for ANY number of processes, ANY scripts of "
            "lockShared/lockExclusive/lockHeaders/unlock*/switchExclusiveToShared/unlockSharedAndSwitchToExclusive/"
            "startAppending/stopAppendingAndRestoreExclusive calls and ANY interleaving of their single atomic operations: "
            "an inductive counting invariant (readLevel/writeLevel/readers/writing/appending/updating equal the number of "
            "processes at the corresponding program points; at most one 'first writer'; a Dekker-style clause: while a "
            "writer is committed to exclusivity every other process counted in readLevel is still in lockShared's "
            "undecided/failing part) gives: holders are pairwise compatible (exclusive excludes everybody, writers exclude "
            "writers, shared holders coexist with a writer only in append mode or after stopAppending answered false, at most "
            "one header updater), no assert() of the file can fire, and when every process is idle all six fields are zero "
            "and lockExclusive/lockShared/lockHeaders succeed again; the round-robin completion used by the runner always "
            "terminates. The model is tied to the code by running the extracted model and the real ReadWriteLock.cc, compiled "
            "unmodified from the working tree against a scheduler-controlled std::atomic (harness/sched_atomic.h), on the same "
            "scripts and schedules (every context switch at an atomic operation) and diffing events, final fields and probes.",
    "note": "Trusted: Coq kernel, extraction, harness/sched_atomic.h + h_rwlock.cc (cooperative scheduler, client protocol), "
            "sequentially consistent atomics (the two acquire/release orders on `updating` are treated as SC), uint32 counters "
            "modelled as unbounded integers (a wrap needs 2^32 processes inside the lock), clients follow the documented "
            "protocol (only unlock what they hold). RwlockModel.v is validated against the code only on the generated "
            "schedules (exhaustive 2-thread prefixes + random 1..4 threads).",
    "technique": "Coq proof (inductive invariant over all interleavings of an unbounded number of processes, weighted program-counter "
                 "sums + lia) + extracted-model differential correspondence under a scheduler-controlled std::atomic",
}
FRESH = ["src/ipc/ReadWriteLock.cc"]
OPS = "SsXxHhDUAa"


def impl(sanitize="ubsan"):
    # ReadWriteLock.h is a header-only part of the anchor: it is compiled into both units from the working tree
    return hbuild.build("h_rwlock", "h_rwlock.cc", fresh=FRESH, link=[], flags=["-include", "sched_atomic.h"],
                        sanitize=sanitize, syslibs=[])


def prebuild():
    impl()


# ---------------------------------------------------------------- generators
PHRASES = ["Ss", "Ss", "Xx", "Xx", "Hh", "Hh", "SUx", "SUx", "XDs", "XAx", "XAax", "XAaAx", "XADs", "XAaDs", "XAaxSs",
           "SUAax", "SUDs", "HhSs", "XDUx", "SUDUx", "XAaAaDs", "S", "X", "H", "XA", "SU"]
PAIRS = [("Xx", "Xx"), ("Xx", "Ss"), ("Ss", "Xx"), ("Ss", "Ss"), ("Hh", "Hh"), ("Hh", "Ss"), ("Hh", "Xx"),
         ("SUx", "Xx"), ("SUx", "Ss"), ("SUx", "SUx"), ("XDs", "Ss"), ("XDs", "Xx"), ("XAax", "Ss"), ("XAax", "Xx"),
         ("XAax", "Hh"), ("XADs", "Ss"), ("XAx", "Ss"), ("XAaAx", "Ss"), ("SUAax", "Ss"), ("Hh", "SUx"), ("XAax", "SUx"),
         ("XAaDs", "Hh"), ("X", "S"), ("S", "X"), ("XA", "S"), ("SU", "SU")]


# (scripts, schedule prefix): 6 steps = lockExclusive done, 9 = startAppending done, 4 = lockShared done, 5 = lockHeaders done
PREFIXED = [(("XAax", "Ss"), "0" * 9), (("XAaDs", "Ss"), "0" * 9), (("XAax", "Hh"), "0" * 9), (("XADs", "Ss"), "0" * 9),
            (("XAx", "SUx"), "0" * 9), (("XDs", "Ss"), "0" * 6), (("XDs", "Xx"), "0" * 6), (("SUx", "Ss"), "0" * 4),
            (("SUx", "Xx"), "0" * 4), (("SUx", "SUx"), "00001111"), (("Hh", "Hh"), "0" * 5), (("Ss", "Xx"), "0" * 4)]


def rand_script(rng):
    k = rng.random()
    if k < 0.75:
        return "".join(rng.choice(PHRASES) for _ in range(rng.choice([1, 1, 2, 2, 3, 4])))
    if k < 0.9:  # phrases with noise: dropped / duplicated / random operations (illegal ones are skipped by the client)
        s = list("".join(rng.choice(PHRASES) for _ in range(rng.choice([1, 2, 3]))))
        for _ in range(rng.choice([1, 1, 2, 3])):
            j = rng.randrange(len(s) + 1)
            if rng.random() < 0.5 and s:
                del s[min(j, len(s) - 1)]
            else:
                s.insert(j, rng.choice(OPS))
        return "".join(s)
    return "".join(rng.choice(OPS) for _ in range(rng.randrange(0, 12)))


def rand_schedule(rng, n, scripts):
    total = sum(7 * len(s) + 1 for s in scripts)
    style = rng.random()
    if style < 0.1:
        return ""
    want = rng.choice([total // 4, total // 2, total, total, total + 5])
    out = []
    if style < 0.55:   # bursts
        while len(out) < want:
            t = rng.randrange(n)
            out.extend([t] * rng.choice([1, 1, 1, 2, 2, 3, 4, 5, 6, 8]))
    elif style < 0.85:  # uniform
        out = [rng.randrange(n) for _ in range(want)]
    else:               # one thread runs far ahead, then the others
        t = rng.randrange(n)
        out = [t] * rng.randrange(1, 14) + [rng.randrange(n) for _ in range(want)]
    return "".join(str(t) for t in out[:want + 14])


def mk(scripts, sched):
    return "rw.run %d %s %s" % (len(scripts), " ".join(s or "-" for s in scripts), sched or "-")


def exhaustive(pairs, length):
    out = []
    for a, b in pairs:
        for bits in itertools.product("01", repeat=length):
            out.append(mk([a, b], "".join(bits)))
    return out


def gen_cases(rng, n):
    """n counts the random stream; the small-scope exhaustive stream is added on top:
    every schedule prefix of length L over two threads for each script pair (after the prefix: round-robin)."""
    quick = n <= 50000
    cases = []
    L = 10 if quick else 13
    cases += exhaustive(PAIRS, L)
    # three threads, exhaustive short prefixes
    for scr in [("Xx", "Ss", "Ss"), ("Xx", "Xx", "Ss"), ("XAax", "Ss", "Hh"), ("Hh", "Hh", "Hh"), ("SUx", "SUx", "Xx")]:
        for bits in itertools.product("012", repeat=6 if quick else 8):
            cases.append(mk(list(scr), "".join(bits)))
    # a fixed prefix brings thread 0 to a holding state first; then every continuation of length L
    for scr, prefix in PREFIXED:
        for bits in itertools.product("01", repeat=L):
            cases.append(mk(list(scr), prefix + "".join(bits)))
    for _ in range(n):
        nt = rng.choice([1, 2, 2, 2, 2, 3, 3, 3, 3, 4])
        scripts = [rand_script(rng) for _ in range(nt)]
        cases.append(mk(scripts, rand_schedule(rng, nt, scripts)))
    return cases


# ---------------------------------------------------------------- oracle (independent statement of the property)
# the client protocol: (mode, op, answer) -> new mode
NEXT = {}
for _m in "I":
    NEXT[(_m, "S", "+")] = "S"; NEXT[(_m, "S", "-")] = "I"
    NEXT[(_m, "X", "+")] = "X"; NEXT[(_m, "X", "-")] = "I"
    NEXT[(_m, "H", "+")] = "H"; NEXT[(_m, "H", "-")] = "I"
NEXT[("S", "s", ".")] = "I"
NEXT[("S", "U", "+")] = "X"; NEXT[("S", "U", "-")] = "I"
NEXT[("H", "h", ".")] = "I"
for _m in "XAB":
    NEXT[(_m, "x", ".")] = "I"
    NEXT[(_m, "D", ".")] = "S"
NEXT[("X", "A", ".")] = "A"; NEXT[("B", "A", ".")] = "A"
NEXT[("A", "a", "+")] = "X"; NEXT[("A", "a", "-")] = "B"

WRITERS = "XAB"


def compatible(a, b):
    """may two different processes hold a and b at the same time?"""
    if a == "X" or b == "X":
        return False                      # exclusive excludes everybody
    if a in WRITERS and b in WRITERS:
        return False                      # at most one writer
    if a == "H" and b == "H":
        return False                      # at most one header updater
    return True                           # S/H with S/H, S/H with an appending (A) or knowingly non-exclusive (B) writer


def parse(out):
    parts = out.split(" | ")
    f = dict(x.split("=") for x in parts[1].split())
    return parts[0].split(), f, parts[2][2:], parts[3][2:]


def oracle(case, out):
    if out.startswith(("CRASH", "EXC", "ERR", "FUEL")):
        return ("oracle:crash", "implementation crashed / threw: " + out[:200])
    try:
        n = int(case.split()[1])
        events, f, modes, probe = parse(out)
        mode = ["I"] * n
        hold = [None] * n
        for e in events:
            if e == "-":
                continue
            if e == "LIVELOCK":
                return ("oracle:livelock", "a lock operation did not finish within the step bound")
            t, k = int(e[0]), e[1]
            if k == "#":
                return ("oracle:assert", "an assert() of ReadWriteLock.cc failed in thread %d although every client follows the protocol" % t)
            if k == "@":
                hold[t] = None      # the hold ends with this last look at the data; the next call starts
                continue
            if k == "!":
                continue            # ended, keeps holding
            nm = NEXT.get((mode[t], k, e[2]))
            if nm is None:
                return ("oracle:harness-protocol", "event %s is not possible in mode %s" % (e, mode[t]))
            mode[t] = nm
            hold[t] = nm if nm != "I" else None
            if hold[t]:
                for u in range(n):
                    if u != t and hold[u] and not compatible(hold[t], hold[u]):
                        pair = "".join(sorted(hold[t] + hold[u]))
                        return ("oracle:conflict:" + pair,
                                "after `%s` thread %d holds %s while thread %d holds %s" % (e, t, hold[t], u, hold[u]))
        if "".join(mode) != modes and "#" not in modes:
            return ("oracle:harness-mode", "harness modes %s differ from the modes implied by the answers %s" % (modes, "".join(mode)))
        # quiescent: every thread ended. The fields must say exactly who still holds what.
        sh = sum(1 for m in mode if m in "SH")
        wr = sum(1 for m in mode if m in WRITERS)
        exp = {"R": sh, "W": 1 if wr else 0, "A": 1 if "A" in mode else 0, "U": 1 if "H" in mode else 0, "rl": sh, "wl": wr}
        got = {k: int(v) for k, v in f.items()}
        if got != exp:
            what = "idle-after-release" if sh + wr == 0 else "counters"
            return ("oracle:" + what, "all threads ended holding %s but the lock fields are %s (expected %s)" % ("".join(mode), got, exp))
        if sh + wr == 0 and probe != "+++":
            return ("oracle:idle-not-obtainable", "every holder released but lockExclusive/lockShared/lockHeaders answered %s" % probe)
    except Exception as ex:
        return ("oracle:unparsable", "unparsable implementation output %r (%s)" % (out[:120], ex))
    return None


def overlapped(out):
    """some operation of one thread was in progress while another thread's event happened"""
    inop = set()
    for e in out.split(" | ")[0].split():
        if len(e) < 2 or not e[0].isdigit():
            continue
        t, k = e[0], e[1]
        if inop - {t}:
            return True
        if k == "@":
            inop.add(t)
        elif k not in "!#":
            inop.discard(t)
    return False


ATTEMPTS = {"granted": 0, "refused": 0}


def kind(case, out):
    ev = out.split(" | ")[0].split()
    acq = [e for e in ev if len(e) == 3 and e[1] in "SXHUa"]
    ok = sum(1 for e in acq if e[2] == "+")
    ATTEMPTS["granted"] += ok
    ATTEMPTS["refused"] += len(acq) - ok
    res = "none" if not acq else "allok" if ok == len(acq) else "allfail" if ok == 0 else "mixed"
    return "%st:%s" % (case.split()[1], res)


def mutate(rng, case):
    a = case.split()
    n = int(a[1])
    k = rng.random()
    sched = list(a[-1]) if a[-1] != "-" else []
    if k < 0.6 and sched:
        i = rng.randrange(len(sched))
        if rng.random() < 0.5:
            sched[i] = str(rng.randrange(n))
        else:
            j = rng.randrange(len(sched)); sched[i], sched[j] = sched[j], sched[i]
    elif k < 0.8:
        sched.insert(rng.randrange(len(sched) + 1), str(rng.randrange(n)))
    else:
        i = 2 + rng.randrange(n)
        s = list(a[i]) if a[i] != "-" else []
        s.insert(rng.randrange(len(s) + 1), rng.choice(OPS))
        a[i] = "".join(s)
    a[-1] = "".join(sched) or "-"
    return " ".join(a)


def run(res, tier):
    res.rule = ("1..4 protocol-following client threads running scripts over the 10 public ReadWriteLock methods under explicit "
                "schedules (one entry = one atomic operation or one use step): every schedule prefix of length 10 (13 thorough) "
                "for 26 two-thread script pairs (and after 12 fixed prefixes that first bring thread 0 to a holding state) and of length 6 (8) for 5 three-thread triples, then random burst/uniform/"
                "run-ahead schedules over random phrase scripts; past the schedule: round-robin. A case is non-trivial when "
                "some operation of one thread was in progress while another thread completed a step (context switch inside an operation)")
    res.trusted.append("harness/sched_atomic.h replaces std::atomic/std::atomic_flag by a cooperative-scheduler version at compile "
                       "time (-include); atomics are sequentially consistent; ReadWriteLock.cc itself is compiled unmodified")
    std.run_standard(res, PID, tier, area="rwlock", build_impl=impl, gen_cases=gen_cases, oracle=oracle,
                     corr_name="RwlockModel vs src/ipc/ReadWriteLock.cc under sched_atomic.h",
                     n_quick=12000, n_thorough=150000, seed_salt=54, mutate=mutate,
                     kind_fn=kind, nontrivial_fn=lambda c, o: overlapped(o))
    res.extra["lock_attempts"] = dict(ATTEMPTS)   # outcome balance over all lock/upgrade/stopAppending attempts


def replay(d):
    """./verif replay <file>: run the recorded case on the implementation built from the current tree"""
    from vlib import corr
    case = d.get("replay", {}).get("case")
    if not case:
        print(d.get("description", "no case recorded"))
        return 0
    out = corr.run_lines(impl(), [case])[0]
    v = oracle(case, out)
    print("case:   " + case)
    print("impl:   " + out)
    print("oracle: " + ("holds" if v is None else "%s: %s" % v))
    return 1 if v else 0
