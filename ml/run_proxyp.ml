(* handlers for the proxyp area (ProxyProtocol::Parse, Header, BinaryTokenizer) *)

(* <ipmap>: "-" or comma separated "<hex text>:<hex of the 16 address bytes>": the answers of the
   real Ip::Address::GetHostByName for the IP texts occurring in the input (anything else: failure) *)
let ipf_of_map (m : string) : n list -> n list option =
  if m = "-" then (fun _ -> None) else
  let tbl = List.map (fun e -> match String.split_on_char ':' e with
                                | [t; a] -> (bytes_of_hex t, bytes_of_hex a)
                                | _ -> failwith "ipmap") (String.split_on_char ',' m) in
  fun t -> List.assoc_opt t tbl

let hex_of_string (s : string) : string =
  if s = "" then "-" else String.concat "" (List.map (fun c -> Printf.sprintf "%02x" (Char.code c)) (List.init (String.length s) (String.get s)))

let show_outcome = function
  | More -> "MORE"
  | Reject _ -> "REJ"
  | Ok (h, size) ->
    "OK " ^ string_of_n size
    ^ " v=" ^ hex_of_string (if h.h_v2 then "2.0" else "1.0")
    ^ " cmd=" ^ hex_of_string (string_of_n h.h_cmd)
    ^ " ign=" ^ b2s h.h_ignore
    ^ " fwd=" ^ b2s (has_forwarded_addresses h)
    ^ " fam=" ^ hex_of_bytes (address_family h.h_src h.h_dst)
    ^ " src=" ^ hex_of_bytes h.h_src ^ "/" ^ string_of_n h.h_sport
    ^ " dst=" ^ hex_of_bytes h.h_dst ^ "/" ^ string_of_n h.h_dport
    ^ " tlvs=" ^ (if h.h_tlvs = [] then "-" else
                   String.concat ";" (List.map (fun (t, v) -> string_of_n t ^ ":" ^ hex_of_bytes v) h.h_tlvs))

(* run-length encoding of the outcomes for prefix lengths 0..n, as the harness prints it *)
let rle (outs : string list) : string =
  let n = List.length outs - 1 in
  let buf = Buffer.create 256 in
  let rec go k from prev first = function
    | [] ->
      if not first then Buffer.add_string buf " | ";
      Buffer.add_string buf (Printf.sprintf "%d-%d %s" from n prev)
    | cur :: rest ->
      if cur <> prev then begin
        if not first then Buffer.add_string buf " | ";
        Buffer.add_string buf (Printf.sprintf "%d-%d %s" from (k - 1) prev);
        go (k + 1) k cur false rest
      end else go (k + 1) from prev first rest in
  (match outs with
   | [] -> ()
   | o0 :: rest -> go 1 0 o0 true rest);
  Buffer.contents buf

exception Stop of string

let () =
  reg "pp.parse" (fun [inp; m] -> show_outcome (pp_parse (ipf_of_map m) (bytes_of_hex inp)));
  reg "pp.prefixes" (fun [inp; m] ->
      rle (List.map show_outcome (pp_parse_prefixes (ipf_of_map m) (bytes_of_hex inp))));
  reg "pp.values" (fun [ty; sep; inp; m] ->
      match pp_parse (ipf_of_map m) (bytes_of_hex inp) with
      | Ok (h, _) -> "val " ^ hex_of_bytes (header_get_values h (n_of_string ty) (n_of_string sep))
      | More -> "none MORE"
      | Reject _ -> "none REJ");
  reg "bt.seq" (fun [em; ops; data] ->
      let em = (em = "1") in
      let total = bytes_of_hex data in
      let d = ref total in
      let out = Buffer.create 64 in
      let step : 'a. 'a bres -> ('a -> string) -> unit = fun r show ->
        match r with
        | BOk (v, rest) -> Buffer.add_string out (show v); Buffer.add_char out ' '; d := rest
        | BMore -> raise (Stop "MORE")
        | BFail -> raise (Stop "REJ") in
      let i = ref 0 in
      let len = String.length ops in
      let num () =
        let s = !i in
        while !i < len && ops.[!i] >= '0' && ops.[!i] <= '9' do incr i done;
        n_of_string (String.sub ops s (!i - s)) in
      (try
         while !i < len do
           let c = ops.[!i] in
           incr i;
           (match c with
            | 'b' -> step (bt_uint8 em !d) (fun v -> "b" ^ string_of_n v)
            | 'w' -> step (bt_uint16 em !d) (fun v -> "w" ^ string_of_n v)
            | 't' -> step (bt_uint24 em !d) (fun v -> "t" ^ string_of_n v)
            | 'd' -> step (bt_uint32 em !d) (fun v -> "d" ^ string_of_n v)
            | 'a' -> let k = num () in step (bt_area em k !d) (fun v -> "a" ^ hex_of_bytes v)
            | 's' -> let k = num () in step (bt_skip em k !d) (fun _ -> "s")
            | 'p' -> step (bt_pstring8 em !d) (fun v -> "p" ^ hex_of_bytes v)
            | 'q' -> step (bt_pstring16 em !d) (fun v -> "q" ^ hex_of_bytes v)
            | 'r' -> step (bt_pstring24 em !d) (fun v -> "r" ^ hex_of_bytes v)
            | '4' -> step (bt_inet4 em !d) (fun v -> "4" ^ hex_of_bytes v)
            | '6' -> step (bt_inet6 em !d) (fun v -> "6" ^ hex_of_bytes v)
            | 'e' -> Buffer.add_string out ("e" ^ b2s (bt_atEnd !d) ^ " ")
            | ',' -> ()
            | _ -> Buffer.add_string out "?")
         done;
         Buffer.add_string out ("END parsed=" ^ string_of_int (List.length total - List.length !d)
                                ^ " left=" ^ hex_of_bytes !d)
       with Stop w -> Buffer.add_string out w);
      Buffer.contents out)
