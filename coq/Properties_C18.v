(* Properties_C18.v — C18 (placeholder while the pipeline is brought up). *)
Require Import SquidV.Bytes SquidV.RwlockModel SquidV.SmpModel SquidV.SmpProofs.
Local Open Scope N_scope.
Theorem C18_lock_unlock_shared : forall l l', lockShared l = (l', true) -> unlockShared l' = l.
Proof. exact lock_unlock_shared. Qed.
Print Assumptions C18_lock_unlock_shared.
