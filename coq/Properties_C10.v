(* Properties_C10.v — C10: cache hits reproduce one complete stored response.
   Statements only; proofs live in HitsProofs.v. The slot capacities and the swap-metadata constants come from
   gen/Hits_gen.v and gen/HitsPage_gen.v, regenerated from the tree on every run.

   The machine (HitsModel.v): anchors own chains of slots; OpenW/Append/CloseW/AbortW are the writer (a miss being
   stored: the origin's bytes arrive as Append pieces), OpenR/Read/CloseR a client being served from the store,
   Evict is release/freeEntry (replacement, PURGE, purgeOne victims are chosen inside Append).  [sent e] is what the
   writer of entry e has appended, [acc rd] what reader rd has been given, [s_log] the completed writes. *)
Require Import SquidV.Bytes SquidV.gen.Hits_gen SquidV.gen.HitsPage_gen SquidV.HitsModel SquidV.HitsProofs.
Local Open Scope N_scope.

(* THE property: for every history of stores / overwrites / evictions / aborted writes and every reader schedule, on any
   number of anchors, slots and readers, a reader that finished was given exactly the bytes of ONE write of ITS key
   that was completed: never a mix of two writes, never a proper prefix *)
Theorem C10_hit_is_exactly_one_completed_write : forall cap free scan ops r rd,
  NoDup free ->
  let st := run (init cap free scan) ops in
  s_rdrs st r = Some rd -> r_done rd = true ->
  exists v, In (r_key rd, v, acc rd) (s_log st).
Proof. exact hit_is_one_completed_write. Qed.
Print Assumptions C10_hit_is_exactly_one_completed_write.

(* ... where the completed writes are exactly: the bytes appended to an entry that a CloseW closed while its writer
   held it (nothing else ever enters the log) *)
Theorem C10_logged_writes_are_closed_writes : forall ops st x, In x (s_log (run st ops)) ->
  In x (s_log st) \/
  exists pre a post e, ops = pre ++ CloseW a :: post /\ s_ents (run st pre) a = Some e /\ e_writing e = true /\
                       x = (e_key e, e_ver e, sent e).
Proof. exact log_only_completed_writes. Qed.
Print Assumptions C10_logged_writes_are_closed_writes.

(* ... and an entry that is still being written after Append a d has received exactly d (whatever the slot
   boundaries, the free stack and the purges were); an Append that cannot be placed aborts the entry *)
Theorem C10_append_adds_exactly_the_appended_bytes : forall cap free scan ops a d e e',
  NoDup free ->
  let st := run (init cap free scan) ops in
  s_ents st a = Some e -> e_writing e = true ->
  s_ents (step st (Append a d)) a = Some e' -> e_writing e' = true ->
  sent e' = sent e ++ d /\ e_key e' = e_key e /\ e_ver e' = e_ver e.
Proof. exact append_adds_exactly. Qed.
Print Assumptions C10_append_adds_exactly_the_appended_bytes.

(* while it is being served, a reader holds a prefix of what the writer of ITS OWN entry appended (same key), its
   entry is still there with the reader registered, and the entry's chain spells exactly those appended bytes *)
Theorem C10_reader_holds_a_prefix_of_its_own_entry : forall cap free scan ops r rd,
  NoDup free ->
  let st := run (init cap free scan) ops in
  s_rdrs st r = Some rd -> r_open rd = true ->
  exists e, s_ents st (r_ent rd) = Some e /\ e_key e = r_key rd /\ In r (e_rdrs e) /\
            acc rd = takeN (r_off rd) (sent e) /\ r_off rd <= lenN (sent e) /\ stream_of st e = sent e.
Proof. exact reader_holds_prefix_of_its_entry. Qed.
Print Assumptions C10_reader_holds_a_prefix_of_its_own_entry.

(* slots: never both free and owned, never owned by two entries, never twice in one chain *)
Theorem C10_slots_are_never_shared : forall cap free scan ops,
  NoDup free ->
  let st := run (init cap free scan) ops in
  (forall a e s, s_ents st a = Some e -> In s (e_rslots e) -> ~ In s (s_free st)) /\
  (forall a b ea eb s, a <> b -> s_ents st a = Some ea -> s_ents st b = Some eb ->
                       In s (e_rslots ea) -> ~ In s (e_rslots eb)) /\
  (forall a e, s_ents st a = Some e -> NoDup (e_rslots e)).
Proof. exact slots_are_never_shared. Qed.
Print Assumptions C10_slots_are_never_shared.

(* the chain walk of Rock::IoState::read_ / copyFromShm: a read at offset off returns exactly the bytes
   [off, off+n) of the concatenated chain, n <= len, and makes progress whenever bytes are left *)
Theorem C10_chain_read_returns_the_requested_bytes : forall sl off len,
  exists n, chain_read sl off len = takeN n (dropN off (concat sl)) /\ n <= len /\
            (off < lenN (concat sl) -> 0 < len -> 0 < n /\ off + n <= lenN (concat sl)).
Proof. exact chain_read_spec. Qed.
Print Assumptions C10_chain_read_returns_the_requested_bytes.

(* what the client side gets out of a stored stream: header block and body, split at the first header terminator *)
Theorem C10_memory_stream_is_header_then_body : forall key hdr body,
  headers_end hdr = lenN hdr -> hdr <> [] ->
  parse_stored false key (hdr ++ body) = Some (hdr, body).
Proof. exact parse_memory_stream. Qed.
Print Assumptions C10_memory_stream_is_header_then_body.

(* disk streams: partial - the hypothesis says that UnpackHitSwapMeta accepts the metadata block seen by the first
   disk read and reports its length; what is missing is a closed-form description of all accepted metadata blocks *)
Theorem C10_disk_stream_is_header_then_body_partial : forall key meta hdr body,
  unpack_hit_meta key (takeN (N.min hits_reqbuf_size hits_sm_page_size) (meta ++ hdr ++ body)) = Some (lenN meta) ->
  headers_end hdr = lenN hdr -> hdr <> [] ->
  parse_stored true key (meta ++ hdr ++ body) = Some (hdr, body).
Proof. exact parse_disk_stream. Qed.
Print Assumptions C10_disk_stream_is_header_then_body_partial.

(* swap-in validation: metadata that starts with the key field of another entry is refused (swapfail miss) *)
Theorem C10_entry_of_another_key_is_refused : forall key key' rest buf n,
  unpack_prefix buf = Some n ->
  takeN (n - hits_meta_prefix) (dropN hits_meta_prefix buf) = hits_meta_key_md5 :: le32_enc hits_md5_len ++ key' ++ rest ->
  lenN key' = hits_md5_len -> list_eqb key' key = false ->
  unpack_hit_meta key buf = None.
Proof. exact other_key_is_refused. Qed.
Print Assumptions C10_entry_of_another_key_is_refused.

(* header refresh after a 304 (Rock::HeaderUpdater, MemStore::updateHeaders): the fresh prefix and the rest of the slot
   at the splicing point go into a fresh chain that is linked in front of the remaining old slots, which leaves a
   PARTLY FILLED SLOT IN THE MIDDLE of the chain.  Whatever the slot capacity and the old slot boundaries are, the new
   chain spells the fresh prefix followed by exactly the old body; C10_chain_read_returns_the_requested_bytes (which
   assumes nothing about slot sizes) then gives the bytes of a hit read through it.
   partial: the update is a function on chains and a step of the sequential driver (update_entry), it is NOT an
   operation of the interleaved machine of C10_hit_is_exactly_one_completed_write (in StoreMap the stale and the fresh
   anchor share the tail slots during the update, which the ownership invariant of that proof does not describe) *)
Theorem C10_header_update_keeps_the_body_partial : forall cap sl oldprefix body newp,
  concat sl = oldprefix ++ body ->
  concat (update_chain cap sl (lenN oldprefix) newp) = newp ++ body.
Proof. exact update_chain_spec. Qed.
Print Assumptions C10_header_update_keeps_the_body_partial.

(* ---- the hypotheses are satisfiable / the conclusions are not vacuous ---- *)
Definition ex_key : bytes := [1;2;3;4;5;6;7;8;9;10;11;12;13;14;15;16].
Definition ex_key2 : bytes := [1;2;3;4;5;6;7;8;9;10;11;12;13;14;15;17].

(* a store of seven 3-byte slots: version 1 of key 7 is written (4 slots), a reader starts, the entry is evicted and
   version 2 is written elsewhere while the reader is being served; a third write needs 4 slots: the idle version 2
   is purged for it, the reader's slots are not taken, slots run out and that write is aborted (its slots are freed);
   the reader finishes with exactly version 1 *)
Definition ex_ops : list op :=
  [OpenW 0 7 1; Append 0 [1;2;3;4;5]; Append 0 [6;7;8;9;10]; CloseW 0;
   OpenR 50 0 7; Read 50 4; Evict 0; OpenW 1 7 2; Append 1 [21;22;23;24]; Read 50 4; CloseW 1;
   OpenW 2 8 1; Append 2 [31;32;33;34;35;36;37;38;39;40]; Read 50 4; Read 50 4; Read 50 4; Read 50 4].
Example ex_reader_finishes_with_version_1 :
  let st := run (init 3 [0;1;2;3;4;5;6] [0;1;2]) ex_ops in
  option_map (fun rd => (r_done rd, acc rd)) (s_rdrs st 50) = Some (true, [1;2;3;4;5;6;7;8;9;10]) /\
  map (fun x => fst (fst x)) (s_log st) = [7; 7] /\
  option_map e_writing (s_ents st 2) = None /\ option_map e_key (s_ents st 1) = None /\
  option_map e_rslots (s_ents st 0) = Some [3; 2; 1; 0] /\ s_free st = [4; 5; 6].
Proof. vm_compute. repeat split. Qed.

(* after the reader closes, the evicted entry's slots are recycled *)
Example ex_slots_recycled_after_close :
  let st := run (init 3 [0;1;2;3;4;5;6] [0;1;2]) (ex_ops ++ [CloseR 50]) in
  s_free st = [3;2;1;0;4;5;6] /\ option_map e_key (s_ents st 0) = None.
Proof. vm_compute. repeat split. Qed.

Example ex_append_still_writing :
  let st := run (init 3 [0;1;2;3] []) [OpenW 0 7 1; Append 0 [1;2;3;4;5]] in
  option_map (fun e => (e_writing e, sent e)) (s_ents st 0) = Some (true, [1;2;3;4;5]).
Proof. vm_compute. reflexivity. Qed.

Example ex_disk_stream_parses :
  parse_stored true ex_key (mk_stream KRock ex_key 60 30 1 50) = Some (mk_hdr 30, mk_body 1 50) /\
  unpack_hit_meta ex_key (takeN (N.min hits_reqbuf_size hits_sm_page_size) (mk_stream KRock ex_key 60 30 1 50)) = Some 60 /\
  headers_end (mk_hdr 30) = lenN (mk_hdr 30).
Proof. vm_compute. repeat split. Qed.

Example ex_other_key_refused :
  parse_stored true ex_key2 (mk_stream KRock ex_key 60 30 1 50) = None /\ list_eqb ex_key ex_key2 = false.
Proof. vm_compute. repeat split. Qed.

Example ex_sequential_driver :
  snd (seq_run KRock (seq_init KRock 8 4)
         [SGet 0 ex_key 60 30 1 20 []; SGet 0 ex_key 60 30 1 20 []; SReload 0 ex_key 60 30 2 25 [7; 9];
          SGet 0 ex_key 60 30 2 25 []; SPurge 0; SGet 0 ex_key 60 30 2 25 []])
  = [RMiss 20 (adler32 (mk_body 1 20)); RHit 30 20 (adler32 (mk_body 1 20)); RMiss 25 (adler32 (mk_body 2 25));
     RHit 30 25 (adler32 (mk_body 2 25)); RPurged; RMiss 25 (adler32 (mk_body 2 25))].
Proof. vm_compute. reflexivity. Qed.

(* a header update on 5-byte slots: prefix "pppppp" (6 bytes: the splicing point is the second slot) replaced by
   "QQQ": the fresh chain is [QQQ+4 bytes of slot 2 = 5 + 2], followed by the untouched third slot; a partly filled
   slot sits in the middle, and reading offset 7.. through the chain still gives the body *)
Example ex_update_chain :
  update_chain 5 [[112;112;112;112;112]; [112;1;2;3;4]; [5;6;7]] 6 [81;81;81]
    = [[81;81;81;1;2]; [3;4]; [5;6;7]] /\
  chain_read (update_chain 5 [[112;112;112;112;112]; [112;1;2;3;4]; [5;6;7]] 6 [81;81;81]) 6 10 = [4] /\
  chain_read (update_chain 5 [[112;112;112;112;112]; [112;1;2;3;4]; [5;6;7]] 6 [81;81;81]) 7 10 = [5;6;7].
Proof. vm_compute. repeat split. Qed.

Example ex_sequential_driver_with_update :
  snd (seq_run KRock (seq_init KRock 8 4)
         [SGet 0 ex_key 60 30 1 20 []; SUpdate 0 ex_key 60 30 41; SGet 0 ex_key 60 41 1 20 []])
  = [RMiss 20 (adler32 (mk_body 1 20)); RReval 20 (adler32 (mk_body 1 20)); RHit 41 20 (adler32 (mk_body 1 20))].
Proof. vm_compute. reflexivity. Qed.
