(* StoremapProofs.v — proofs about StoremapModel.v (C55), part 2 (part 1: StoremapLock.v).

   Data invariants on top of the per-anchor lock invariant: what protects the key, the
   waitingToBeFreed mark and the slices of an entry is that every transition changing them is made
   by an activity that holds the anchor's lock exclusively, and an exclusive holder excludes every
   other holder. *)
Require Import SquidV.Bytes SquidV.RwlockModel SquidV.RwlockProofs SquidV.StoremapModel SquidV.StoremapLock.
Require Import ZifyBool ZifyN ZifyNat.
Local Open Scope Z_scope.

(* ---------- case analysis of one activity step ---------- *)
Ltac astepA_cases p E :=
  destruct p; cbn [astepA] in E;
  repeat match type of E with
         | context [pstep ?x ?y ?z] => destruct (pstep x y z) as [[[? ?] ?] ?] eqn:?
         | context [match ?x with Ready _ => _ | _ => _ end] => destruct x eqn:?
         | context [if ?c then _ else _] => destruct c eqn:?
         | context [match getS ?a ?b with _ => _ end] => destruct (getS a b) eqn:?
         | context [match sidx ?a ?b with _ => _ end] => destruct (sidx a b) eqn:?
         | context [match ?c with Some _ => _ | None => _ end] => destruct c eqn:?
         | context [match ?c with FcOW _ => _ | _ => _ end] => destruct c eqn:?
         end;
  inversion E; subst; clear E.

Lemma ksame_eq : forall a b, ksame a b = true -> a = b.
Proof.
  intros [a1 a2] [b1 b2] H. unfold ksame in H. cbn [fst snd] in H.
  apply andb_true_iff in H. destruct H as [H1 H2].
  apply N.eqb_eq in H1. apply N.eqb_eq in H2. subst. reflexivity.
Qed.

(* the key, a set waitingToBeFreed mark and the pool membership of slices are only changed by an
   activity that holds the anchor's lock exclusively *)
Lemma astepA_protected : forall sh a p a' sh1 r evs,
  astepA sh a p = (a', sh1, r, evs) ->
  akey a' <> akey a \/ (wtbf a = true /\ wtbf a' = false) \/ (exists sid, In (MFree sid) evs) ->
  alock p = Ready MExcl.
Proof.
  intros sh a p a' sh1 r evs E H.
  astepA_cases p E; try reflexivity;
    cbn [akey wtbf set_lk set_wtbf set_halted set_akey set_astart set_asplice] in H;
    exfalso; destruct H as [H|[[H1 H2]|[sid0 H]]]; try congruence; try (apply H; reflexivity);
    try (cbn [In] in H; tauto).
Qed.

(* ---------- the same at the level of processes ---------- *)
Definition exclOn (f : N) (th : mthread) : Prop := pri f th = Ready MExcl \/ tra f th = Ready MExcl.

Lemma start_op_anchors : forall sh m o sh' p' evs, start_op sh m o = (sh', p', evs) -> anchors sh' = anchors sh.
Proof.
  intros sh m o sh' p' evs E. destruct o; cbn [start_op] in E;
    repeat match type of E with
           | context [if ?x then _ else _] => destruct x
           | context [match first_free ?a ?b with _ => _ end] => destruct (first_free a b)
           end; inversion E; subst; reflexivity.
Qed.

Lemma start_op_nofree : forall sh m o sh' p' evs sid, start_op sh m o = (sh', p', evs) -> ~ In (MFree sid) evs.
Proof.
  intros sh m o sh' p' evs sid E. destruct o; cbn [start_op] in E;
    repeat match type of E with
           | context [if ?x then _ else _] => destruct x
           | context [match first_free ?a ?b with _ => _ end] => destruct (first_free a b)
           end; inversion E; subst; cbn [In]; intuition discriminate.
Qed.

(* what a step of a process does to the anchors: nothing, or one anchor through astepA *)
Lemma tstep_anchor_effect : forall sh th sh' th' evs,
  tstep sh th = (sh', th', evs) ->
  (anchors sh' = anchors sh /\ forall sid, ~ In (MFree sid) evs) \/
  exists g p a0 a1 sh1 r evs1,
    (tpc th = Prim g p \/ tpc th = Tran g p) /\ nthN g (anchors sh) = Some a0 /\
    astepA sh a0 p = (a1, sh1, r, evs1) /\ anchors sh' = updN g a1 (anchors sh) /\
    (forall sid, In (MFree sid) evs -> In (MFree sid) evs1).
Proof.
  intros sh [m p c s] sh' th' evs E. unfold tstep in E. cbn [cm tpc cur scr] in E.
  destruct p as [ | | |f0 m0|g0 m0|k|k|k|g p|g p].
  - left. destruct (fetchk m s) as [[o r]|].
    + destruct (start_op sh m o) as [[sh1 p1] evs1] eqn:S. inversion E; subst; clear E.
      split; [eapply start_op_anchors; eassumption|].
      intros sid [H|H]; [discriminate|]. eapply start_op_nofree; eassumption.
    + inversion E; subst. split; [reflexivity|]. intros sid [H|H]; [discriminate | contradiction].
  - left. inversion E; subst. split; [reflexivity | intros sid H; contradiction].
  - left. inversion E; subst. split; [reflexivity | intros sid H; contradiction].
  - left. inversion E; subst. split; [reflexivity | intros sid H; contradiction].
  - left. inversion E; subst. split; [reflexivity | intros sid H; contradiction].
  - left. destruct (fileno_of sh k); inversion E; subst; (split; [reflexivity|]); intros sid H; cbn [In] in H;
      try contradiction; destruct H as [H|H]; try discriminate; contradiction.
  - left. destruct (fileno_of sh k); inversion E; subst; (split; [reflexivity|]); intros sid H; cbn [In] in H;
      try contradiction; destruct H as [H|H]; try discriminate; contradiction.
  - left. destruct (fileno_of sh k); inversion E; subst; (split; [reflexivity|]); intros sid H; cbn [In] in H;
      try contradiction; destruct H as [H|H]; try discriminate; contradiction.
  - destruct (astep sh g p) as [[sh1 r] evs1] eqn:EA.
    destruct (nthN g (anchors sh)) as [a0|] eqn:Ha0.
    + right. destruct (astep_anchors _ _ _ _ _ _ _ Ha0 EA) as (a1 & sh2 & EA2 & An & _).
      exists g, p, a0, a1, sh2, r, evs1. cbn [tpc]. split; [left; reflexivity|]. split; [reflexivity|]. split; [assumption|].
      destruct r; inversion E; subst; (split; [assumption|]); intros sid H; try assumption;
        apply in_app_or in H; destruct H as [H|H]; try assumption;
        try (destruct c; cbn [In] in H); cbn [In] in H; try contradiction; destruct H as [H|H]; try discriminate; contradiction.
    + left. unfold astep in EA. rewrite Ha0 in EA. inversion EA; subst; clear EA. inversion E; subst.
      split; [reflexivity|]. intros sid H; cbn [In app] in H. destruct H as [H|H]; [discriminate | contradiction].
  - destruct (astep sh g p) as [[sh1 r] evs1] eqn:EA.
    destruct (nthN g (anchors sh)) as [a0|] eqn:Ha0.
    + right. destruct (astep_anchors _ _ _ _ _ _ _ Ha0 EA) as (a1 & sh2 & EA2 & An & _).
      exists g, p, a0, a1, sh2, r, evs1. cbn [tpc]. split; [right; reflexivity|]. split; [reflexivity|]. split; [assumption|].
      destruct r; inversion E; subst; (split; [assumption|]); intros sid H; try assumption;
        apply in_app_or in H; destruct H as [H|H]; try assumption;
        try (destruct c; cbn [In] in H); cbn [In] in H; try contradiction; destruct H as [H|H]; try discriminate; contradiction.
    + left. unfold astep in EA. rewrite Ha0 in EA. inversion EA; subst; clear EA. inversion E; subst.
      split; [reflexivity|]. intros sid H; cbn [In app] in H. destruct H as [H|H]; [discriminate | contradiction].
Qed.

Lemma pri_prim : forall g p m c s, pri g (mkT m (Prim g p) c s) = alock p.
Proof. intros. cbn [pri tpc]. rewrite N.eqb_refl. reflexivity. Qed.
Lemma tra_tran : forall g p m c s, tra g (mkT m (Tran g p) c s) = alock p.
Proof. intros. cbn [tra tpc]. rewrite N.eqb_refl. reflexivity. Qed.

Theorem tstep_protected : forall sh th sh' th' evs f a a',
  tstep sh th = (sh', th', evs) ->
  nthN f (anchors sh) = Some a -> nthN f (anchors sh') = Some a' ->
  akey a' <> akey a \/ (wtbf a = true /\ wtbf a' = false) -> exclOn f th.
Proof.
  intros sh th sh' th' evs f a a' E Ha Ha' H.
  destruct (tstep_anchor_effect _ _ _ _ _ E) as [[An _]|(g & p & a0 & a1 & sh1 & r & evs1 & TP & Ha0 & EA & An & _)].
  - rewrite An in Ha'. rewrite Ha in Ha'. inversion Ha'; subst. exfalso. destruct H as [H|[H1 H2]]; congruence.
  - rewrite An in Ha'. destruct (N.eq_dec g f) as [->|D].
    + rewrite (nthN_updN_same _ _ _ _ _ Ha0) in Ha'. inversion Ha'; subst a'. rewrite Ha in Ha0. inversion Ha0; subst a0.
      assert (AL : alock p = Ready MExcl).
      { eapply astepA_protected; [exact EA|]. destruct H as [H|H]; [left; exact H | right; left; exact H]. }
      destruct th as [m pc0 c s]. cbn [tpc] in TP. destruct TP as [-> | ->].
      * left. rewrite pri_prim. exact AL.
      * right. rewrite tra_tran. exact AL.
    + rewrite nthN_updN_other in Ha' by assumption. rewrite Ha in Ha'. inversion Ha'; subst. exfalso.
      destruct H as [H|[H1 H2]]; congruence.
Qed.

Theorem tstep_free_excl : forall sh th sh' th' evs sid,
  tstep sh th = (sh', th', evs) -> In (MFree sid) evs ->
  exists g, exclOn g th /\ exists p, (tpc th = Prim g p \/ tpc th = Tran g p).
Proof.
  intros sh th sh' th' evs sid E I.
  destruct (tstep_anchor_effect _ _ _ _ _ E) as [[_ NF]|(g & p & a0 & a1 & sh1 & r & evs1 & TP & Ha0 & EA & An & FR)].
  - exfalso. eapply NF. exact I.
  - exists g. split; [|exists p; exact TP].
    assert (AL : alock p = Ready MExcl).
    { eapply astepA_protected; [exact EA|]. right. right. exists sid. apply FR. exact I. }
    destruct th as [m pc0 c s]. cbn [tpc] in TP. destruct TP as [-> | ->].
    + left. rewrite pri_prim. exact AL.
    + right. rewrite tra_tran. exact AL.
Qed.
