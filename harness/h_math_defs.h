// Shared by h_math.cc and its part units h_math_set2.cc, h_math_s0.cc ... h_math_s9.cc:
// the type list, the one-function-per-instantiation templates and the table macros.
// The 12000+ template instantiations are spread over 12 translation units so that the
// (UBSan) harness builds in parallel in well under a minute.
#ifndef VERIF_H_MATH_DEFS_H
#define VERIF_H_MATH_DEFS_H
#include "squid.h"
#include "SquidMath.h"
#include "hcommon.h"

#include <array>
#include <optional>
#include <tuple>
#include <utility>

typedef __int128 W;

using TL = std::tuple<signed char, unsigned char, short, unsigned short, int, unsigned int,
      long, unsigned long, long long, unsigned long long>;
static const char *const TypeNames[] = {"sc", "uc", "ss", "us", "si", "ui", "sl", "ul", "sll", "ull"};
static constexpr size_t NT = std::tuple_size<TL>::value;
template <size_t I> using Ty = typename std::tuple_element<I, TL>::type;

static int typeIndex(const std::string &s)
{
    for (size_t i = 0; i < NT; ++i)
        if (s == TypeNames[i])
            return static_cast<int>(i);
    throw std::runtime_error("bad-type " + s);
}

static W parseW(const std::string &s)
{
    size_t i = 0;
    bool neg = false;
    if (i < s.size() && s[i] == '-') { neg = true; ++i; }
    if (i >= s.size()) throw std::runtime_error("bad-number");
    unsigned __int128 v = 0;
    for (; i < s.size(); ++i) {
        if (s[i] < '0' || s[i] > '9') throw std::runtime_error("bad-number");
        v = v * 10 + static_cast<unsigned>(s[i] - '0');
    }
    // two's complement negation in the unsigned domain: no signed overflow in the harness itself
    return static_cast<W>(neg ? (~v + 1) : v);
}

/* One tiny function per instantiation; all have the same signature so that they fit into
   tables. Results are returned as wide integers (out[0], out[1]) and formatted by non-template
   code, which keeps the ~12500 instantiations cheap to compile. */
typedef void (*Fn)(const W *v, W *out);

template <typename S>
static inline void putOpt(const std::optional<S> &r, W *out)
{
    out[0] = r.has_value() ? 1 : 0;
    out[1] = r.has_value() ? static_cast<W>(r.value()) : 0;
}

template <typename A, typename B>
static void fLess(const W *v, W *out) { out[0] = Less(static_cast<A>(v[0]), static_cast<B>(v[1])) ? 1 : 0; }

template <typename S, typename T>
static void fInc(const W *v, W *out) { putOpt<S>(IncreaseSum(static_cast<S>(v[0]), static_cast<T>(v[1])), out); }

template <typename S, typename A>
static void fSum1(const W *v, W *out) { putOpt<S>(NaturalSum<S>(static_cast<A>(v[0])), out); }

template <typename S, typename A, typename B>
static void fSum2(const W *v, W *out) { putOpt<S>(NaturalSum<S>(static_cast<A>(v[0]), static_cast<B>(v[1])), out); }

template <typename S, typename A, typename B, typename C>
static void fSum3(const W *v, W *out)
{
    putOpt<S>(NaturalSum<S>(static_cast<A>(v[0]), static_cast<B>(v[1]), static_cast<C>(v[2])), out);
}

template <typename S, typename A>
static void fSet1(const W *v, W *out)
{
    S var = static_cast<S>(v[0]);
    out[0] = static_cast<W>(SetToNaturalSumOrMax(var, static_cast<A>(v[1])));
    out[1] = static_cast<W>(var);
}

template <typename S, typename A, typename B>
static void fSet2(const W *v, W *out)
{
    S var = static_cast<S>(v[0]);
    out[0] = static_cast<W>(SetToNaturalSumOrMax(var, static_cast<A>(v[1]), static_cast<B>(v[2])));
    out[1] = static_cast<W>(var);
}

template <typename R, typename S>
static void fCast(const W *v, W *out) { out[0] = static_cast<W>(NaturalCast<R>(static_cast<S>(v[0]))); }

static std::string showW(W v)
{
    // every result fits into 65 bits
    if (v < 0)
        return "-" + std::to_string(static_cast<unsigned long long>(-v));
    return std::to_string(static_cast<unsigned long long>(v));
}

/* dispatch tables: entry I of a table over k type parameters is the instantiation for the
   base-NT digits of I (most significant digit = first template parameter) */
#define D2(I) Ty<(I) / NT>, Ty<(I) % NT>
#define D3(I) Ty<(I) / (NT * NT)>, Ty<(I) / NT % NT>, Ty<(I) % NT>
#define TABLE(name, fn, DIG, COUNT) \
    template <size_t... I> static constexpr std::array<Fn, sizeof...(I)> name##Make(std::index_sequence<I...>) \
    { return {{ &fn<DIG(I)>... }}; } \
    static const auto name = name##Make(std::make_index_sequence<(COUNT)>());


/* tables living in other translation units */
const Fn *h_math_set2_table();
const Fn *h_math_sum3_part0(); const Fn *h_math_sum3_part1(); const Fn *h_math_sum3_part2();
const Fn *h_math_sum3_part3(); const Fn *h_math_sum3_part4(); const Fn *h_math_sum3_part5();
const Fn *h_math_sum3_part6(); const Fn *h_math_sum3_part7(); const Fn *h_math_sum3_part8();
const Fn *h_math_sum3_part9();

/// NaturalSum<S>(A, B, C) for a fixed S and all NT^3 argument type triples
template <typename S>
struct Sum3For {
    template <size_t... I> static constexpr std::array<Fn, sizeof...(I)> make(std::index_sequence<I...>)
    { return {{ &fSum3<S, D3(I)>... }}; }
};
#endif
