// Table generator for C59: the constants EventScheduler/EventLoop arithmetic depends on.
#include "squid.h"
#include "AsyncEngine.h"
#include "EventLoop.h"
#include <iostream>
#include <limits>

int main() {
    std::cout << "@@FILE Event_gen.v\n";
    std::cout << "(* generated from /repo by gen/gen_event.cc -- do not edit *)\n"
              "Require Import SquidV.Bytes.\n";
    std::cout << "Definition ev_idle : Z := (" << static_cast<int>(AsyncEngine::EVENT_IDLE) << ")%Z.\n";
    std::cout << "Definition ev_error : Z := (" << static_cast<int>(AsyncEngine::EVENT_ERROR) << ")%Z.\n";
    std::cout << "Definition ev_loop_timeout : Z := " << static_cast<int>(EVENT_LOOP_TIMEOUT) << "%Z.\n";
    std::cout << "Definition ev_int_max : Z := " << std::numeric_limits<int>::max() << "%Z.\n";
    return 0;
}
