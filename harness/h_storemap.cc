// Harness for C55: the real Ipc::StoreMap (src/ipc/StoreMap.cc + src/ipc/ReadWriteLock.cc compiled
// unmodified from /repo's working tree with `-include sched_atomic.h`) driven by 1..8 cooperative
// client threads under an explicit schedule. Every std::atomic operation of the two sources is one
// scheduling step; plain (non-atomic) accesses execute together with the preceding atomic operation.
//
// case line:  sm.run <N> <n> <script_0> ... <script_{n-1}> <schedule>
//   N        = map size: StoreMap::Init(path, N) creates N anchors, N slices, N fileNos (2..8)
//   script   = string of operations ('-' = empty); <k> is one key character, <f> one anchor digit, <z> one size digit
//              W<k>  openForWriting(key, fileno); on success anchor->setKey(key)
//              X<k>  openForWritingAt(hash(key) % N, /*overwriteExisting=*/false); on success anchor->setKey(key)
//              P<f>  openForWritingAt(f) without setKey (also used by the final probe)
//              +<z>  writer appends a slice: take the lowest free slice id from the pool, prepFreeSlice(id),
//                    writeableSlice(f,id).size = z, then link it (writeableEntry(f).start = id  or
//                    writeableSlice(f,last).next = id)
//              A     startAppending(f)         w  closeForWriting(f)        a  abortWriting(f)
//              R<k>  openForReading(key, fileno)
//              L     reader walks its chain through readableEntry(f).start / readableSlice(f,id).size/.next
//              r     closeForReading(f)        f  closeForReadingAndFreeIdle(f)
//              F<f>  freeEntry(f)              K<k>  freeEntryByKey(key)
//              U<k>  openForUpdating(update, -1) for a StoreEntry with this key (stale = the readable entry,
//                    fresh = a keyless anchor found by openKeyless()); then, as MemStore::updateHeadersOrThrow():
//              s<n>  update.stale.splicingPoint = sliceContaining(stale.fileNo, n)
//              +<z>  append a slice to the fresh prefix (as a writer does); update.fresh.splicingPoint = that slice
//              u     closeForUpdating(update)   (legal once both splicing points are set)
//              x     abortUpdating(update)
//   key char = '0'..'9' -> key words {d, 0};  'a'..'i' -> key words {0, 1..9}   (name = (k0 + k1) % N)
//   schedule = string of thread digits ('-' = empty); one digit = the named thread performs ONE scheduling
//              step: its "use" step (between two calls; picks the next legal operation) or one atomic operation.
//
// Each thread is a client that follows the caller protocol of StoreMap: it keeps a mode
//   I  holds nothing          W<f> opened f for writing (exclusive)      A<f> writer of f in append mode
//   R<f> opened f for reading              U<s>.<f> updating: stale entry s (read + headers lock), fresh anchor f (exclusive)
// and skips script operations that are not legal in its mode (W X P R only in I; + w a in W/A; A in W; L r f in R;
// F and K in any mode). The slice pool (free slice ids) is harness state, like the free-slot stacks of the
// real stores; StoreMap returns slices to it through StoreMapCleaner::noteFreeMapSlice().
//
// result line: events in global order, then the final raw state and a single-threaded probe:
//   <t>@<mode>        use step of thread t in <mode>, a next operation follows
//   <t>!<mode>        thread t ended (script exhausted) in <mode>
//   <t>#              an assert()/Must() failed in thread t (thread ends)
//   <t>~<id>          StoreMap told the cleaner that slice <id> is free again (inside an operation of t)
//   <t>W<k>+<f> / <t>W<k>-     (same for X, P, R)     <t>+<z>:<id> / <t>+<z>:-  (pool empty)
//   <t>A. <t>w. <t>a. <t>r. <t>f.   <t>F<f>+ / <t>F<f>-   <t>K<k>.   <t>L[id:size,id:size,...]
//   <t>U<k>+<stale>><fresh> / <t>U<k>-    <t>s<n>:<slice id or -1>    <t>u.   <t>x.
//   | a<i>=<readers>,<writing>,<appending>,<updating>,<readLevel>,<writeLevel>,<waitingToBeFreed>,<writerHalted>,<k0>.<k1>,<start>,<splicingPoint> ...
//   | s<i>=<size>,<next> ... | cnt=<anchors.count> vic=<anchors.victim> fn=<fileNos...> | pool=<bits> | m=<modes>
//   | p=<+/- per anchor: openForWritingAt(f) tried alone, then abortWriting(f)> | steps=<n>
#include "squid.h"
#define private public
#include "ipc/ReadWriteLock.h"
#undef private
#include "ipc/StoreMap.h"
#include "SquidConfig.h"
#include "StatCounters.h"
#include "Store.h"
#include "store/Controller.h"
#include "hcommon.h"
#include <new>
#include <map>

// ---------------------------------------------------------------- environment stubs
// squid's assert() -> xassert(); here a failed assertion ends the calling thread
struct AssertFailed {
    const char *msg;
};
extern "C" void xassert(const char *msg, const char *, int) { throw AssertFailed{msg}; }
void storeAppendPrintf(StoreEntry *, const char *, ...) {}
const char *storeKeyText(const cache_key *) { return "key"; }
void StoreEntry::lock(const char *) {}
int StoreEntry::unlock(const char *) { return 0; }
std::ostream &operator<<(std::ostream &os, const StoreEntry &) { return os; }

// Store::Root().markedForDeletion(key), consulted by StoreMapAnchor::setKey(): no other table knows the key
static std::aligned_storage<sizeof(Store::Controller), alignof(Store::Controller)>::type FakeRoot;
Store::Controller &Store::Root() { return *reinterpret_cast<Store::Controller *>(&FakeRoot); }
bool Store::Controller::markedForDeletion(const cache_key *) const { return false; }

// Ipc::Mem::Segment backed by zero-filled heap blocks (a plain heap block instead of /dev/shm)
struct FakeSeg {
    void *mem;
    off_t size;
};
static std::map<std::string, FakeSeg> Segments;
const char *Ipc::Mem::Segment::BasePath = "";
Ipc::Mem::Segment::Segment(const char *const id) : theFD(-1), theName(id), theMem(nullptr), theSize(0), theReserved(0), doUnlink(false) {}
Ipc::Mem::Segment::~Segment()
{
    if (doUnlink) {
        free(theMem);
        Segments.erase(theName.termedBuf());
    }
}
bool Ipc::Mem::Segment::Enabled() { return true; }
void Ipc::Mem::Segment::create(const off_t aSize)
{
    theMem = calloc(1, aSize);
    theSize = aSize;
    doUnlink = true;
    Segments[theName.termedBuf()] = FakeSeg{theMem, theSize};
}
void Ipc::Mem::Segment::open(bool)
{
    const auto i = Segments.find(theName.termedBuf());
    if (i == Segments.end())
        throw std::runtime_error("no such segment");
    theMem = i->second.mem;
    theSize = i->second.size;
}
void *Ipc::Mem::Segment::reserve(size_t chunkSize)
{
    void *result = reinterpret_cast<char *>(theMem) + theReserved;
    theReserved += chunkSize;
    return result;
}
SBuf Ipc::Mem::Segment::Name(const SBuf &prefix, const char *suffix)
{
    SBuf result = prefix;
    result.append("_");
    result.append(suffix);
    return result;
}

// ---------------------------------------------------------------- the map under test
struct TestMap : public Ipc::StoreMap {
    explicit TestMap(const SBuf &p) : Ipc::StoreMap(p) {}
    Ipc::StoreMapAnchors &A() { return *anchors; }
    Ipc::StoreMapSlices &S() { return *slices; }
    Ipc::StoreMapFileNos &F() { return *fileNos; }
};

enum Mode { I, W, A, R, U };
static const char ModeChar[] = "IWARU";

struct Key {
    uint64_t w[2];
    const cache_key *raw() const { return reinterpret_cast<const cache_key *>(w); }
};
static bool keyOf(char c, Key &k)
{
    k.w[0] = k.w[1] = 0;
    if (c >= '0' && c <= '9') { k.w[0] = c - '0'; return true; }
    if (c >= 'a' && c <= 'i') { k.w[1] = c - 'a' + 1; return true; }
    return false;
}

struct Case;
struct Cleaner : public Ipc::StoreMapCleaner {
    Case *c = nullptr;
    void noteFreeMapSlice(const Ipc::StoreMapSliceId sliceId) override;
};

struct Case {
    int N = 0;
    TestMap *map = nullptr;
    std::vector<std::string> scripts;
    std::vector<Mode> mode;
    std::vector<int> anchor; // held anchor (mode != I)
    std::vector<int> last;   // writer: last slice appended (-1 = none)
    std::vector<bool> crashed;
    std::vector<std::unique_ptr<Ipc::StoreMapUpdate>> upd; // mode U: the update in progress
    std::vector<Key> ukey;                                 // ... its entry key (update.entry->key points here)
    std::vector<StoreEntry *> uentry;                      // ... its StoreEntry (zero-filled storage, never constructed)
    std::vector<bool> pool;  // free slice ids
    std::string log;
    verif_sched::Scheduler *sched = nullptr; // tells which thread is running (for the cleaner's event)
    bool quiet = false;
};

static void ev(Case &c, const std::string &s)
{
    if (c.quiet)
        return;
    if (!c.log.empty())
        c.log.push_back(' ');
    c.log += s;
}
static std::string tmode(const Case &c, int t)
{
    std::string s(1, ModeChar[c.mode[t]]);
    if (c.mode[t] != I)
        s += std::to_string(c.anchor[t]);
    if (c.mode[t] == U)
        s += "." + std::to_string(c.upd[t]->fresh.fileNo);
    return s;
}

void Cleaner::noteFreeMapSlice(const Ipc::StoreMapSliceId sliceId)
{
    ev(*c, std::to_string(c->sched->current()) + "~" + std::to_string(sliceId));
    if (sliceId >= 0 && sliceId < c->N)
        c->pool[sliceId] = true;
}

static bool hasParam(char o) { return o == 'W' || o == 'X' || o == 'P' || o == 'R' || o == 'F' || o == 'K' || o == '+' || o == 'U' || o == 's'; }

static bool legal(const Case &c, int t, char o)
{
    const Mode m = c.mode[t];
    switch (o) {
    case 'W': case 'X': case 'P': case 'R': case 'U': return m == I;
    case '+': return m == W || m == A || m == U;
    case 'w': case 'a': return m == W || m == A;
    case 'A': return m == W;
    case 'L': case 'r': case 'f': return m == R;
    case 's': case 'x': return m == U;
    case 'u': return m == U && c.upd[t]->stale.splicingPoint >= 0 && c.upd[t]->fresh.splicingPoint >= 0;
    case 'F': case 'K': return true;
    }
    return false;
}

static void client(Case &c, int t)
{
    TestMap &map = *c.map;
    const std::string &script = c.scripts[t];
    size_t ip = 0;
    const std::string ts = std::to_string(t);
    try {
        for (;;) {
            verif_sched::point(); // the use step
            // next legal operation
            char o = 0, p = 0;
            while (ip < script.size()) {
                o = script[ip++];
                p = 0;
                if (hasParam(o)) {
                    if (ip >= script.size()) { o = 0; break; }
                    p = script[ip++];
                }
                if (legal(c, t, o))
                    break;
                o = 0;
            }
            if (!o) {
                ev(c, ts + "!" + tmode(c, t));
                return;
            }
            ev(c, ts + "@" + tmode(c, t));
            const int f = c.mode[t] == U ? c.upd[t]->fresh.fileNo : c.anchor[t];
            std::string r = ts + std::string(1, o) + (p ? std::string(1, p) : std::string());
            switch (o) {
            case 'W': case 'X': case 'P': {
                Key k;
                Ipc::StoreMap::Anchor *a = nullptr;
                sfileno fileno = -1;
                if (o == 'W') {
                    if (!keyOf(p, k)) throw std::runtime_error("bad key");
                    a = map.openForWriting(k.raw(), fileno);
                } else if (o == 'X') {
                    if (!keyOf(p, k)) throw std::runtime_error("bad key");
                    fileno = static_cast<sfileno>((k.w[0] + k.w[1]) % c.N);
                    a = map.openForWritingAt(fileno, false);
                } else {
                    fileno = p - '0';
                    a = map.openForWritingAt(fileno);
                }
                    if (a) {
                    if (o != 'P')
                        a->setKey(k.raw());
                    c.mode[t] = W; c.anchor[t] = fileno; c.last[t] = -1;
                    r += "+" + std::to_string(fileno);
                } else
                    r += "-";
                break;
            }
            case '+': {
                int id = -1;
                for (int i = 0; i < c.N; ++i)
                    if (c.pool[i]) { id = i; break; }
                if (id < 0) { r += ":-"; break; }
                c.pool[id] = false;
                map.prepFreeSlice(id);
                map.writeableSlice(f, id).size = static_cast<uint32_t>(p - '0');
                if (c.last[t] < 0)
                    map.writeableEntry(f).start = id;
                else
                    map.writeableSlice(f, c.last[t]).next = id;
                c.last[t] = id;
                if (c.mode[t] == U)
                    c.upd[t]->fresh.splicingPoint = id;
                r += ":" + std::to_string(id);
                break;
            }
            case 'A': map.startAppending(f); c.mode[t] = A; r += "."; break;
            case 'w': map.closeForWriting(f); c.mode[t] = I; r += "."; break;
            case 'a': map.abortWriting(f); c.mode[t] = I; r += "."; break;
            case 'R': {
                Key k;
                if (!keyOf(p, k)) throw std::runtime_error("bad key");
                sfileno fileno = -1;
                const Ipc::StoreMap::Anchor *a = map.openForReading(k.raw(), fileno);
                if (a) {
                    c.mode[t] = R; c.anchor[t] = fileno;
                    r += "+" + std::to_string(fileno);
                } else
                    r += "-";
                break;
            }
            case 'L': {
                r += "[";
                int id = map.readableEntry(f).start;
                int seen = 0;
                while (id >= 0) {
                    if (seen == c.N) { r += "..."; break; }
                    const Ipc::StoreMap::Slice &s = map.readableSlice(f, id);
                    const uint32_t size = s.size;
                    const int next = s.next;
                    if (seen) r += ",";
                    r += std::to_string(id) + ":" + std::to_string(size);
                    ++seen;
                    id = next;
                }
                r += "]";
                break;
            }
            case 'r': map.closeForReading(f); c.mode[t] = I; r += "."; break;
            case 'f': map.closeForReadingAndFreeIdle(f); c.mode[t] = I; r += "."; break;
            case 'F': {
                const int g = p - '0';
                const bool res = map.freeEntry(g);
                r += res ? "+" : "-";
                break;
            }
            case 'K': {
                Key k;
                if (!keyOf(p, k)) throw std::runtime_error("bad key");
                map.freeEntryByKey(k.raw());
                r += ".";
                break;
            }
            case 'U': {
                if (!keyOf(p, c.ukey[t])) throw std::runtime_error("bad key");
                c.uentry[t]->key = c.ukey[t].w;
                c.upd[t].reset(new Ipc::StoreMapUpdate(c.uentry[t]));
                if (map.openForUpdating(*c.upd[t], -1)) {
                    c.mode[t] = U; c.anchor[t] = c.upd[t]->stale.fileNo; c.last[t] = -1;
                    r += "+" + std::to_string(c.upd[t]->stale.fileNo) + ">" + std::to_string(c.upd[t]->fresh.fileNo);
                } else {
                    c.upd[t].reset();
                    r += "-";
                }
                break;
            }
            case 's': {
                Ipc::StoreMapUpdate &u = *c.upd[t];
                u.stale.splicingPoint = map.sliceContaining(u.stale.fileNo, static_cast<uint64_t>(p - '0'));
                r += ":" + std::to_string(u.stale.splicingPoint);
                break;
            }
            case 'u': map.closeForUpdating(*c.upd[t]); c.mode[t] = I; c.upd[t].reset(); r += "."; break;
            case 'x': map.abortUpdating(*c.upd[t]); c.mode[t] = I; c.upd[t].reset(); r += "."; break;
            }
            ev(c, r);
        }
    } catch (const AssertFailed &) {
        c.crashed[t] = true;
        ev(c, ts + "#");
    } catch (...) {
        c.crashed[t] = true;
        ev(c, ts + "#?");
    }
}

int main()
{
    std::string line;
    verif_sched::Scheduler sched;
    int serial = 0;
    while (std::getline(std::cin, line)) {
        auto a = splitws(line);
        if (a.empty()) { std::cout << "\n"; continue; }
        std::ostringstream o;
        try {
            if (a[0] == "sm.run" && a.size() >= 4) {
                const int N = std::stoi(a[1]);
                const int n = std::stoi(a[2]);
                if (N < 2 || N > 8 || n < 1 || n > 8 || a.size() != static_cast<size_t>(n) + 4) {
                    o << "ERR bad-args";
                } else {
                    Case c;
                    c.N = N;
                    c.sched = &sched;
                    const SBuf path(("m" + std::to_string(++serial)).c_str());
                    Ipc::StoreMap::Owner *owner = Ipc::StoreMap::Init(path, N);
                    std::unique_ptr<TestMap> mapHolder(new TestMap(path));
                    TestMap &map = *mapHolder;
                    Cleaner cleaner;
                    cleaner.c = &c;
                    map.cleaner = &cleaner;
                    c.map = &map;
                    for (int i = 0; i < n; ++i)
                        c.scripts.push_back(a[3 + i] == "-" ? std::string() : a[3 + i]);
                    c.mode.assign(n, I);
                    c.anchor.assign(n, -1);
                    c.last.assign(n, -1);
                    c.crashed.assign(n, false);
                    c.upd.resize(n);
                    c.ukey.resize(n);
                    for (int i = 0; i < n; ++i)
                        c.uentry.push_back(static_cast<StoreEntry *>(calloc(1, sizeof(StoreEntry))));
                    c.pool.assign(N, true);
                    std::vector<int> schedule;
                    if (a[3 + n] != "-")
                        for (char ch : a[3 + n])
                            schedule.push_back(ch - '0');
                    const bool finished = sched.run(n, [&c](int t) { client(c, t); }, schedule);
                    o << (c.log.empty() ? "-" : c.log);
                    if (!finished)
                        o << " LIVELOCK";
                    o << " |";
                    for (int i = 0; i < N; ++i) {
                        Ipc::StoreMapAnchor &s = map.A().items[i];
                        Ipc::ReadWriteLock &l = s.lock;
                        o << " a" << i << "=" << l.readers.v << "," << (l.writing.v ? 1 : 0) << "," << (l.appending.v ? 1 : 0)
                          << "," << (l.updating.v ? 1 : 0) << "," << l.readLevel.v << "," << l.writeLevel.v
                          << "," << int(s.waitingToBeFreed.v) << "," << int(s.writerHalted.v)
                          << "," << s.key[0] << "." << s.key[1] << "," << s.start.v << "," << s.splicingPoint.v;
                    }
                    o << " |";
                    for (int i = 0; i < N; ++i)
                        o << " s" << i << "=" << map.S().items[i].size.v << "," << map.S().items[i].next.v;
                    o << " | cnt=" << map.A().count.v << " vic=" << map.A().victim.v << " fn=";
                    for (int i = 0; i < N; ++i)
                        o << (i ? "," : "") << map.F().items[i].v;
                    o << " | pool=";
                    for (int i = 0; i < N; ++i)
                        o << (c.pool[i] ? '1' : '0');
                    o << " | m=";
                    for (int i = 0; i < n; ++i)
                        o << (i ? "," : "") << (c.crashed[i] ? std::string("#") : tmode(c, i));
                    // probe, single-threaded (no scheduler: operations execute directly)
                    o << " | p=";
                    c.quiet = true;
                    for (int i = 0; i < N; ++i) {
                        try {
                            if (map.openForWritingAt(i)) {
                                o << '+';
                                map.abortWriting(i);
                            } else
                                o << '-';
                        } catch (const AssertFailed &) {
                            o << '#';
                        }
                    }
                    o << " | steps=" << sched.steps;
                    for (int i = 0; i < n; ++i) {
                        c.upd[i].reset();
                        free(c.uentry[i]);
                    }
                    mapHolder.reset();
                    delete owner;
                }
            } else
                o << "ERR unknown-entry " << a[0];
        } catch (const std::exception &e) { o.str(""); o << "EXC " << e.what(); }
        std::cout << o.str() << "\n" << std::flush;
    }
    return 0;
}
