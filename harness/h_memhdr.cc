// Harness for C49: the real mem_hdr (src/stmem.cc, src/mem_node.cc, include/splay.h from /repo's
// working tree) driven by operation histories. Same case syntax and output as ml/run_memhdr.ml:
//   seq <op> ...   ops: w:<off>:<hex>  W:<off>:<len>:<seed>  f:<target>  c:<off>:<len>  h:<a>:<b>  e  l
// A failed assert() (xassert) or fatal_dump()/fatal() ends the history (the real process would die):
// both are defined here to throw.
#include "squid.h"
#define private public
#define protected public
#include "splay.h"
#include "mem_node.h"
#include "stmem.h"
#undef private
#undef protected
#include "fatal.h"
#include "hcommon.h"
#include <cstring>
#include <cstdarg>
#include <stdexcept>
#include <memory>

struct AssertFailure { std::string what; };
struct FatalCall { std::string what; };

extern "C" void xassert(const char *expr, const char *file, int line)
{
    throw AssertFailure{std::string(expr) + " " + file + ":" + std::to_string(line)};
}
void fatal(const char *m) { throw FatalCall{m}; }
void fatalf(const char *fmt, ...) { throw FatalCall{fmt}; }
void fatal_dump(const char *m) { throw FatalCall{m}; }

static std::vector<std::string> splitc(const std::string &s)
{
    std::vector<std::string> v;
    size_t i = 0;
    for (;;) {
        size_t j = s.find(':', i);
        if (j == std::string::npos) { v.push_back(s.substr(i)); break; }
        v.push_back(s.substr(i, j - i));
        i = j + 1;
    }
    return v;
}

static void shape(const SplayNode<mem_node *> *n, std::ostream &o)
{
    if (!n) { o << "."; return; }
    o << "(";
    shape(n->left, o);
    o << " " << n->data->nodeBuffer.offset << " ";
    shape(n->right, o);
    o << ")";
}

static void inorder(const SplayNode<mem_node *> *n, std::vector<const mem_node *> &v)
{
    if (!n) return;
    inorder(n->left, v);
    v.push_back(n->data);
    inorder(n->right, v);
}

static std::string runSeq(const std::vector<std::string> &a)
{
    std::ostringstream o;
    // leaked on purpose after an exception thrown from inside a member function (state may be half-updated)
    mem_hdr *h = new mem_hdr;
    bool dead = false;
    for (size_t i = 1; i < a.size() && !dead; ++i) {
        auto f = splitc(a[i]);
        if (i > 1) o << " ";
        std::ostringstream tok; // the token is emitted only when the operation returned
        try {
            if (f[0] == "w" || f[0] == "W") {
                std::string data;
                if (f[0] == "w") data = unhex(f[2]);
                else {
                    const long len = std::stol(f[2]), seed = std::stol(f[3]);
                    data.resize(len);
                    for (long k = 0; k < len; ++k) data[k] = static_cast<char>((seed + k) % 251);
                }
                // exact-size heap copy so that ASan sees any over-read of the source
                std::unique_ptr<char[]> src(new char[data.size() ? data.size() : 1]);
                memcpy(src.get(), data.data(), data.size());
                const bool ok = h->write(StoreIOBuffer(data.size(), std::stoll(f[1]), src.get()));
                tok << (ok ? "w" : "w=false");
            } else if (f[0] == "f") {
                tok << "f=" << h->freeDataUpto(std::stoll(f[1]));
            } else if (f[0] == "c") {
                const size_t len = std::stoull(f[2]);
                // exact-size heap buffer (ASan red zones) pre-filled with a marker
                std::unique_ptr<char[]> buf(new char[len ? len : 1]);
                memset(buf.get(), 0xEE, len ? len : 1);
                const ssize_t n = h->copy(StoreIOBuffer(len, std::stoll(f[1]), buf.get()));
                if (n < 0 || static_cast<size_t>(n) > len) tok << "c=BAD-COUNT" << n;
                else {
                    tok << "c=" << n << ":" << tohex(buf.get(), n);
                    for (size_t k = n; k < len; ++k)
                        if (static_cast<unsigned char>(buf[k]) != 0xEE) { tok << ":BAD-WROTE-PAST-COUNT"; break; }
                }
            } else if (f[0] == "h") {
                tok << "h=" << (h->hasContigousContentRange(Range<int64_t>(std::stoll(f[1]), std::stoll(f[2]))) ? 1 : 0);
            } else if (f[0] == "e") {
                tok << "e=" << h->endOffset();
            } else if (f[0] == "l") {
                tok << "l=" << h->lowestOffset();
            } else {
                tok << "ERR bad-op";
                dead = true;
            }
            o << tok.str();
        } catch (const AssertFailure &) {
            o << "ASSERT";
            dead = true;
        } catch (const FatalCall &) {
            o << "FATAL";
            dead = true;
        }
    }
    if (dead) return o.str() + " | dead"; // h is leaked: its state may be half-updated
    o << " | ";
    std::vector<const mem_node *> v;
    inorder(h->nodes.head, v);
    for (size_t k = 0; k < v.size(); ++k)
        o << (k ? "," : "") << v[k]->nodeBuffer.offset << "+" << v[k]->nodeBuffer.length;
    o << " hi=" << h->inmem_hi << " n=" << h->nodes.elements << " ";
    shape(h->nodes.head, o);
    if (h->nodes.elements != v.size()) o << " BAD-ELEMENTS";
    for (const auto n : v)
        if (n->nodeBuffer.data != n->data) { o << " BAD-NODE-DATA-POINTER"; break; }
    delete h;
    return o.str();
}

int main()
{
    std::string line;
    while (std::getline(std::cin, line)) {
        auto a = splitws(line);
        if (a.empty()) { std::cout << "\n"; continue; }
        std::string out;
        try {
            if (a[0] == "seq") out = runSeq(a);
            else if (a[0] == "const") {
                std::ostringstream o;
                o << "page=" << SM_PAGE_SIZE << " data=" << sizeof(static_cast<mem_node *>(nullptr)->data);
                out = o.str();
            } else out = "ERR unknown-entry " + a[0];
        } catch (const std::exception &e) { out = std::string("EXC ") + e.what(); }
        catch (...) { out = "EXC"; }
        std::cout << out << "\n" << std::flush;
    }
    return 0;
}
