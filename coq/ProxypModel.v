(* ProxypModel.v — src/proxyp/Parser.cc, src/proxyp/Header.cc and
   src/parser/BinaryTokenizer.cc over list N (C38).

   Executable definitions only.  The text tokenizer operations come from
   TokModel.v; the constants (magic strings, command / family / protocol
   enumerators, sizeof(in_addr), sizeof(in6_addr), CharacterSet::HEXDIG and
   CharacterSet::CR) are regenerated from the code into gen/Proxyp_gen.v.

   Not modelled: the conversion of IP text to an address
   (Ip::Address::GetHostByName -> getaddrinfo).  It is the Section variable
   [ipf]; an Ip::Address is represented by the 16 raw bytes of its sin6_addr. *)
Require Import SquidV.Bytes SquidV.TokModel.
Require Import SquidV.gen.Proxyp_gen.
Local Open Scope N_scope.

(* ------------------------------------------------------------------ *)
(* Ip::Address as stored: 16 bytes; IPv4 is kept v4-mapped             *)
Definition ipaddr := bytes.
Definition v4_prefix : bytes := [0;0;0;0;0;0;0;0;0;0;255;255].
Definition addr_empty : ipaddr := [0;0;0;0;0;0;0;0;0;0;0;0;0;0;0;0].   (* Ip::Address() = setEmpty() *)
(* Ip::Address::isIPv4() = IN6_IS_ADDR_V4MAPPED; isIPv6() = !isIPv4() *)
Definition is_ipv4 (a : ipaddr) : bool := list_eqb (takeN 12 a) v4_prefix.
(* Ip::Address::map4to6: 0.0.0.0 -> v4_anyaddr, 255.255.255.255 -> v4_noaddr, else v4_anyaddr with the 4 bytes *)
Definition map4to6 (in4 : bytes) : ipaddr := v4_prefix ++ in4.

(* ------------------------------------------------------------------ *)
(* ProxyProtocol::Header (Header.h / Header.cc)                        *)
Record header := {
  h_v2 : bool;                    (* version_ "2.0" (true) or "1.0" (false) *)
  h_cmd : N;                      (* command_ *)
  h_ignore : bool;                (* ignoreAddresses_ *)
  h_src : ipaddr; h_sport : N;    (* sourceAddress *)
  h_dst : ipaddr; h_dport : N;    (* destinationAddress *)
  h_tlvs : list (N * bytes)       (* tlvs *)
}.

(* Header::Header(ver, cmd) *)
Definition header_new (v2 : bool) (cmd : N) : header :=
  {| h_v2 := v2; h_cmd := cmd; h_ignore := false;
     h_src := addr_empty; h_sport := 0; h_dst := addr_empty; h_dport := 0; h_tlvs := [] |}.
(* Header::ignoreAddresses() *)
Definition header_ignore (h : header) : header :=
  {| h_v2 := h_v2 h; h_cmd := h_cmd h; h_ignore := true;
     h_src := h_src h; h_sport := h_sport h; h_dst := h_dst h; h_dport := h_dport h; h_tlvs := h_tlvs h |}.
Definition header_set_addrs (h : header) (s : ipaddr) (sp : N) (d : ipaddr) (dp : N) : header :=
  {| h_v2 := h_v2 h; h_cmd := h_cmd h; h_ignore := h_ignore h;
     h_src := s; h_sport := sp; h_dst := d; h_dport := dp; h_tlvs := h_tlvs h |}.
Definition header_set_tlvs (h : header) (t : list (N * bytes)) : header :=
  {| h_v2 := h_v2 h; h_cmd := h_cmd h; h_ignore := h_ignore h;
     h_src := h_src h; h_sport := h_sport h; h_dst := h_dst h; h_dport := h_dport h; h_tlvs := t |}.

Definition has_addresses (h : header) : bool := negb (h_ignore h).
Definition local_connection (h : header) : bool := h_cmd h =? pp_cmdLocal.
Definition has_forwarded_addresses (h : header) : bool := negb (local_connection h) && has_addresses h.

(* Header::addressFamily(): "6", "4" or "mix" *)
Definition address_family (src dst : ipaddr) : bytes :=
  if negb (is_ipv4 src) && negb (is_ipv4 dst) then [54]
  else if is_ipv4 src && is_ipv4 dst then [52]
  else [109; 105; 120].

(* Header::getValues(headerType, sep), default branch (TLV types): values of the TLVs of
   that type joined by sep; the separator is only written when the result so far is not empty *)
Fixpoint tlv_values (ty sep : N) (tlvs : list (N * bytes)) (acc : bytes) : bytes :=
  match tlvs with
  | [] => acc
  | (t, v) :: r =>
      if t =? ty then tlv_values ty sep r ((match acc with [] => acc | _ => acc ++ [sep] end) ++ v)
      else tlv_values ty sep r acc
  end.
Definition header_get_values (h : header) (ty sep : N) : bytes := tlv_values ty sep (h_tlvs h) [].

(* ------------------------------------------------------------------ *)
(* Parser::BinaryTokenizer over the yet unparsed bytes                 *)
Inductive bres (A : Type) : Type :=
| BOk (v : A) (rest : bytes)
| BMore                         (* throw InsufficientInput() *)
| BFail.                        (* Must(expectMore_) failed: TextException *)
Arguments BOk {A} v rest.
Arguments BMore {A}.
Arguments BFail {A}.

(* want(size): parsed_ + size > data_.length() *)
Definition bt_short {A} (em : bool) : bres A := if em then BMore else BFail.

(* area(size) *)
Definition bt_area (em : bool) (size : N) (d : bytes) : bres bytes :=
  if lenN d <? size then bt_short em else BOk (takeN size d) (dropN size d).
(* skip(size) *)
Definition bt_skip (em : bool) (size : N) (d : bytes) : bres unit :=
  if lenN d <? size then bt_short em else BOk tt (dropN size d).
(* big-endian value of the octets: (octet() << 8) | octet() ... *)
Definition be_value (l : bytes) : N := fold_left (fun a b => a * 256 + b) l 0.
Definition bt_uintN (em : bool) (n : N) (d : bytes) : bres N :=
  match bt_area em n d with
  | BOk v r => BOk (be_value v) r
  | BMore => BMore
  | BFail => BFail
  end.
Definition bt_uint8 em d := bt_uintN em 1 d.
Definition bt_uint16 em d := bt_uintN em 2 d.
Definition bt_uint24 em d := bt_uintN em 3 d.
Definition bt_uint32 em d := bt_uintN em 4 d.
(* pstringN(): the length, then (only when it is not zero) area(length) *)
Definition bt_pstringN (em : bool) (n : N) (d : bytes) : bres bytes :=
  match bt_uintN em n d with
  | BOk len r => if len =? 0 then BOk [] r else bt_area em len r
  | BMore => BMore
  | BFail => BFail
  end.
Definition bt_pstring8 em d := bt_pstringN em 1 d.
Definition bt_pstring16 em d := bt_pstringN em 2 d.
Definition bt_pstring24 em d := bt_pstringN em 3 d.
(* inet4 / inet6: raw in_addr / in6_addr copied into an Ip::Address *)
Definition bt_inet4 (em : bool) (d : bytes) : bres ipaddr :=
  match bt_area em pp_in4_size d with
  | BOk v r => BOk (map4to6 v) r
  | BMore => BMore
  | BFail => BFail
  end.
Definition bt_inet6 (em : bool) (d : bytes) : bres ipaddr := bt_area em pp_in6_size d.
Definition bt_atEnd (d : bytes) : bool := match d with [] => true | _ => false end.

(* ------------------------------------------------------------------ *)
(* parse outcomes                                                      *)
Inductive err :=
| E_magic                 (* "PROXY protocol error: invalid magic" *)
| E1_malformed_header     (* empty interior, too-long interior, or missing LF after CR *)
| E1_no_sp_after_magic
| E1_proto                (* invalid INET protocol or family *)
| E1_family               (* missing or invalid IP address family *)
| E1_family_sp
| E1_ip_malformed
| E1_ip_garbage
| E1_ip_invalid
| E1_family_mismatch
| E1_port_malformed
| E1_port_garbage
| E1_port_invalid
| E1_garbage_after_dst_port  (* "garbage after the destination port" *)
| E2_version (v : N)
| E2_command (c : N)
| E2_family (f : N)
| E2_proto (p : N)
| E_must                  (* a failed Must(): truncated address block / TLV inside the v2 header *)
| E_fuel.                 (* model artefact: the TLV loop ran out of fuel (proved unreachable) *)

Inductive outcome :=
| Ok (h : header) (size : N)    (* Parsed(header, size) *)
| More                          (* throw InsufficientInput() *)
| Reject (e : err).             (* throw TextException *)

Definition add_size (k : N) (o : outcome) : outcome :=
  match o with Ok h n => Ok h (k + n) | More => More | Reject e => Reject e end.

(* ------------------------------------------------------------------ *)
(* PROXY protocol v2                                                   *)

(* Two::ParseTLVs: while (!tok.atEnd()) { type = uint8; value = pstring16 }  (expectMore = false) *)
Inductive tlvres := TOk (t : list (N * bytes)) | TFail | TFuel.
Fixpoint tlvs_loop (fuel : nat) (d : bytes) : tlvres :=
  if bt_atEnd d then TOk [] else
  match fuel with
  | O => TFuel
  | S f =>
      match bt_uint8 false d with
      | BOk ty r1 =>
          match bt_pstring16 false r1 with
          | BOk v r2 =>
              match tlvs_loop f r2 with
              | TOk t => TOk ((ty, v) :: t)
              | x => x
              end
          | _ => TFail
          end
      | _ => TFail
      end
  end.
Definition parse_tlvs (d : bytes) : tlvres := tlvs_loop (S (length d)) d.

(* Two::ParseAddresses(family, tok, header); Some (src, sport, dst, dport, leftovers) *)
Definition v2_addresses (family : N) (d : bytes) : option (ipaddr * N * ipaddr * N * bytes) :=
  let ports (s dd : ipaddr) (r : bytes) :=
    match bt_uint16 false r with
    | BOk sp r3 =>
        match bt_uint16 false r3 with
        | BOk dp r4 => Some (s, sp, dd, dp, r4)
        | _ => None
        end
    | _ => None
    end in
  if family =? pp_afInet then
    match bt_inet4 false d with
    | BOk s r1 => match bt_inet4 false r1 with BOk dd r2 => ports s dd r2 | _ => None end
    | _ => None
    end
  else if family =? pp_afInet6 then
    match bt_inet6 false d with
    | BOk s r1 => match bt_inet6 false r1 with BOk dd r2 => ports s dd r2 | _ => None end
    | _ => None
    end
  else if family =? pp_afUnix then
    match bt_skip false 216 d with
    | BOk _ r => Some (addr_empty, 0, addr_empty, 0, r)
    | _ => None
    end
  else None.                                            (* Must(false) *)

(* the part of Two::Parse after the fixed fields and the 16-bit-length-prefixed block (raw) are extracted *)
Definition v2_finish (command family proto : N) (raw : bytes) : outcome :=
  let size := 1 + 1 + (2 + lenN raw) in                 (* tokHeader.parsed() *)
  let h := header_new true command in
  if (proto =? pp_tpUnspecified) || (family =? pp_afUnspecified) then Ok (header_ignore h) size
  else
    match v2_addresses family raw with
    | None => Reject E_must
    | Some (s, sp, d, dp, lo) =>
      let h1 := header_set_addrs h s sp d dp in
      if has_forwarded_addresses h1 then
        match parse_tlvs lo with
        | TOk t => Ok (header_set_tlvs h1 t) size
        | TFail => Reject E_must
        | TFuel => Reject E_fuel
        end
      else Ok h1 size
    end.

(* Two::Parse(buf): buf is what follows the magic; the size counts from there *)
Definition v2_parse (buf : bytes) : outcome :=
  match bt_uint8 true buf with
  | BMore => More
  | BFail => Reject E_must
  | BOk vc r1 =>
    let version := vc / 16 in                           (* (vc & 0xF0) >> 4 *)
    if negb (version =? 2) then Reject (E2_version version) else
    let command := vc mod 16 in                         (* vc & 0x0F *)
    if pp_cmdProxy <? command then Reject (E2_command command) else
    match bt_uint8 true r1 with
    | BMore => More
    | BFail => Reject E_must
    | BOk fp r2 =>
      let family := fp / 16 in
      if pp_afUnix <? family then Reject (E2_family family) else
      let proto := fp mod 16 in
      if pp_tpDgram <? proto then Reject (E2_proto proto) else
      match bt_pstring16 true r2 with
      | BMore => More
      | BFail => Reject E_must
      | BOk raw _ => v2_finish command family proto raw
      end
    end
  end.

(* ------------------------------------------------------------------ *)
(* PROXY protocol v1                                                   *)
Definition nonCR : cset := fun c => negb (pp_CR c).                     (* CharacterSet::CR.complement() *)
Definition ipChars : cset := fun c => (c =? 46) || (c =? 58) || pp_HEXDIG c.   (* ".:" + HEXDIG *)
Definition famChars : cset := fun c => (c =? 52) || (c =? 54).          (* "46" *)
Definition s_TCP : bytes := [84; 67; 80].
Definition s_UNKNOWN : bytes := [85; 78; 75; 78; 79; 87; 78].
Definition v1_maxHeaderLength : N := 107.
Definition v1_maxInteriorLength : N := v1_maxHeaderLength - lenN pp_magic1 - 2.

(* the line isolator at the start of One::Parse *)
Inductive iso := IsoOk (interior : bytes) (parsed : N) | IsoMore | IsoBad.
Definition v1_isolate (buf : bytes) : iso :=
  let stop (rest : bytes) := if bt_atEnd rest then IsoMore else IsoBad in   (* tok.atEnd() ? InsufficientInput : error *)
  match tok_prefix nonCR v1_maxInteriorLength buf with
  | None => stop buf
  | Some (interior, r1) =>
      match tok_skipChar 13 r1 with
      | (false, _) => stop r1
      | (true, r2) =>
          match tok_skipChar 10 r2 with
          | (false, _) => stop r2
          | (true, _) => IsoOk interior (lenN interior + 1 + 1)         (* tok.parsedSize() *)
          end
      end
  end.

Section WithIpConversion.
(* Ip::Address::GetHostByName(text): Some (16 bytes of the resulting address) or None.
   Assumed contract, used only by the round-trip theorems and stated there as hypotheses:
   the printed form of an address is converted back to that address. *)
Variable ipf : bytes -> option ipaddr.

(* One::ExtractIp *)
Definition v1_extract_ip (t : bytes) : err + (ipaddr * bytes) :=
  match tok_prefix ipChars npos t with
  | None => inl E1_ip_malformed
  | Some (ip, r1) =>
      match tok_skipChar 32 r1 with
      | (false, _) => inl E1_ip_garbage
      | (true, r2) =>
          match ipf ip with
          | None => inl E1_ip_invalid
          | Some a => inr (a, r2)
          end
      end
  end.

(* One::ExtractPort *)
Definition v1_extract_port (trailingSpace : bool) (t : bytes) : err + (N * bytes) :=
  match tok_int64 10 false npos t with
  | None => inl E1_port_malformed
  | Some (port, k) =>
      let r1 := dropN k t in
      let sp := if trailingSpace then tok_skipChar 32 r1 else (true, r1) in
      match sp with
      | (false, _) => inl E1_port_garbage
      | (true, r2) =>
          if (port >? 65535)%Z then inl E1_port_invalid
          else inr (Z.to_N (port mod 65536)%Z, r2)          (* static_cast<uint16_t>(port) *)
      end
  end.

(* One::ParseAddresses; also returns what the tokenizer has left after the destination port *)
Definition v1_addresses (t : bytes) : err + (ipaddr * N * ipaddr * N * bytes) :=
  match tok_prefix famChars 1 t with
  | None => inl E1_family
  | Some (fam, r1) =>
      match tok_skipChar 32 r1 with
      | (false, _) => inl E1_family_sp
      | (true, r2) =>
          match v1_extract_ip r2 with
          | inl e => inl e
          | inr (src, r3) =>
              match v1_extract_ip r3 with
              | inl e => inl e
              | inr (dst, r4) =>
                  if negb (list_eqb (address_family src dst) fam) then inl E1_family_mismatch else
                  match v1_extract_port true r4 with
                  | inl e => inl e
                  | inr (sp, r5) =>
                      match v1_extract_port false r5 with
                      | inl e => inl e
                      | inr (dp, r6) => inr (src, sp, dst, dp, r6)
                      end
                  end
              end
          end
      end
  end.

(* the rest of One::Parse, on the isolated interior *)
Definition v1_interior (interior : bytes) (size : N) : outcome :=
  let h := header_new false pp_cmdProxy in
  match tok_skipChar 32 interior with
  | (false, _) => Reject E1_no_sp_after_magic
  | (true, t1) =>
      match tok_skip s_TCP t1 with
      | (true, t2) =>
          match v1_addresses t2 with
          | inl e => Reject e
          | inr (s, sp, d, dp, lo) =>
              if bt_atEnd lo then Ok (header_set_addrs h s sp d dp) size       (* interiorTok.atEnd() *)
              else Reject E1_garbage_after_dst_port
          end
      | (false, _) =>
          match tok_skip s_UNKNOWN t1 with
          | (true, _) => Ok (header_ignore h) size
          | (false, _) => Reject E1_proto
          end
      end
  end.

Definition v1_parse (buf : bytes) : outcome :=
  match v1_isolate buf with
  | IsoOk interior n => v1_interior interior n
  | IsoMore => More
  | IsoBad => Reject E1_malformed_header
  end.

(* ProxyProtocol::Parse *)
Definition pp_parse (buf : bytes) : outcome :=
  match tok_skip pp_magic2 buf with
  | (true, r) => add_size (lenN pp_magic2) (v2_parse r)
  | (false, _) =>
      match tok_skip pp_magic1 buf with
      | (true, r) => add_size (lenN pp_magic1) (v1_parse r)
      | (false, _) => if lenN pp_magic2 <=? lenN buf then Reject E_magic else More
      end
  end.

(* every prefix of the input, shortest first: what an incremental caller sees *)
Fixpoint inits (l : bytes) : list bytes :=
  [] :: match l with [] => [] | x :: r => map (cons x) (inits r) end.
Definition pp_parse_prefixes (buf : bytes) : list outcome := map pp_parse (inits buf).

End WithIpConversion.

(* ------------------------------------------------------------------ *)
(* reference encoders (specification side of the round-trip theorems)  *)
Definition u16be (n : N) : bytes := [n / 256; n mod 256].
Definition enc_tlv (t : N * bytes) : bytes := fst t :: u16be (lenN (snd t)) ++ snd t.
Definition enc_tlvs (l : list (N * bytes)) : bytes := concat (map enc_tlv l).
(* v2 header: magic, version|command, family|proto, 16-bit length, payload *)
Definition enc_v2 (cmd family proto : N) (payload : bytes) : bytes :=
  pp_magic2 ++ [2 * 16 + cmd; family * 16 + proto] ++ u16be (lenN payload) ++ payload.

(* decimal text of a number (ports): fuel 20 digits is enough below 10^20 *)
Fixpoint dec_aux (fuel : nat) (n : N) (acc : bytes) : bytes :=
  match fuel with
  | O => acc
  | S f => if n <? 10 then (48 + n) :: acc else dec_aux f (n / 10) ((48 + n mod 10) :: acc)
  end.
Definition dec (n : N) : bytes := dec_aux 20 n [].
(* value of a string of decimal digit characters *)
Definition dec_value (ds : bytes) : N := fold_left (fun a c => a * 10 + (c - 48)) ds 0.

(* v1 line: "PROXY TCP" fam SP src SP dst SP sport SP dport CRLF, ports given as digit strings *)
Definition enc_v1_tcp (fam : N) (src dst sport dport : bytes) : bytes :=
  pp_magic1 ++ [32] ++ s_TCP ++ [fam] ++ [32] ++ src ++ [32] ++ dst ++ [32] ++ sport ++ [32] ++ dport ++ [13; 10].
Definition enc_v1_unknown (junk : bytes) : bytes :=
  pp_magic1 ++ [32] ++ s_UNKNOWN ++ junk ++ [13; 10].

(* v2 address blocks, by family *)
Inductive v2addr :=
| A_inet (s d : bytes) (sp dp : N)      (* 4 + 4 raw address bytes, ports *)
| A_inet6 (s d : bytes) (sp dp : N)     (* 16 + 16 raw address bytes, ports *)
| A_unix (raw : bytes).                 (* 216 bytes, not interpreted by Squid *)
Definition enc_v2_addr (a : v2addr) : bytes :=
  match a with
  | A_inet s d sp dp => s ++ d ++ u16be sp ++ u16be dp
  | A_inet6 s d sp dp => s ++ d ++ u16be sp ++ u16be dp
  | A_unix raw => raw
  end.
Definition v2addr_family (a : v2addr) : N :=
  match a with A_inet _ _ _ _ => pp_afInet | A_inet6 _ _ _ _ => pp_afInet6 | A_unix _ => pp_afUnix end.
Definition v2addr_wf (a : v2addr) : Prop :=
  match a with
  | A_inet s d sp dp => lenN s = 4 /\ lenN d = 4 /\ sp < 65536 /\ dp < 65536
  | A_inet6 s d sp dp => lenN s = 16 /\ lenN d = 16 /\ sp < 65536 /\ dp < 65536
  | A_unix raw => lenN raw = 216
  end.
(* the header Squid is expected to report for the block (UNIX addresses are not interpreted) *)
Definition v2_expected (cmd : N) (a : v2addr) (tlvs : list (N * bytes)) : header :=
  match a with
  | A_inet s d sp dp =>
      {| h_v2 := true; h_cmd := cmd; h_ignore := false; h_src := v4_prefix ++ s; h_sport := sp;
         h_dst := v4_prefix ++ d; h_dport := dp; h_tlvs := tlvs |}
  | A_inet6 s d sp dp =>
      {| h_v2 := true; h_cmd := cmd; h_ignore := false; h_src := s; h_sport := sp; h_dst := d; h_dport := dp; h_tlvs := tlvs |}
  | A_unix _ =>
      {| h_v2 := true; h_cmd := cmd; h_ignore := false; h_src := addr_empty; h_sport := 0;
         h_dst := addr_empty; h_dport := 0; h_tlvs := tlvs |}
  end.
